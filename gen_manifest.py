#!/usr/bin/env python3
"""Regenerates MANIFEST.json from the rule registry (dvcheck list) and the tables below."""
import json, subprocess, os
os.chdir(os.path.dirname(os.path.abspath(__file__)))
ids = subprocess.run(["./bin/dvcheck", "list"], capture_output=True, text=True, check=True).stdout.split()
props = [json.loads(l) for l in open("properties.jsonl")]

NA = {
 "C06": "table/archive round trip is byte equality over all chunk multisets; writer and reader already share their layout through the same named constants, so no independent structural rule can fail",
 "C11": "correctness of cursor/seek arithmetic over runtime keys; no clause of it is visible in the shape of the code",
 "C13": "depends on subtree-skipping arithmetic over runtime trees; value-level",
 "C14": "a classification of runtime key sets; agreement between patch merge and differ is behavioural, not structural",
 "C16": "byte equality and ordering of runtime values; its one structural part (out-of-band addresses are walked) is decided under C09",
 "C17": "differential equality of results over documents/paths; value-level",
 "C18": "arithmetic over runtime commit DAGs (heights, closures)",
 "C19": "graph-algorithm results over runtime DAGs",
 "C22": "a relation over interleaved histories; the snapshot plumbing crosses interface dispatch in go-mysql-server that no sound call graph available here resolves",
 "C26": "differential over generated queries; nothing static to decide",
 "C27": "cardinality arithmetic over runtime rows",
 "C29": "value-level merge outcome and swap symmetry",
 "C30": "equality of the results of two computations",
 "C32": "result equality of diffs/patches (its quoting clause is decided under C36)",
 "C33": "result equality per commit",
 "C34": "equality of root values after operation sequences; the code intentionally preserves untracked tables, so a role rule would be wrong",
 "C38": "accept set of a pattern matcher over runtime strings",
 "C43": "row-level result equality",
 "C44": "accept set of string predicates; value-level",
 "C46": "pattern specificity over runtime strings and table sets",
}
# short per-property claim text for claimed checks: (decides, not decided)
import glob
CLAIM = {os.path.basename(f)[:-5]: json.load(open(f)) for f in glob.glob("claims.d/*.json")}

HOLD = {}
if os.path.exists("hold.json"):
    HOLD = json.load(open("hold.json"))
checks, na = [], []
for p in props:
    i = p["id"]
    if i in HOLD:
        na.append({"property_id": i, "reason": HOLD[i]})
        continue
    if i in ids:
        cl = CLAIM[i]
        checks.append({
            "property_id": i,
            "quick_cmd": f"./run.sh {i} quick",
            "thorough_cmd": f"./run.sh {i} thorough",
            "evidence_file": f"/verif/evidence/{i}.json",
            "replay_cmd_template": "./bin/dvcheck replay {path}",
            "engine": "dvcheck",
            "level_claimed": {"category": "other",
                              "text": "Static analysis of the type-checked source (go/types + go/ssa), re-read from /repo on every run. Decides a structural necessary condition of the property on every path / call site, not the behaviour: " + cl["decides"] + " NOT decided: " + cl["not_decided"],
                              "design_ref": ("DESIGN.md section 4, " + i) if i not in ("C18", "C19", "C22", "C33", "C46") else ("DESIGN.md sections 0, 5 and 11 (as-built inventory), " + i)},
            "level_note": "Trusted base: go/types and go/ssa of Go 1.26.8 / x/tools v0.50.0; the frozen rule tables in /verif/checker/internal/rules (matchers, allowlists, exceptions, each with a reason); the OS implements fsync/rename/flock as documented. An unresolved anchor or an unclassifiable site is reported as a violation (undecided), never silently passed.",
            "technique": cl["technique"],
        })
    else:
        reason = NA.get(i) or "claimed in DESIGN.md but the check is not built yet; not claimed until it is (static analysis applies: see DESIGN.md section 4)"
        na.append({"property_id": i, "reason": reason})

man = {
 "version": 1,
 "setup_cmd": "./setup.sh",
 "hooks": {"guard": "verif", "enable": "none: static analysis reads the source; no hooks or instrumentation are compiled into /repo",
           "baseline_off_cmd": "for m in $(cat /w/out/gomods.txt); do MF=$(cd /repo/$m && . /w/out/goenv.sh && gomodflag); (cd /repo/$m && go test $MF -json -vet=off -count=1 -timeout 25m ./...); done",
           "source_commits": [], "add_only": True},
 "engines": [{"name": "dvcheck", "path": "/verif/checker", "serves_properties": ids,
              "kind_free_text": "repository-specific static analyser over go/packages + go/ssa: cut-reachability on the CFG (must-pass-through with error-checked edges and callee summaries), who-may allowlists, guard/control-dependence, locksets, table agreement, determinism taint, argument-role provenance"}],
 "checks": checks,
 "not_applicable": na,
 "notes": "Technique family: static analysis only. Every check inspects /repo/go's current source; none executes dolt. Overlay mutants under /verif/mutants are sensitivity self-tests run by the thorough tier in memory (packages.Config.Overlay); seeded changes from independent agents are under /verif/seeded.",
}
json.dump(man, open("MANIFEST.json", "w"), indent=1)
print("claimed", len(checks), "not_applicable", len(na))
