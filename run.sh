#!/bin/bash
# usage: run.sh <property-id> [quick|thorough]
# Decides one property from /repo's current working tree. Exit 0 held / 1 violation / 2 infrastructure.
cd "$(dirname "$0")"
. ./env.sh
id="$1"; tier="${2:-${VERIF_TIER:-quick}}"
if [ ! -x bin/dvcheck ] || [ -n "$(find checker -name '*.go' -newer bin/dvcheck 2>/dev/null | head -1)" ]; then
  (cd checker && go build -o ../bin/dvcheck ./cmd/dvcheck) || exit 2
fi
exec ./bin/dvcheck check --tier "$tier" "$id"
