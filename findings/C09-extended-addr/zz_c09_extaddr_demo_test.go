// Demonstration for the second C09 finding (copy into go/store/prolly/message/ to run):
//   go test -vet=off -count=1 -run TestC09ExtendedAddrFieldIsWalked ./store/prolly/message/
// A leaf node whose value tuple has an ExtendedAddrEnc field (an out-of-band value of a handler-backed
// extended type; val.IsAddrEncoding lists the encoding) must report that address to the reference walker.
package message

import (
	"context"
	"testing"

	"github.com/dolthub/dolt/go/store/hash"
	"github.com/dolthub/dolt/go/store/pool"
	"github.com/dolthub/dolt/go/store/val"
)

func TestC09ExtendedAddrFieldIsWalked(t *testing.T) {
	ctx := context.Background()
	bp := pool.NewBuffPool()
	for _, enc := range []val.Encoding{val.BytesAddrEnc, val.ExtendedAddrEnc} {
		if !val.IsAddrEncoding(enc) {
			t.Fatalf("encoding %d is expected to be an address encoding", enc)
		}
		kd := val.NewTupleDescriptor(val.Type{Enc: val.Int64Enc})
		vd := val.NewTupleDescriptorWithArgs(val.TupleDescriptorArgs{Handlers: []val.TupleTypeHandler{nopHandler{}}}, val.Type{Enc: enc, Nullable: true})
		var want hash.Hash
		for i := range want {
			want[i] = 0xA5
		}
		kb := val.NewTupleBuilder(kd, nil)
		kb.PutInt64(0, 1)
		key, err := kb.Build(ctx, bp)
		if err != nil {
			t.Fatal(err)
		}
		// the raw field of every *AddrEnc encoding is the 20-byte address; build the value tuple directly
		value := val.NewTuple(bp, want[:])
		msg := NewProllyMapSerializer(vd, bp).Serialize([][]byte{key}, [][]byte{value}, nil, 0)
		var got []hash.Hash
		err = WalkAddresses(ctx, msg, func(_ context.Context, a hash.Hash) error { got = append(got, a); return nil })
		if err != nil {
			t.Fatal(err)
		}
		if len(got) != 1 || got[0] != want {
			t.Errorf("encoding %d: leaf with an out-of-band address field reports %v to the walker, want [%s]", enc, got, want)
		}
	}
}

// nopHandler stands in for a Doltgres extended-type handler; the walker never calls it.
type nopHandler struct{}

func (nopHandler) SerializedCompare(context.Context, []byte, []byte) (int, error) { return 0, nil }
func (nopHandler) SerializeValue(context.Context, any) ([]byte, error)           { return nil, nil }
func (nopHandler) DeserializeValue(context.Context, []byte) (any, error)         { return nil, nil }
func (nopHandler) FormatValue(any) (string, error)                              { return "", nil }
func (nopHandler) SerializationCompatible(val.TupleTypeHandler) bool            { return true }
func (nopHandler) ConvertSerialized(context.Context, val.TupleTypeHandler, []byte) ([]byte, error) {
	return nil, nil
}
