// Demonstration for suspected defect C28-lock-key:
// SequenceTracker.AcquireLock locks a.mm on |relationName| as given, while
// Set / AddNewRelation / DropRelation (and Next in interleaved mode) lock
// |relationName.ToLower()|. For a table whose name has upper-case letters the
// statement-level lock of innodb_autoinc_lock_mode 0/1 is therefore a different mutex.
//
// Two unit-level demonstrations against the real SequenceTracker methods:
//
//  TestConfirmC28LockKey_Exclusion    real AutoIncrementTracker: while the statement-level lock
//                                     for "MixedCase" is held, AddNewRelation("MixedCase") must
//                                     block. (Control: it does block for "lowercase".)
//  TestConfirmC28LockKey_Duplicate    deterministic schedule showing the consequence: the same
//                                     generated value is handed out twice. SequenceTracker is generic
//                                     in its state type, so the test instantiates it with a state type
//                                     whose Merge() can be paused; this stands in for a goroutine
//                                     pre-emption between AddNewRelation's Load and Store.

package dsess

import (
	"context"
	"testing"
	"time"

	"github.com/dolthub/go-mysql-server/sql"
	"github.com/stretchr/testify/require"

	"github.com/dolthub/dolt/go/libraries/doltcore/doltdb"
	"github.com/dolthub/dolt/go/libraries/doltcore/sqle/dsess/mutexmap"
)

func confirmC28ClosedChan() chan struct{} {
	c := make(chan struct{})
	close(c)
	return c
}

func confirmC28ExclusionCase(t *testing.T, tableName string) (enteredWhileLocked bool) {
	ait := &AutoIncrementTracker{
		dbName:     "db",
		sequences:  &SyncMap[doltdb.TableName, doltdb.AutoIncrementState]{},
		mm:         mutexmap.NewMutexMap(),
		init:       confirmC28ClosedChan(),
		cancelInit: make(chan struct{}),
		lockMode:   LockMode_Traditional, // innodb_autoinc_lock_mode = 0
	}
	name := doltdb.TableName{Name: tableName} // case-preserved, as prolly_table_writer passes it
	ait.sequences.Store(name.ToLower(), doltdb.AutoIncrementState(5))

	// What GMS does for the whole INSERT statement in lock modes 0 and 1.
	release, err := ait.AcquireLock(nil, name)
	require.NoError(t, err)

	done := make(chan struct{})
	go func() {
		defer close(done)
		// What CREATE TABLE <same name> on another branch does.
		_ = ait.AddNewRelation(name, doltdb.AutoIncrementState(1))
	}()

	select {
	case <-done:
		enteredWhileLocked = true
	case <-time.After(500 * time.Millisecond):
	}
	release()
	select {
	case <-done:
	case <-time.After(10 * time.Second):
		t.Fatal("AddNewRelation never completed after the statement lock was released")
	}
	return enteredWhileLocked
}

func TestConfirmC28LockKey_Exclusion(t *testing.T) {
	t.Run("control: lower-case table name", func(t *testing.T) {
		require.False(t, confirmC28ExclusionCase(t, "lowercase"),
			"AddNewRelation ran inside the statement-level lock")
	})
	t.Run("mixed-case table name", func(t *testing.T) {
		require.False(t, confirmC28ExclusionCase(t, "MixedCase"),
			"AddNewRelation(\"MixedCase\") completed while the statement-level AUTO_INCREMENT lock for \"MixedCase\" was held: the two lock different mutexes")
	})
}

// ---- generic instantiation with a pausable state type ----

type confirmC28State struct{ v uint64 }

// confirmC28MergeHook, when set, is called at the start of Merge: i.e. after AddNewRelation has
// loaded the existing state and before it stores the merged state.
var confirmC28MergeHook func()

func (s confirmC28State) Next() (uint64, bool, confirmC28State, error) {
	return s.v, true, confirmC28State{s.v + 1}, nil
}
func (s confirmC28State) CurrentValue() uint64               { return s.v }
func (s confirmC28State) WithValue(v uint64) confirmC28State { return confirmC28State{v} }
func (s confirmC28State) GreaterThan(o confirmC28State) bool { return s.v > o.v }
func (s confirmC28State) AtEnd() bool                        { return false }
func (s confirmC28State) WithSQLValue(_ *sql.Context, v interface{}) (confirmC28State, error) {
	return confirmC28State{v.(uint64)}, nil
}
func (s confirmC28State) Merge(o confirmC28State) confirmC28State {
	if confirmC28MergeHook != nil {
		confirmC28MergeHook()
	}
	if s.v > o.v {
		return s
	}
	return o
}

type confirmC28Rel struct{}

func (confirmC28Rel) GetSequenceState(context.Context) (confirmC28State, error) {
	return confirmC28State{}, nil
}
func (confirmC28Rel) HasSequenceState(context.Context) (bool, error) { return true, nil }
func (confirmC28Rel) GetSequenceSqlType(context.Context) (sql.Type, bool, error) {
	return nil, false, nil
}
func (r confirmC28Rel) SetSequenceState(context.Context, confirmC28State) (confirmC28Rel, error) {
	return r, nil
}
func (r confirmC28Rel) TrySetSequenceState(*sql.Context, confirmC28State) (confirmC28Rel, bool, error) {
	return r, true, nil
}

func TestConfirmC28LockKey_Duplicate(t *testing.T) {
	tr := &SequenceTracker[confirmC28Rel, confirmC28State, uint64]{
		dbName:     "db",
		sequences:  &SyncMap[doltdb.TableName, confirmC28State]{},
		mm:         mutexmap.NewMutexMap(),
		init:       confirmC28ClosedChan(),
		cancelInit: make(chan struct{}),
		lockMode:   LockMode_Traditional,
	}
	name := doltdb.TableName{Name: "MixedCase"}
	tr.sequences.Store(name.ToLower(), confirmC28State{5})

	inMerge := make(chan struct{})
	resume := make(chan struct{})
	confirmC28MergeHook = func() {
		close(inMerge)
		<-resume
	}
	defer func() { confirmC28MergeHook = nil }()

	var handedOut []uint64

	// Session A: INSERT statement #1 (lock mode 0: lock held for the whole statement).
	releaseA, err := tr.AcquireLock(nil, name)
	require.NoError(t, err)

	// Session B: CREATE TABLE MixedCase (...) on another branch -> AddNewRelation(name, 1).
	bDone := make(chan struct{})
	go func() {
		defer close(bDone)
		_ = tr.AddNewRelation(name, confirmC28State{1})
	}()

	// Does B get inside its critical section (existing state loaded, not yet stored) while A's
	// statement lock is held?
	bInsideWhileALocked := false
	select {
	case <-inMerge:
		bInsideWhileALocked = true
	case <-time.After(500 * time.Millisecond):
	}

	// A generates two values inside its statement.
	for i := 0; i < 2; i++ {
		v, err := tr.Next(nil, name, nil)
		require.NoError(t, err)
		handedOut = append(handedOut, v)
	}
	releaseA()

	// Let B finish (on repaired code B only now enters Merge).
	if !bInsideWhileALocked {
		select {
		case <-inMerge:
		case <-time.After(10 * time.Second):
			t.Fatal("B never reached Merge")
		}
	}
	close(resume)
	<-bDone

	// Session A: INSERT statement #2.
	releaseA, err = tr.AcquireLock(nil, name)
	require.NoError(t, err)
	v, err := tr.Next(nil, name, nil)
	require.NoError(t, err)
	handedOut = append(handedOut, v)
	releaseA()

	t.Logf("B inside critical section while A held the statement lock: %v; values handed out: %v", bInsideWhileALocked, handedOut)
	seen := map[uint64]bool{}
	for _, v := range handedOut {
		require.False(t, seen[v], "AUTO_INCREMENT value %d was handed out twice: %v", v, handedOut)
		seen[v] = true
	}
	require.Equal(t, []uint64{5, 6, 7}, handedOut)
}
