// Companion to dsess/zz_confirm_C28_lock_key_test.go (defect C28-lock-key), driven through the
// real engine, DoltSession, WritableDoltTable and prolly table writer, to confirm that the
// production call chain really uses different lock keys for a mixed-case table name:
//
//   session A:  table.AutoIncrementSetter(ctx).AcquireAutoIncrementLock(ctx)
//               -- the exact call go-mysql-server makes (sql/rowexec/dml.go) at the start of an
//               INSERT statement when @@innodb_autoinc_lock_mode is 0 or 1 --
//               -> prollyTableWriter.AcquireAutoIncrementLock -> aiTracker.AcquireLock(ctx, w.tblName)
//   session B:  ALTER TABLE <name> AUTO_INCREMENT = 1000
//               -> prollyTableWriter.SetAutoIncrementValue -> flush -> aiTracker.Set(...)  (locks ToLower(name))
//
// While A holds the statement-level lock, B must not be able to run (it does block for a lower-case
// table name: control subtest).

package sqle

import (
	"context"
	"fmt"
	"testing"
	"time"

	gms "github.com/dolthub/go-mysql-server"
	"github.com/dolthub/go-mysql-server/sql"
	"github.com/stretchr/testify/require"

	"github.com/dolthub/dolt/go/libraries/doltcore/doltdb/gcctx"
	"github.com/dolthub/dolt/go/libraries/doltcore/dtestutils"
	"github.com/dolthub/dolt/go/libraries/doltcore/env"
	"github.com/dolthub/dolt/go/libraries/doltcore/table/editor"
)

func confirmC28LockKeyE2E(t *testing.T, tableName string) (ranWhileLocked bool) {
	// The tracker samples the global @@innodb_autoinc_lock_mode when it is initialised.
	require.NoError(t, sql.SystemVariables.AssignValues(map[string]interface{}{"innodb_autoinc_lock_mode": int64(0)}))
	defer func() {
		require.NoError(t, sql.SystemVariables.AssignValues(map[string]interface{}{"innodb_autoinc_lock_mode": int64(2)}))
	}()

	bg := context.Background()
	dEnv := dtestutils.CreateTestEnv()
	defer dEnv.DoltDB(bg).Close()
	db, err := NewDatabase(bg, "dolt", dEnv.DbData(bg), editor.Options{})
	require.NoError(t, err)

	// Same as NewTestEngine, but we keep the provider to open a second session.
	pro, err := NewDoltDatabaseProviderWithDatabase(env.GetDefaultInitBranch(dEnv.Config), dEnv.FS, db, dEnv.FS, sql.EngineOverrides{})
	require.NoError(t, err)
	engine := gms.NewDefault(pro)
	cfg, _ := dEnv.Config.GetConfig(env.GlobalConfig)
	newSession := func() *sql.Context {
		c := NewTestSQLCtxWithProvider(bg, pro, cfg, nil, gcctx.NewGCSafepointController())
		c.SetCurrentDatabase(db.Name())
		return c
	}
	ctxA, ctxB := newSession(), newSession()

	_, err = QueryRows(ctxA, engine, fmt.Sprintf("CREATE TABLE `%s` (id INT PRIMARY KEY AUTO_INCREMENT, v INT)", tableName))
	require.NoError(t, err)
	_, err = QueryRows(ctxA, engine, fmt.Sprintf("INSERT INTO `%s` (v) VALUES (1),(2)", tableName))
	require.NoError(t, err)

	// Session A: take the statement-level AUTO_INCREMENT lock exactly as go-mysql-server does.
	_, err = QueryRows(ctxA, engine, "BEGIN")
	require.NoError(t, err)
	sqlDb, err := pro.Database(ctxA, db.Name())
	require.NoError(t, err)
	tbl, ok, err := sqlDb.GetTableInsensitive(ctxA, tableName)
	require.NoError(t, err)
	require.True(t, ok)
	ait, ok := sql.GetUnderlyingTable(tbl).(sql.AutoIncrementTable)
	require.True(t, ok, "%T", tbl)
	unlock, err := ait.AutoIncrementSetter(ctxA).AcquireAutoIncrementLock(ctxA)
	require.NoError(t, err)

	// Session B: ALTER TABLE ... AUTO_INCREMENT.
	done := make(chan error, 1)
	go func() {
		_, err := QueryRows(ctxB, engine, fmt.Sprintf("ALTER TABLE `%s` AUTO_INCREMENT = 1000", tableName))
		done <- err
	}()

	select {
	case err := <-done:
		require.NoError(t, err)
		ranWhileLocked = true
		unlock()
	case <-time.After(2 * time.Second):
		unlock()
		select {
		case err := <-done:
			require.NoError(t, err)
		case <-time.After(30 * time.Second):
			t.Fatal("ALTER TABLE never completed after the statement lock was released")
		}
	}
	_, err = QueryRows(ctxA, engine, "ROLLBACK")
	require.NoError(t, err)
	return ranWhileLocked
}

func TestConfirmC28LockKeyE2E(t *testing.T) {
	t.Run("control: lower-case table name", func(t *testing.T) {
		require.False(t, confirmC28LockKeyE2E(t, "lowercase"))
	})
	t.Run("mixed-case table name", func(t *testing.T) {
		require.False(t, confirmC28LockKeyE2E(t, "MixedCase"),
			"ALTER TABLE `MixedCase` AUTO_INCREMENT=... went through SequenceTracker.Set while another session held the statement-level AUTO_INCREMENT lock of `MixedCase`")
	})
}
