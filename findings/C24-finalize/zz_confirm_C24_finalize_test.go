// Demonstration for suspected defect C24-finalize:
// mergeProllyTableData drops the error of conflicts.finalize (ArtifactsEditor.Flush).
//
// The test reuses the fixture of TestMergeCommits (a keyed table whose left and
// right branches make conflicting edits to several rows), but loads the three
// roots through a NodeStore wrapper that fails every Write of a NON-EMPTY
// merge-artifact ("ARTM") prolly node. The only such write during the merge is the
// one made by conflictMerger.finalize -> ArtifactsEditor.Flush, i.e. the moment
// the conflicts recorded by the row merge are persisted.
//
// Expected (correct) behaviour: the storage error surfaces from MergeTable /
// MergeRoots and no merged table is produced.
// Behaviour of the unrepaired code: the merge "succeeds", the merged table has
// zero artifacts, and the merge statistics report zero conflicts, although the
// two branches have conflicting edits.

package merge

import (
	"context"
	"errors"
	"sync/atomic"
	"testing"

	"github.com/dolthub/go-mysql-server/sql"
	"github.com/stretchr/testify/require"

	"github.com/dolthub/dolt/go/gen/fb/serial"
	"github.com/dolthub/dolt/go/libraries/doltcore/doltdb"
	"github.com/dolthub/dolt/go/libraries/doltcore/doltdb/durable"
	"github.com/dolthub/dolt/go/libraries/doltcore/table/editor"
	"github.com/dolthub/dolt/go/store/hash"
	"github.com/dolthub/dolt/go/store/prolly/tree"
	"github.com/dolthub/dolt/go/store/types"
)

var errInjectedArtifactWrite = errors.New("injected: artifact node write failed")

// failingArtifactNodeStore delegates everything to the embedded NodeStore, but
// fails writes of non-empty merge-artifact nodes.
type failingArtifactNodeStore struct {
	tree.NodeStore
	failed atomic.Int32
}

func (ns *failingArtifactNodeStore) Write(ctx context.Context, nd *tree.Node) (hash.Hash, error) {
	if sm, ok := tree.ValueFromNode(nd).(types.SerialMessage); ok {
		if serial.GetFileID(sm) == serial.MergeArtifactsFileID && nd.Count() > 0 {
			ns.failed.Add(1)
			return hash.Hash{}, errInjectedArtifactWrite
		}
	}
	return ns.NodeStore.Write(ctx, nd)
}

func confirmC24Roots(t *testing.T) (ddb *doltdb.DoltDB, vrw types.ValueReadWriter, fns *failingArtifactNodeStore, rightCm, ancCm doltdb.Rootish, root, mergeRoot, ancRoot doltdb.RootValue, expectedArtifacts int) {
	ddb, vrw, ns, rightCm, ancCm, root, mergeRoot, ancRoot, _, expArts := setupMergeTest(t)
	n, err := expArts.Count()
	require.NoError(t, err)
	require.Greater(t, n, 0, "fixture must contain conflicting rows")

	fns = &failingArtifactNodeStore{NodeStore: ns}
	ctx := context.Background()
	reload := func(r doltdb.RootValue) doltdb.RootValue {
		h, err := r.HashOf()
		require.NoError(t, err)
		v, err := vrw.ReadValue(ctx, h)
		require.NoError(t, err)
		rv, err := doltdb.NewRootValue(ctx, vrw, fns, v)
		require.NoError(t, err)
		return rv
	}
	return ddb, vrw, fns, rightCm, ancCm, reload(root), reload(mergeRoot), reload(ancRoot), n
}

// MergeTable level: the same call TestMergeCommits makes.
func TestConfirmC24FinalizeErrorDropped_MergeTable(t *testing.T) {
	ddb, vrw, fns, rightCm, ancCm, root, mergeRoot, ancRoot, expectedArtifacts := confirmC24Roots(t)
	defer ddb.Close()

	merger, err := NewMerger(root, mergeRoot, ancRoot, rightCm, ancCm, vrw, fns)
	require.NoError(t, err)

	ctx := sql.NewContext(context.Background())
	merged, stats, err := merger.MergeTable(ctx, doltdb.TableName{Name: tableName}, editor.TestEditorOptions(vrw), MergeOpts{})

	require.Equal(t, int32(1), fns.failed.Load(), "the fault must have been hit exactly once (by conflictMerger.finalize)")

	if err == nil {
		// Unrepaired code lands here. Describe the damage precisely.
		artIdx, aerr := merged.table.GetArtifacts(ctx)
		require.NoError(t, aerr)
		got, cerr := durable.ProllyMapFromArtifactIndex(artIdx).Count()
		require.NoError(t, cerr)
		t.Fatalf("artifact flush failed with %q but MergeTable returned err=nil; merged table has %d artifacts (the row merge recorded %d conflicts); stats.DataConflicts=%d",
			errInjectedArtifactWrite, got, expectedArtifacts, stats.DataConflicts)
	}
	require.ErrorIs(t, err, errInjectedArtifactWrite)
	require.Nil(t, merged)
}

// MergeRoots level: what `dolt merge` / CALL DOLT_MERGE() consume.
func TestConfirmC24FinalizeErrorDropped_MergeRoots(t *testing.T) {
	ddb, vrw, fns, rightCm, ancCm, root, mergeRoot, ancRoot, expectedArtifacts := confirmC24Roots(t)
	defer ddb.Close()

	ctx := sql.NewContext(context.Background())
	result, err := MergeRoots(ctx, doltdb.SimpleTableResolver{}, root, mergeRoot, ancRoot, rightCm, ancCm, editor.TestEditorOptions(vrw), MergeOpts{})

	require.GreaterOrEqual(t, fns.failed.Load(), int32(1), "the fault must have been hit")

	if err == nil {
		tbl, ok, terr := result.Root.GetTable(ctx, doltdb.TableName{Name: tableName})
		require.NoError(t, terr)
		require.True(t, ok)
		nConf, cerr := tbl.NumRowsInConflict(ctx)
		require.NoError(t, cerr)
		st := result.Stats[doltdb.TableName{Name: tableName}]
		t.Fatalf("artifact flush failed but MergeRoots returned err=nil; merged root's table reports %d rows in conflict (expected %d); stats: conflicts=%d constraintViolations=%d; CountOfTablesWithDataConflicts=%d",
			nConf, expectedArtifacts, st.DataConflicts, st.ConstraintViolations, result.CountOfTablesWithDataConflicts())
	}
	require.ErrorIs(t, err, errInjectedArtifactWrite)
}
