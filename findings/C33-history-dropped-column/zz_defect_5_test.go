// Copyright 2026 Dolthub, Inc.
//
// Licensed under the Apache License, Version 2.0 (the "License");
// you may not use this file except in compliance with the License.
// You may obtain a copy of the License at
//
//     http://www.apache.org/licenses/LICENSE-2.0
//
// Unless required by applicable law or agreed to in writing, software
// distributed under the License is distributed on an "AS IS" BASIS,
// WITHOUT WARRANTIES OR CONDITIONS OF ANY KIND, either express or implied.
// See the License for the specific language governing permissions and
// limitations under the License.

package enginetest

import (
	"fmt"
	"testing"

	"github.com/dolthub/go-mysql-server/enginetest"
	"github.com/dolthub/go-mysql-server/enginetest/queries"
	"github.com/dolthub/go-mysql-server/sql"
	"github.com/stretchr/testify/assert"
	"github.com/stretchr/testify/require"
)

// TestZZDefect5HistoryTableDroppedMiddleColumn asserts that dolt_history_<table> returns the right values for the
// columns that still exist when an older commit's schema has a column, in the middle of the schema, that was dropped
// since.
func TestZZDefect5HistoryTableDroppedMiddleColumn(t *testing.T) {
	scripts := []queries.ScriptTest{
		{
			Name: "dolt_history table: column dropped from the middle of the schema",
			SetUpScript: []string{
				"create table t (pk int primary key, x int, b int)",
				"insert into t values (1, 10, 100)",
				"call dolt_commit('-Am', 'c1')",
				"alter table t drop column x",
				"call dolt_commit('-am', 'c2')",
			},
			Assertions: []queries.ScriptTestAssertion{
				{
					Query:    "select pk, b from dolt_history_t order by commit_date",
					Expected: []sql.Row{{1, 100}, {1, 100}},
				},
				{
					Query:    "select pk, b, message from dolt_history_t h join dolt_log l on h.commit_hash = l.commit_hash order by commit_date",
					Expected: []sql.Row{{1, 100, "c1"}, {1, 100, "c2"}},
				},
				{
					// select *: columns are pk, b, commit_hash, committer, commit_date
					Query:    "select pk, b from (select * from dolt_history_t) h order by commit_date",
					Expected: []sql.Row{{1, 100}, {1, 100}},
				},
				{
					Query:    "select count(*) from (select * from dolt_history_t) h where b = 100",
					Expected: []sql.Row{{2}},
				},
				{
					Query:    "select b from dolt_history_t order by commit_date",
					Expected: []sql.Row{{100}, {100}},
				},
				{
					Query:    "select commit_hash = hashof('HEAD~'), b, pk from dolt_history_t order by commit_date",
					Expected: []sql.Row{{true, 100, 1}, {false, 100, 1}},
				},
				{
					// indexed access on the history table: the older commit's rows must be decoded with the older
					// commit's schema
					Query:    "select pk, b from dolt_history_t where pk = 1 order by commit_date",
					Expected: []sql.Row{{1, 100}, {1, 100}},
				},
				{
					// no projection is pushed down into the history table for a UNION or for a node with a subquery
					// expression, so the history table returns every column
					Query:    "select pk, b from dolt_history_t union all select pk, b from dolt_history_t where false",
					Expected: []sql.Row{{1, 100}, {1, 100}},
				},
				{
					Query:    "select pk, b from dolt_history_t where b in (select 100) order by commit_date",
					Expected: []sql.Row{{1, 100}, {1, 100}},
				},
				{
					// both: indexed access and no projection
					Query:    "select pk, b from dolt_history_t where pk in (select 1) order by commit_date",
					Expected: []sql.Row{{1, 100}, {1, 100}},
				},
			},
		},
		{
			Name: "dolt_history table: several columns after the dropped one",
			SetUpScript: []string{
				"create table t (pk int primary key, x int, b int, c int, d int)",
				"insert into t values (1, 10, 100, 1000, 10000)",
				"call dolt_commit('-Am', 'c1')",
				"alter table t drop column x",
				"call dolt_commit('-am', 'c2')",
			},
			Assertions: []queries.ScriptTestAssertion{
				{
					Query:    "select pk, b, c, d from (select * from dolt_history_t) h order by commit_date",
					Expected: []sql.Row{{1, 100, 1000, 10000}, {1, 100, 1000, 10000}},
				},
			},
		},
	}

	for _, script := range scripts {
		func() {
			h := newDoltHarness(t)
			defer h.Close()
			enginetest.TestScript(t, h, script)
		}()
	}
}

// TestZZDefect5HistoryTableSelectStar runs a literal `select *` (whose commit_hash / commit_date values cannot be
// written down in a script test) and a few other query shapes against the same history and inspects the user columns
// of the result.
func TestZZDefect5HistoryTableSelectStar(t *testing.T) {
	h := newDoltHarness(t)
	defer h.Close()
	e, err := h.NewEngine(t)
	require.NoError(t, err)
	defer e.Close()
	ctx := enginetest.NewContext(h)

	for _, q := range []string{
		"create table t (pk int primary key, x int, b int)",
		"insert into t values (1, 10, 100)",
		"call dolt_commit('-Am', 'c1')",
		"alter table t drop column x",
		"call dolt_commit('-am', 'c2')",
		"create table hist_copy (pk int, b int, commit_hash varchar(40), committer varchar(200), commit_date datetime(6))",
	} {
		enginetest.RunQueryWithContext(t, e, h, ctx, q)
	}

	for _, q := range []string{
		// the analyzer pushes a projection of every column into the history table for these
		"select * from dolt_history_t order by commit_date",
		"select * from dolt_history_t where b = 100 order by commit_date",
		"select h.* from dolt_history_t h order by commit_date",
		"select pk, b, commit_hash, committer, commit_date from dolt_history_t order by commit_date",
		// indexed access on the history table
		"select * from dolt_history_t where pk = 1 order by commit_date",
		"select pk, b from dolt_history_t where pk = 1 order by commit_date",
		"select h.pk, h.b from (select 1 as pk) o join dolt_history_t h on h.pk = o.pk order by commit_date",
		// the analyzer does not push any projection into the history table for these (pruneTables bails out)
		"select * from dolt_history_t where pk in (select 1) order by commit_date",
		"select pk, b from dolt_history_t where b in (select 100) order by commit_date",
		"select pk, b from dolt_history_t union all select pk, b from dolt_history_t where false",
		"table dolt_history_t",
	} {
		t.Run(q, func(t *testing.T) {
			_, plan := enginetest.MustQuery(ctx, e, "explain plan "+q)
			for _, r := range plan {
				t.Log(r[0])
			}
			sch, rows := enginetest.MustQuery(ctx, e, q)
			require.GreaterOrEqual(t, len(sch), 2)
			require.Equal(t, "pk", sch[0].Name)
			require.Equal(t, "b", sch[1].Name)
			require.Len(t, rows, 2, "one row per commit")
			for i, r := range rows {
				require.Len(t, r, len(sch))
				assert.EqualValues(t, 1, r[0], "pk at commit %d: row %v", i, r)
				assert.EqualValues(t, 100, r[1], "b at commit %d: row %v", i, r)
				for j := 2; j < len(r); j++ {
					assert.NotNil(t, r[j], "%s at commit %d: row %v", sch[j].Name, i, r)
				}
			}
		})
	}

	t.Run("insert ... select *", func(t *testing.T) {
		enginetest.RunQueryWithContext(t, e, h, ctx, "insert into hist_copy select * from dolt_history_t")
		_, rows := enginetest.MustQuery(ctx, e, "select pk, b from hist_copy")
		require.Equal(t, fmt.Sprint([]sql.Row{{1, 100}, {1, 100}}), fmt.Sprint(rows))
	})
}
