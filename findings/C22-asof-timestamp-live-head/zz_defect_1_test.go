// Copyright 2026 Dolthub, Inc.
//
// Licensed under the Apache License, Version 2.0 (the "License");
// you may not use this file except in compliance with the License.
// You may obtain a copy of the License at
//
//     http://www.apache.org/licenses/LICENSE-2.0
//
// Unless required by applicable law or agreed to in writing, software
// distributed under the License is distributed on an "AS IS" BASIS,
// WITHOUT WARRANTIES OR CONDITIONS OF ANY KIND, either express or implied.
// See the License for the specific language governing permissions and
// limitations under the License.

package enginetest

import (
	"testing"

	"github.com/dolthub/go-mysql-server/enginetest"
	"github.com/dolthub/go-mysql-server/enginetest/queries"
	"github.com/dolthub/go-mysql-server/sql"
)

// TestZZDefect1AsOfTimestampInTransaction asserts that `AS OF <timestamp>` inside an open transaction is resolved
// against the transaction's snapshot of the database (like `AS OF 'main'` / `AS OF 'HEAD'` are), not against the live
// branch head, which another session may have moved since the transaction started.
func TestZZDefect1AsOfTimestampInTransaction(t *testing.T) {
	script := queries.TransactionTest{
		Name: "AS OF <timestamp> inside a transaction reads the transaction's snapshot",
		SetUpScript: []string{
			"create table t (pk int primary key)",
			"insert into t values (1)",
			"call dolt_commit('-Am', 'c1')",
		},
		Assertions: []queries.ScriptTestAssertion{
			{
				Query:            "/* client a */ set autocommit = off",
				SkipResultsCheck: true,
			},
			{
				Query:            "/* client a */ start transaction",
				SkipResultsCheck: true,
			},
			{
				Query:    "/* client a */ select count(*) from t as of timestamp('2100-01-01')",
				Expected: []sql.Row{{1}},
			},
			{
				Query:    "/* client a */ show tables as of timestamp('2100-01-01')",
				Expected: []sql.Row{{"t"}},
			},
			{
				// autocommit is on for client b: this creates a new commit on main and a new table
				Query:            "/* client b */ insert into t values (2)",
				SkipResultsCheck: true,
			},
			{
				Query:            "/* client b */ create table t2 (pk int primary key)",
				SkipResultsCheck: true,
			},
			{
				Query:            "/* client b */ call dolt_commit('-Am', 'x')",
				SkipResultsCheck: true,
			},
			{
				Query:    "/* client b */ select count(*) from t as of timestamp('2100-01-01')",
				Expected: []sql.Row{{2}},
			},
			{
				// client a's transaction predates client b's commit: none of these may see it
				Query:    "/* client a */ select count(*) from t",
				Expected: []sql.Row{{1}},
			},
			{
				Query:    "/* client a */ select count(*) from t as of 'main'",
				Expected: []sql.Row{{1}},
			},
			{
				Query:    "/* client a */ select count(*) from t as of 'HEAD'",
				Expected: []sql.Row{{1}},
			},
			{
				Query:    "/* client a */ select count(*) from t as of timestamp('2100-01-01')",
				Expected: []sql.Row{{1}},
			},
			{
				Query:    "/* client a */ show tables as of timestamp('2100-01-01')",
				Expected: []sql.Row{{"t"}},
			},
			{
				Query:            "/* client a */ commit",
				SkipResultsCheck: true,
			},
			{
				// a new transaction sees the new head
				Query:    "/* client a */ select count(*) from t as of timestamp('2100-01-01')",
				Expected: []sql.Row{{2}},
			},
		},
	}

	h := newDoltHarness(t)
	defer h.Close()
	enginetest.TestTransactionScript(t, h, script)
}
