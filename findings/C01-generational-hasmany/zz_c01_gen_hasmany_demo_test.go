// Demonstration for the C01 finding (copy into go/store/nbs/ to run):
//   go test -vet=off -count=1 -run TestC01GenerationalHasManyWithoutGhostStore ./store/nbs/
// A generational store built without a ghost store (as store/spec does) must still report absent addresses.
package nbs

import (
	"context"
	"testing"

	"github.com/stretchr/testify/require"

	"github.com/dolthub/dolt/go/store/hash"
)

func TestC01GenerationalHasManyWithoutGhostStore(t *testing.T) {
	ctx := context.Background()
	oldGen, _, _ := makeTestLocalStore(t, 8)
	newGen, _, _ := makeTestLocalStore(t, 8)
	gcs := NewGenerationalCS(oldGen, newGen, nil)
	defer gcs.Close()

	missing := hash.Of([]byte("never written anywhere"))
	has, err := gcs.Has(ctx, missing)
	require.NoError(t, err)
	require.False(t, has)

	absent, err := gcs.HasMany(ctx, hash.NewHashSet(missing))
	require.NoError(t, err)
	require.True(t, absent.Has(missing), "HasMany reports nothing absent for an address that Has() says is absent: presence checks disagree (pull would skip it, a reference check would accept it)")
}
