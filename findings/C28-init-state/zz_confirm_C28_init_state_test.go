// Demonstration for suspected defect C28-init-state:
// SequenceTracker.initializeSequenceState returns the zero |state| of the failed map
// lookup instead of the |seq| it has just stored (fallback path).
//
// Everything below is driven through the real SQL engine + a real DoltSession.
// Only SQL statements are used to reach the defective path:
//
//  1. A table with an AUTO_INCREMENT key gets rows 1,2,3 (stored AUTO_INCREMENT = 4).
//  2. `UPDATE t SET id = 100 WHERE id = 3` moves a key above the counter. Like in
//     MySQL, UPDATE does not advance the counter, so the table now legitimately has
//     AUTO_INCREMENT (4) <= max(id) (100).
//  3. `DROP TABLE t` removes the table's entry from the in-memory tracker
//     (DropRelation), and `CALL dolt_checkout('t')` brings the table back from HEAD
//     without telling the tracker. (The comment in Next() names another route to the
//     same state: a database restored while the server is running.)
//  4. `INSERT INTO t (v) VALUES (40)`: Next() finds no state and calls
//     initializeSequenceState. deepSet() stores nothing, because
//     Table.TrySetSequenceState(4) is "unsuccessful" (4 is not greater than max(id)=100),
//     so the fallback path runs.
//
// Correct behaviour: the insert gets id 4 -- exactly what the same statements yield
// when step 3 is omitted (control subtest), and what SHOW CREATE TABLE advertises.

package sqle

import (
	"context"
	"fmt"
	"testing"

	gms "github.com/dolthub/go-mysql-server"
	"github.com/dolthub/go-mysql-server/sql"
	"github.com/stretchr/testify/require"

	"github.com/dolthub/dolt/go/libraries/doltcore/dtestutils"
	"github.com/dolthub/dolt/go/libraries/doltcore/table/editor"
)

func confirmC28Engine(t *testing.T) (*gms.Engine, *sql.Context) {
	ctx := context.Background()
	dEnv := dtestutils.CreateTestEnv()
	t.Cleanup(func() { dEnv.DoltDB(ctx).Close() })
	db, err := NewDatabase(ctx, "dolt", dEnv.DbData(ctx), editor.Options{})
	require.NoError(t, err)
	engine, sqlCtx, err := NewTestEngine(dEnv, ctx, db)
	require.NoError(t, err)
	return engine, sqlCtx
}

func confirmC28Exec(t *testing.T, engine *gms.Engine, ctx *sql.Context, q string) []sql.Row {
	t.Helper()
	rows, err := QueryRows(ctx, engine, q)
	require.NoError(t, err, q)
	return rows
}

func confirmC28Scenario(t *testing.T, dropAndRestore bool) {
	engine, ctx := confirmC28Engine(t)

	for _, q := range []string{
		"CREATE TABLE t (id INT PRIMARY KEY AUTO_INCREMENT, v INT)",
		"INSERT INTO t (v) VALUES (10),(20),(30)",
		"UPDATE t SET id = 100 WHERE id = 3",
		"CALL dolt_commit('-Am', 'table t')",
	} {
		confirmC28Exec(t, engine, ctx, q)
	}
	rows := confirmC28Exec(t, engine, ctx, "SELECT id FROM t ORDER BY id")
	require.Equal(t, "[[1] [2] [100]]", fmt.Sprint(rows))
	rows = confirmC28Exec(t, engine, ctx, "SELECT auto_increment FROM information_schema.tables WHERE table_name = 't'")
	t.Logf("information_schema AUTO_INCREMENT before: %v", rows)

	if dropAndRestore {
		confirmC28Exec(t, engine, ctx, "DROP TABLE t")
		confirmC28Exec(t, engine, ctx, "CALL dolt_checkout('t')")
		rows = confirmC28Exec(t, engine, ctx, "SELECT id FROM t ORDER BY id")
		require.Equal(t, "[[1] [2] [100]]", fmt.Sprint(rows), "table restored from HEAD")
	}

	// First generated key.
	_, err := QueryRows(ctx, engine, "INSERT INTO t (v) VALUES (40)")
	require.NoError(t, err, "first insert with generated key")
	rows = confirmC28Exec(t, engine, ctx, "SELECT id FROM t WHERE v = 40")
	first := fmt.Sprint(rows)
	t.Logf("generated key for v=40: %s", first)

	// Second generated key.
	_, err2 := QueryRows(ctx, engine, "INSERT INTO t (v) VALUES (50)")
	if err2 != nil {
		t.Logf("second insert with generated key failed: %v", err2)
	}
	rows = confirmC28Exec(t, engine, ctx, "SELECT id, v FROM t ORDER BY id")
	t.Logf("final table: %v", rows)

	require.Equal(t, "[[4]]", first, "first generated key must continue the table's AUTO_INCREMENT (4)")
	require.NoError(t, err2, "second generated key must not collide with an existing row")
	require.Equal(t, "[[1 10] [2 20] [4 40] [5 50] [100 30]]", fmt.Sprint(rows))
}

// Control: same statements without removing the tracker entry. Passes with and without the repair.
func TestConfirmC28InitState_Control(t *testing.T) {
	confirmC28Scenario(t, false)
}

// Defect: tracker entry removed by DROP TABLE, table restored by dolt_checkout.
func TestConfirmC28InitState_DropAndRestore(t *testing.T) {
	confirmC28Scenario(t, true)
}
