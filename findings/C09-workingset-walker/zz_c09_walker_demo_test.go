// Demonstration for the C09 finding (copy into go/store/datas/ to run):
//   go test -vet=off -count=1 -run TestC09WorkingSetWalkerReportsRebaseAndMergeHeadAddrs ./store/datas/
// Fails before the "fix:" commit in /repo, passes after it.
package datas

import (
	"testing"

	"github.com/dolthub/dolt/go/store/hash"
	"github.com/dolthub/dolt/go/store/types"
)

func TestC09WorkingSetWalkerReportsRebaseAndMergeHeadAddrs(t *testing.T) {
	h := func(b byte) hash.Hash { var x hash.Hash; for i := range x { x[i] = b }; return x }
	working, staged := h(1), h(2)
	preMergeWorking, fromCommit, preMergeHead := h(3), h(4), h(5)
	preRebaseWorking, onto := h(6), h(7)
	ms := &MergeState{preMergeWorkingAddr: &preMergeWorking, fromCommitAddr: &fromCommit, preMergeHeadCommitAddr: &preMergeHead}
	rs := NewRebaseState(preRebaseWorking, onto, "b", 0, 0, 0, false, false)
	msg := workingset_flatbuffer(working, &staged, ms, rs, &WorkingSetMeta{Name: "n", Email: "e"})
	got := map[hash.Hash]bool{}
	err := types.SerialMessage(msg).WalkAddrs(types.Format_DOLT, func(a hash.Hash) error { got[a] = true; return nil })
	if err != nil {
		t.Fatal(err)
	}
	// every address HeadWorkingSet() loads and callers dereference must be reported to GC / pull / ref-check
	for name, a := range map[string]hash.Hash{"working": working, "staged": staged, "merge.preWorking": preMergeWorking,
		"merge.fromCommit": fromCommit, "merge.preMergeHeadCommit": preMergeHead, "rebase.preWorking": preRebaseWorking, "rebase.ontoCommit": onto} {
		if !got[a] {
			t.Errorf("walker does not report %s (%s): GC/pull/ref-check cannot see an address the loader dereferences", name, a)
		}
	}
}
