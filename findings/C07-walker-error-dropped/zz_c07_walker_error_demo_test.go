// Demonstration for the second C07 finding (copy into go/store/nbs/ to run):
//   go test -vet=off -count=1 -run TestC07WalkerErrorIsNotIgnoredByTheReferenceCheck ./store/nbs/
// When the reference walker fails for a chunk (for example a message with fields this binary does not know), the
// chunk's references are unknown; the dangling-reference check must fail the write instead of treating the chunk
// as if it had no references.
package nbs

import (
	"context"
	"errors"
	"testing"

	"github.com/stretchr/testify/require"

	"github.com/dolthub/dolt/go/store/chunks"
	"github.com/dolthub/dolt/go/store/hash"
)

func TestC07WalkerErrorIsNotIgnoredByTheReferenceCheck(t *testing.T) {
	ctx := context.Background()
	walkErr := errors.New("walker: message has unknown fields")
	missing := hash.Of([]byte("referenced by the parent, present nowhere"))
	parent := chunks.NewChunk([]byte("parent whose walk fails before it reports its child"))
	getAddrs := func(c chunks.Chunk) chunks.InsertAddrsCb {
		return func(ctx context.Context, addrs hash.HashSet, _ chunks.PendingRefExists) error {
			if c.Hash() == parent.Hash() {
				return walkErr // fails before addrs.Insert(missing)
			}
			return nil
		}
	}

	t.Run("memtable flush at commit", func(t *testing.T) {
		st, _, _ := makeTestLocalStore(t, 8)
		defer st.Close()
		require.NoError(t, st.Put(ctx, parent, getAddrs))
		root, err := st.Root(ctx)
		require.NoError(t, err)
		ok, err := st.Commit(ctx, parent.Hash(), root)
		require.Error(t, err, "commit of a chunk whose references could not be walked succeeded (ok=%v): its reference to %s was never checked", ok, missing)
		require.True(t, errors.Is(err, walkErr), "got %v", err)
	})

	t.Run("adding table files", func(t *testing.T) {
		src, _, _ := makeTestLocalStore(t, 8)
		defer src.Close()
		require.NoError(t, src.Put(ctx, parent, noopGetAddrs))
		r0, err := src.Root(ctx)
		require.NoError(t, err)
		_, err = src.Commit(ctx, parent.Hash(), r0)
		require.NoError(t, err)
		specs, err := src.tables.toSpecs()
		require.NoError(t, err)
		require.NotEmpty(t, specs)
		css, err := src.tables.openForAdd(ctx, map[hash.Hash]uint32{specs[0].name: specs[0].chunkCount}, nil, src.stats)
		require.NoError(t, err)
		defer css.close()
		err = refCheckAllSources(ctx, getAddrs, func(recs []hasRecord) (hash.HashSet, error) { return hash.HashSet{}, nil }, css, src.stats)
		require.Error(t, err, "reference check of table files reported success although the walker failed for one of their chunks")
		require.True(t, errors.Is(err, walkErr), "got %v", err)
	})
}
