// Companion to sqle/sqlfmt/zz_confirm_C36_geometry_test.go (defect C36-geometry).
// `dolt dump` output is consumed by `dolt sql < doltdump.sql`, which first splits the file into
// statements with StreamScanner. This test feeds the scanner a two-statement "dump" whose first
// statement carries the geometry POINT(11.5 112) (bytes 0x27 and 0x5C) in three spellings:
//   raw      : ' + raw bytes + '                 (current row_fmt.go behaviour)
//   escaped  : vitess VarChar EncodeSQL           (repair candidate quoteAndEscapeString)
//   hex      : 0x....                             (repair candidate hexEncodeBytes)
// and checks that the scanner yields exactly the two original statements for the two repaired
// spellings, while the raw spelling makes it merge both statements into one (characterisation;
// this test does not depend on the state of row_fmt.go).

package commands

import (
	"bytes"
	"encoding/hex"
	"strings"
	"testing"

	"github.com/dolthub/vitess/go/sqltypes"
	"github.com/stretchr/testify/assert"
	"github.com/stretchr/testify/require"
)

func TestConfirmC36GeometryStatementScanner(t *testing.T) {
	// SRID 0, little-endian WKB point (11.5, 112)
	raw, err := hex.DecodeString("000000000101000000" + "0000000000002740" + "0000000000005c40")
	require.NoError(t, err)

	escaped := &bytes.Buffer{}
	v, err := sqltypes.NewValue(sqltypes.VarChar, raw)
	require.NoError(t, err)
	v.EncodeSQL(escaped)

	spellings := map[string]string{
		"raw":     "'" + string(raw) + "'",
		"escaped": escaped.String(),
		"hex":     "0x" + hex.EncodeToString(raw),
	}
	second := "INSERT INTO `t` (`pk`,`g`) VALUES (2,NULL)"

	for name, lit := range spellings {
		t.Run(name, func(t *testing.T) {
			first := "INSERT INTO `t` (`pk`,`g`) VALUES (1," + lit + ")"
			scanner := NewStreamScanner(strings.NewReader(first + ";\n" + second + ";\n"))
			var got []string
			for scanner.Scan() {
				// the scanner reports a final empty token for the trailing newline; ignore empties
				if txt := strings.TrimSpace(scanner.Text()); txt != "" {
					got = append(got, txt)
				}
			}
			require.NoError(t, scanner.Err())
			if name == "raw" {
				// Characterisation of the unrepaired output format: the stray quote keeps the
				// scanner "inside a string", so the two statements are returned as one.
				assert.Equal(t, []string{first + ";\n" + second + ";"}, got, "raw spelling: expected the two statements to be merged")
				return
			}
			assert.Equal(t, []string{first, second}, got)
		})
	}
}
