// Demonstration for suspected defect C36-geometry:
// interfaceValueAsSqlString emits GEOMETRY values as ' + raw SRID/WKB bytes + ' without escaping.
//
// Round trip through dolt's own SQL engine:
//   1. create table src with GEOMETRY / POINT columns, insert geometries through SQL,
//   2. read the rows back (sql.Row holding GMS geometry values, as the dump/export/diff writers get them),
//   3. format every row with sqlfmt.SqlRowAsInsertStmt (the function used by `dolt dump`,
//      `dolt table export -r sql`, `dolt diff -r sql` and dolt_patch()), targeting table dst,
//   4. parse the statement with the vitess parser and execute it with the engine,
//   5. compare HEX(ST_AsWKB()), ST_SRID() of src and dst.

package sqlfmt_test

import (
	"context"
	"fmt"
	"strings"
	"testing"

	"github.com/dolthub/go-mysql-server/sql"
	"github.com/dolthub/vitess/go/vt/sqlparser"
	"github.com/stretchr/testify/assert"
	"github.com/stretchr/testify/require"

	"github.com/dolthub/dolt/go/libraries/doltcore/doltdb"
	"github.com/dolthub/dolt/go/libraries/doltcore/dtestutils"
	"github.com/dolthub/dolt/go/libraries/doltcore/sqle"
	"github.com/dolthub/dolt/go/libraries/doltcore/sqle/sqlfmt"
	"github.com/dolthub/dolt/go/libraries/doltcore/table/editor"
)

type confirmC36Case struct {
	pk    int
	note  string
	gExpr string // value for the GEOMETRY column
	pExpr string // value for the POINT column
}

var confirmC36Cases = []confirmC36Case{
	{1, "control: no quote/backslash bytes", "POINT(1, 2)", "POINT(2, 1)"},
	{2, "0x27 (') : 11.5 = 0x4027000000000000", "POINT(11.5, 0)", "POINT(0, 11.5)"},
	{3, "0x5C (\\) : 112 = 0x405C000000000000", "POINT(112, 0)", "POINT(0, 112)"},
	{4, "0x5C followed by 0x27", "LINESTRING(POINT(112, 11.5), POINT(11.5, 112))", "POINT(112, 11.5)"},
	{5, "0x0A 0x0D 0x1A 0x22: 3.25, 3.625, 6.5, 9", "LINESTRING(POINT(3.25, 3.625), POINT(6.5, 9))", "POINT(3.25, 6.5)"},
	{6, "SRID 4326 + 0x27", "ST_SRID(POINT(11.5, 0), 4326)", "POINT(1, 1)"},
	{7, "polygon with 0x27/0x5C", "POLYGON(LINESTRING(POINT(0,0), POINT(11.5,0), POINT(11.5,112), POINT(0,0)))", "POINT(9, 9)"},
}

const confirmC36Probe = "SELECT pk, HEX(ST_AsWKB(g)), ST_SRID(g), HEX(ST_AsWKB(p)), ST_SRID(p) FROM %s ORDER BY pk"

func TestConfirmC36GeometryInsertRoundTrip(t *testing.T) {
	bg := context.Background()
	dEnv := dtestutils.CreateTestEnv()
	defer dEnv.DoltDB(bg).Close()
	db, err := sqle.NewDatabase(bg, "dolt", dEnv.DbData(bg), editor.Options{})
	require.NoError(t, err)
	engine, ctx, err := sqle.NewTestEngine(dEnv, bg, db)
	require.NoError(t, err)

	exec := func(q string) []sql.Row {
		t.Helper()
		rows, err := sqle.QueryRows(ctx, engine, q)
		require.NoError(t, err, q)
		return rows
	}

	exec("CREATE TABLE src (pk INT PRIMARY KEY, g GEOMETRY, p POINT)")
	exec("CREATE TABLE dst (pk INT PRIMARY KEY, g GEOMETRY, p POINT)")
	for _, c := range confirmC36Cases {
		exec(fmt.Sprintf("INSERT INTO src VALUES (%d, %s, %s)", c.pk, c.gExpr, c.pExpr))
	}

	root, err := db.GetRoot(ctx)
	require.NoError(t, err)
	tbl, ok, err := root.GetTable(ctx, doltdb.TableName{Name: "src"})
	require.NoError(t, err)
	require.True(t, ok)
	sch, err := tbl.GetSchema(ctx)
	require.NoError(t, err)

	srcRows := exec("SELECT * FROM src ORDER BY pk")
	require.Len(t, srcRows, len(confirmC36Cases))
	want := exec(fmt.Sprintf(confirmC36Probe, "src"))

	for i, c := range confirmC36Cases {
		c := c
		t.Run(fmt.Sprintf("pk=%d %s", c.pk, c.note), func(t *testing.T) {
			stmt, err := sqlfmt.SqlRowAsInsertStmt(ctx, srcRows[i], "dst", sch)
			require.NoError(t, err)
			t.Logf("statement: %q", stmt)

			_, perr := sqlparser.Parse(stmt)
			assert.NoError(t, perr, "generated INSERT does not parse")

			_, xerr := sqle.QueryRows(ctx, engine, stmt)
			if !assert.NoError(t, xerr, "generated INSERT does not execute") {
				return
			}
			got, err := sqle.QueryRows(ctx, engine, fmt.Sprintf(strings.Replace(confirmC36Probe, "ORDER BY", "WHERE pk = %d ORDER BY", 1), "dst", c.pk))
			require.NoError(t, err)
			require.Len(t, got, 1, "row not imported")
			assert.Equal(t, fmt.Sprint(want[i]), fmt.Sprint(got[0]), "re-imported geometry differs from the original")
		})
	}

	// The same formatter is used for the WHERE clause of DELETE statements (keyless tables:
	// every column is part of the WHERE clause) in `dolt diff -r sql` / dolt_patch().
	t.Run("DELETE on keyless table", func(t *testing.T) {
		exec("CREATE TABLE kl (v INT, g GEOMETRY)")
		exec("INSERT INTO kl VALUES (1, POINT(1, 2)), (2, POINT(11.5, 112))")
		root, err := db.GetRoot(ctx)
		require.NoError(t, err)
		tbl, ok, err := root.GetTable(ctx, doltdb.TableName{Name: "kl"})
		require.NoError(t, err)
		require.True(t, ok)
		klSch, err := tbl.GetSchema(ctx)
		require.NoError(t, err)
		for _, r := range exec("SELECT * FROM kl ORDER BY v") {
			stmt, err := sqlfmt.SqlRowAsDeleteStmt(ctx, r, "kl", klSch, 1)
			require.NoError(t, err)
			t.Logf("statement: %q", stmt)
			_, xerr := sqle.QueryRows(ctx, engine, stmt)
			assert.NoError(t, xerr, "generated DELETE does not execute")
		}
		assert.Equal(t, "[[0]]", fmt.Sprint(exec("SELECT COUNT(*) FROM kl")), "generated DELETE statements did not remove the rows")
	})
}
