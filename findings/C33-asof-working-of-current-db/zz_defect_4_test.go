// Copyright 2026 Dolthub, Inc.
//
// Licensed under the Apache License, Version 2.0 (the "License");
// you may not use this file except in compliance with the License.
// You may obtain a copy of the License at
//
//     http://www.apache.org/licenses/LICENSE-2.0
//
// Unless required by applicable law or agreed to in writing, software
// distributed under the License is distributed on an "AS IS" BASIS,
// WITHOUT WARRANTIES OR CONDITIONS OF ANY KIND, either express or implied.
// See the License for the specific language governing permissions and
// limitations under the License.

package enginetest

import (
	"testing"

	"github.com/dolthub/go-mysql-server/enginetest"
	"github.com/dolthub/go-mysql-server/enginetest/queries"
	"github.com/dolthub/go-mysql-server/sql"
)

// TestZZDefect4AsOfWorkingOtherDatabase asserts that `AS OF 'WORKING'` and `AS OF 'STAGED'` on a table qualified with
// a database other than the current one read the working / staged root of THAT database, not of the current database.
func TestZZDefect4AsOfWorkingOtherDatabase(t *testing.T) {
	script := queries.ScriptTest{
		Name: "AS OF 'WORKING' / 'STAGED' on a table in another database",
		SetUpScript: []string{
			"create database db1",
			"create database db2",

			// db1: HEAD = {}, STAGED = {(1, db1 staged)}, WORKING = {(1, db1 staged), (2, db1 working)}
			"use db1",
			"create table t (pk int primary key, v varchar(20))",
			"call dolt_commit('-Am', 'db1: create t')",
			"insert into t values (1, 'db1 staged')",
			"call dolt_add('t')",
			"insert into t values (2, 'db1 working')",

			// db2: HEAD = {}, STAGED = {(10, db2 staged)}, WORKING = {(10, db2 staged), (20, db2 working)}
			// db2 also has a working-only table that doesn't exist in db1 at all
			"use db2",
			"create table t (pk int primary key, v varchar(20))",
			"call dolt_commit('-Am', 'db2: create t')",
			"insert into t values (10, 'db2 staged')",
			"call dolt_add('t')",
			"insert into t values (20, 'db2 working')",
			"create table only_in_db2 (pk int primary key)",
			"insert into only_in_db2 values (42)",

			"use db1",
		},
		Assertions: []queries.ScriptTestAssertion{
			{
				// sanity: the current database
				Query:    "select * from t as of 'WORKING' order by pk",
				Expected: []sql.Row{{1, "db1 staged"}, {2, "db1 working"}},
			},
			{
				Query:    "select * from t as of 'STAGED' order by pk",
				Expected: []sql.Row{{1, "db1 staged"}},
			},
			{
				// sanity: no AS OF, other database
				Query:    "select * from db2.t order by pk",
				Expected: []sql.Row{{10, "db2 staged"}, {20, "db2 working"}},
			},
			{
				// sanity: commit-ish AS OF, other database
				Query:    "select * from db2.t as of 'HEAD' order by pk",
				Expected: []sql.Row{},
			},
			{
				Query:    "select * from db2.t as of 'WORKING' order by pk",
				Expected: []sql.Row{{10, "db2 staged"}, {20, "db2 working"}},
			},
			{
				Query:    "select * from db2.t as of 'STAGED' order by pk",
				Expected: []sql.Row{{10, "db2 staged"}},
			},
			{
				Query:    "select * from db2.only_in_db2 as of 'WORKING'",
				Expected: []sql.Row{{42}},
			},
			{
				Query:    "show tables from db2 as of 'WORKING'",
				Expected: []sql.Row{{"only_in_db2"}, {"t"}},
			},
			{
				// and the other way around
				Query:    "use db2",
				Expected: []sql.Row{},
			},
			{
				Query:    "select * from db1.t as of 'WORKING' order by pk",
				Expected: []sql.Row{{1, "db1 staged"}, {2, "db1 working"}},
			},
			{
				Query:    "select * from db1.t as of 'STAGED' order by pk",
				Expected: []sql.Row{{1, "db1 staged"}},
			},
		},
	}

	h := newDoltHarness(t)
	defer h.Close()
	enginetest.TestScript(t, h, script)
}
