// Demonstration for finding "C03: the first commit of a brand-new journaled database publishes its root in the
// manifest before the chunk records are durable".
//
// Property C03: if the process stops at any instant while writing a journaled database, reopening shows the root of
// the last acknowledged commit (or of a commit that was in flight *and whose chunks are readable*).
//
// Crash point: inside ChunkJournal.Update of the first ever commit, after flushToBackingManifest (the table-file
// set changed: the journal is listed for the first time) and before commitRootHash flushed and fsynced the journal.
// The stop is produced by making the journal file unwritable at exactly that instant: the commit returns an error
// (it is NOT acknowledged) and the directory is snapshotted as the stopped process left it.
package nbs

import (
	"context"
	"io"
	"os"
	"path/filepath"
	"testing"

	"github.com/stretchr/testify/require"

	"github.com/dolthub/dolt/go/store/chunks"
	"github.com/dolthub/dolt/go/store/types"
	"github.com/dolthub/dolt/go/store/util/tempfiles"
)

// c03StopAfterManifestWrite lets the manifest update proceed and, as soon as its temp file was handed out, closes
// the journal file so that the root record which follows cannot be written: the process "stops" between the two.
type c03StopAfterManifestWrite struct {
	tempfiles.TempFileProvider
	onManifest func()
	fired      int
}

func (p *c03StopAfterManifestWrite) NewFile(dir, pattern string) (*os.File, error) {
	f, err := p.TempFileProvider.NewFile(dir, pattern)
	if err == nil && pattern == tempManifestPrefix {
		p.fired++
		p.onManifest()
	}
	return f, err
}

func c03SnapshotDir(t *testing.T, src, dst string) {
	t.Helper()
	entries, err := os.ReadDir(src)
	require.NoError(t, err)
	for _, e := range entries {
		if e.IsDir() {
			continue
		}
		in, err := os.Open(filepath.Join(src, e.Name()))
		require.NoError(t, err)
		out, err := os.Create(filepath.Join(dst, e.Name()))
		require.NoError(t, err)
		_, err = io.Copy(out, in)
		require.NoError(t, err)
		require.NoError(t, in.Close())
		require.NoError(t, out.Close())
	}
}

func TestC03FirstCommitOfNewJournaledDatabaseStoppedAfterManifestWrite(t *testing.T) {
	ctx := context.Background()
	nbf := types.Format_DOLT.VersionString()
	dir := t.TempDir()
	q := NewUnlimitedMemQuotaProvider()

	// a brand-new journaled database: no manifest, no commits
	st, err := NewLocalJournalingStore(ctx, nbf, dir, q, false, nil)
	require.NoError(t, err)
	r0, err := st.Root(ctx)
	require.NoError(t, err)
	require.True(t, r0.IsEmpty())

	c1 := chunks.NewChunk([]byte("c03 root value of the very first commit"))
	require.NoError(t, st.Put(ctx, c1, noopGetAddrs))
	r1 := c1.Hash()

	cj := st.chunkJournal()
	require.NotNil(t, cj)
	orig := tempfiles.MovableTempFileProvider
	stopper := &c03StopAfterManifestWrite{TempFileProvider: orig, onManifest: func() {
		// from now on nothing more reaches the journal file
		_ = cj.wr.journal.Close()
	}}
	tempfiles.MovableTempFileProvider = stopper
	ok, err := st.Commit(ctx, r1, r0)
	tempfiles.MovableTempFileProvider = orig
	require.Error(t, err, "the journal could not be written: the commit must not be acknowledged")
	require.False(t, ok)
	require.Equal(t, 1, stopper.fired)

	// the directory as the stopped process left it
	crashDir := t.TempDir()
	c03SnapshotDir(t, dir, crashDir)

	recovered, err := NewLocalJournalingStore(ctx, nbf, crashDir, q, false, nil)
	require.NoError(t, err)
	defer recovered.Close()
	root, err := recovered.Root(ctx)
	require.NoError(t, err)
	if root.IsEmpty() {
		return // the last acknowledged state: an empty database
	}
	// otherwise it may only be the commit in flight, complete
	require.Equal(t, r1, root)
	has, err := recovered.Has(ctx, root)
	require.NoError(t, err)
	require.True(t, has, "no commit was ever acknowledged, yet the reopened database shows root %s whose chunk was never written", root)
}
