// Demonstration for the C07 finding (copy into go/store/nbs/ to run):
//   go test -vet=off -count=1 -run TestC07PutBlockedByAbortedGCIsStillReferenceChecked ./store/nbs/
// A Put that is blocked by a garbage collection which then ends WITHOUT swapping tables (an aborted GC) must
// still have its child references checked at commit.
package nbs

import (
	"context"
	"errors"
	"testing"
	"time"

	"github.com/stretchr/testify/require"

	"github.com/dolthub/dolt/go/store/chunks"
	"github.com/dolthub/dolt/go/store/hash"
)

func TestC07PutBlockedByAbortedGCIsStillReferenceChecked(t *testing.T) {
	ctx := context.Background()
	st, _, _ := makeTestLocalStore(t, 8)
	defer st.Close()

	missing := hash.Of([]byte("a chunk that is in no store"))
	parent := chunks.NewChunk([]byte("parent chunk referencing the missing chunk"))
	getAddrs := func(c chunks.Chunk) chunks.InsertAddrsCb {
		return func(ctx context.Context, addrs hash.HashSet, _ chunks.PendingRefExists) error {
			if c.Hash() == parent.Hash() {
				addrs.Insert(missing)
			}
			return nil
		}
	}

	// control: without a GC the dangling reference is rejected at commit
	ctl, _, _ := makeTestLocalStore(t, 8)
	defer ctl.Close()
	require.NoError(t, ctl.Put(ctx, parent, getAddrs))
	root, err := ctl.Root(ctx)
	require.NoError(t, err)
	_, err = ctl.Commit(ctx, parent.Hash(), root)
	require.True(t, errors.Is(err, ErrDanglingRef), "control: expected ErrDanglingRef, got %v", err)

	// a GC begins whose keeper says "this chunk must wait for the collection to end"
	require.NoError(t, st.BeginGC(ctx, func(h hash.Hash) bool { return true }, chunks.GCMode_Full))
	done := make(chan error, 1)
	go func() { done <- st.Put(ctx, parent, getAddrs) }()
	select {
	case err := <-done:
		t.Fatalf("Put was expected to block on the running GC, returned %v", err)
	case <-time.After(300 * time.Millisecond):
	}
	// the collection is abandoned: EndGC without a table swap (what ValueStore.GC's deferred EndGC does on any error)
	st.EndGC(chunks.GCMode_Full)
	require.NoError(t, <-done)

	root, err = st.Root(ctx)
	require.NoError(t, err)
	ok, err := st.Commit(ctx, parent.Hash(), root)
	if err == nil && ok {
		has, herr := st.Has(ctx, missing)
		require.NoError(t, herr)
		t.Fatalf("a root whose chunk references %s was committed (missing chunk present: %v): the reference check was skipped for a Put that had been blocked by an aborted GC", missing, has)
	}
	require.True(t, errors.Is(err, ErrDanglingRef), "expected ErrDanglingRef, got ok=%v err=%v", ok, err)
}
