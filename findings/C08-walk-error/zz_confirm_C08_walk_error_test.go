// Copyright 2026 Dolthub, Inc.
//
// Licensed under the Apache License, Version 2.0 (the "License");
// you may not use this file except in compliance with the License.
// You may obtain a copy of the License at
//
//     http://www.apache.org/licenses/LICENSE-2.0
//
// Unless required by applicable law or agreed to in writing, software
// distributed under the License is distributed on an "AS IS" BASIS,
// WITHOUT WARRANTIES OR CONDITIONS OF ANY KIND, either express or implied.
// See the License for the specific language governing permissions and
// limitations under the License.

package nbs

// Demonstration for suspected defect C08-walk-error.
//
// markAndSweeper.SaveHashes assigns the error returned by the reference
// walker (|getAddrs|) to |addErr| and then unconditionally overwrites
// |addErr| with the result of addChunk. A walker failure is therefore
// never observed: the chunk is copied and marked visited, the children the
// walker did not get to report are never visited, and the collection
// "succeeds" with those children missing from the destination.
//
// Every test below expects the collection to FAIL when the walker fails.
// When the collection instead reports success, the test carries the GC
// through to the table swap and reports which reachable chunks were lost.

import (
	"context"
	"errors"
	"testing"

	fb "github.com/dolthub/flatbuffers/v23/go"
	"github.com/stretchr/testify/require"

	"github.com/dolthub/dolt/go/gen/fb/serial"
	"github.com/dolthub/dolt/go/store/chunks"
	"github.com/dolthub/dolt/go/store/hash"
	"github.com/dolthub/dolt/go/store/pool"
	"github.com/dolthub/dolt/go/store/prolly/message"
	"github.com/dolthub/dolt/go/store/types"
	"github.com/dolthub/dolt/go/store/val"
)

func c08PutAll(t *testing.T, ctx context.Context, st *NomsBlockStore, cs ...chunks.Chunk) {
	t.Helper()
	for _, c := range cs {
		require.NoError(t, st.Put(ctx, c, noopGetAddrs))
	}
}

func c08Has(t *testing.T, ctx context.Context, st *NomsBlockStore, h hash.Hash) bool {
	t.Helper()
	ok, err := st.Has(ctx, h)
	require.NoError(t, err)
	return ok
}

type c08Named struct {
	name string
	h    hash.Hash
}

// c08RunSweep drives one full mark-and-sweep the same way TestNBSCopyGC does,
// starting at |roots| with |walker|. It returns the error from SaveHashes. If
// SaveHashes succeeds the collection is carried through Finalize and
// SwapChunksInStore (so the source store now only holds what was copied). If
// SaveHashes fails the sweeper is closed and nothing is swapped.
func c08RunSweep(t *testing.T, ctx context.Context, st *NomsBlockStore, walker chunks.GetAddrs, incrementalFileSize uint64, roots ...hash.Hash) (saveErr error) {
	t.Helper()
	require.NoError(t, st.BeginGC(ctx, nil, chunks.GCMode_Full))
	defer st.EndGC(chunks.GCMode_Full)
	noopFilter := func(ctx context.Context, hashes hash.HashSet) (hash.HashSet, error) {
		return hashes, nil
	}
	gcConfig := chunks.NewGCConfig(chunks.GCMode_Full, chunks.NoArchive, incrementalFileSize)
	sweeper, err := st.MarkAndSweepChunks(ctx, walker, noopFilter, nil, gcConfig, false)
	require.NoError(t, err)
	saveErr = sweeper.SaveHashes(ctx, hash.NewHashSet(roots...))
	if saveErr != nil {
		require.NoError(t, sweeper.Close(ctx))
		return saveErr
	}
	finalizer, err := sweeper.Finalize(ctx)
	require.NoError(t, err)
	require.NoError(t, sweeper.Close(ctx))
	require.NoError(t, finalizer.SwapChunksInStore(ctx))
	require.NoError(t, finalizer.Close())
	return nil
}

// c08Judge is the common verdict. |reachable| are chunks that are reachable
// from the GC roots in the real graph; |garbage| is not reachable.
func c08Judge(t *testing.T, ctx context.Context, st *NomsBlockStore, gcErr error, wantCause error, reachable []c08Named, garbage c08Named) {
	t.Helper()
	if gcErr == nil {
		var lost []string
		for _, n := range reachable {
			if !c08Has(t, ctx, st, n.h) {
				lost = append(lost, n.name)
			}
		}
		t.Errorf("DEFECT C08-walk-error: the reference walker failed part-way through a chunk, "+
			"but the collection reported success and swapped tables. garbage collected=%v; "+
			"REACHABLE chunks lost by the collection: %v",
			!c08Has(t, ctx, st, garbage.h), lost)
		return
	}
	// Expected behaviour: the walker's error fails the collection...
	require.ErrorIs(t, gcErr, wantCause)
	t.Logf("collection failed as expected: %v", gcErr)
	// ...and nothing was swapped: every chunk, even the garbage, is still there.
	for _, n := range reachable {
		require.True(t, c08Has(t, ctx, st, n.h), "%s must still be in the store after a failed GC", n.name)
	}
	require.True(t, c08Has(t, ctx, st, garbage.h), "garbage must still be in the store: a failed GC must not swap tables")
}

// Test 1: unit-level. Parent P references A and B. The injected walker
// reports A for P and then fails before it reports B.
func TestConfirmC08_InjectedWalkerFailsMidWalk(t *testing.T) {
	for _, tc := range []struct {
		name        string
		incremental uint64
		// reportFirst: report A before failing (mid-walk) or fail before
		// reporting anything.
		reportFirst bool
	}{
		{"mid-walk/non-incremental", chunks.IncrementalGCTablesDisabled, true},
		{"before-any-child/non-incremental", chunks.IncrementalGCTablesDisabled, false},
		{"mid-walk/incremental-files", 1 << 20, true},
		{"before-any-child/incremental-files", 1 << 20, false},
	} {
		t.Run(tc.name, func(t *testing.T) {
			ctx := context.Background()
			st, _, _ := makeTestLocalStore(t, 8)
			defer st.Close()

			A := chunks.NewChunk([]byte("C08 child A " + tc.name))
			B := chunks.NewChunk([]byte("C08 child B " + tc.name))
			P := chunks.NewChunk([]byte("C08 parent P -> A, B " + tc.name))
			G := chunks.NewChunk([]byte("C08 garbage " + tc.name))
			c08PutAll(t, ctx, st, A, B, G, P)
			r, err := st.Root(ctx)
			require.NoError(t, err)
			ok, err := st.Commit(ctx, r, r)
			require.NoError(t, err)
			require.True(t, ok)

			errWalk := errors.New("injected: walker failed part-way through P")
			walker := func(c chunks.Chunk, cb func(hash.Hash) error) error {
				if c.Hash() != P.Hash() {
					return nil // A, B are leaves
				}
				if tc.reportFirst {
					if err := cb(A.Hash()); err != nil {
						return err
					}
				}
				return errWalk // B is never reported
			}

			gcErr := c08RunSweep(t, ctx, st, walker, tc.incremental, P.Hash())
			c08Judge(t, ctx, st, gcErr, errWalk,
				[]c08Named{{"P", P.Hash()}, {"A", A.Hash()}, {"B", B.Hash()}},
				c08Named{"G", G.Hash()})
		})
	}
}

type c08Variant int

const (
	c08WellFormed c08Variant = iota
	// The serial.Table root table carries one vtable slot more than this
	// binary's schema knows (TableNumFields+1).
	c08UnknownFieldOnTable
	// The nested serial.Conflicts table carries one extra vtable slot
	// (ConflictsNumFields+1).
	c08UnknownFieldOnConflicts
)

// c08TableMsg builds a serial.Table message exactly the way
// doltdb/durable.serialTableFields.write does. For the "unknown field"
// variants one additional trailing scalar field is appended to a table,
// which is what a writer built from a schema with one appended field emits.
func c08TableMsg(schema hash.Hash, primaryIndex, secondaryIndexes []byte, v c08Variant) []byte {
	b := fb.NewBuilder(1024)
	var empty hash.Hash

	schemaoff := b.CreateByteVector(schema[:])
	rowsoff := b.CreateByteVector(primaryIndex)
	indexesoff := b.CreateByteVector(secondaryIndexes)
	cdata := b.CreateByteVector(empty[:])
	cours := b.CreateByteVector(empty[:])
	ctheirs := b.CreateByteVector(empty[:])
	cbase := b.CreateByteVector(empty[:])

	if v == c08UnknownFieldOnConflicts {
		b.StartObject(serial.ConflictsNumFields + 1)
	} else {
		serial.ConflictsStart(b)
	}
	serial.ConflictsAddData(b, cdata)
	serial.ConflictsAddOurSchema(b, cours)
	serial.ConflictsAddTheirSchema(b, ctheirs)
	serial.ConflictsAddAncestorSchema(b, cbase)
	if v == c08UnknownFieldOnConflicts {
		b.PrependByteSlot(serial.ConflictsNumFields, 1, 0)
	}
	conflictsoff := serial.ConflictsEnd(b)

	violationsoff := b.CreateByteVector(empty[:])
	artifactsoff := b.CreateByteVector(empty[:])

	if v == c08UnknownFieldOnTable {
		b.StartObject(serial.TableNumFields + 1)
	} else {
		serial.TableStart(b)
	}
	serial.TableAddSchema(b, schemaoff)
	serial.TableAddPrimaryIndex(b, rowsoff)
	serial.TableAddSecondaryIndexes(b, indexesoff)
	serial.TableAddAutoIncrementValue(b, 7)
	serial.TableAddConflicts(b, conflictsoff)
	serial.TableAddViolations(b, violationsoff)
	serial.TableAddArtifacts(b, artifactsoff)
	if v == c08UnknownFieldOnTable {
		b.PrependByteSlot(serial.TableNumFields, 1, 0)
	}
	return serial.FinishMessage(b, serial.TableEnd(b), []byte(serial.TableFileID))
}

type c08Graph struct {
	table                         chunks.Chunk // the serial.Table message
	schema, secIdxChild, priChild chunks.Chunk // its three children
	garbage                       chunks.Chunk
}

func (g c08Graph) reachable() []c08Named {
	return []c08Named{
		{"table message", g.table.Hash()},
		{"schema", g.schema.Hash()},
		{"secondary index root", g.secIdxChild.Hash()},
		{"primary index child node", g.priChild.Hash()},
	}
}

// c08BuildGraph: a serial.Table message whose schema address, inlined
// secondary-index AddressMap (one entry) and inlined primary-index prolly
// node (an internal node with one child) each reference one other chunk.
func c08BuildGraph(t *testing.T, v c08Variant, salt string) c08Graph {
	t.Helper()
	bp := pool.NewBuffPool()
	var g c08Graph
	// The children are valid, walkable messages with no outgoing
	// addresses: prolly leaf nodes holding one key/value pair.
	emptyLeaf := func(tag string) chunks.Chunk {
		s := message.NewProllyMapSerializer(val.NewTupleDescriptor(), bp)
		msg := s.Serialize([][]byte{[]byte(tag + salt)}, [][]byte{[]byte("v")}, nil, 0)
		return chunks.NewChunk([]byte(msg))
	}
	g.schema = emptyLeaf("schema")
	g.secIdxChild = emptyLeaf("secondary-index-root")
	g.priChild = emptyLeaf("primary-index-child")
	g.garbage = emptyLeaf("garbage")

	secAddr := g.secIdxChild.Hash()
	secondary := message.NewAddressMapSerializer(bp).Serialize([][]byte{[]byte("idx_a")}, [][]byte{secAddr[:]}, nil, 0)
	priAddr := g.priChild.Hash()
	primary := message.NewProllyMapSerializer(val.NewTupleDescriptor(), bp).Serialize([][]byte{[]byte("k")}, [][]byte{priAddr[:]}, []uint64{1}, 1)

	g.table = chunks.NewChunk(c08TableMsg(g.schema.Hash(), primary, secondary, v))
	return g
}

func c08RealWalker(c chunks.Chunk, cb func(hash.Hash) error) error {
	// This is what ValueStore.walkAddrs (the walker ValueStore.gc hands to
	// MarkAndSweepChunks) does.
	return types.WalkAddrsFromNomsValue(c, types.Format_DOLT, cb)
}

// c08WalkReport runs the real walker on the table message and returns what
// it reported and the error it returned.
func c08WalkReport(g c08Graph) (reported []string, err error) {
	names := map[hash.Hash]string{
		g.schema.Hash():      "schema",
		g.secIdxChild.Hash(): "secondary index root",
		g.priChild.Hash():    "primary index child node",
	}
	err = c08RealWalker(g.table, func(h hash.Hash) error {
		n, ok := names[h]
		if !ok {
			n = "?" + h.String()
		}
		reported = append(reported, n)
		return nil
	})
	return
}

// Test 2: the real walker (types.WalkAddrsFromNomsValue ->
// SerialMessage.WalkAddrs) on a real serial.Table message.
func TestConfirmC08_RealTableMessageUnknownField(t *testing.T) {
	t.Run("control/well-formed table message", func(t *testing.T) {
		ctx := context.Background()
		st, _, _ := makeTestLocalStore(t, 8)
		defer st.Close()
		g := c08BuildGraph(t, c08WellFormed, "control")
		reported, err := c08WalkReport(g)
		require.NoError(t, err)
		require.ElementsMatch(t, []string{"schema", "secondary index root", "primary index child node"}, reported)

		c08PutAll(t, ctx, st, g.schema, g.secIdxChild, g.priChild, g.garbage, g.table)
		r, err := st.Root(ctx)
		require.NoError(t, err)
		_, err = st.Commit(ctx, r, r)
		require.NoError(t, err)

		require.NoError(t, c08RunSweep(t, ctx, st, c08RealWalker, chunks.IncrementalGCTablesDisabled, g.table.Hash()))
		for _, n := range g.reachable() {
			require.True(t, c08Has(t, ctx, st, n.h), n.name)
		}
		require.False(t, c08Has(t, ctx, st, g.garbage.Hash()), "garbage should have been collected")
	})

	for _, tc := range []struct {
		name         string
		v            c08Variant
		wantReported []string
	}{
		// InitTableRoot fails: nothing at all is reported.
		{"unknown field on serial.Table", c08UnknownFieldOnTable, nil},
		// schema is reported, then msg.TryConflicts(nil) fails: the index
		// addresses are never reported.
		{"unknown field on nested serial.Conflicts", c08UnknownFieldOnConflicts, []string{"schema"}},
	} {
		t.Run(tc.name, func(t *testing.T) {
			ctx := context.Background()
			st, _, _ := makeTestLocalStore(t, 8)
			defer st.Close()
			g := c08BuildGraph(t, tc.v, tc.name)

			// Precondition: the REAL walker fails mid-walk on this message.
			reported, err := c08WalkReport(g)
			require.ErrorIs(t, err, fb.ErrTableHasUnknownFields)
			require.ElementsMatch(t, tc.wantReported, reported)
			t.Logf("real WalkAddrs reported %v and then returned: %v", reported, err)

			c08PutAll(t, ctx, st, g.schema, g.secIdxChild, g.priChild, g.garbage, g.table)
			r, err := st.Root(ctx)
			require.NoError(t, err)
			_, err = st.Commit(ctx, r, r)
			require.NoError(t, err)

			gcErr := c08RunSweep(t, ctx, st, c08RealWalker, chunks.IncrementalGCTablesDisabled, g.table.Hash())
			c08Judge(t, ctx, st, gcErr, fb.ErrTableHasUnknownFields, g.reachable(), c08Named{"garbage", g.garbage.Hash()})
		})
	}
}

// Test 3: the same thing through the production driver: types.ValueStore.GC
// on a ValueStore that sits on the NomsBlockStore, with the store root
// pointing at the table message. No test-provided walker is involved.
func TestConfirmC08_ValueStoreGC_RealWalker(t *testing.T) {
	ctx := context.Background()
	st, _, _ := makeTestLocalStore(t, 8)
	vs := types.NewValueStore(st)
	defer vs.Close()

	g := c08BuildGraph(t, c08UnknownFieldOnConflicts, "valuestore")
	c08PutAll(t, ctx, st, g.schema, g.secIdxChild, g.priChild, g.garbage, g.table)
	r, err := st.Root(ctx)
	require.NoError(t, err)
	ok, err := st.Commit(ctx, g.table.Hash(), r)
	require.NoError(t, err)
	require.True(t, ok)
	for _, n := range g.reachable() {
		require.True(t, c08Has(t, ctx, st, n.h), n.name)
	}

	gcConfig := chunks.NewGCConfig(chunks.GCMode_Full, chunks.NoArchive, chunks.IncrementalGCTablesDisabled)
	gcErr := vs.GC(ctx, gcConfig, make(hash.HashSet), make(hash.HashSet), nil)
	c08Judge(t, ctx, st, gcErr, fb.ErrTableHasUnknownFields, g.reachable(), c08Named{"garbage", g.garbage.Hash()})
}
