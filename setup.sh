#!/bin/bash
# Builds the checker from files on disk only (offline) and warms Go's build cache with
# the export data of dolt's dependencies (used by go/packages LoadSyntax).
set -e
cd "$(dirname "$0")"
. ./env.sh
mkdir -p bin evidence
(cd checker && go build -o ../bin/dvcheck ./cmd/dvcheck)
# warm: one whole-module load (compiles export data for dependencies once; ~2-3 min cold, ~5 s warm)
./bin/dvcheck warm || true
echo "setup ok"
