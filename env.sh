# sourced by every command in MANIFEST.json
export GOFLAGS=-mod=mod GOPROXY=off GOSUMDB=off GOTOOLCHAIN=local GOWORK=off
export PATH=/opt/veriftools/go1.26.8/bin:$PATH
unset GOWORK_FILE
