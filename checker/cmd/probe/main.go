package main

import (
	"fmt"
	"os"
	"dvcheck/internal/load"
	"golang.org/x/tools/go/ssa/ssautil"
)

func main() {
	p, err := load.Load(load.Config{Patterns: os.Args[2:], AllDeps: os.Args[1] == "all"})
	if err != nil { fmt.Println(err); os.Exit(2) }
	fmt.Printf("pkgs=%d load=%.1fs ssa=%.1fs funcs=%d\n", len(p.Initial), p.LoadS, p.SSAS, len(ssautil.AllFunctions(p.SSA)))
}
