// dvcheck decides structural clauses of the dolt properties from the type-checked
// source of /repo/go.  It never executes dolt code.
package main

import (
	"encoding/json"
	"flag"
	"fmt"
	"os"
	"path/filepath"
	"sort"
	"strconv"
	"strings"
	"time"

	"dvcheck/internal/eng"
	"dvcheck/internal/load"
	"dvcheck/internal/rules"

	"golang.org/x/tools/go/ssa"
)

func verifDir() string {
	if d := os.Getenv("DVCHECK_VERIF"); d != "" {
		return d
	}
	return "/verif"
}

func main() {
	if len(os.Args) < 2 {
		usage()
	}
	eng.BaselinePath = filepath.Join(verifDir(), "baseline_funcs.tsv")
	switch os.Args[1] {
	case "check":
		os.Exit(cmdCheck(os.Args[2:]))
	case "replay":
		os.Exit(cmdReplay(os.Args[2:]))
	case "dump":
		os.Exit(cmdDump(os.Args[2:]))
	case "baseline":
		eng.BaselinePath = ""
		p, err := load.Load(load.Config{})
		if err != nil {
			fmt.Println(err)
			os.Exit(2)
		}
		for _, l := range eng.NewCtx(p).BaselineLines() {
			fmt.Println(l)
		}
	case "dropped":
		p, err := load.Load(load.Config{Patterns: []string{"./" + os.Args[2]}})
		if err != nil {
			fmt.Println(err)
			os.Exit(2)
		}
		ctx := eng.NewCtx(p)
		for _, d := range eng.DroppedErrors(ctx.Funcs(os.Args[2])) {
			fmt.Printf("%s\t%s\t%s\tdeferred=%v\n", ctx.InstrPos(d.Instr), eng.Name(d.Fn), d.Callee, d.Deferred)
		}
	case "warm":
		p, err := load.Load(load.Config{})
		if err != nil {
			fmt.Println(err)
			os.Exit(2)
		}
		fmt.Printf("warm: %d packages, load %.1fs, ssa %.1fs\n", len(p.Initial), p.LoadS, p.SSAS)
	case "callers":
		os.Exit(cmdCallers(os.Args[2:]))
	case "mutants":
		os.Exit(cmdMutants(os.Args[2:]))
	case "list":
		for _, id := range rules.IDs() {
			fmt.Println(id)
		}
	default:
		usage()
	}
}

func usage() {
	fmt.Fprintln(os.Stderr, "usage: dvcheck check [--tier quick|thorough] [--overlay m.json] [--no-evidence] Cxx... | replay <file> | dump <func-regexp> | mutants [Cxx...] | list")
	os.Exit(2)
}

type overlaySpec struct {
	File    string `json:"file"` // relative to repo root, e.g. go/store/nbs/journal_writer.go
	Find    string `json:"find"`
	Replace string `json:"replace"`
	Expect  string `json:"expect"` // substring of the obligation key expected to fire
	Note    string `json:"note"`
	Nth     int    `json:"nth"` // which occurrence of find (0 = must be unique)
}

func readOverlay(path string) (map[string][]byte, *overlaySpec, error) {
	b, err := os.ReadFile(path)
	if err != nil {
		return nil, nil, err
	}
	var sp overlaySpec
	if err := json.Unmarshal(b, &sp); err != nil {
		return nil, nil, err
	}
	root := strings.TrimSuffix(load.RepoDir(), "/go")
	abs := filepath.Join(root, sp.File)
	src, err := os.ReadFile(abs)
	if err != nil {
		return nil, &sp, err
	}
	n := strings.Count(string(src), sp.Find)
	if n == 0 {
		return nil, &sp, fmt.Errorf("STALE: find string does not occur in %s", sp.File)
	}
	var out string
	if sp.Nth == 0 {
		if n != 1 {
			return nil, &sp, fmt.Errorf("STALE: find string occurs %d times in %s (must be unique or nth given)", n, sp.File)
		}
		out = strings.Replace(string(src), sp.Find, sp.Replace, 1)
	} else {
		idx := -1
		pos := 0
		for i := 0; i < sp.Nth; i++ {
			j := strings.Index(string(src)[pos:], sp.Find)
			if j < 0 {
				return nil, &sp, fmt.Errorf("STALE: occurrence %d of find string not present in %s", sp.Nth, sp.File)
			}
			idx = pos + j
			pos = idx + len(sp.Find)
		}
		out = string(src)[:idx] + sp.Replace + string(src)[idx+len(sp.Find):]
	}
	return map[string][]byte{abs: []byte(out)}, &sp, nil
}

func cmdCheck(args []string) int {
	fs := flag.NewFlagSet("check", flag.ExitOnError)
	tier := fs.String("tier", os.Getenv("VERIF_TIER"), "quick|thorough")
	overlay := fs.String("overlay", "", "mutant overlay json (self-test only)")
	patch := fs.String("patch", "", "unified diff (relative to the repo root) analysed as an in-memory overlay; /repo is not modified (self-test only)")
	noEv := fs.Bool("no-evidence", false, "do not write evidence (self-test only)")
	only := fs.String("only", "", "restrict the verdict to one obligation key (replay)")
	fs.Parse(args)
	if *tier == "" {
		*tier = "quick"
	}
	ids := fs.Args()
	if len(ids) == 1 && ids[0] == "all" {
		ids = rules.IDs()
	}
	if len(ids) == 0 {
		usage()
	}
	seed, _ := strconv.Atoi(os.Getenv("VERIF_SEED"))
	t0 := time.Now()
	cfg := load.Config{}
	pats := map[string]bool{}
	for _, id := range ids {
		r, ok := rules.Registry[id]
		if !ok {
			fmt.Fprintf(os.Stderr, "no rules for %s\n", id)
			return 2
		}
		if len(r.Patterns) == 0 || (*tier == "thorough" && *overlay == "" && *patch == "") {
			pats = map[string]bool{"./...": true}
			break
		}
		for _, p := range r.Patterns {
			pats[p] = true
		}
	}
	if pats["./..."] {
		cfg.Patterns = []string{"./..."}
	} else {
		for p := range pats {
			cfg.Patterns = append(cfg.Patterns, p)
		}
		sort.Strings(cfg.Patterns)
	}
	if *overlay != "" {
		ov, _, err := readOverlay(*overlay)
		if err != nil {
			fmt.Println("overlay:", err)
			return 3
		}
		cfg.Overlay = ov
	}
	if *patch != "" {
		ov, err := patchOverlay(*patch)
		if err != nil {
			fmt.Println("patch:", err)
			return 3
		}
		cfg.Overlay = ov
		*noEv = true
	}
	prog, err := load.Load(cfg)
	if err != nil {
		// a tree that does not load cannot be decided: undecided == fails
		for _, id := range ids {
			fmt.Printf("VIOLATION property=%s replay=%s\n  undecided: cannot load/type-check /repo/go: %v\n", id, "-", err)
		}
		return 1
	}
	ctx := eng.NewCtx(prog)
	known, err := eng.LoadKnown(filepath.Join(verifDir(), "known_findings.json"))
	if err != nil {
		fmt.Fprintln(os.Stderr, "known_findings.json:", err)
		return 2
	}
	rc := 0
	loadWall := time.Since(t0).Seconds()
	for _, id := range ids {
		r, ok := rules.Registry[id]
		if !ok {
			fmt.Fprintf(os.Stderr, "no rules for %s\n", id)
			return 2
		}
		t1 := time.Now()
		k := eng.NewCheck(id, ctx)
		func() {
			defer func() {
				if p := recover(); p != nil {
					k.Unknown("checker-panic", id, "the checker must not panic", fmt.Sprint(p))
				}
			}()
			r.Run(k, *tier)
		}()
		k.Explanation = r.Explanation
		k.RuleText = r.RuleText
		k.Assumptions = append(k.Assumptions, r.Assumptions...)
		if *only != "" {
			var keep []*eng.Obl
			for _, o := range k.Obls {
				if o.Key() == *only {
					keep = append(keep, o)
				}
			}
			if len(keep) == 0 {
				k.Obls = nil
				k.Unknown("replay", *only, "replayed obligation must still exist", "no obligation with this key is produced any more")
			} else {
				k.Obls = keep
			}
		}
		dir := verifDir()
		if *noEv {
			dir, _ = os.MkdirTemp("", "dvcheck-noev")
			defer os.RemoveAll(dir)
		}
		extra := map[string]any{}
		if *tier == "thorough" && *overlay == "" && *patch == "" && *only == "" {
			extra["mutants"] = runMutants(id)
		}
		if e := k.Finish(dir, *tier, seed, loadWall+time.Since(t1).Seconds(), known, extra); e > rc {
			rc = e
		}
	}
	return rc
}

func cmdReplay(args []string) int {
	if len(args) != 1 {
		usage()
	}
	b, err := os.ReadFile(args[0])
	if err != nil {
		fmt.Fprintln(os.Stderr, err)
		return 2
	}
	var r struct {
		Property string `json:"property"`
		Key      string `json:"key"`
	}
	if err := json.Unmarshal(b, &r); err != nil {
		fmt.Fprintln(os.Stderr, err)
		return 2
	}
	return cmdCheck([]string{"--no-evidence", "--only", r.Key, r.Property})
}

func cmdDump(args []string) int {
	prog, err := load.Load(load.Config{})
	if err != nil {
		fmt.Println(err)
		return 2
	}
	ctx := eng.NewCtx(prog)
	for _, a := range args {
		eng.Dump(ctx, a, os.Stdout)
	}
	return 0
}

// ---- overlay mutants (sensitivity self-test; never part of the verdict) ----

type mutantResult struct {
	File   string `json:"mutant"`
	Status string `json:"status"` // killed | survived | stale | error
	Detail string `json:"detail,omitempty"`
}

func mutantFiles(id string) []string {
	fs, _ := filepath.Glob(filepath.Join(verifDir(), "mutants", id, "*.json"))
	sort.Strings(fs)
	return fs
}

func runMutants(id string) map[string]any {
	res := []mutantResult{}
	killed, stale, survived := 0, 0, 0
	for _, f := range mutantFiles(id) {
		r := runMutant(id, f)
		switch r.Status {
		case "killed":
			killed++
		case "stale":
			stale++
		default:
			survived++
		}
		res = append(res, r)
	}
	return map[string]any{"run": len(res), "killed": killed, "stale": stale, "not_killed": survived, "results": res}
}

func cmdMutants(args []string) int {
	ids := args
	if len(ids) == 0 {
		ids = rules.IDs()
	}
	bad := 0
	for _, id := range ids {
		for _, f := range mutantFiles(id) {
			r := runMutant(id, f)
			fmt.Printf("%-8s %-9s %s %s\n", id, r.Status, filepath.Base(f), r.Detail)
			if r.Status != "killed" {
				bad++
			}
		}
	}
	if bad > 0 {
		return 1
	}
	return 0
}

// cmdCallers lists call sites whose callee name matches a regexp (development aid).
func cmdCallers(args []string) int {
	prog, err := load.Load(load.Config{})
	if err != nil {
		fmt.Println(err)
		return 2
	}
	ctx := eng.NewCtx(prog)
	m := eng.Named(args[0])
	prefix := ""
	if len(args) > 1 {
		prefix = args[1]
	}
	for _, fn := range ctx.FuncsUnder(prefix) {
		for _, c := range eng.Calls(fn, m, true) {
			var as []string
			for _, a := range c.Common().Args {
				as = append(as, eng.Desc(a, 4))
			}
			fmt.Printf("%s\t%s\t%s(%s)\n", ctx.InstrPos(c.(ssa.Instruction)), eng.Name(fn), eng.CalleeName(c), strings.Join(as, ", "))
		}
	}
	return 0
}
