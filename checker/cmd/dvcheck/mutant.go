package main

import (
	"bytes"
	"os"
	"os/exec"
	"strings"
)

// runMutant re-runs the property's check in a child process with the overlay applied in memory.
func runMutant(id, file string) mutantResult {
	_, sp, err := readOverlay(file)
	if err != nil {
		st := "error"
		if strings.HasPrefix(err.Error(), "STALE") {
			st = "stale"
		}
		return mutantResult{File: file, Status: st, Detail: err.Error()}
	}
	exe, _ := os.Executable()
	cmd := exec.Command(exe, "check", "--no-evidence", "--overlay", file, id)
	var out bytes.Buffer
	cmd.Stdout = &out
	cmd.Stderr = &out
	cmd.Env = os.Environ()
	err = cmd.Run()
	s := out.String()
	if err == nil {
		return mutantResult{File: file, Status: "survived", Detail: "check passed on the mutant"}
	}
	if strings.Contains(s, "cannot load/type-check") {
		return mutantResult{File: file, Status: "error", Detail: "mutant does not type-check: " + firstLines(s, 6)}
	}
	if !strings.Contains(s, "VIOLATION property="+id) {
		return mutantResult{File: file, Status: "error", Detail: firstLines(s, 4)}
	}
	if sp.Expect != "" && !strings.Contains(s, sp.Expect) {
		return mutantResult{File: file, Status: "survived", Detail: "violation reported but not the expected construct " + sp.Expect + ": " + firstLines(s, 4)}
	}
	return mutantResult{File: file, Status: "killed", Detail: sp.Expect}
}

func firstLines(s string, n int) string {
	ls := strings.Split(strings.TrimSpace(s), "\n")
	if len(ls) > n {
		ls = ls[:n]
	}
	return strings.Join(ls, " | ")
}
