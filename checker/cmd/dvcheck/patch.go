package main

import (
	"bufio"
	"fmt"
	"os"
	"os/exec"
	"path/filepath"
	"strings"

	"dvcheck/internal/load"
)

// patchOverlay applies a unified diff to private copies of the files it touches and returns them as an
// overlay (absolute path in the analysed repository -> patched contents).  The repository is not modified.
func patchOverlay(patchFile string) (map[string][]byte, error) {
	abs, err := filepath.Abs(patchFile)
	if err != nil {
		return nil, err
	}
	root := strings.TrimSuffix(load.RepoDir(), "/go")
	tmp, err := os.MkdirTemp("", "dvcheck-patch")
	if err != nil {
		return nil, err
	}
	defer os.RemoveAll(tmp)
	f, err := os.Open(abs)
	if err != nil {
		return nil, err
	}
	files := map[string]bool{}
	sc := bufio.NewScanner(f)
	sc.Buffer(make([]byte, 1<<20), 1<<26)
	for sc.Scan() {
		ln := sc.Text()
		for _, pre := range []string{"--- a/", "+++ b/"} {
			if strings.HasPrefix(ln, pre) {
				files[strings.TrimSpace(strings.TrimPrefix(ln, pre))] = true
			}
		}
	}
	f.Close()
	if len(files) == 0 {
		return nil, fmt.Errorf("no files found in %s", patchFile)
	}
	for rel := range files {
		src := filepath.Join(root, rel)
		dst := filepath.Join(tmp, rel)
		os.MkdirAll(filepath.Dir(dst), 0o755)
		if b, err := os.ReadFile(src); err == nil {
			os.WriteFile(dst, b, 0o644)
		}
	}
	cmd := exec.Command("git", "apply", "--unsafe-paths", "-p1", abs)
	cmd.Dir = tmp
	if out, err := cmd.CombinedOutput(); err != nil {
		return nil, fmt.Errorf("git apply: %v: %s", err, out)
	}
	ov := map[string][]byte{}
	for rel := range files {
		b, err := os.ReadFile(filepath.Join(tmp, rel))
		if err != nil {
			return nil, fmt.Errorf("file %s removed by the patch: not supported", rel)
		}
		ov[filepath.Join(root, rel)] = b
	}
	return ov, nil
}
