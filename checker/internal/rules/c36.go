package rules

import (
	"fmt"
	"go/ast"
	"go/constant"
	"go/token"
	"os"
	"sort"
	"strings"

	"dvcheck/internal/eng"

	"golang.org/x/tools/go/ssa"
)

func init() {
	Registry["C36"] = &Rule{
		Explanation: "Decides one clause of dump fidelity: every SQL type whose literal must be quoted is quoted or hex-encoded by the SQL row formatter. (1) quoted-type-has-case: every vitess query.Type constant carrying the ISQUOTED flag bit (read by go/constant value from the vitess package) has an explicit case in the switch over sqlType.Type() of sqlfmt.interfaceValueAsSqlString, except BIT (vitess' own IsQuoted excludes it; BIT literals are emitted as integers); (2) quoted-type-result-quoted: every success return lexically inside such a case yields the result of quoteAndEscapeString, of hexEncodeBytes, or a concatenation that starts and ends with the single-quote constant; (3) escape-via-encodesql: quoteAndEscapeString returns only after sqltypes.Value.EncodeSQL ran on a value created with a quoted vitess type, and hexEncodeBytes returns \"0x\" + hex of its argument; (4) tuple-matches-column-list: the value tuple and the INSERT column list skip columns under the same column predicates (IsGenerated), so values line up with their columns, and every non-skipped non-NULL value goes through the formatter. It does not decide CSV/JSON/Parquet export, DDL text, or that the string handed to the quoting functions is a faithful rendering of the value.",
		RuleText:    "table agreement between declared constants with a flag bit and switch case sets (go/constant values); shape of SSA return operands inside a case clause; cut-reachability for the escaping call",
		Assumptions: []string{"sqltypes.Value.EncodeSQL escapes quotes, backslashes and control characters for quoted types (vitess)", "MySQL accepts 0x... hexadecimal literals for binary columns"},
		Patterns:    []string{"./libraries/doltcore/sqle/sqlfmt"},
		Run:         runC36,
	}
}

const (
	c36SqlfmtPkg   = "libraries/doltcore/sqle/sqlfmt"
	c36VtQueryPkg  = "github.com/dolthub/vitess/go/vt/proto/query"
	c36VtSqlTypes  = "github.com/dolthub/vitess/go/sqltypes"
	c36FnQuoteEsc  = c36SqlfmtPkg + ".quoteAndEscapeString"
	c36FnHexEncode = c36SqlfmtPkg + ".hexEncodeBytes"
)

// isSingleQuoteConst: the string constant "'".
func c36IsStrConst(v ssa.Value, s string) bool {
	c, ok := v.(*ssa.Const)
	return ok && c.Value != nil && c.Value.Kind() == constant.String && constant.StringVal(c.Value) == s
}

// c36ConcatEnds returns the leftmost and rightmost leaves of a string concatenation tree.
func c36ConcatEnds(v ssa.Value) (ssa.Value, ssa.Value) {
	l, r := v, v
	for {
		b, ok := l.(*ssa.BinOp)
		if !ok || b.Op != token.ADD {
			break
		}
		l = b.X
	}
	for {
		b, ok := r.(*ssa.BinOp)
		if !ok || b.Op != token.ADD {
			break
		}
		r = b.Y
	}
	return l, r
}

// c36QuotedResult classifies the string returned for a quoted type:
// "escaped" (quoteAndEscapeString / hexEncodeBytes), "bare" ('…' wrapper without escaping) or "" (unquoted).
// A helper of the sqlfmt package is looked through: it is as good as the weakest of its success returns.
func c36QuotedResult(v ssa.Value) string { return c36Quoted(v, 0) }

func c36Quoted(v ssa.Value, depth int) string {
	weakest := func(qs []string) string {
		res := ""
		for i, q := range qs {
			if q == "" {
				return ""
			}
			if i == 0 || q == "bare" {
				res = q
			}
		}
		return res
	}
	switch x := v.(type) {
	case *ssa.Call:
		f := x.Call.StaticCallee()
		if f == nil {
			return ""
		}
		n := eng.Name(f)
		if n == c36FnQuoteEsc || n == c36FnHexEncode {
			return "escaped"
		}
		if p := eng.FuncPkg(f); p != nil && strings.HasSuffix(p.Path(), "/"+c36SqlfmtPkg) && len(f.Blocks) > 0 && depth < 2 {
			var qs []string
			for in := range c36AllReturns(f).I {
				ret := in.(*ssa.Return)
				if len(ret.Results) == 0 {
					return ""
				}
				if len(ret.Results) >= 2 {
					if e, isC := ret.Results[len(ret.Results)-1].(*ssa.Const); !isC || e.Value != nil {
						continue // error return of the helper
					}
				}
				qs = append(qs, c36Quoted(ret.Results[0], depth+1))
			}
			return weakest(qs)
		}
	case *ssa.Extract:
		if x.Index == 0 {
			return c36Quoted(x.Tuple, depth)
		}
	case *ssa.BinOp:
		l, r := c36ConcatEnds(x)
		if l != r && c36IsStrConst(l, "'") && c36IsStrConst(r, "'") {
			return "bare"
		}
	case *ssa.Phi:
		var qs []string
		for _, e := range x.Edges {
			qs = append(qs, c36Quoted(e, depth))
		}
		return weakest(qs)
	}
	return ""
}

func runC36(k *eng.Check, tier string) {
	c := k.C
	fn := k.Fn(c36SqlfmtPkg + ".interfaceValueAsSqlString")
	if fn != nil {
		c36Formatter(k, fn)
	}

	// (3) the quoting helpers
	if q := k.Fn(c36FnQuoteEsc); q != nil {
		enc := eng.Static("(" + c36VtSqlTypes + ".Value).EncodeSQL")
		k.OnlyAfter("escape-via-encodesql", q, "quoteAndEscapeString returns only after sqltypes.Value.EncodeSQL ran", c36AllReturns(q), 1, eng.CallSet(q, enc))
		nv := eng.Calls(q, eng.Static(c36VtSqlTypes+".NewValue"), false)
		if len(nv) < 1 {
			k.Unknown("escape-via-encodesql", eng.Name(q)+"#NewValue", "the value handed to EncodeSQL is built by sqltypes.NewValue", "no call to sqltypes.NewValue found")
		}
		flag := c36QuotedFlag(k)
		for _, call := range nv {
			ok, why := false, "the type argument of NewValue is not a constant"
			if cst, isC := call.Common().Args[0].(*ssa.Const); isC && cst.Value != nil && flag != 0 {
				if iv, exact := constant.Int64Val(cst.Value); exact {
					ok = iv&flag != 0
					why = fmt.Sprintf("NewValue is given type %d which does not carry the ISQUOTED flag: EncodeSQL writes the bytes unquoted and unescaped", iv)
				}
			}
			k.Require("escape-via-encodesql", eng.Name(q)+"#NewValue-type", "the value encoded by quoteAndEscapeString has a quoted vitess type (so EncodeSQL quotes and escapes it)", ok, c.InstrPos(call.(ssa.Instruction)), why)
		}
		// the returned string comes from the buffer EncodeSQL wrote to
		for in := range c36AllReturns(q).I {
			ret := in.(*ssa.Return)
			fromBuf := false
			if call, ok := ret.Results[0].(*ssa.Call); ok {
				if f := call.Call.StaticCallee(); f != nil && eng.Name(f) == "(*bytes.Buffer).String" {
					for _, e := range eng.Calls(q, enc, false) {
						if len(e.Common().Args) >= 2 && c36SameRoot(e.Common().Args[1], call.Call.Args[0]) {
							fromBuf = true
						}
					}
				}
			}
			k.Require("escape-via-encodesql", eng.Name(q)+"#result", "quoteAndEscapeString returns the contents of the buffer EncodeSQL wrote to", fromBuf, c.InstrPos(in), "the returned string is not the String() of the buffer passed to EncodeSQL")
		}
	}
	if h := k.Fn(c36FnHexEncode); h != nil {
		for in := range c36AllReturns(h).I {
			ret := in.(*ssa.Return)
			// leaves of the concatenation, left to right
			var leaves []ssa.Value
			var flat func(v ssa.Value)
			flat = func(v ssa.Value) {
				if b, ok := v.(*ssa.BinOp); ok && b.Op == token.ADD {
					flat(b.X)
					flat(b.Y)
					return
				}
				leaves = append(leaves, v)
			}
			flat(ret.Results[0])
			isHex := func(v ssa.Value) bool {
				call, ok := v.(*ssa.Call)
				if !ok {
					return false
				}
				f := call.Call.StaticCallee()
				return f != nil && eng.Name(f) == "encoding/hex.EncodeToString" && len(h.Params) == 1 &&
					eng.Slice(call.Call.Args[0], false, func(x ssa.Value) bool { return x == ssa.Value(h.Params[0]) })
			}
			ok := false
			switch {
			case len(leaves) == 2 && c36IsStrConst(leaves[0], "0x") && isHex(leaves[1]):
				ok = true // 0xAB12
			case len(leaves) == 3 && (c36IsStrConst(leaves[0], "x'") || c36IsStrConst(leaves[0], "X'")) && isHex(leaves[1]) && c36IsStrConst(leaves[2], "'"):
				ok = true // X'AB12'
			}
			k.Require("escape-via-encodesql", eng.Name(h)+"#result", "hexEncodeBytes returns a MySQL hexadecimal literal (0x… or X'…') of its argument", ok, c.InstrPos(in), "result is not 0x<hex(argument)> nor X'<hex(argument)>'")
		}
	}

	// (4) tuple and column list skip the same columns
	c36TupleAgreement(k)
	c36DebugObls(k)
}

// c36DebugObls prints every obligation when DVCHECK_DEBUG is set (development aid; no effect on the verdict).
func c36DebugObls(k *eng.Check) {
	if os.Getenv("DVCHECK_DEBUG") == "" {
		return
	}
	for _, o := range k.Obls {
		fmt.Printf("  [%s] %s  -- %s %s %s\n", o.Status, o.Key(), o.Desc, o.Pos, o.Why)
	}
}

func c36AllReturns(fn *ssa.Function) *eng.Set {
	s := eng.NewSet()
	for _, b := range fn.Blocks {
		if len(b.Instrs) == 0 || b == fn.Recover {
			continue
		}
		if r, ok := b.Instrs[len(b.Instrs)-1].(*ssa.Return); ok {
			s.AddI(r)
		}
	}
	return s
}

// c36SameRoot: both values are (loads of / pointers to) the same allocation or the same value.
func c36SameRoot(a, b ssa.Value) bool {
	root := func(v ssa.Value) ssa.Value {
		for {
			switch x := v.(type) {
			case *ssa.MakeInterface:
				v = x.X
			case *ssa.ChangeInterface:
				v = x.X
			case *ssa.ChangeType:
				v = x.X
			default:
				return v
			}
		}
	}
	return root(a) == root(b)
}

// c36QuotedFlag reads the value of vitess' ISQUOTED flag bit.
func c36QuotedFlag(k *eng.Check) int64 {
	fl := k.C.PackageConsts(c36VtQueryPkg, "Flag", func(n string) bool { return n == "Flag_ISQUOTED" })
	if len(fl) != 1 {
		k.Unknown("quoted-type-has-case", "query.Flag_ISQUOTED", "the vitess flag bit marking quoted types", "constant not found")
		return 0
	}
	v, _ := constant.Int64Val(fl[0].Val)
	return v
}

func c36Formatter(k *eng.Check, fn *ssa.Function) {
	c := k.C
	flag := c36QuotedFlag(k)
	if flag == 0 {
		return
	}
	var sw *eng.SwitchTable
	for _, st := range c.Switches(fn, false) {
		if c40IsQueryType(st.TagType) {
			s := st
			sw = &s
			break
		}
	}
	if sw == nil {
		k.Unknown("quoted-type-has-case", eng.Name(fn), "switch over sqlType.Type()", "no switch over query.Type found in the formatter")
		return
	}
	exceptions := map[string]string{
		"Type_BIT": "vitess excludes BIT from IsQuoted (sqltypes.IsQuoted: flag set && t != Bit); BIT values are rendered as integer literals, which MySQL accepts for BIT columns",
	}
	all := c.PackageConsts(c36VtQueryPkg, "Type", func(n string) bool { return strings.HasPrefix(n, "Type_") })
	var quoted []eng.ConstDecl
	for _, d := range all {
		if iv, ok := constant.Int64Val(d.Val); ok && iv&flag != 0 {
			quoted = append(quoted, d)
		}
	}
	if len(quoted) < 15 {
		k.Unknown("quoted-type-has-case", "query.Type", "vitess types carrying the ISQUOTED flag", fmt.Sprintf("found %d (confirmed floor 15)", len(quoted)))
	}
	// success returns by clause
	rets := c36AllReturns(fn)
	for _, d := range quoted {
		if why, ok := exceptions[d.Name]; ok {
			if _, has := sw.Consts[d.Value]; !has {
				k.Pass("quoted-type-has-case", "query."+d.Name, "frozen exception: "+why, 1)
				continue
			}
		}
		cc := c.ClauseFor(fn, *sw, d.Value)
		if !k.Require("quoted-type-has-case", "query."+d.Name, "a quoted SQL type has an explicit case in the row formatter", cc != nil, c.Pos(sw.Node.Pos()),
			"query."+d.Name+" carries the ISQUOTED flag but falls into the default branch, which emits the value unquoted") {
			continue
		}
		n, bad, bare := 0, "", false
		var badPos, barePos string
		for in := range rets.I {
			ret := in.(*ssa.Return)
			if ret.Pos() < cc.Pos() || ret.Pos() > cc.End() || len(ret.Results) != 2 {
				continue
			}
			if e, isC := ret.Results[1].(*ssa.Const); !isC || e.Value != nil {
				continue // error return
			}
			n++
			switch c36QuotedResult(ret.Results[0]) {
			case "":
				bad = eng.Desc(ret.Results[0], 3)
				badPos = c.InstrPos(in)
			case "bare":
				bare = true
				barePos = c.InstrPos(in)
			}
		}
		if n == 0 {
			k.Unknown("quoted-type-result-quoted", "query."+d.Name, "success returns of the case", "no success return found inside the case clause")
			continue
		}
		if bad != "" {
			k.Fail("quoted-type-result-quoted", "query."+d.Name, "every success return of the case yields a quoted, escaped or hex-encoded literal", badPos,
				"a success return of this case yields "+bad+", which is neither quoteAndEscapeString(..), hexEncodeBytes(..) nor '…' wrapped", nil)
			continue
		}
		if bare {
			if why, ok := c36QuoteFree[d.Name]; ok {
				k.Pass("quoted-type-result-quoted", "query."+d.Name, "wrapped in single quotes without escaping; acceptable: "+why, n)
			} else {
				k.Fail("quoted-type-result-quoted", "query."+d.Name, "a value whose text may contain quote, backslash or control characters is escaped (or hex-encoded), not merely wrapped in single quotes", barePos,
					"the case returns '+str+' without escaping, and the rendering of this type is not in the frozen quote-free table: a value containing a single quote or backslash byte produces a broken or different literal", nil)
			}
			continue
		}
		k.Pass("quoted-type-result-quoted", "query."+d.Name, "every success return of the case yields an escaped or hex-encoded literal", n)
	}
}

// c36QuoteFree lists the quoted types whose text rendering consists of digits and the
// punctuation '-', ':', '.', ' ' only, so wrapping in single quotes without escaping is faithful.
var c36QuoteFree = map[string]string{
	"Type_DATE":      "rendered as YYYY-MM-DD",
	"Type_DATETIME":  "rendered as YYYY-MM-DD hh:mm:ss[.ffffff]",
	"Type_TIMESTAMP": "rendered as YYYY-MM-DD hh:mm:ss[.ffffff]",
	"Type_TIME":      "rendered as [-]hh:mm:ss[.ffffff]",
}

// c36ColumnPredicates: methods of schema.Column whose result controls a branch in fn or its literals.
func c36ColumnPredicates(fn *ssa.Function) map[string]bool {
	out := map[string]bool{}
	for _, f := range eng.WithAnons(fn) {
		for _, b := range f.Blocks {
			if len(b.Instrs) == 0 {
				continue
			}
			iff, ok := b.Instrs[len(b.Instrs)-1].(*ssa.If)
			if !ok {
				continue
			}
			eng.Slice(iff.Cond, false, func(v ssa.Value) bool {
				if call, ok := v.(*ssa.Call); ok {
					if cal := call.Call.StaticCallee(); cal != nil && cal.Signature.Recv() != nil {
						if n := c40NamedOf(cal.Signature.Recv().Type()); n != nil && n.Obj().Name() == "Column" && n.Obj().Pkg() != nil && strings.HasSuffix(n.Obj().Pkg().Path(), "/doltcore/schema") {
							out[cal.Name()] = true
						}
					}
				}
				return false
			})
		}
	}
	return out
}

func c36TupleAgreement(k *eng.Check) {
	c := k.C
	pre := k.Fn(c36SqlfmtPkg + ".InsertStatementPrefix")
	tup := k.Fn(c36SqlfmtPkg + ".SqlRowAsTupleString")
	if pre == nil || tup == nil {
		return
	}
	pp, tp := c36ColumnPredicates(pre), c36ColumnPredicates(tup)
	keys := func(m map[string]bool) string {
		var s []string
		for x := range m {
			s = append(s, x)
		}
		sort.Strings(s)
		return strings.Join(s, ",")
	}
	if len(pp) == 0 && len(tp) == 0 {
		k.Unknown("tuple-matches-column-list", c36SqlfmtPkg, "column predicates that skip columns in the INSERT column list / value tuple", "none found (confirmed: both skip generated columns)")
	} else {
		k.Require("tuple-matches-column-list", "SqlRowAsTupleString~InsertStatementPrefix", "the value tuple and the INSERT column list branch on the same column predicates (so the same columns are skipped)",
			keys(pp) == keys(tp), c.Pos(tup.Pos()), "column list branches on {"+keys(pp)+"} but the value tuple on {"+keys(tp)+"}: values no longer line up with the listed columns")
	}
	// every value that is written comes from the formatter or is the NULL literal
	fm := eng.Static(c36SqlfmtPkg + ".interfaceValueAsSqlString")
	if len(eng.Calls(tup, fm, false)) < 1 {
		k.Unknown("tuple-matches-column-list", eng.Name(tup)+"#formatter", "the tuple writer formats values through interfaceValueAsSqlString", "no call found")
		return
	}
	// WriteString calls whose argument is a non-constant string must be reachable only after the formatter or on the nil edge
	ws := eng.NewSet()
	n := 0
	for _, call := range eng.Calls(tup, eng.Static("(*strings.Builder).WriteString"), false) {
		arg := call.Common().Args[1]
		if _, isC := arg.(*ssa.Const); isC {
			continue
		}
		n++
		ok := true
		// each incoming non-constant value of the written string is the formatter's result
		var leaves []ssa.Value
		var walk func(v ssa.Value, seen map[ssa.Value]bool)
		walk = func(v ssa.Value, seen map[ssa.Value]bool) {
			if seen[v] {
				return
			}
			seen[v] = true
			if p, isP := v.(*ssa.Phi); isP {
				for _, e := range p.Edges {
					walk(e, seen)
				}
				return
			}
			leaves = append(leaves, v)
		}
		walk(arg, map[ssa.Value]bool{})
		for _, l := range leaves {
			if c36IsStrConst(l, "NULL") {
				continue
			}
			if ex, isE := l.(*ssa.Extract); isE && ex.Index == 0 {
				if cl, isCall := ex.Tuple.(*ssa.Call); isCall && fm(cl) {
					continue
				}
			}
			ok = false
		}
		ws.AddI(call.(ssa.Instruction))
		k.Require("tuple-matches-column-list", eng.Name(tup)+"#value-source", "every value written into the tuple is the NULL literal or the result of interfaceValueAsSqlString", ok, c.InstrPos(call.(ssa.Instruction)),
			"a value reaches the output without passing through the SQL literal formatter")
	}
	if n < 1 {
		k.Unknown("tuple-matches-column-list", eng.Name(tup)+"#value-source", "the write of the formatted value", "no non-constant WriteString found")
	}
}

var _ = ast.Inspect
