package rules

import (
	"fmt"
	"go/types"
	"sort"
	"strings"

	"dvcheck/internal/eng"

	"golang.org/x/tools/go/ssa"
)

func init() {
	Registry["C45"] = &Rule{
		Explanation: "Decides that every dataset mutation that can move a branch, tag or working set fires the commit hooks (which carry cluster and push-on-write replication), and only on success. (1) M = the methods of datas.database that reach (*database).update (derived, not listed). Every m in M that belongs to the datas.Database interface is overridden by doltdb.hooksDatabase; the override calls the embedded method, calls ExecuteCommitHooks only after that call returned nil (a failed mutation hands the hooks an empty dataset, which push-on-write would replicate as a delete) and on every success path, with onlyWS=false/replicaWrite=false for everything but UpdateWorkingSet; frozen exceptions SetStatsRef and UpdateStashList (datasets that are local by design). (2) Inside package doltdb a mutator of M is invoked on the embedded (un-hooked) Database only from its own override, and the DoltDB.db field is statically a hooksDatabase. (3) ExecuteCommitHooks: when both filter flags are false the launch of a hook's Execute cannot be skipped; a hook is skipped only on a false answer of its ExecuteForWorkingSets/ExecuteForReplicaWrite; every launch is registered with the WaitGroup first and no return precedes wg.Wait; the launched literal calls hook.Execute. (4) Push-on-write and read replica: in package sqle every function with a pull step moves a ref (directly or through a helper that contains a mover) only after the pull step returned nil; the push destination held by the push hooks is used only as an argument of pushDataset. (5) cluster commithook.attemptReplicate moves the standby root only after PullChunks returned nil and records lastPushedHead only after PullChunks and the root compare-and-set returned nil. It does not decide eventual delivery, ordering, acknowledgement timing, the standby write gate or the role transitions of cluster.Controller.",
		RuleText:    "table agreement (derived mutator set vs. interface vs. overrides), cut-reachability on the SSA CFG for the success-only/every-success hook obligations and for the hook fan-out loop, who-may-use allowlists over struct fields, chunks-before-refs with must-pass summaries (shared with C35)",
		Assumptions: []string{"hooks registered on a DoltDB are the replication mechanism (cluster commithook, PushOnWriteHook, AsyncPushOnWriteHook)", "sync.WaitGroup.Wait returns after every Add-ed goroutine called Done"},
		Patterns:    []string{"./store/datas", "./libraries/doltcore/doltdb", "./libraries/doltcore/env/actions", "./libraries/doltcore/sqle", "./libraries/doltcore/sqle/cluster", "./libraries/utils/errors"},
		Run:         runC45,
	}
}

const (
	c45hooksDB = "(" + c35doltdb + ".hooksDatabase)."
	c45sqle    = "libraries/doltcore/sqle"
	c45cluster = "libraries/doltcore/sqle/cluster"
)

func runC45(k *eng.Check, tier string) {
	c := k.C
	// ---- (1) the mutator set ------------------------------------------------------------
	upd := c.Func("(*store/datas.database).update")
	if upd == nil {
		k.Unknown("anchor", "(*store/datas.database).update", "anchor function must exist", "not found")
		return
	}
	inDatas := func(p string) bool { return p == "store/datas" }
	M := map[string]bool{}
	for _, fn := range c.Funcs("store/datas") {
		if fn.Parent() != nil || fn.Signature.Recv() == nil || !strings.HasPrefix(eng.Name(fn), "(*store/datas.database).") || fn.Object() == nil || !fn.Object().Exported() {
			continue
		}
		for _, f := range c.StaticClosure([]*ssa.Function{fn}, inDatas, 4) {
			if f == upd {
				M[fn.Name()] = true
			}
		}
	}
	iface := map[string]bool{}
	if p := c.Package("store/datas"); p != nil {
		if obj := p.Types.Scope().Lookup("Database"); obj != nil {
			if it, ok := obj.Type().Underlying().(*types.Interface); ok {
				for i := 0; i < it.NumMethods(); i++ {
					iface[it.Method(i).Name()] = true
				}
			}
		}
	}
	if len(iface) < 15 {
		k.Unknown("mutator-hooked", "store/datas.Database", "the method set of the Database interface", fmt.Sprintf("only %d methods found", len(iface)))
	}
	for _, want := range []string{"Commit", "WriteCommit", "CommitWithWorkingSet", "SetHead", "FastForward", "Delete", "UpdateWorkingSet", "Tag", "SetTuple", "SetStatsRef", "UpdateStashList"} {
		if !M[want] {
			k.Unknown("mutator-hooked", "datas.database."+want, "the derived mutator set contains the confirmed mutators", "not derived as reaching (*database).update")
		}
	}
	exceptions := map[string]string{
		"SetStatsRef":     "statistics ref: a dataset that is local to the server by design, never replicated",
		"UpdateStashList": "stash list: local-only dataset by design (stashes are not pushed or replicated)",
	}
	var ms []string
	for m := range M {
		ms = append(ms, m)
	}
	sort.Strings(ms)
	hooksM := eng.Static(c45hooksDB + "ExecuteCommitHooks")
	embedded := func(m string) eng.CallM {
		return func(ci ssa.CallInstruction) bool {
			cc := ci.Common()
			return cc.IsInvoke() && cc.Method.Name() == m && eng.FromField(cc.Value, c35doltdb+".hooksDatabase.Database")
		}
	}
	for _, m := range ms {
		if !iface[m] {
			k.Pass("mutator-hooked", "datas.database."+m, "mutator is not part of the Database interface: unreachable through a DoltDB", 1)
			continue
		}
		if why, ok := exceptions[m]; ok {
			k.Pass("mutator-hooked", "datas.database."+m, "frozen exception: "+why, 1)
			continue
		}
		ov := c.Func(c45hooksDB + m)
		if ov == nil {
			k.Fail("mutator-hooked", "datas.database."+m, "every Database mutator that reaches (*database).update is overridden by hooksDatabase", c.Pos(upd.Pos()), "hooksDatabase only promotes the embedded method: a "+m+" through a DoltDB fires no commit hook (no cluster / push-on-write replication)", nil)
			continue
		}
		k.FuncsSeen[ov] = true
		emb := eng.Calls(ov, embedded(m), false)
		hooks := eng.Calls(ov, hooksM, false)
		if len(emb) != 1 || len(hooks) < 1 {
			k.Fail("mutator-hooked", "datas.database."+m, "the override calls the embedded mutator once and ExecuteCommitHooks", c.Pos(ov.Pos()), fmt.Sprintf("found %d embedded call(s), %d hook call(s)", len(emb), len(hooks)), nil)
			continue
		}
		k.Pass("mutator-hooked", "datas.database."+m, "overridden by hooksDatabase", 1)
		hs := eng.NewSet()
		for _, h := range hooks {
			hs.AddI(h.(ssa.Instruction))
		}
		// only the nil *edges* count: an error that is merely returned gives no point after which success is known
		nilEdges := eng.NewSet()
		for e := range eng.OkCut(emb[0]).E {
			nilEdges.AddE(e)
		}
		k.OnlyAfter("hooks-only-on-success", ov, "ExecuteCommitHooks is reached only after the embedded mutator returned nil", hs, 1, nilEdges)
		// the override returns the embedded call's error unchanged through a join block, so "success exit" is
		// expressed from the nil edge: once the embedded mutator returned nil, no return is reachable that avoids the hooks
		var starts []eng.Point
		for e := range eng.OkCut(emb[0]).E {
			starts = append(starts, eng.Point{B: e.To(), I: 0})
		}
		rets := eng.NewSet()
		for _, b := range ov.Blocks {
			if len(b.Instrs) > 0 {
				if r, ok := b.Instrs[len(b.Instrs)-1].(*ssa.Return); ok {
					rets.AddI(r)
				}
			}
		}
		if len(starts) == 0 {
			k.Fail("hooks-on-every-success", eng.Name(ov), "after the embedded mutator returned nil the override returns only after ExecuteCommitHooks ran", c.Pos(ov.Pos()), "the embedded mutator's error is not tested against nil", nil)
		} else {
			k.OnlyAfter("hooks-on-every-success", ov, "after the embedded mutator returned nil the override returns only after ExecuteCommitHooks ran", rets, 1, hs, starts...)
		}
		for _, h := range hooks {
			a := h.Common().Args // recv, ctx, ds, onlyWS, replicaWrite
			isFalse := func(v ssa.Value) bool {
				cv, ok := v.(*ssa.Const)
				return ok && cv.Value != nil && cv.Value.ExactString() == "false"
			}
			ok := len(a) == 5 && isFalse(a[4]) && (isFalse(a[3]) || m == "UpdateWorkingSet")
			k.Require("hooks-unfiltered-for-heads", c45hooksDB+m, "head/tag mutators run every hook (onlyWS=false, replicaWrite=false); only UpdateWorkingSet may restrict to working-set hooks", ok, c.InstrPos(h.(ssa.Instruction)), "a filter flag is set: replication hooks (ExecuteForWorkingSets()==false) would be skipped for this mutation")
		}
	}

	// ---- (2) no bypass ------------------------------------------------------------------
	nEmb := 0
	for _, fn := range c.Funcs(c35doltdb) {
		for _, ci := range eng.Calls(fn, func(ci ssa.CallInstruction) bool {
			cc := ci.Common()
			return cc.IsInvoke() && M[cc.Method.Name()] && eng.FromField(cc.Value, c35doltdb+".hooksDatabase.Database")
		}, true) {
			nEmb++
			m := ci.Common().Method.Name()
			if why, ok := exceptions[m]; ok {
				k.Pass("no-hook-bypass", eng.Name(eng.Outermost(fn))+"#Database."+m, "frozen exception: "+why, 1)
				continue
			}
			k.Require("no-hook-bypass", eng.Name(eng.Outermost(fn))+"#Database."+m, "a mutator is invoked on the embedded (un-hooked) Database only from its own hooksDatabase override", eng.Name(fn) == c45hooksDB+m, c.InstrPos(ci.(ssa.Instruction)), "mutation through hooksDatabase.Database bypasses the commit hooks")
		}
	}
	if nEmb < 9 {
		k.Unknown("no-hook-bypass", c35doltdb, "calls on the embedded Database", fmt.Sprintf("found %d, confirmed floor 9", nEmb))
	}
	okField := false
	if p := c.Package(c35doltdb); p != nil {
		if obj := p.Types.Scope().Lookup("DoltDB"); obj != nil {
			if st, ok := obj.Type().Underlying().(*types.Struct); ok {
				for i := 0; i < st.NumFields(); i++ {
					if st.Field(i).Name() == "db" && strings.HasSuffix(eng.ShortType(st.Field(i).Type()), c35doltdb+".hooksDatabase") {
						okField = true
					}
				}
			}
		}
	}
	k.Require("db-field-is-hooked", c35doltdb+".DoltDB.db", "the database handle of a DoltDB is statically a hooksDatabase (method calls resolve to the overrides)", okField, "-", "DoltDB.db is not of type hooksDatabase")

	c45fanout(k)
	c45sqleRules(k)
	c45clusterRules(k)
}

// c45fanout: ExecuteCommitHooks launches every selected hook and waits for all of them.
func c45fanout(k *eng.Check) {
	c := k.C
	fn := k.Fn(c45hooksDB + "ExecuteCommitHooks")
	if fn == nil {
		return
	}
	mExec := eng.Named(`^iface:` + c35doltdb + `\.CommitHook\.Execute$`)
	launches := eng.NewSet()
	for _, b := range fn.Blocks {
		for _, in := range b.Instrs {
			g, ok := in.(*ssa.Go)
			if !ok {
				continue
			}
			var lit *ssa.Function
			if mc, ok := g.Call.Value.(*ssa.MakeClosure); ok {
				lit, _ = mc.Fn.(*ssa.Function)
			} else if f := g.Call.StaticCallee(); f != nil {
				lit = f
			}
			if lit == nil || len(eng.Calls(lit, mExec, false)) == 0 {
				continue
			}
			launches.AddI(g)
			k.FuncsSeen[lit] = true
			done := eng.Calls(lit, eng.Static("(*sync.WaitGroup).Done"), true)
			k.Require("hooks-awaited", eng.Name(lit), "the launched goroutine signals the WaitGroup when it ends", len(done) >= 1, c.Pos(lit.Pos()), "no wg.Done in the hook goroutine")
		}
	}
	if launches.Len() != 1 {
		k.Unknown("hooks-launched", eng.Name(fn), "exactly one `go` statement runs hook.Execute", fmt.Sprintf("found %d", launches.Len()))
		return
	}
	// the iteration: element load `hooks[i]` and the increment of i
	var starts []eng.Point
	heads := eng.NewSet()
	for _, b := range fn.Blocks {
		for _, in := range b.Instrs {
			ia, ok := in.(*ssa.IndexAddr)
			if !ok || !strings.HasSuffix(eng.ShortType(ia.Type()), "*"+c35doltdb+".CommitHook") {
				continue
			}
			if inc, ok := ia.Index.(*ssa.BinOp); ok {
				if _, isPhi := inc.X.(*ssa.Phi); isPhi {
					starts = append(starts, eng.After(ia))
					heads.AddI(inc)
				}
			}
		}
	}
	if len(starts) < 1 || heads.Len() < 1 {
		k.Unknown("hooks-launched", eng.Name(fn), "the loop over the registered hooks", "range loop over []CommitHook not recognised")
		return
	}
	flagTrue, answeredNo := eng.NewSet(), eng.NewSet()
	for _, iff := range c39ifs(fn) {
		cond, branch := iff.Cond, true
		for {
			u, ok := cond.(*ssa.UnOp)
			if !ok || u.Op.String() != "!" {
				break
			}
			cond, branch = u.X, !branch
		}
		switch x := cond.(type) {
		case *ssa.Parameter:
			flagTrue.AddE(c39edge(iff, branch))
		case *ssa.Call:
			if x.Call.IsInvoke() && (x.Call.Method.Name() == "ExecuteForWorkingSets" || x.Call.Method.Name() == "ExecuteForReplicaWrite") {
				answeredNo.AddE(c39edge(iff, !branch))
			}
		case *ssa.Phi:
			// `shouldExecute := (!onlyWS || hook.ExecuteForWorkingSets()) && (...)`; `if shouldExecute`: the value phi carries
			// a hook's answer; its false edge is "a hook answered no" (constant-false operands arrive through the
			// answered-no edges of the individual tests, which are cuts already)
			if eng.Mentions(x, func(v ssa.Value) bool {
				cc, ok := v.(*ssa.Call)
				return ok && cc.Call.IsInvoke() && (cc.Call.Method.Name() == "ExecuteForWorkingSets" || cc.Call.Method.Name() == "ExecuteForReplicaWrite")
			}) {
				answeredNo.AddE(c39edge(iff, !branch))
			}
		}
	}
	k.OnlyAfter("hooks-launched", fn, "with both filter flags false the next hook is reached only after the current one was launched", heads, 1, eng.UnionOf(launches, flagTrue), starts...)
	k.OnlyAfter("hooks-launched", fn, "a hook is skipped only when its ExecuteForWorkingSets/ExecuteForReplicaWrite answered false", heads, 1, eng.UnionOf(launches, answeredNo), starts...)
	rets := eng.NewSet()
	for _, b := range fn.Blocks {
		if len(b.Instrs) > 0 {
			if r, ok := b.Instrs[len(b.Instrs)-1].(*ssa.Return); ok {
				rets.AddI(r)
			}
		}
	}
	k.OnlyAfter("hooks-awaited", fn, "ExecuteCommitHooks returns only after wg.Wait", rets, 1, eng.CallSet(fn, eng.Static("(*sync.WaitGroup).Wait")))
	k.OnlyAfter("hooks-awaited", fn, "a hook goroutine is launched only after it was registered with wg.Add", launches, 1, eng.CallSet(fn, eng.Static("(*sync.WaitGroup).Add")))
}

func c45sqleRules(k *eng.Check) {
	c := k.C
	movers := c35movers(k)
	direct := func(ci ssa.CallInstruction) bool {
		f := ci.Common().StaticCallee()
		return f != nil && movers[eng.Name(f)] != ""
	}
	inSqle := func(p string) bool { return p == c45sqle }
	helperMemo := map[*ssa.Function]bool{}
	isMover := func(ci ssa.CallInstruction) bool {
		if direct(ci) {
			return true
		}
		f := ci.Common().StaticCallee()
		if f == nil || f.Parent() != nil || eng.FuncPkg(f) == nil || !strings.HasSuffix(eng.FuncPkg(f).Path(), "/"+c45sqle) {
			return false
		}
		if v, ok := helperMemo[f]; ok {
			return v
		}
		helperMemo[f] = false
		for _, g := range c.StaticClosure([]*ssa.Function{f}, inSqle, 2) {
			if len(eng.Calls(g, direct, false)) > 0 {
				helperMemo[f] = true
			}
		}
		return helperMemo[f]
	}
	seen := map[string]bool{}
	for _, fn := range c.Funcs(c45sqle) {
		cuts, n := c35pullCuts(k, fn)
		if n == 0 {
			continue
		}
		mv := eng.CallSet(fn, isMover)
		if mv.Len() == 0 {
			continue
		}
		seen[eng.Name(fn)] = true
		k.OnlyAfter("chunks-before-refs", fn, "a ref is moved (directly or by a helper that contains a mover) only after the pull step of this function returned nil", mv, 1, cuts)
	}
	var names []string
	for n := range seen {
		names = append(names, n)
	}
	sort.Strings(names)
	for _, want := range []string{c45sqle + ".pushDataset", c45sqle + ".pullBranches$1", "(" + c45sqle + ".ReadReplicaDatabase).CreateLocalBranchFromRemote$1"} {
		if !seen[want] {
			k.Unknown("chunks-before-refs", want, "the confirmed replication functions are covered", fmt.Sprintf("not recognised as a function with a pull step and a ref mover (covered: %v)", names))
		}
	}
	// the push destination is used only through pushDataset
	allowed := map[string]string{c45sqle + ".pushDataset": "chunks, then ref (rule chunks-before-refs)"}
	fns := c.Funcs(c45sqle)
	n := 0
	for _, field := range []string{c45sqle + ".PushOnWriteHook.destDb", c45sqle + ".AsyncPushOnWriteHook.destDb", c45sqle + ".PushArg.destDb"} {
		for _, u := range eng.FieldCallUses(fns, field) {
			callee := eng.CalleeName(u.Call)
			if strings.HasPrefix(callee, "builtin:") {
				continue
			}
			n++
			_, ok := allowed[callee]
			k.Require("push-only-through-pushDataset", eng.Name(eng.Outermost(u.Fn))+"#"+callee, "the replication destination held by the push hooks is handed only to pushDataset", ok, c.InstrPos(u.Instr), "push destination used by "+callee+": a remote update outside the chunks-then-ref helper")
		}
	}
	if n < 2 {
		k.Unknown("push-only-through-pushDataset", c45sqle, "uses of the hooks' destDb fields", fmt.Sprintf("found %d, confirmed floor 2", n))
	}
}

func c45clusterRules(k *eng.Check) {
	fn := k.Fn("(*" + c45cluster + ".commithook).attemptReplicate")
	if fn == nil {
		return
	}
	mPull := eng.Static(c35DoltDB + "PullChunks")
	mCommit := eng.Named(`^iface:store/chunks\.ChunkStore\.Commit$`)
	pullOK := k.OkCalls(fn, "pullchunks", mPull)
	k.OnlyAfter("cluster-root-after-chunks", fn, "the standby root is moved only after PullChunks returned nil", eng.CallSet(fn, mCommit), 1, pullOK)
	rec := eng.NewSet().AddI(eng.FieldStores(fn, c45cluster+`\.commithook$`, "lastPushedHead")...)
	k.OnlyAfter("cluster-success-recorded-on-success", fn, "lastPushedHead is recorded only after PullChunks returned nil", rec, 1, pullOK)
	k.OnlyAfter("cluster-success-recorded-on-success", fn, "lastPushedHead is recorded only after the standby root compare-and-set returned nil", rec, 1, k.OkCalls(fn, "cscommit", mCommit))
}
