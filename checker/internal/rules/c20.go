package rules

import (
	"fmt"
	"go/constant"
	"go/token"
	"go/types"
	"sort"

	"dvcheck/internal/eng"

	"golang.org/x/tools/go/ssa"
)

func init() {
	Registry["C20"] = &Rule{
		Explanation: "Decides the compare-before-write clause of dataset (branch, tag, working-set) updates inside the single serialisation point (*database).update: " +
			"(1) every function literal passed to update is classified by its enclosing function in a frozen table: compare-and-set (doCommit, doFastForward, doUpdateWorkingSet, doTag, CommitWithWorkingSet), clean-delete (doDelete), forcing with preconditions (doSetHead), documented blind writers (SetTuple, SetStatsRef, UpdateStashList); an unlisted update closure is a violation; " +
			"(2) in a compare-and-set closure each edit of a dataset key is reachable only past an error-checked am.Get of the same key on the closure's own map parameter (the datasets of the root being CAS-ed) and past the equal edge of its comparison with an expected address that is fixed outside the closure (captured, never re-assigned or re-read inside) -- or with the zero address for tags; the mismatch edge reaches neither an edit nor a success return; edits without their own comparison (the working-set edit of a fast-forward) ride behind the head comparison and are counted against the table; " +
			"(3) every edit goes through an editor made from the closure's own map; " +
			"(4) doDelete and doFastForward edit only past the staged==working and staged==head-root comparisons computed from the closure's own map, unless no working set is named/present (or the documented allow-dirty flag); " +
			"(5) doSetHead runs every supplied Precondition inside the closure, on the closure's map, error-checked, before the first edit; " +
			"(6) BuildNewCommit reaches commit construction only through amend-head match, no head, Force, empty parent list or hasParentHash(head); doFastForward enters update only past a successful FindCommonAncestor with found && !mergeNeeded(head, ancestor) or with no head, and the head it tested is the one the closure compares; " +
			"(7) update passes the root it loaded the datasets from as the CAS token, commits what the closure returned, and cannot succeed without tryCommitChunks; tryCommitChunks succeeds only on rootTracker.Commit==true with (new,current) in order; nothing else in store/datas commits a root. " +
			"It does not decide linearizability of observed histories, the chunk-store CAS itself (C02), nor who may call the forcing APIs.",
		RuleText:    "closure enumeration + classification table; cut-reachability on the SSA CFG of each closure (targets = AddressMapEditor.Update/Delete, cuts = equal edges of Get-vs-captured comparisons, ok-edges of Get); value provenance (captured-only slices, same-value keys); who-may-call for the root commit",
		Assumptions: []string{"prolly.AddressMap is immutable: Get on the closure's parameter observes the datasets of the root that update will CAS against", "function literals are invoked only by update (they are passed nowhere else)"},
		Patterns:    []string{"./store/datas"},
		Run:         runC20,
	}
}

type c20Class int

const (
	c20CAS c20Class = iota
	c20Delete
	c20Force
	c20Blind
)

type c20Entry struct {
	cls     c20Class
	guarded int  // confirmed number of edits with their own compare-and-set comparison
	riding  int  // confirmed number of edits that ride behind another key's comparison
	zero    bool // the expected address is the zero hash (create-only)
	why     string
}

// Frozen classification of the closures passed to (*database).update, by enclosing declared function.
var c20Table = map[string]c20Entry{
	"(*store/datas.database).doCommit":             {cls: c20CAS, guarded: 1, why: "commit: head must equal the head the commit was built on"},
	"(*store/datas.database).doFastForward":        {cls: c20CAS, guarded: 1, riding: 1, why: "fast-forward: head must equal the head whose ancestry was tested; the working-set edit rides behind it and behind the cleanliness checks"},
	"(*store/datas.database).doUpdateWorkingSet":   {cls: c20CAS, guarded: 1, why: "working-set write: stored address must equal the caller's previous hash"},
	"(*store/datas.database).doTag":                {cls: c20CAS, guarded: 1, zero: true, why: "tags are create-only: stored address must be the zero hash"},
	"(*store/datas.database).CommitWithWorkingSet": {cls: c20CAS, guarded: 2, why: "commit + working set: both keys compared"},
	"(*store/datas.database).doDelete":             {cls: c20Delete, why: "clean-branch delete: working set must be clean with respect to the head in the same map"},
	"(*store/datas.database).doSetHead":            {cls: c20Force, why: "documented forcing write (reset, forced branch move); only the supplied preconditions gate it"},
	"(*store/datas.database).SetTuple":             {cls: c20Blind, why: "documented unconditional write of an opaque tuple dataset"},
	"(*store/datas.database).SetStatsRef":          {cls: c20Blind, why: "documented unconditional write of the statistics ref (singleton, last writer wins by design)"},
	"(*store/datas.database).UpdateStashList":      {cls: c20Blind, why: "unconditional write of the stash-list dataset; upstream carries a TODO about concurrency control (recorded, not judged)"},
}

func runC20(k *eng.Check, tier string) {
	cls := datasClosures(k)
	if len(cls) < 10 {
		k.Unknown("update-closure", "store/datas", "closures passed to database.update", fmt.Sprintf("found %d, confirmed floor 10", len(cls)))
	}
	seen := map[string]int{}
	for _, cl := range cls {
		ent, ok := c20Table[cl.Outer]
		if !ok {
			// a helper that is only ever called from one classified operation (the operation split into phases)
			// belongs to that operation
			outer := eng.Outermost(cl.Fn)
			for _, n := range c20TableNames() {
				if seen[n] == 0 && eng.OnlyCalledFrom(outer, map[string]bool{n: true}, k.C.Funcs("store/datas"), 2) {
					ent, ok = c20Table[n]
					cl.Outer = n
					break
				}
			}
		}
		if !ok {
			k.Fail("update-closure-classified", eng.Name(cl.Fn), "every closure passed to database.update belongs to a classified operation", k.C.InstrPos(cl.Site.(ssa.Instruction)),
				"new dataset writer "+cl.Outer+": not in the compare-and-set, delete, forcing or documented blind-writer tables", nil)
			continue
		}
		seen[cl.Outer]++
		k.Pass("update-closure-classified", eng.Name(cl.Fn), "classified: "+ent.why, 1)
		c20EditorRule(k, cl)
		switch ent.cls {
		case c20CAS:
			c20CASRules(k, cl, ent)
			if cl.Outer == "(*store/datas.database).doFastForward" {
				c20CleanRules(k, cl, true)
			}
		case c20Delete:
			c20CleanRules(k, cl, false)
		case c20Force:
			c20PreconditionRules(k, cl)
		case c20Blind:
			if len(cl.Edits) < 1 {
				k.Unknown("blind-writer", eng.Name(cl.Fn), "documented blind writer edits its dataset", "no edit found")
			}
		}
	}
	var names []string
	for n := range c20Table {
		names = append(names, n)
	}
	sort.Strings(names)
	for _, n := range names {
		if seen[n] == 0 {
			k.Unknown("update-closure-classified", n, "classified operation still updates the datasets through database.update", "no update closure found in this function (anchor changed shape)")
		}
	}

	c20BuildNewCommit(k)
	c20FastForwardHost(k, cls)
	c20UpdateTokenFlow(k)
}

// (3) every edit goes through an editor of the closure's own map
func c20EditorRule(k *eng.Check, cl *dsClosure) {
	for i, e := range cl.Edits {
		_, onAm := cl.editorOf(e.Call.Call.Args[0])
		k.Require("edit-on-cas-map", fmt.Sprintf("%s#edit%d", eng.Name(cl.Fn), i), "the edit is applied to an editor of the closure's own datasets map (the one update will CAS)", onAm,
			k.C.InstrPos(e.Call), "the editor does not come from AddressMap.Editor() of the closure's map parameter")
	}
}

// (2) compare-and-set closures
func c20CASRules(k *eng.Check, cl *dsClosure, ent c20Entry) {
	name := eng.Name(cl.Fn)
	exits := eng.SuccessExits(cl.Fn)
	allEdits := eng.NewSet()
	for _, e := range cl.Edits {
		allEdits.AddI(e.Call)
	}
	type ge struct {
		idx    int
		guards []dsGuard
	}
	var guarded []ge
	var riding []int
	allEq := eng.NewSet()
	for i, e := range cl.Edits {
		var valid []dsGuard
		for _, g := range cl.guards(e.Key) {
			if g.Captured || (ent.zero && g.Zero) {
				valid = append(valid, g)
			}
		}
		if len(valid) == 0 {
			riding = append(riding, i)
			continue
		}
		guarded = append(guarded, ge{i, valid})
		for _, g := range valid {
			allEq.AddE(g.Eq)
		}
	}
	if len(guarded) < ent.guarded {
		k.Unknown("compare-before-edit", name, "edits with their own comparison of the stored address against an expected address fixed outside the closure",
			fmt.Sprintf("found %d such edit(s), the table confirms %d: a comparison was removed, re-reads its expectation inside the closure, or changed shape", len(guarded), ent.guarded))
	}
	for _, g := range guarded {
		e := cl.Edits[g.idx]
		eq, okGet := eng.NewSet(), eng.NewSet()
		var neBlocks []*ssa.BasicBlock
		for _, gd := range g.guards {
			eq.AddE(gd.Eq)
			okGet.Union(eng.OkCut(gd.Get))
			neBlocks = append(neBlocks, gd.Ne.To())
		}
		tg := eng.NewSet().AddI(e.Call)
		k.OnlyAfter("compare-before-edit", cl.Fn, fmt.Sprintf("edit%d only past stored==expected for its own key", g.idx), tg, 1, eq)
		k.OnlyAfter("get-error-checked", cl.Fn, fmt.Sprintf("edit%d only past an error-checked Get of its own key", g.idx), tg, 1, okGet)
		hits := dsReachableFrom(cl.Fn, neBlocks, eng.UnionOf(allEdits, exits))
		k.Require("mismatch-is-error", fmt.Sprintf("%s#edit%d", name, g.idx), "when the stored address differs from the expected one neither an edit nor a success return is reachable", len(hits) == 0,
			k.C.InstrPos(g.guards[0].If), "the mismatch branch reaches an edit or returns without error")
	}
	if len(riding) > ent.riding {
		k.Fail("compare-before-edit", name+"#unguarded", "every edit of a compare-and-set closure has its own comparison, except the frozen riding edits", k.C.InstrPos(cl.Edits[riding[len(riding)-1]].Call),
			fmt.Sprintf("%d edit(s) have no comparison of their own key against an expected address (table allows %d)", len(riding), ent.riding), nil)
	}
	for _, i := range riding {
		tg := eng.NewSet().AddI(cl.Edits[i].Call)
		k.OnlyAfter("compare-before-edit", cl.Fn, fmt.Sprintf("edit%d (no comparison of its own) only past the comparison of a compared key", i), tg, 1, allEq)
	}
	if exits.Len() < 1 {
		k.Unknown("compare-before-edit", name+"#exits", "the closure has a success return", "none found")
	}
}

// (4) working-set cleanliness before delete / fast-forward
func c20CleanRules(k *eng.Check, cl *dsClosure, allowDirtyFlag bool) {
	name := eng.Name(cl.Fn)
	if len(cl.Edits) != 2 {
		k.Unknown("ws-clean-before-edit", name, "head edit + working-set edit", fmt.Sprintf("found %d edits, confirmed 2", len(cl.Edits)))
		return
	}
	// the working-set key is the one that is tested with am.Has; the head key is the other one
	wsIdx := -1
	var hasCalls []*ssa.Call
	for i, e := range cl.Edits {
		for _, h := range eng.Calls(cl.Fn, eng.Static(dsFnAmHas), false) {
			hc := h.(*ssa.Call)
			if len(hc.Call.Args) >= 3 && cl.isAm(hc.Call.Args[0]) && dsSameVal(hc.Call.Args[2], e.Key, 6) {
				if wsIdx >= 0 && wsIdx != i {
					wsIdx = -2
				} else if wsIdx != -2 {
					wsIdx = i
					hasCalls = append(hasCalls, hc)
				}
			}
		}
	}
	if wsIdx < 0 {
		if !c20CleanViaHelper(k, cl, allowDirtyFlag) {
			k.Unknown("ws-clean-before-edit", name, "the working-set key (tested with am.Has on the closure's map, or handed to a verifier helper together with the map)", "not identified")
		}
		return
	}
	wsKey, headKey := cl.Edits[wsIdx].Key, cl.Edits[1-wsIdx].Key
	headGets := cl.getsOf(headKey)
	headRoot := func(v ssa.Value) bool {
		return eng.Slice(v, true, func(x ssa.Value) bool {
			c := dsCallTo(x, "store/datas.GetCommitRootHash")
			if c == nil || len(c.Call.Args) < 1 {
				return false
			}
			return eng.Slice(c.Call.Args[0], true, c20InCalls(headGets))
		})
	}
	targets := eng.NewSet()
	for _, e := range cl.Edits {
		targets.AddI(e.Call)
	}
	c20CleanCore(k, cl, name, wsKey, hasCalls, headRoot, targets, 2, allowDirtyFlag)
}

func c20InCalls(set []*ssa.Call) func(ssa.Value) bool {
	return func(v ssa.Value) bool {
		c, ok := v.(*ssa.Call)
		if !ok {
			return false
		}
		for _, x := range set {
			if x == c {
				return true
			}
		}
		return false
	}
}

// c20CleanCore: inside cl.Fn (the edit closure, or a verifier helper that receives the closure's map), the targets
// (the edits, or the helper's success exits) are reached only past staged==working and staged==head-root comparisons
// on values read from that map with error-checked Gets.
func c20CleanCore(k *eng.Check, cl *dsClosure, name string, wsKey ssa.Value, hasCalls []*ssa.Call, headRoot func(ssa.Value) bool, targets *eng.Set, minT int, allowDirtyFlag bool) {
	wsGets := cl.getsOf(wsKey)
	inCalls := func(set []*ssa.Call) func(ssa.Value) bool {
		return func(v ssa.Value) bool {
			c, ok := v.(*ssa.Call)
			if !ok {
				return false
			}
			for _, x := range set {
				if x == c {
					return true
				}
			}
			return false
		}
	}
	fromWS := func(v ssa.Value) bool { return eng.Slice(v, true, inCalls(wsGets)) }
	accessor := func(method string) func(ssa.Value) bool {
		return func(v ssa.Value) bool {
			return eng.Slice(v, true, func(x ssa.Value) bool {
				c, ok := x.(*ssa.Call)
				if !ok {
					return false
				}
				f := c.Call.StaticCallee()
				return f != nil && eng.Name(f) == "(*gen/fb/serial.WorkingSet)."+method && len(c.Call.Args) >= 1 && fromWS(c.Call.Args[0])
			})
		}
	}
	staged, working := accessor("StagedRootAddrBytes"), accessor("WorkingRootAddrBytes")
	onlyStaged := func(v ssa.Value) bool { return staged(v) && !working(v) && !headRoot(v) }
	onlyWorking := func(v ssa.Value) bool { return working(v) && !staged(v) }
	onlyHeadRoot := func(v ssa.Value) bool { return headRoot(v) && !staged(v) && !working(v) }
	eqSW := dsCmpEdges(cl.Fn, onlyStaged, onlyWorking, true)
	// once staged==working is established (no allow-dirty escape) either of them may be compared with the head root
	committed := onlyStaged
	if !allowDirtyFlag {
		committed = func(v ssa.Value) bool { return (staged(v) || working(v)) && !headRoot(v) }
	}
	eqSH := dsCmpEdges(cl.Fn, committed, onlyHeadRoot, true)
	// edges on which no check is required: no working-set key given, or the map has no working set
	skip := eng.NewSet()
	skip.Union(dsCmpEdges(cl.Fn, func(v ssa.Value) bool { return dsSameVal(v, wsKey, 6) }, func(v ssa.Value) bool { return dsIsConstVal(v, constant.MakeString("")) }, true))
	skip.Union(dsBoolEdges(cl.Fn, func(v ssa.Value) bool {
		ex, ok := v.(*ssa.Extract)
		if !ok || ex.Index != 0 {
			return false
		}
		for _, h := range hasCalls {
			if ex.Tuple == ssa.Value(h) {
				return true
			}
		}
		return false
	}, false))
	skipFloor := 2
	if minT == 1 {
		skipFloor = 1 // inside a verifier helper the `no working set named` branch stays with the caller
	}
	if skip.Len() < skipFloor {
		k.Unknown("ws-clean-before-edit", name+"#skip", "the `no working set named` and `no working set present` branches", fmt.Sprintf("found %d edge(s), confirmed floor %d", skip.Len(), skipFloor))
	}
	dirtyOK := eng.NewSet()
	if allowDirtyFlag {
		// the documented allowDirtyWorking flag: the unique captured bool of the closure
		var flags []*ssa.FreeVar
		for _, fv := range cl.Fn.FreeVars {
			if pt, ok := fv.Type().(*types.Pointer); ok {
				if bt, ok := pt.Elem().Underlying().(*types.Basic); ok && bt.Kind() == types.Bool {
					flags = append(flags, fv)
				}
			}
		}
		if len(flags) == 1 {
			dirtyOK = dsBoolEdges(cl.Fn, func(v ssa.Value) bool {
				u, ok := v.(*ssa.UnOp)
				return ok && u.Op == token.MUL && u.X == ssa.Value(flags[0])
			}, true)
		}
		if dirtyOK.Len() < 1 {
			k.Unknown("ws-clean-before-edit", name+"#allow-dirty", "the branch on the captured allow-dirty flag", "not found")
		}
	}
	k.OnlyAfter("ws-clean-before-edit", cl.Fn, "edits only past staged==working of the working set stored in the closure's map (or no working set / allow-dirty)", targets, minT, eng.UnionOf(eqSW, skip, dirtyOK))
	k.OnlyAfter("ws-clean-before-edit", cl.Fn, "edits only past staged==root of the head stored in the closure's map (or no working set)", targets, minT, eng.UnionOf(eqSH, skip))
	if eqSW.Len() < 1 || eqSH.Len() < 1 {
		k.Unknown("ws-clean-before-edit", name+"#comparisons", "staged-vs-working and staged-vs-head-root comparisons on values read from the closure's map", fmt.Sprintf("found %d/%d, confirmed 1/1", eqSW.Len(), eqSH.Len()))
	}
	// the working-set and head addresses used by the checks are read with error-checked Gets
	okGets := eng.NewSet()
	for _, g := range wsGets {
		okGets.Union(eng.OkCut(g))
	}
	k.OnlyAfter("ws-clean-before-edit", cl.Fn, "edits only past an error-checked Get of the working-set key (or no working set)", targets, minT, eng.UnionOf(okGets, skip))
}

// (5) doSetHead: preconditions run inside the closure
func c20PreconditionRules(k *eng.Check, cl *dsClosure) {
	name := eng.Name(cl.Fn)
	var pre []*ssa.FreeVar
	for _, fv := range cl.Fn.FreeVars {
		pt, ok := fv.Type().(*types.Pointer)
		if !ok {
			continue
		}
		if sl, ok := pt.Elem().Underlying().(*types.Slice); ok && dsIsNamed(sl.Elem(), "store/datas", "Precondition") {
			pre = append(pre, fv)
		}
	}
	if len(pre) != 1 {
		k.Unknown("preconditions-in-closure", name, "the captured []Precondition", fmt.Sprintf("found %d captured precondition slices, confirmed 1: the preconditions are no longer evaluated inside the update closure", len(pre)))
		return
	}
	fromPre := func(v ssa.Value) bool {
		return eng.Slice(v, false, func(x ssa.Value) bool { return x == ssa.Value(pre[0]) })
	}
	// the calls of a slice element
	var checks []*ssa.Call
	for _, ci := range eng.Calls(cl.Fn, func(c ssa.CallInstruction) bool {
		cc := c.Common()
		return !cc.IsInvoke() && cc.StaticCallee() == nil && fromPre(cc.Value)
	}, false) {
		if c, ok := ci.(*ssa.Call); ok {
			checks = append(checks, c)
		}
	}
	if len(checks) < 1 {
		k.Unknown("preconditions-in-closure", name, "call of each supplied precondition", "no call of an element of the captured precondition slice")
		return
	}
	// the loop over the slice: If on `i < len(preconditions)`
	var header *ssa.If
	for _, b := range cl.Fn.Blocks {
		if len(b.Instrs) == 0 {
			continue
		}
		iff, ok := b.Instrs[len(b.Instrs)-1].(*ssa.If)
		if !ok {
			continue
		}
		bo, ok := iff.Cond.(*ssa.BinOp)
		if !ok || bo.Op != token.LSS {
			continue
		}
		lc, ok := bo.Y.(*ssa.Call)
		if !ok {
			continue
		}
		if bi, ok := lc.Call.Value.(*ssa.Builtin); !ok || bi.Name() != "len" || len(lc.Call.Args) != 1 || !fromPre(lc.Call.Args[0]) {
			continue
		}
		if header != nil {
			header = nil
			break
		}
		header = iff
	}
	if header == nil {
		k.Unknown("preconditions-in-closure", name, "the loop over the captured precondition slice", "no unique `i < len(preconditions)` loop found")
		return
	}
	exit := eng.Edge{From: header.Block(), Succ: 1}
	body := header.Block().Succs[0]
	targets := eng.NewSet()
	for _, e := range cl.Edits {
		targets.AddI(e.Call)
	}
	k.OnlyAfter("preconditions-in-closure", cl.Fn, "edits only after the loop over all supplied preconditions finished", targets, 1, eng.NewSet().AddE(exit))
	okChecks := eng.NewSet()
	var failBlocks []*ssa.BasicBlock
	onAm := true
	for _, c := range checks {
		oc := eng.OkCut(c)
		okChecks.Union(oc)
		for e := range oc.E {
			failBlocks = append(failBlocks, e.From.Succs[1-e.Succ])
		}
		has := false
		for _, a := range c.Call.Args {
			if cl.isAm(a) {
				has = true
			}
		}
		onAm = onAm && has
	}
	k.OnlyAfter("preconditions-in-closure", cl.Fn, "the next iteration / loop exit is reached only after the precondition returned nil", eng.NewSet().AddI(header), 1, okChecks, eng.Point{B: body, I: 0})
	k.Require("preconditions-in-closure", name+"#on-cas-map", "each precondition is evaluated on the closure's own datasets map (the one update will CAS)", onAm, k.C.InstrPos(checks[0]), "precondition is not given the closure's map parameter")
	hits := dsReachableFrom(cl.Fn, failBlocks, eng.UnionOf(targets, eng.SuccessExits(cl.Fn)))
	k.Require("preconditions-in-closure", name+"#failure-is-error", "a failed precondition reaches neither an edit nor a success return", len(failBlocks) > 0 && len(hits) == 0, k.C.InstrPos(checks[0]), "failed precondition does not abort the closure")
}

// (6a) BuildNewCommit: who may bypass the parent check
func c20BuildNewCommit(k *eng.Check) {
	fn := k.Fn("(*store/datas.database).BuildNewCommit")
	if fn == nil {
		return
	}
	const mha = "(store/datas.Dataset).MaybeHeadAddr"
	isHead := func(v ssa.Value) bool {
		ex, ok := v.(*ssa.Extract)
		return ok && ex.Index == 0 && dsCallTo(ex, mha) != nil
	}
	isHasHead := func(v ssa.Value) bool {
		ex, ok := v.(*ssa.Extract)
		return ok && ex.Index == 1 && dsCallTo(ex, mha) != nil
	}
	amendOK := dsCmpEdges(fn, isHead, func(v ssa.Value) bool { return dsLoadsField(v, "store/datas.CommitOptions.AmendedCommit") }, true)
	noHead := dsBoolEdges(fn, isHasHead, false)
	force := dsBoolEdges(fn, func(v ssa.Value) bool { return dsLoadsField(v, "store/datas.CommitOptions.Force") }, true)
	noParents := dsCmpEdges(fn, func(v ssa.Value) bool {
		c, ok := v.(*ssa.Call)
		if !ok || len(c.Call.Args) != 1 {
			return false
		}
		b, ok := c.Call.Value.(*ssa.Builtin)
		return ok && b.Name() == "len" && dsLoadsField(c.Call.Args[0], "store/datas.CommitOptions.Parents")
	}, func(v ssa.Value) bool { return dsIsConstVal(v, constant.MakeInt64(0)) }, true)
	hasParent := dsBoolEdges(fn, func(v ssa.Value) bool {
		c := dsCallTo(v, "store/datas.hasParentHash")
		return c != nil && len(c.Call.Args) == 2 && isHead(c.Call.Args[1])
	}, true)
	for _, x := range []struct {
		n string
		s *eng.Set
	}{{"amend-head-match", amendOK}, {"no-head", noHead}, {"force", force}, {"empty-parents", noParents}, {"hasParentHash(head)", hasParent}} {
		if x.s.Len() < 1 {
			k.Unknown("parent-check", eng.Name(fn)+"#"+x.n, "the documented branch of BuildNewCommit's head validation", "branch not found (anchor changed shape)")
		}
	}
	targets := eng.CallSet(fn, eng.Static("store/datas.newCommitForValue"))
	k.OnlyAfter("parent-check", fn, "a commit is constructed only with the head among its parents (explicit, defaulted or amended), with no head, or with Force", targets, 1,
		eng.UnionOf(amendOK, noHead, force, noParents, hasParent))
	// amend without a head is an error: on the amend path (AmendedCommit non-empty) the no-head edge must not construct a commit
	// hasParentHash compares its hash parameter with the elements of opts.Parents
	if hp := k.Fn("store/datas.hasParentHash"); hp != nil && len(hp.Params) == 2 {
		found := false
		for _, b := range hp.Blocks {
			for _, in := range b.Instrs {
				bo, ok := in.(*ssa.BinOp)
				if !ok || bo.Op != token.EQL {
					continue
				}
				x, y := bo.X, bo.Y
				if y != ssa.Value(hp.Params[1]) {
					x, y = y, x
				}
				if y == ssa.Value(hp.Params[1]) && eng.Slice(x, false, func(v ssa.Value) bool { return eng.FieldName(v) == "store/datas.CommitOptions.Parents" }) {
					found = true
				}
			}
		}
		k.Require("parent-check", eng.Name(hp), "hasParentHash compares the given head with the elements of CommitOptions.Parents", found, k.C.Pos(hp.Pos()), "no comparison of the hash parameter with an element of opts.Parents")
	}
}

// (6b) doFastForward: ancestry test before the update, on the head the closure compares
func c20FastForwardHost(k *eng.Check, cls []*dsClosure) {
	top := k.Fn("(*store/datas.database).doFastForward")
	if top == nil {
		return
	}
	// the ancestry test and the update may live in single-caller phase helpers: the test is analysed in the function
	// that calls FindCommonAncestor, the path rules over the helper tree, and the tested head / dataset are followed
	// through the phase calls into the closure of the updating phase
	fam := k.C.FamilyOf(top, k.C.Funcs("store/datas"), 2)
	fn := top
	if len(eng.Calls(top, eng.Static("store/datas.FindCommonAncestor"), false)) == 0 {
		for _, g := range fam[1:] {
			if len(eng.Calls(g, eng.Static("store/datas.FindCommonAncestor"), false)) > 0 {
				fn = g
				k.FuncsSeen[g] = true
			}
		}
	}
	const mha = "(store/datas.Dataset).MaybeHeadAddr"
	upd := eng.CallSet(fn, eng.Static(dsFnUpdate))
	isHasHead := func(v ssa.Value) bool {
		ex, ok := v.(*ssa.Extract)
		return ok && ex.Index == 1 && dsCallTo(ex, mha) != nil
	}
	// head value: extract #0 of MaybeHeadAddr, possibly through a captured local
	headAllocs := map[*ssa.Alloc]bool{}
	isHead := func(v ssa.Value) bool {
		if ex, ok := v.(*ssa.Extract); ok && ex.Index == 0 && dsCallTo(ex, mha) != nil {
			return true
		}
		if u, ok := v.(*ssa.UnOp); ok && u.Op == token.MUL {
			if a, ok := u.X.(*ssa.Alloc); ok {
				vals := dsStoredValues(a)
				if len(vals) == 0 {
					return false
				}
				for _, sv := range vals {
					ex, ok := sv.(*ssa.Extract)
					if !ok || ex.Index != 0 || dsCallTo(ex, mha) == nil {
						return false
					}
				}
				headAllocs[a] = true
				return true
			}
		}
		return false
	}
	noHead := dsBoolEdges(fn, isHasHead, false)
	var fca []*ssa.Call
	for _, ci := range eng.Calls(fn, eng.Static("store/datas.FindCommonAncestor"), false) {
		if c, ok := ci.(*ssa.Call); ok {
			fca = append(fca, c)
		}
	}
	if len(fca) != 1 || noHead.Len() < 1 {
		k.Unknown("ff-ancestry", eng.Name(fn), "FindCommonAncestor call and the has-head branch", fmt.Sprintf("found %d FindCommonAncestor call(s), %d no-head edge(s); confirmed 1/1", len(fca), noHead.Len()))
		return
	}
	isAncestor := func(v ssa.Value) bool {
		ex, ok := v.(*ssa.Extract)
		return ok && ex.Index == 0 && ex.Tuple == ssa.Value(fca[0])
	}
	found := dsBoolEdges(fn, func(v ssa.Value) bool {
		ex, ok := v.(*ssa.Extract)
		return ok && ex.Index == 1 && ex.Tuple == ssa.Value(fca[0])
	}, true)
	// "head != ancestor" may be written inline or through a two-parameter helper whose body is `return a != b`
	// (mergeNeeded today); the helper is recognised by its body, not its name
	noMerge := dsBoolEdges(fn, func(v ssa.Value) bool {
		c, ok := v.(*ssa.Call)
		return ok && C20IsNeqHelper(c.Call.StaticCallee()) && len(c.Call.Args) == 2 &&
			((isHead(c.Call.Args[0]) && isAncestor(c.Call.Args[1])) || (isHead(c.Call.Args[1]) && isAncestor(c.Call.Args[0])))
	}, false)
	noMerge.Union(dsCmpEdges(fn, isHead, isAncestor, true))
	if fn == top {
		k.OnlyAfter("ff-ancestry", fn, "update is entered only after FindCommonAncestor succeeded (or the dataset has no head)", upd, 1, eng.UnionOf(eng.OkCut(fca[0]), noHead))
		k.OnlyAfter("ff-ancestry", fn, "update is entered only when a common ancestor was found (or the dataset has no head)", upd, 1, eng.UnionOf(found, noHead))
		k.OnlyAfter("ff-ancestry", fn, "update is entered only when mergeNeeded(head, ancestor) is false (or the dataset has no head)", upd, 1, eng.UnionOf(noMerge, noHead))
	} else {
		updF := func(g *ssa.Function) *eng.Set { return eng.CallSet(g, eng.Static(dsFnUpdate)) }
		only := func(s *eng.Set) eng.FamSets {
			return func(g *ssa.Function) *eng.Set {
				if g == fn {
					return s
				}
				return eng.NewSet()
			}
		}
		k.OnlyAfterFam("ff-ancestry", fam, "update is entered only after FindCommonAncestor succeeded (or the dataset has no head)", updF, 1, only(eng.UnionOf(eng.OkCut(fca[0]), noHead)))
		k.OnlyAfterFam("ff-ancestry", fam, "update is entered only when a common ancestor was found (or the dataset has no head)", updF, 1, only(eng.UnionOf(found, noHead)))
		k.OnlyAfterFam("ff-ancestry", fam, "update is entered only when mergeNeeded(head, ancestor) is false (or the dataset has no head)", updF, 1, only(eng.UnionOf(noMerge, noHead)))
		c20FastForwardSplitRoles(k, cls, top, fn, fam, isHead)
		return
	}
	// the head whose ancestry was tested is the expected address of the closure's comparison, and the
	// compared key is the ID of the same dataset
	n := 0
	for _, cl := range cls {
		if cl.Host != fn || cl.MC == nil {
			continue
		}
		for _, e := range cl.Edits {
			for _, g := range cl.guards(e.Key) {
				if !g.Captured {
					continue
				}
				n++
				same := len(g.FVs) == 1
				if same {
					a, ok := dsFreeBinding(cl.MC, g.FVs[0]).(*ssa.Alloc)
					same = ok && headAllocs[a]
				}
				k.Require("ff-ancestry", eng.Name(cl.Fn)+"#expected-is-tested-head", "the address the closure compares the stored head with is the head whose ancestry was tested", same, k.C.InstrPos(g.If), "the closure's expected address is not the MaybeHeadAddr value given to mergeNeeded")
				dsOfHead := c20DatasetOfHeadAlloc(fn, headAllocs)
				dsOfKey := c20DatasetOfKey(cl, e.Key)
				k.Require("ff-ancestry", eng.Name(cl.Fn)+"#same-dataset", "the compared/edited key is the ID of the dataset whose head was tested", dsOfHead != nil && dsOfHead == dsOfKey, k.C.InstrPos(e.Call), "key and expected head come from different datasets")
			}
		}
	}
	if n < 1 {
		k.Unknown("ff-ancestry", eng.Name(fn)+"#closure", "the compare-and-set comparison of the fast-forward closure", "not found")
	}
}

// c20DatasetOfHeadAlloc: the host variable (alloc or parameter) whose MaybeHeadAddr fills the head allocs.
func c20DatasetOfHeadAlloc(fn *ssa.Function, headAllocs map[*ssa.Alloc]bool) ssa.Value {
	var out ssa.Value
	for a := range headAllocs {
		for _, sv := range dsStoredValues(a) {
			c := dsCallTo(sv, "(store/datas.Dataset).MaybeHeadAddr")
			if c == nil || len(c.Call.Args) < 1 {
				return nil
			}
			v := c20VarOf(c.Call.Args[0])
			if v == nil || (out != nil && out != v) {
				return nil
			}
			out = v
		}
	}
	return out
}

// varOf: the variable (alloc, parameter or free variable) a value is a plain load of.
func c20VarOf(v ssa.Value) ssa.Value {
	switch x := v.(type) {
	case *ssa.Parameter, *ssa.FreeVar:
		return x
	case *ssa.UnOp:
		if x.Op == token.MUL {
			switch a := x.X.(type) {
			case *ssa.Alloc, *ssa.FreeVar:
				return a
			}
		}
	}
	return nil
}

// c20DatasetOfKey: for a key of the form D.ID() with D captured from the host, the host variable bound to D.
func c20DatasetOfKey(cl *dsClosure, key ssa.Value) ssa.Value {
	c := dsCallTo(key, "(store/datas.Dataset).ID")
	if c == nil || len(c.Call.Args) < 1 {
		return nil
	}
	fv, ok := c20VarOf(c.Call.Args[0]).(*ssa.FreeVar)
	if !ok {
		return nil
	}
	return dsFreeBinding(cl.MC, fv)
}

// (7) the optimistic loop of update and the root commit
func c20UpdateTokenFlow(k *eng.Check) {
	c := k.C
	fn := k.Fn(dsFnUpdate)
	if fn != nil {
		var root, load, edit, try *ssa.Call
		cnt := map[string]int{}
		for _, ci := range eng.Calls(fn, func(ssa.CallInstruction) bool { return true }, false) {
			call, ok := ci.(*ssa.Call)
			if !ok {
				continue
			}
			switch n := eng.CalleeName(call); {
			case eng.Method(`store/datas\.rootTracker$`, "Root")(call):
				root = call
				cnt["root"]++
			case n == "(*store/datas.database).loadDatasetsRefmap":
				load = call
				cnt["load"]++
			case n == "(*store/datas.database).tryCommitChunks":
				try = call
				cnt["try"]++
			case call.Call.StaticCallee() == nil && !call.Call.IsInvoke():
				if p, ok := call.Call.Value.(*ssa.Parameter); ok && p.Parent() == fn {
					edit = call
					cnt["edit"]++
				}
			}
		}
		if root == nil || load == nil || edit == nil || try == nil || cnt["root"] != 1 || cnt["load"] != 1 || cnt["edit"] != 1 || cnt["try"] != 1 {
			k.Unknown("update-token-flow", eng.Name(fn), "one Root read, one datasets load, one call of the edit function, one tryCommitChunks per attempt", fmt.Sprintf("found %v", cnt))
		} else {
			rootV := dsExtractOf(root, 0)
			loadV := dsExtractOf(load, 0)
			editV := dsExtractOf(edit, 0)
			k.Require("update-token-flow", eng.Name(fn)+"#datasets-of-read-root", "the datasets handed to the edit function are loaded from the root that was just read", rootV != nil && len(load.Call.Args) == 3 && load.Call.Args[2] == ssa.Value(rootV), c.InstrPos(load), "loadDatasetsRefmap is not given the root read in this attempt")
			k.Require("update-token-flow", eng.Name(fn)+"#edit-sees-loaded-map", "the edit function receives the datasets map loaded from that root", loadV != nil && len(edit.Call.Args) == 2 && edit.Call.Args[1] == ssa.Value(loadV), c.InstrPos(edit), "edit function is given another map")
			k.Require("update-token-flow", eng.Name(fn)+"#cas-token-is-read-root", "tryCommitChunks compares against the root the datasets were loaded from", rootV != nil && len(try.Call.Args) == 4 && try.Call.Args[3] == ssa.Value(rootV), c.InstrPos(try), "the CAS token is not the root read at the start of the attempt")
			k.Require("update-token-flow", eng.Name(fn)+"#commits-edited-map", "the committed root is built from the map the edit function returned", editV != nil && len(try.Call.Args) == 4 && eng.Slice(try.Call.Args[2], true, func(v ssa.Value) bool { return v == ssa.Value(editV) }), c.InstrPos(try), "new root does not derive from the edit function's result")
			tryset := eng.NewSet().AddI(try)
			k.OnlyAfter("update-token-flow", fn, "update reports success only after tryCommitChunks ran", eng.SuccessExits(fn), 1, tryset)
			k.OnlyAfter("update-token-flow", fn, "tryCommitChunks only after the edit function returned nil", tryset, 1, eng.OkCut(edit))
			// when the CAS lost, success is reachable only through another attempt
			lost := dsCmpEdges(fn, func(v ssa.Value) bool { return v == ssa.Value(try) }, func(v ssa.Value) bool {
				u, ok := v.(*ssa.UnOp)
				if !ok || u.Op != token.MUL {
					return false
				}
				g, ok := u.X.(*ssa.Global)
				return ok && g.Name() == "ErrOptimisticLockFailed"
			}, true)
			if lost.Len() != 1 {
				k.Unknown("update-token-flow", eng.Name(fn)+"#retry", "the branch on ErrOptimisticLockFailed after tryCommitChunks", fmt.Sprintf("found %d", lost.Len()))
			} else {
				var starts []eng.Point
				for e := range lost.E {
					starts = append(starts, eng.Point{B: e.To(), I: 0})
				}
				k.OnlyAfter("update-token-flow", fn, "after a lost CAS success is reachable only through a new attempt (re-read root, re-run the edit function)", eng.SuccessExits(fn), 1, eng.UnionOf(eng.NewSet().AddI(root)), starts...)
			}
		}
	}
	if fn := k.Fn("(*store/datas.database).tryCommitChunks"); fn != nil {
		mCommit := eng.Method(`store/datas\.rootTracker$`, "Commit")
		calls := eng.Calls(fn, mCommit, false)
		if len(calls) != 1 || len(fn.Params) != 4 {
			k.Unknown("root-commit", eng.Name(fn), "the single rootTracker.Commit call", fmt.Sprintf("found %d", len(calls)))
		} else {
			call := calls[0].(*ssa.Call)
			args := call.Call.Args // invoke: (ctx, current, last)
			k.Require("root-commit", eng.Name(fn)+"#argument-order", "rootTracker.Commit(ctx, new, expected) receives tryCommitChunks' (new, current) in that order", len(args) == 3 && args[1] == ssa.Value(fn.Params[2]) && args[2] == ssa.Value(fn.Params[3]), c.InstrPos(call), "new/expected roots swapped or replaced")
			okEdge := dsBoolEdges(fn, func(v ssa.Value) bool {
				ex, ok := v.(*ssa.Extract)
				return ok && ex.Index == 0 && ex.Tuple == ssa.Value(call)
			}, true)
			k.OnlyAfter("root-commit", fn, "success only when rootTracker.Commit reported success", eng.SuccessExits(fn), 1, okEdge)
			k.OnlyAfter("root-commit", fn, "success only when rootTracker.Commit returned no error", eng.SuccessExits(fn), 1, eng.OkCut(call))
		}
	}
	// who may commit a root / call tryCommitChunks in store/datas
	mAnyCommit := eng.Method(`store/datas\.rootTracker$|store/types\.ValueStore$|store/chunks\.ChunkStore$`, "Commit")
	nC, nT := 0, 0
	for _, f := range c.Funcs("store/datas") {
		for _, call := range eng.Calls(f, mAnyCommit, true) {
			nC++
			k.Require("root-commit-owner", eng.Name(eng.Outermost(f))+"#"+eng.CalleeName(call), "the store root is committed only by tryCommitChunks", eng.Name(f) == "(*store/datas.database).tryCommitChunks", c.InstrPos(call.(ssa.Instruction)), "root committed outside the optimistic loop of database.update")
		}
		for _, call := range eng.Calls(f, eng.Static("(*store/datas.database).tryCommitChunks"), true) {
			nT++
			k.Require("root-commit-owner", eng.Name(eng.Outermost(f))+"#tryCommitChunks", "tryCommitChunks is called only by database.update", eng.Name(f) == dsFnUpdate, c.InstrPos(call.(ssa.Instruction)), "tryCommitChunks called outside database.update")
		}
	}
	if nC < 1 || nT < 1 {
		k.Unknown("root-commit-owner", "store/datas", "root commit call sites", fmt.Sprintf("found %d Commit / %d tryCommitChunks sites, confirmed floor 1/1", nC, nT))
	}
}

// C20IsNeqHelper: f is a two-parameter function whose every return is `p0 != p1` (in either order).
func C20IsNeqHelper(f *ssa.Function) bool {
	if f == nil || len(f.Params) != 2 || len(f.Blocks) == 0 {
		return false
	}
	n := 0
	for _, b := range f.Blocks {
		for _, in := range b.Instrs {
			ret, isRet := in.(*ssa.Return)
			if !isRet {
				continue
			}
			if len(ret.Results) != 1 {
				return false
			}
			bo, isBo := ret.Results[0].(*ssa.BinOp)
			if !isBo || bo.Op != token.NEQ ||
				!((bo.X == ssa.Value(f.Params[0]) && bo.Y == ssa.Value(f.Params[1])) || (bo.X == ssa.Value(f.Params[1]) && bo.Y == ssa.Value(f.Params[0]))) {
				return false
			}
			n++
		}
	}
	return n > 0
}

func c20TableNames() []string {
	var names []string
	for n := range c20Table {
		names = append(names, n)
	}
	sort.Strings(names)
	return names
}

// c20CleanViaHelper: the cleanliness verification was extracted into a same-package helper that receives the closure's
// map, the working-set key and the head address read from the same map.  The core rules are applied inside the helper
// (its success exits are the guarded points); the closure must reach its edits only after the helper returned nil (or on
// the edge where no working-set key was given), and the helper's arguments must be exactly those three roles.
func c20CleanViaHelper(k *eng.Check, cl *dsClosure, allowDirtyFlag bool) bool {
	name := eng.Name(cl.Fn)
	for _, ci := range eng.Calls(cl.Fn, func(q ssa.CallInstruction) bool {
		h := q.Common().StaticCallee()
		return h != nil && len(h.Blocks) > 0 && eng.FuncPkg(h) == eng.FuncPkg(cl.Fn) && len(eng.Calls(h, eng.Static(dsFnAmHas), false)) > 0
	}, false) {
		call, ok := ci.(*ssa.Call)
		if !ok {
			continue
		}
		h := call.Call.StaticCallee()
		var amP, keyP, headP *ssa.Parameter
		wsIdx := -1
		for i, a := range call.Call.Args {
			if i >= len(h.Params) {
				break
			}
			switch {
			case cl.isAm(a):
				amP = h.Params[i]
			case eng.ShortType(a.Type()) == "string":
				for j, e := range cl.Edits {
					if dsSameVal(a, e.Key, 6) {
						keyP, wsIdx = h.Params[i], j
					}
				}
			case eng.ShortType(a.Type()) == "store/hash.Hash":
				headP = h.Params[i]
			}
		}
		if amP == nil || keyP == nil || headP == nil || len(cl.Edits) != 2 {
			continue
		}
		k.FuncsSeen[h] = true
		// the head address handed to the helper is the one stored under the other key of the same map
		headKey := cl.Edits[1-wsIdx].Key
		headGets := cl.getsOf(headKey)
		headArgOK := false
		for i, a := range call.Call.Args {
			if i < len(h.Params) && h.Params[i] == headP {
				headArgOK = eng.Slice(a, true, c20InCalls(headGets))
			}
		}
		k.Require("ws-clean-before-edit", name+"#verifier-head", "the head the verifier compares with is the address stored under the head key of the closure's map", headArgOK, k.C.InstrPos(call), "the verifier is given another head address")
		// the closure edits only after the verifier returned nil, or when no working-set key was given
		targets := eng.NewSet()
		for _, e := range cl.Edits {
			targets.AddI(e.Call)
		}
		skip := dsCmpEdges(cl.Fn, func(v ssa.Value) bool { return dsSameVal(v, cl.Edits[wsIdx].Key, 6) }, func(v ssa.Value) bool { return dsIsConstVal(v, constant.MakeString("")) }, true)
		k.OnlyAfter("ws-clean-before-edit", cl.Fn, "edits only after the cleanliness verifier "+eng.Name(h)+" returned nil (or no working-set key given)", targets, 2, eng.UnionOf(eng.OkCut(call), skip))
		// inside the helper
		hcl := &dsClosure{Site: cl.Site, Host: cl.Host, Outer: cl.Outer, Fn: h, Am: amP}
		var hasCalls []*ssa.Call
		for _, hc := range eng.Calls(h, eng.Static(dsFnAmHas), false) {
			if c, isC := hc.(*ssa.Call); isC && len(c.Call.Args) >= 3 && hcl.isAm(c.Call.Args[0]) && dsSameVal(c.Call.Args[2], keyP, 6) {
				hasCalls = append(hasCalls, c)
			}
		}
		headRoot := func(v ssa.Value) bool {
			return eng.Slice(v, true, func(x ssa.Value) bool {
				c := dsCallTo(x, "store/datas.GetCommitRootHash")
				if c == nil || len(c.Call.Args) < 1 {
					return false
				}
				return eng.Slice(c.Call.Args[0], true, func(y ssa.Value) bool { return y == ssa.Value(headP) })
			})
		}
		c20CleanCore(k, hcl, eng.Name(h), keyP, hasCalls, headRoot, eng.SuccessExits(h), 1, allowDirtyFlag)
		return true
	}
	return false
}

// c20FastForwardSplitRoles: doFastForward split into a checking phase (check) and an updating phase: the address the
// updating phase's closure compares the stored head with is the head the checking phase tested (it travels as a result
// of the check call and an argument of the update-phase call), and both phases work on the same dataset.
func c20FastForwardSplitRoles(k *eng.Check, cls []*dsClosure, top, check *ssa.Function, fam []*ssa.Function, isHead func(ssa.Value) bool) {
	callTo := func(h *ssa.Function) *ssa.Call {
		var out *ssa.Call
		for _, ci := range eng.Calls(top, func(q ssa.CallInstruction) bool { return q.Common().StaticCallee() == h }, false) {
			if c, ok := ci.(*ssa.Call); ok {
				if out != nil {
					return nil
				}
				out = c
			}
		}
		return out
	}
	paramIdx := func(f *ssa.Function, v ssa.Value) int {
		// v is a parameter of f, or the cell a captured parameter lives in
		if a, ok := v.(*ssa.Alloc); ok {
			if st := dsSingleStore(a); st != nil {
				v = st.Val
			}
		}
		for i, p := range f.Params {
			if ssa.Value(p) == v {
				return i
			}
		}
		return -1
	}
	checkCall := callTo(check)
	inFam := map[*ssa.Function]bool{}
	for _, g := range fam {
		inFam[g] = true
	}
	// the dataset whose head the checking phase read
	var checkDsArg ssa.Value
	if checkCall != nil {
		for _, ci := range eng.Calls(check, eng.Static("(store/datas.Dataset).MaybeHeadAddr"), false) {
			if p, ok := c20VarOf(ci.Common().Args[0]).(*ssa.Parameter); ok {
				if i := paramIdx(check, p); i >= 0 && i < len(checkCall.Call.Args) {
					checkDsArg = eng.Origin(checkCall.Call.Args[i])
				}
			}
		}
	}
	n := 0
	for _, cl := range cls {
		apply := eng.Outermost(cl.Host)
		if !inFam[apply] || apply == check || cl.MC == nil {
			continue
		}
		applyCall := callTo(apply)
		for _, e := range cl.Edits {
			for _, g := range cl.guards(e.Key) {
				if !g.Captured {
					continue
				}
				n++
				same := len(g.FVs) == 1 && checkCall != nil && applyCall != nil
				if same {
					pi := paramIdx(apply, dsFreeBinding(cl.MC, g.FVs[0]))
					same = pi >= 0 && pi < len(applyCall.Call.Args)
					if same {
						ex, isEx := eng.Origin(applyCall.Call.Args[pi]).(*ssa.Extract)
						same = isEx && ex.Tuple == ssa.Value(checkCall)
						if same {
							// every success return of the checking phase answers the tested head at that position
							nRet := 0
							for in := range eng.SuccessExits(check).I {
								ret, isRet := in.(*ssa.Return)
								if !isRet || ex.Index >= len(ret.Results) || !isHead(eng.Unspill(ret, ex.Index)) {
									same = false
								}
								nRet++
							}
							same = same && nRet > 0
						}
					}
				}
				k.Require("ff-ancestry", eng.Name(cl.Fn)+"#expected-is-tested-head", "the address the closure compares the stored head with is the head whose ancestry was tested (handed from the checking phase to the updating phase)", same, k.C.InstrPos(g.If), "the updating phase's expected address is not the head the checking phase returned")
				dsOK := false
				if applyCall != nil && checkDsArg != nil {
					if ri := paramIdx(apply, c20DatasetOfKey(cl, e.Key)); ri >= 0 && ri < len(applyCall.Call.Args) {
						dsOK = eng.Origin(applyCall.Call.Args[ri]) == checkDsArg
					}
				}
				k.Require("ff-ancestry", eng.Name(cl.Fn)+"#same-dataset", "the compared/edited key is the ID of the dataset whose head was tested", dsOK, k.C.InstrPos(e.Call), "the two phases are given different datasets")
			}
		}
	}
	if n < 1 {
		k.Unknown("ff-ancestry", eng.Name(top)+"#closure", "the compare-and-set comparison of the fast-forward closure", "not found in the phase helpers")
	}
}
