package rules

import (
	"fmt"
	"go/ast"
	"go/token"
	"go/types"
	"sort"
	"strings"

	"dvcheck/internal/eng"

	"golang.org/x/tools/go/packages"
	"golang.org/x/tools/go/ssa"
)

func init() {
	Registry["C40"] = &Rule{
		Explanation: "Decides registry/handler agreement of the binlog type serializers: (1) registry-keys-handled: for every entry K -> S of typeSerializersMap and every method of S (serialize, metadata, deserialize) that dispatches on typ.Type(), K is a case constant of that switch (otherwise the value or its column metadata falls into the default branch: an error, or metadata (0,0)); (2) handled-types-registered: every case constant of such a switch in S is a registry key mapped to S (a handled but unregistered type is rejected as 'unsupported type for binlog replication'); (3) replicable-types-registered: every declared vitess query.Type constant is a registry key or is in the frozen not-replicated table (pseudo types that are never column types; VECTOR, which is rejected with an explicit error). It does not decide the bytes produced by any serializer.",
		RuleText:    "table agreement: keys and value types of the registry composite literal (go/types constant values) against case-constant sets of the expression switches whose tag has type query.Type, compared by go/constant value",
		Assumptions: []string{"a serializer method without a switch over query.Type treats all its registered types uniformly", "typeSerializersMap is only initialised by its composite literal (no later insertions; checked: no MapUpdate outside the initializer)"},
		Patterns:    []string{"./libraries/doltcore/sqle/binlogreplication"},
		Run:         runC40,
	}
}

const c40BinlogPkg = "libraries/doltcore/sqle/binlogreplication"

// c40PkgVarValue finds the initialiser expression of package-level variable name in pkg.
func c40PkgVarValue(pkg *packages.Package, name string) ast.Expr {
	for _, f := range pkg.Syntax {
		for _, d := range f.Decls {
			gd, ok := d.(*ast.GenDecl)
			if !ok || gd.Tok != token.VAR {
				continue
			}
			for _, s := range gd.Specs {
				vs := s.(*ast.ValueSpec)
				for i, n := range vs.Names {
					if n.Name == name && i < len(vs.Values) {
						return vs.Values[i]
					}
				}
			}
		}
	}
	return nil
}

// c40NamedOf strips pointers and returns the named type, if any.
func c40NamedOf(t types.Type) *types.Named {
	for {
		if p, ok := t.(*types.Pointer); ok {
			t = p.Elem()
			continue
		}
		break
	}
	n, _ := t.(*types.Named)
	return n
}

func c40IsQueryType(t string) bool { return strings.HasSuffix(t, "/vt/proto/query.Type") }

func runC40(k *eng.Check, tier string) {
	c := k.C
	pkg := c.Package(c40BinlogPkg)
	if pkg == nil {
		k.Unknown("anchor", c40BinlogPkg, "package must be loaded", "package not loaded")
		return
	}
	lit, _ := c40PkgVarValue(pkg, "typeSerializersMap").(*ast.CompositeLit)
	if lit == nil {
		k.Unknown("anchor", c40BinlogPkg+".typeSerializersMap", "the serializer registry is a composite literal", "variable or its composite-literal initialiser not found")
		return
	}
	// registry: constant value -> (name as written, serializer type)
	type entry struct {
		name string
		ser  *types.Named
		pos  token.Pos
	}
	reg := map[string]entry{}
	bySer := map[*types.Named][]string{} // serializer -> key values
	for _, e := range lit.Elts {
		kv, ok := e.(*ast.KeyValueExpr)
		if !ok {
			k.Unknown("registry", "typeSerializersMap", "registry entries are key: value pairs", "non key-value element at "+c.Pos(e.Pos()))
			continue
		}
		tv, ok := pkg.TypesInfo.Types[kv.Key]
		if !ok || tv.Value == nil {
			k.Unknown("registry", "typeSerializersMap#"+types.ExprString(kv.Key), "registry keys are constants", "key is not a constant at "+c.Pos(kv.Key.Pos()))
			continue
		}
		st := c40NamedOf(pkg.TypesInfo.TypeOf(kv.Value))
		if st == nil {
			k.Unknown("registry", "typeSerializersMap#"+types.ExprString(kv.Key), "registry values are serializer struct values", "cannot resolve the serializer type at "+c.Pos(kv.Value.Pos()))
			continue
		}
		v := tv.Value.ExactString()
		reg[v] = entry{types.ExprString(kv.Key), st, kv.Key.Pos()}
		bySer[st] = append(bySer[st], v)
	}
	if len(reg) < 29 || len(bySer) < 16 {
		k.Unknown("registry", "typeSerializersMap", "entries of the serializer registry", fmt.Sprintf("found %d keys / %d serializer types (confirmed floor 29 / 16)", len(reg), len(bySer)))
	}
	// the registry is only populated by its literal
	if sp := c.P.SSAPkg["github.com/dolthub/dolt/go/"+c40BinlogPkg]; sp != nil {
		if g, ok := sp.Members["typeSerializersMap"].(*ssa.Global); ok {
			for _, fn := range c.Funcs(c40BinlogPkg) {
				for _, b := range fn.Blocks {
					for _, in := range b.Instrs {
						switch x := in.(type) {
						case *ssa.MapUpdate:
							if ld, ok := x.Map.(*ssa.UnOp); ok && ld.X == ssa.Value(g) {
								k.Fail("registry-literal-only", eng.Name(fn), "the registry is populated only by its composite literal", c.InstrPos(in), "typeSerializersMap is updated outside its initialiser: the registry table read by this check is incomplete", nil)
							}
						case *ssa.Store:
							if x.Addr == ssa.Value(g) {
								k.Fail("registry-literal-only", eng.Name(fn), "the registry is populated only by its composite literal", c.InstrPos(in), "typeSerializersMap is reassigned outside its initialiser", nil)
							}
						}
					}
				}
			}
		}
	}

	// per serializer: the switches over query.Type of its three methods
	sers := make([]*types.Named, 0, len(bySer))
	for s := range bySer {
		sers = append(sers, s)
	}
	sort.Slice(sers, func(i, j int) bool { return sers[i].Obj().Name() < sers[j].Obj().Name() })
	nSwitch := 0
	for _, s := range sers {
		keys := bySer[s]
		sort.Strings(keys)
		for _, m := range []string{"serialize", "metadata", "deserialize"} {
			fn := c.Func("(" + c40BinlogPkg + "." + s.Obj().Name() + ")." + m)
			if fn == nil {
				fn = c.Func("(*" + c40BinlogPkg + "." + s.Obj().Name() + ")." + m)
			}
			if fn == nil {
				k.Unknown("anchor", s.Obj().Name()+"."+m, "every registered serializer has the three typeSerializer methods", "method not found")
				continue
			}
			k.FuncsSeen[fn] = true
			var sws []eng.SwitchTable
			for _, st := range c.Switches(fn, true) {
				if c40IsQueryType(st.TagType) {
					sws = append(sws, st)
				}
			}
			if len(sws) == 0 {
				continue // type-agnostic method
			}
			for _, st := range sws {
				nSwitch++
				for _, v := range keys {
					_, ok := st.Consts[v]
					k.Require("registry-keys-handled", s.Obj().Name()+"."+m+"#"+reg[v].name,
						"a type registered for this serializer has a case in the method's switch over typ.Type()", ok, c.Pos(st.Node.Pos()),
						reg[v].name+" is mapped to "+s.Obj().Name()+" in typeSerializersMap but "+m+" has no case for it: it falls into the default branch")
				}
				cvs := make([]string, 0, len(st.Consts))
				for v := range st.Consts {
					cvs = append(cvs, v)
				}
				sort.Strings(cvs)
				for _, v := range cvs {
					e, ok := reg[v]
					good := ok && e.ser == s
					why := st.Consts[v] + " is handled by " + s.Obj().Name() + "." + m + " but is not a key of typeSerializersMap: columns of this type are rejected as unsupported"
					if ok && e.ser != s {
						why = st.Consts[v] + " is handled by " + s.Obj().Name() + "." + m + " but typeSerializersMap maps it to " + e.ser.Obj().Name()
					}
					k.Require("handled-types-registered", s.Obj().Name()+"."+m+"#"+st.Consts[v],
						"a type handled by a serializer's switch is registered for that serializer", good, c.Pos(st.Node.Pos()), why)
				}
			}
		}
	}
	if nSwitch < 7 {
		k.Unknown("registry-keys-handled", c40BinlogPkg, "switches over typ.Type() in serializer methods", fmt.Sprintf("found %d (confirmed floor 7)", nSwitch))
	}

	// (3) every declared query.Type is registered or explicitly not replicated
	notReplicated := map[string]string{
		"Type_NULL_TYPE":  "pseudo type of the NULL literal; never the declared type of a stored column",
		"Type_TUPLE":      "pseudo type of row expressions; never a column type",
		"Type_EXPRESSION": "pseudo type of unresolved expressions; never a column type",
		"Type_VECTOR":     "VECTOR columns are not replicated: the producer rejects them with 'unsupported type for binlog replication' instead of emitting bytes",
	}
	all := c.PackageConsts("github.com/dolthub/vitess/go/vt/proto/query", "Type", func(n string) bool { return strings.HasPrefix(n, "Type_") })
	if len(all) < 33 {
		k.Unknown("replicable-types-registered", "query.Type", "declared vitess column types", fmt.Sprintf("found %d constants (confirmed floor 33)", len(all)))
	}
	for _, d := range all {
		if why, ok := notReplicated[d.Name]; ok {
			if _, has := reg[d.Value]; has {
				k.Pass("replicable-types-registered", "query."+d.Name, "registered (listed exception no longer needed)", 1)
			} else {
				k.Pass("replicable-types-registered", "query."+d.Name, "frozen exception: "+why, 1)
			}
			continue
		}
		_, ok := reg[d.Value]
		k.Require("replicable-types-registered", "query."+d.Name, "every column type has a binlog serializer or a frozen not-replicated reason", ok, c.Pos(lit.Pos()),
			"query."+d.Name+" has no entry in typeSerializersMap: a table with such a column cannot be replicated")
	}
}
