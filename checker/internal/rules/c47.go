package rules

import (
	"go/token"
	"fmt"
	"go/types"
	"sort"
	"strings"

	"dvcheck/internal/eng"

	"golang.org/x/tools/go/ssa"
)

func init() {
	Registry["C47"] = &Rule{
		Explanation: "Decides the structural clause 'drop moves, only purge deletes, restore validates before it moves' of DROP DATABASE / dolt_undrop / dolt_purge_dropped_databases: (1) in package sqle the only functions that delete anything from a filesystem are PurgeAllDroppedDatabases (purge) and removeIncompleteDatabase (a create/clone that never completed); the static call closures of DoltDatabaseProvider.DropDatabase and UndropDatabase contain no filesystem delete, and DropDatabase reaches droppedDatabaseManager.DropDatabase; (2) droppedDatabaseManager.DropDatabase succeeds only through an error-checked MoveDir whose source derives from the location parameter and whose destination is built under the holding directory, and that destination was first handed to prepareToMoveDroppedDatabase (error checked); prepareToMoveDroppedDatabase succeeds only when nothing exists at the target or after it MOVED the existing copy aside, to a path it checked to be free; (3) UndropDatabase moves only after validateUndropDatabase returned nil, with (source, destination) taken from the validator's matching results; the validator succeeds only when a dropped copy was found, the case-insensitive existence check of the very path it returns as destination said 'absent' and its error was nil; its source is holding-directory + exact-case name; the provider checks name availability before restoring; (4) purge deletes only what an iteration of the holding directory hands it, and is reachable only from the purge procedure. It does not decide that a moved directory is byte-identical, nor the provider's in-memory bookkeeping.",
		RuleText:    "who-may-call allowlists and static call closures (filesystem deletes), cut-reachability on the SSA CFG (success exits / MoveDir unreachable once the required checked calls and boolean edges are removed), argument provenance (same SSA value / result index / constant holding-directory name)",
		Assumptions: []string{"filesystem deletion happens only through filesys.{Delete,DeleteFile,DeleteFileDurably} or os.Remove/RemoveAll", "filesys.MoveDir is a rename that does not delete its source's content", "calls through interfaces other than filesys.* (database Close, drop hooks) do not delete database directories"},
		Patterns:    []string{"./libraries/doltcore/sqle", "./libraries/doltcore/sqle/dprocedures", "./libraries/doltcore/dbfactory"},
		Run:         runC47,
	}
}

const (
	c47Sqle = "libraries/doltcore/sqle"
	c47Mgr  = "(*libraries/doltcore/sqle.droppedDatabaseManager)."
	c47Prov = "(*libraries/doltcore/sqle.DoltDatabaseProvider)."
)

var (
	c47FS      = `libraries/utils/filesys\.`
	c47Destroy = eng.AnyOf(eng.Method(c47FS, "Delete"), eng.Method(c47FS, "DeleteFile"), eng.Method(c47FS, "DeleteFileDurably"),
		eng.Static("os.Remove", "os.RemoveAll"))
	c47MoveDir = eng.Method(c47FS, "MoveDir")
	c47Exists  = eng.Method(c47FS, "Exists")
	c47Iter    = eng.Method(c47FS, "Iter")
)

func runC47(k *eng.Check, tier string) {
	checkCaseInsensitiveCompares(k)

	c := k.C

	// the holding directory name
	holding := ""
	for _, cd := range c.PackageConsts(c47Sqle, "", func(n string) bool { return n == "droppedDatabaseDirectoryName" }) {
		holding = cd.Value
	}
	if holding == "" {
		k.Unknown("anchor", c47Sqle+".droppedDatabaseDirectoryName", "the holding-directory name constant", "constant not found")
		return
	}
	isHolding := func(v ssa.Value) bool {
		cv, ok := eng.Strip(v).(*ssa.Const)
		return ok && cv.Value != nil && cv.Value.ExactString() == holding
	}

	// ---- (1) who may delete -------------------------------------------------------------
	delOwners := map[string]string{
		c47Mgr + "PurgeAllDroppedDatabases":  "purge: the one operation that is allowed to destroy dropped databases",
		c47Prov + "removeIncompleteDatabase": "cleanup of a directory whose CREATE DATABASE / clone never completed (never registered, never dropped)",
	}
	nDel := 0
	for _, fn := range c.Funcs(c47Sqle) {
		for _, call := range eng.Calls(fn, c47Destroy, true) {
			nDel++
			owner := eng.Name(eng.Outermost(fn))
			_, ok := delOwners[owner]
			k.Require("delete-owners", owner+"#"+eng.CalleeName(call), "only purge and incomplete-create cleanup delete from a filesystem in package sqle", ok, c.InstrPos(call.(ssa.Instruction)), "new filesystem delete in package sqle: a dropped (or live) database directory could be destroyed outside purge")
		}
	}
	if nDel < 2 {
		k.Unknown("delete-owners", c47Sqle, "filesystem delete sites in package sqle", fmt.Sprintf("found %d, confirmed floor 2", nDel))
	}
	inPkgs := func(p string) bool { return p == c47Sqle || p == "libraries/doltcore/dbfactory" }
	for _, root := range []string{"DropDatabase", "UndropDatabase"} {
		fn := k.Fn(c47Prov + root)
		if fn == nil {
			continue
		}
		cl := c.StaticClosure([]*ssa.Function{fn}, inPkgs, 6)
		reachesMgr := false
		bad := ""
		for _, f := range cl {
			k.FuncsSeen[f] = true
			if eng.Name(f) == c47Mgr+root {
				reachesMgr = true
			}
			for _, call := range eng.Calls(f, c47Destroy, true) {
				bad = c.InstrPos(call.(ssa.Instruction)) + " in " + eng.Name(f)
			}
		}
		k.Require("drop-path-never-deletes", c47Prov+root+"#closure", fmt.Sprintf("no filesystem delete in the static call closure of the provider's %s (%d functions)", root, len(cl)), bad == "", bad, "the drop/undrop path deletes from the filesystem")
		k.Require("drop-path-never-deletes", c47Prov+root+"#manager", "the provider delegates to droppedDatabaseManager."+root, reachesMgr, c.Pos(fn.Pos()), "droppedDatabaseManager."+root+" is not in the provider's static call closure")
	}

	// ---- (2) drop = prepare, then move ----------------------------------------------------
	if fn := k.Fn(c47Mgr + "DropDatabase"); fn != nil {
		// the move may have been put into a method of the same receiver that DropDatabase calls (phase split): it is
		// analysed there; DropDatabase must consume that method's verdict, and the location the method moves must
		// derive from DropDatabase's own location parameter
		var hostLoc *ssa.Parameter
		if top := fn; len(eng.Calls(top, c47MoveDir, false)) == 0 {
			var topLoc *ssa.Parameter
			for _, p := range top.Params {
				if b, ok := p.Type().Underlying().(*types.Basic); ok && b.Kind() == types.String {
					topLoc = p
				}
			}
			for _, ci := range eng.Calls(top, func(q ssa.CallInstruction) bool {
				h := q.Common().StaticCallee()
				return h != nil && len(h.Blocks) > 0 && h.Signature.Recv() != nil && top.Signature.Recv() != nil &&
					types.Identical(h.Signature.Recv().Type(), top.Signature.Recv().Type()) && len(eng.Calls(h, c47MoveDir, false)) > 0
			}, false) {
				h := ci.Common().StaticCallee()
				k.FuncsSeen[h] = true
				k.OnlyAfter("drop-moves", top, "DropDatabase succeeds only after its moving phase "+eng.Name(h)+" returned nil", eng.SuccessExits(top), 1, eng.OkCut(ci))
				for i, a := range ci.Common().Args {
					if i < len(h.Params) && topLoc != nil && eng.ShortType(a.Type()) == "string" && eng.Slice(a, true, func(v ssa.Value) bool { return v == ssa.Value(topLoc) }) {
						hostLoc = h.Params[i]
					}
				}
				k.Require("drop-move-roles", eng.Name(top)+"#location-handed-on", "the moving phase receives a location derived from DropDatabase's location parameter", hostLoc != nil, c.InstrPos(ci.(ssa.Instruction)), "no string argument of the phase call derives from the location parameter")
				fn = h
				break
			}
		}
		exits := eng.SuccessExits(fn)
		moves := eng.Calls(fn, c47MoveDir, false)
		k.OnlyAfter("drop-moves", fn, "success exit only after MoveDir returned nil", exits, 1, k.OkCalls(fn, "movedir", c47MoveDir))
		mPrep := eng.Static(c47Mgr + "prepareToMoveDroppedDatabase")
		k.OnlyAfter("drop-prepare-before-move", fn, "MoveDir only after prepareToMoveDroppedDatabase returned nil", eng.CallSet(fn, c47MoveDir), 1, k.OkCalls(fn, "prepare", mPrep))
		// the location parameter: last string parameter
		var loc *ssa.Parameter
		for _, p := range fn.Params {
			if b, ok := p.Type().Underlying().(*types.Basic); ok && b.Kind() == types.String {
				loc = p
			}
		}
		if hostLoc != nil {
			loc = hostLoc
		}
		preps := eng.Calls(fn, mPrep, false)
		for _, mv := range moves {
			a := eng.PathArgs(mv)
			if len(a) != 2 || loc == nil {
				k.Unknown("drop-move-roles", eng.Name(fn), "MoveDir(source, destination)", "unexpected MoveDir arity or no string parameter")
				continue
			}
			srcOK := eng.Slice(a[0], true, func(v ssa.Value) bool { return v == ssa.Value(loc) }) && !eng.Slice(a[0], true, isHolding)
			dstOK := eng.Slice(a[1], true, isHolding)
			k.Require("drop-move-roles", eng.Name(fn)+"#source", "the directory moved is derived from the location parameter (and is not under the holding directory)", srcOK, c.InstrPos(mv.(ssa.Instruction)), "MoveDir source does not derive from the database location parameter")
			k.Require("drop-move-roles", eng.Name(fn)+"#destination", "the destination is built under the holding directory", dstOK, c.InstrPos(mv.(ssa.Instruction)), "MoveDir destination is not under "+holding)
			same := false
			for _, p := range preps {
				pa := eng.PathArgs(p)
				if len(pa) > 0 && eng.Origin(pa[len(pa)-1]) == eng.Origin(a[1]) {
					same = true
				}
			}
			k.Require("drop-prepare-before-move", eng.Name(fn)+"#same-path", "the path prepared is the path moved to", same, c.InstrPos(mv.(ssa.Instruction)), "prepareToMoveDroppedDatabase was given a different path than the MoveDir destination")
		}
	}
	if fn := k.Fn(c47Mgr + "prepareToMoveDroppedDatabase"); fn != nil {
		var target *ssa.Parameter
		for _, p := range fn.Params {
			if b, ok := p.Type().Underlying().(*types.Basic); ok && b.Kind() == types.String {
				target = p
			}
		}
		existsOf := func(path func(ssa.Value) bool) func(ssa.Value) bool {
			return func(v ssa.Value) bool {
				ex, ok := v.(*ssa.Extract)
				if !ok || ex.Index != 0 {
					return false
				}
				call, ok := ex.Tuple.(*ssa.Call)
				if !ok || !c47Exists(call) {
					return false
				}
				a := eng.PathArgs(call)
				return len(a) == 1 && path(a[0])
			}
		}
		isTarget := func(v ssa.Value) bool { return target != nil && eng.Origin(v) == ssa.Value(target) }
		absent := eng.BoolEdges(fn, existsOf(isTarget), false)
		if absent.Len() < 1 {
			k.Unknown("prepare-moves-aside", eng.Name(fn), "the existence test of the target path", "no If on Exists(targetPath)")
		}
		k.OnlyAfter("prepare-moves-aside", fn, "success only when nothing exists at the target, or after the existing dropped copy was moved aside (MoveDir nil)", eng.SuccessExits(fn), 1,
			eng.UnionOf(absent, k.OkCalls(fn, "movedir", c47MoveDir)))
		moves := eng.Calls(fn, c47MoveDir, false)
		if len(moves) < 1 {
			k.Unknown("prepare-moves-aside", eng.Name(fn)+"#MoveDir", "the move of the existing dropped copy", "no MoveDir call")
		}
		for _, mv := range moves {
			a := eng.PathArgs(mv)
			if len(a) != 2 {
				continue
			}
			k.Require("prepare-moves-aside", eng.Name(fn)+"#source", "what is moved aside is the existing copy at the target path", isTarget(a[0]), c.InstrPos(mv.(ssa.Instruction)), "MoveDir source is not the target path")
			dst := eng.Origin(a[1])
			free := eng.BoolEdges(fn, existsOf(func(v ssa.Value) bool { return eng.Origin(v) == dst }), false)
			k.OnlyAfter("prepare-backup-unique", fn, "the existing copy is moved only to a path that was checked to be free", eng.NewSet().AddI(mv.(ssa.Instruction)), 1, free)
		}
	}

	// ---- (3) undrop ---------------------------------------------------------------------
	srcIdx, dstIdx := -1, -1
	mValidate := eng.Static(c47Mgr + "validateUndropDatabase")
	mHasPath := eng.Static(c47Sqle + ".hasCaseInsensitivePath")
	mHasMatch := eng.Static(c47Sqle + ".hasCaseInsensitiveMatch")
	resOf := func(m eng.CallM, idx int) func(ssa.Value) bool {
		return func(v ssa.Value) bool {
			ex, ok := v.(*ssa.Extract)
			if !ok || ex.Index != idx {
				return false
			}
			call, ok := ex.Tuple.(*ssa.Call)
			return ok && m(call)
		}
	}
	isSourcePath := func(r ssa.Value) bool {
		call, ok := eng.Origin(r).(*ssa.Call)
		if !ok || eng.CalleeName(call) != "path/filepath.Join" {
			return false
		}
		okHold, okExact := false, false
		for j, a := range eng.FlatArgs(call) {
			if j == 0 && isHolding(a) {
				okHold = true
			}
			if j > 0 && resOf(mHasMatch, 1)(eng.Origin(a)) {
				okExact = true
			}
		}
		return okHold && okExact && len(eng.FlatArgs(call)) == 2
	}
	// the validation may live in validateUndropDatabase or, inlined, in UndropDatabase itself: V is the function
	// that calls hasCaseInsensitivePath; its guarded points are its success exits (validator) or the MoveDir calls (inline)
	V, inline := c.Func(c47Mgr+"validateUndropDatabase"), false
	if V == nil {
		if u := c.Func(c47Mgr + "UndropDatabase"); u != nil && len(eng.Calls(u, mHasPath, false)) > 0 {
			V, inline = u, true
		} else {
			k.Fn(c47Mgr + "validateUndropDatabase") // records the missing anchor
		}
	}
	if fn := V; fn != nil {
		k.FuncsSeen[fn] = true
		exits := eng.SuccessExits(fn)
		if inline {
			exits = eng.CallSet(fn, c47MoveDir)
		}
		what := "success"
		if inline {
			what = "the dropped copy is moved back"
		}
		k.OnlyAfter("undrop-no-overwrite", fn, what+" only on the edge where hasCaseInsensitivePath reported 'absent'", exits, 1, eng.BoolEdges(fn, resOf(mHasPath, 0), false))
		k.OnlyAfter("undrop-no-overwrite", fn, what+" only after hasCaseInsensitivePath returned a nil error", exits, 1, k.OkCalls(fn, "haspath", mHasPath))
		k.OnlyAfter("undrop-found", fn, what+" only on the edge where a dropped database with that name was found", exits, 1, eng.BoolEdges(fn, resOf(mHasMatch, 0), true))
		// which values are source and destination
		paths := eng.Calls(fn, mHasPath, false)
		var checked ssa.Value
		if len(paths) == 1 && len(paths[0].Common().Args) == 2 {
			checked = eng.Origin(paths[0].Common().Args[1])
		}
		if inline {
			for _, mv := range eng.Calls(fn, c47MoveDir, false) {
				a := eng.PathArgs(mv)
				d := len(a) == 2 && checked != nil && eng.Origin(a[1]) == checked
				sOK := len(a) == 2 && isSourcePath(a[0])
				k.Require("undrop-validates-destination", eng.Name(fn)+"#destination", "the destination of the move is the very path whose existence was checked", d, c.InstrPos(mv.(ssa.Instruction)), "MoveDir's destination is not the value passed to hasCaseInsensitivePath")
				k.Require("undrop-source", eng.Name(fn)+"#source", "the source of the move is Join(holding directory, exact-case name found in the holding directory)", sOK, c.InstrPos(mv.(ssa.Instruction)), "MoveDir's source is not filepath.Join(holding dir, exact-case name)")
			}
		} else {
			nRet := 0
			for in := range exits.I {
				ret, ok := in.(*ssa.Return)
				if !ok {
					continue
				}
				nRet++
				s, d := -1, -1
				for i, r := range ret.Results {
					if checked != nil && eng.Origin(r) == checked {
						d = i
					}
					if isSourcePath(r) {
						s = i
					}
				}
				k.Require("undrop-validates-destination", eng.Name(fn)+"#destination", "the path returned as destination is the very path whose existence was checked", d >= 0, c.InstrPos(ret), "no result of the success return is the value passed to hasCaseInsensitivePath")
				k.Require("undrop-source", eng.Name(fn)+"#source", "the source returned is Join(holding directory, exact-case name found in the holding directory)", s >= 0, c.InstrPos(ret), "no result of the success return is filepath.Join(holding dir, exact-case name)")
				srcIdx, dstIdx = s, d
			}
			if nRet != 1 {
				k.Unknown("undrop-validates-destination", eng.Name(fn), "the single success return of the validator", fmt.Sprintf("found %d success Return instructions", nRet))
				srcIdx, dstIdx = -1, -1
			}
		}
	}
	if fn := k.Fn(c47Mgr + "UndropDatabase"); fn != nil {
		moves := eng.Calls(fn, c47MoveDir, false)
		k.OnlyAfter("undrop-validated", fn, "success exit only after MoveDir returned nil", eng.SuccessExits(fn), 1, k.OkCalls(fn, "movedir", c47MoveDir))
		if !inline {
			k.OnlyAfter("undrop-validated", fn, "MoveDir only after validateUndropDatabase returned nil", eng.CallSet(fn, c47MoveDir), 1, k.OkCalls(fn, "validate", mValidate))
			vals := eng.Calls(fn, mValidate, false)
			for _, mv := range moves {
				a := eng.PathArgs(mv)
				ok := false
				if len(a) == 2 && srcIdx >= 0 && dstIdx >= 0 {
					for _, vc := range vals {
						if eng.ResultOf(a[0], vc, srcIdx) && eng.ResultOf(a[1], vc, dstIdx) {
							ok = true
						}
					}
				}
				k.Require("undrop-move-roles", eng.Name(fn)+"#MoveDir", "MoveDir(source, destination) uses the validator's source and destination results in that order", ok, c.InstrPos(mv.(ssa.Instruction)), "MoveDir arguments are not (validated source, validated destination)")
			}
		}
	}
	if fn := k.Fn(c47Prov + "UndropDatabase"); fn != nil {
		k.OnlyAfter("provider-undrop-name-check", fn, "the dropped copy is restored only after the provider found the name available", eng.CallSet(fn, eng.Static(c47Mgr+"UndropDatabase")), 1,
			k.OkCalls(fn, "avail", eng.Static(c47Prov+"checkDatabaseNameAvailableLocked")))
	}

	// ---- (4) purge ------------------------------------------------------------------------
	if fn := k.Fn(c47Mgr + "PurgeAllDroppedDatabases"); fn != nil {
		n := 0
		for _, f := range eng.WithAnons(fn) {
			for _, call := range eng.Calls(f, c47Destroy, true) {
				n++
				a := eng.PathArgs(call)
				ok := false
				if len(a) >= 1 {
					v := eng.Origin(a[0])
					if isHolding(v) {
						ok = true
					}
					if p, isP := v.(*ssa.Parameter); isP && len(f.Params) > 0 && f.Params[0] == p && f.Parent() != nil {
						// f must be the callback of Iter(holding, ...)
						for _, g := range eng.WithAnons(fn) {
							for _, it := range eng.Calls(g, c47Iter, true) {
								ia := eng.PathArgs(it)
								if len(ia) != 3 || !isHolding(ia[0]) {
									continue
								}
								if mc, isMC := eng.Origin(ia[2]).(*ssa.MakeClosure); isMC && mc.Fn == ssa.Value(f) {
									ok = true
								} else if fv, isF := eng.Origin(ia[2]).(*ssa.Function); isF && fv == f {
									ok = true
								}
							}
						}
					}
				}
				k.Require("purge-scope", eng.Name(fn)+"#"+eng.CalleeName(call), "purge deletes only the holding directory or entries handed out by an iteration of the holding directory", ok, c.InstrPos(call.(ssa.Instruction)), "the deleted path is not an entry of "+holding)
			}
		}
		if n < 1 {
			k.Unknown("purge-scope", eng.Name(fn), "delete calls of purge", "none found (floor 1)")
		}
	}
	// routes to purge
	routes := []struct{ callee, owner, why string }{
		{c47Mgr + "PurgeAllDroppedDatabases", c47Prov + "PurgeDroppedDatabases", "the provider's purge entry point"},
	}
	for _, r := range routes {
		target := k.Fn(r.callee)
		if target == nil {
			continue
		}
		n := 0
		for _, call := range eng.CallersOf(c.All(), target) {
			n++
			owner := eng.Name(eng.Outermost(call.Parent()))
			k.Require("purge-route", owner+"#"+r.callee, "purge is reached only from "+r.why, owner == r.owner, c.InstrPos(call.(ssa.Instruction)), "new caller of the purge implementation")
		}
		for _, u := range eng.FuncValueUses(c.All(), target) {
			k.Fail("purge-route", eng.Name(eng.Outermost(u.Parent()))+"#value:"+r.callee, "purge is never taken as a function value", c.InstrPos(u), "purge implementation escapes as a function value", nil)
		}
		if n < 1 {
			k.Unknown("purge-route", r.callee, "callers of the purge implementation", "none found (floor 1)")
		}
	}
	// callers of the provider method PurgeDroppedDatabases (static or through dsess.DoltDatabaseProvider)
	purgeCallers := map[string]string{
		"libraries/doltcore/sqle/dprocedures.doltPurgeDroppedDatabases": "the dolt_purge_dropped_databases() procedure (admin only)",
	}
	mPurge := func(ci ssa.CallInstruction) bool {
		cc := ci.Common()
		if cc.IsInvoke() {
			return cc.Method.Name() == "PurgeDroppedDatabases"
		}
		f := cc.StaticCallee()
		return f != nil && f.Name() == "PurgeDroppedDatabases" && f.Signature.Recv() != nil
	}
	var seen []string
	for _, fn := range c.All() {
		for _, call := range eng.Calls(fn, mPurge, true) {
			owner := eng.Name(eng.Outermost(fn))
			seen = append(seen, owner)
			_, ok := purgeCallers[owner]
			k.Require("purge-route", owner+"#PurgeDroppedDatabases", "PurgeDroppedDatabases is called only by the purge procedure", ok, c.InstrPos(call.(ssa.Instruction)), "new route to purge: dropped databases can be destroyed outside dolt_purge_dropped_databases()")
		}
	}
	sort.Strings(seen)
	if len(seen) < 1 {
		k.Unknown("purge-route", "PurgeDroppedDatabases", "callers of the provider purge method", "none found (floor 1): "+strings.Join(seen, ","))
	}
}

// checkCaseInsensitiveCompares: the helpers that decide "a database of this name already exists / was dropped"
// compare names case-insensitively on BOTH sides (restore must never overwrite an existing database whose name
// differs only in case).  A string equality in these helpers is either strings.EqualFold or an ==/!= whose two
// operands are both folded with the same strings.ToLower/ToUpper.
func checkCaseInsensitiveCompares(k *eng.Check) {
	c := k.C
	isFold := func(name string) func(ssa.Value) bool {
		return func(v ssa.Value) bool {
			cc, ok := v.(*ssa.Call)
			return ok && eng.CalleeName(cc) == name
		}
	}
	for _, name := range []string{"libraries/doltcore/sqle.hasCaseInsensitivePath", "libraries/doltcore/sqle.hasCaseInsensitiveMatch"} {
		fn := k.Fn(name)
		if fn == nil {
			continue
		}
		nCmp := 0
		for _, f := range eng.WithAnons(fn) {
			nCmp += len(eng.Calls(f, eng.Static("strings.EqualFold"), false))
			for _, in := range eng.Instrs(f, func(in ssa.Instruction) bool {
				b, ok := in.(*ssa.BinOp)
				if !ok || (b.Op != token.EQL && b.Op != token.NEQ) {
					return false
				}
				bt, ok := b.X.Type().Underlying().(*types.Basic)
				return ok && bt.Info()&types.IsString != 0
			}) {
				b := in.(*ssa.BinOp)
				nCmp++
				lower := eng.Mentions(b.X, isFold("strings.ToLower")) && eng.Mentions(b.Y, isFold("strings.ToLower"))
				upper := eng.Mentions(b.X, isFold("strings.ToUpper")) && eng.Mentions(b.Y, isFold("strings.ToUpper"))
				k.Require("name-compare-case-insensitive", eng.Name(f)+"#string-equality", "a name comparison in the exists/dropped lookup helpers folds case on both sides", lower || upper, c.InstrPos(in),
					"string equality with at most one side case-folded: a name differing only in case is not recognised as a collision")
			}
		}
		if nCmp < 1 {
			k.Unknown("name-compare-case-insensitive", name, "name comparison", "no EqualFold call or string equality found")
		} else {
			k.Pass("name-compare-case-insensitive", name, "all name comparisons are case-insensitive on both sides", nCmp)
		}
	}
}
