package rules

import (
	"fmt"
	"go/token"
	"sort"
	"strings"

	"dvcheck/internal/eng"

	"golang.org/x/tools/go/ssa"
)

func init() {
	Registry["C28"] = &Rule{
		Explanation: "Decides that every read-modify-write of the shared auto-increment sequence state (SequenceTracker.sequences) is inside the per-table critical section and is based on the shared state. (1) Only the frozen set of SequenceTracker functions mutates the sequence map; the initialisation goroutines merge with LoadOrStore/CompareAndSwap only (no plain Store). (2) In Next, Set, AddNewRelation and DropRelation every access to the sequence map and every call of a caller-holds-the-lock helper (deepSet, initializeSequenceState) is reachable only after a.mm.Lock(key) (in Next: or on the edge lockMode != Interleaved, where the statement holds AcquireLock's mutex), the release function is only deferred, and the helpers are called from nowhere else. (3) The mutex key and every sequence-map key are the lower-cased table name (TableName.ToLower), and inside a locking function the lock key and the map key are the same value; AcquireLock returns exactly a.mm.Lock(...) of that same mutex map. (4) Every access is preceded by a successful waitForInit. (5) In Next a generated value is returned only after the successor state computed by the same State.Next() call was stored, that call's receiver is the state loaded from / initialised into the map under the lock, and an accepted explicit value is returned only after the map was advanced. (6) initializeSequenceState reports as current state only a value it loaded from, or stored into, the map. It does not decide the cross-branch maximum computation nor the engine's statement-level locking in the non-interleaved lock modes.",
		RuleText:    "who-may-mutate allowlist over the sequence map, cut-reachability locksets on the SSA CFG (Lock call / lock-mode edge as cuts, deferred release), key provenance through reaching stores and caller arguments, value provenance of stored and returned states",
		Assumptions: []string{
			"in lock modes other than Interleaved go-mysql-server brackets every auto-increment insert statement with AutoIncrementSetter.AcquireAutoIncrementLock (prollyTableWriter -> SequenceTracker.AcquireLock)",
			"mutexmap.MutexMap.Lock(k) is a mutex per distinct key value",
		},
		Patterns: []string{"./libraries/doltcore/sqle/dsess"},
		Run:      runC28,
	}
}

const (
	c28Tracker = "(*libraries/doltcore/sqle/dsess.SequenceTracker)."
	c28SyncMap = "(*libraries/doltcore/sqle/dsess.SyncMap)."
)

var (
	c28mMutexLock = eng.Static("(*libraries/doltcore/sqle/dsess/mutexmap.MutexMap).Lock")
	c28mLoadState = eng.Static("libraries/doltcore/sqle/dsess.loadSequenceState")
	c28mWaitInit  = eng.Static(c28Tracker + "waitForInit")
	c28mToLower   = eng.Static("(libraries/doltcore/doltdb.TableName).ToLower")
)

// c28trackerField: v is read from field `field` of a SequenceTracker (any instantiation).
func c28trackerField(v ssa.Value, field string) bool {
	return eng.Slice(v, false, func(x ssa.Value) bool {
		n := eng.FieldName(x)
		return strings.HasPrefix(n, "libraries/doltcore/sqle/dsess.SequenceTracker") && strings.HasSuffix(n, "."+field)
	})
}

// c28op is one access to the sequence map.
type c28op struct {
	call   ssa.CallInstruction
	fn     *ssa.Function
	kind   string    // Load, Store, Delete, LoadOrStore, CompareAndSwap, loadSequenceState
	key    ssa.Value // key argument
	val    ssa.Value // stored value (Store) / new value (LoadOrStore, CompareAndSwap)
	mutate bool
}

func c28ops(fn *ssa.Function) []c28op {
	var out []c28op
	for _, ci := range eng.Calls(fn, func(ssa.CallInstruction) bool { return true }, true) {
		cc := ci.Common()
		f := cc.StaticCallee()
		if f == nil {
			continue
		}
		name := eng.Name(f)
		switch {
		case c28mLoadState(ci):
			if len(cc.Args) == 2 && c28trackerField(cc.Args[0], "sequences") {
				out = append(out, c28op{call: ci, fn: fn, kind: "loadSequenceState", key: cc.Args[1]})
			}
		case strings.HasPrefix(name, c28SyncMap):
			if len(cc.Args) < 2 || !c28trackerField(cc.Args[0], "sequences") {
				continue
			}
			op := c28op{call: ci, fn: fn, kind: strings.TrimPrefix(name, c28SyncMap), key: cc.Args[1]}
			op.mutate = op.kind != "Load"
			if op.kind == "Store" || op.kind == "LoadOrStore" {
				op.val = cc.Args[2]
			}
			if op.kind == "CompareAndSwap" && len(cc.Args) == 4 {
				op.val = cc.Args[3]
			}
			out = append(out, op)
		}
	}
	return out
}

func c28short(fn *ssa.Function) string {
	return strings.TrimPrefix(eng.Name(fn), c28Tracker)
}

// c28normKey: v is a lower-cased table name: the result of TableName.ToLower, possibly through
// a local variable whose every reaching store is one, a phi of such values, or a parameter
// of a caller-holds helper whose every call site passes one.
func c28normKey(c *eng.Ctx, v ssa.Value, helpers map[string]bool, depth int) bool {
	v = c23strip(v)
	if depth > 4 || v == nil {
		return false
	}
	switch x := v.(type) {
	case *ssa.Call:
		return c28mToLower(x)
	case *ssa.Phi:
		for _, e := range x.Edges {
			if !c28normKey(c, e, helpers, depth+1) {
				return false
			}
		}
		return len(x.Edges) > 0
	case *ssa.UnOp:
		if x.Op != token.MUL {
			return false
		}
		if _, isAlloc := x.X.(*ssa.Alloc); isAlloc {
			stores, unknown := eng.C23ReachingStores(x)
			if unknown || len(stores) == 0 {
				return false
			}
			for _, st := range stores {
				if !c28normKey(c, st.Val, helpers, depth+1) {
					return false
				}
			}
			return true
		}
		if _, isFV := x.X.(*ssa.FreeVar); isFV {
			return c23allOrigins(x, func(o ssa.Value) bool { return c28normKey(c, o, helpers, depth+1) })
		}
	case *ssa.Parameter:
		fn := x.Parent()
		if !helpers[c28short(fn)] {
			return false
		}
		pi := c23paramIndex(fn, x)
		n := 0
		for _, caller := range c.Funcs(c23Dsess) {
			for _, call := range eng.Calls(caller, eng.Static(eng.Name(fn)), true) {
				n++
				a := call.Common().Args
				if pi >= len(a) || !c28normKey(c, a[pi], helpers, depth+1) {
					return false
				}
			}
		}
		return n > 0
	}
	return false
}

func runC28(k *eng.Check, tier string) {
	c := k.C
	// frozen role table: who may touch the sequence map, and how
	roles := map[string]string{
		"Next":                    "locker: per-call lock in Interleaved mode, statement lock (AcquireLock) otherwise",
		"Set":                     "locker",
		"AddNewRelation":          "locker",
		"DropRelation":            "locker",
		"deepSet":                 "helper: caller holds the table lock (Set, initializeSequenceState)",
		"initializeSequenceState": "helper: caller holds the table lock (Next)",
		"initWithRoots":           "init: runs before waitForInit releases any reader; merges with LoadOrStore/CompareAndSwap",
		"Current":                 "reader: pure load, no write depends on it",
	}
	lockers := map[string]bool{"Next": true, "Set": true, "AddNewRelation": true, "DropRelation": true}
	helpers := map[string]bool{"deepSet": true, "initializeSequenceState": true}
	lockModeIdiom := map[string]bool{"Next": true}

	var methods []*ssa.Function // declared methods of SequenceTracker (every instantiation)
	for _, fn := range c.Funcs(c23Dsess) {
		if fn.Parent() == nil && strings.HasPrefix(eng.Name(fn), c28Tracker) {
			methods = append(methods, fn)
		}
	}
	if len(methods) < 12 {
		k.Unknown("anchor", c28Tracker, "methods of SequenceTracker", fmt.Sprintf("found %d, confirmed floor 12", len(methods)))
		return
	}

	// (1) who may mutate
	nMut := 0
	opsOf := map[*ssa.Function][]c28op{}
	for _, m := range methods {
		for _, f := range eng.WithAnons(m) {
			k.FuncsSeen[f] = true
			ops := c28ops(f)
			opsOf[m] = append(opsOf[m], ops...)
			for _, op := range ops {
				role, known := roles[c28short(m)]
				key := eng.Name(m) + "#" + op.kind
				if !known {
					k.Fail("sequence-map-owners", key, "only the frozen set of SequenceTracker functions touches the shared sequence map", c.InstrPos(op.call.(ssa.Instruction)), "new accessor of SequenceTracker.sequences", nil)
					continue
				}
				if !op.mutate {
					continue
				}
				nMut++
				ok := true
				why := ""
				switch {
				case strings.HasPrefix(role, "reader"):
					ok, why = false, "a read-only accessor mutates the map"
				case strings.HasPrefix(role, "init"):
					if op.kind != "LoadOrStore" && op.kind != "CompareAndSwap" {
						ok, why = false, "the concurrent initialisation goroutines must merge with LoadOrStore/CompareAndSwap; a plain "+op.kind+" loses the maximum of another root"
					}
				default:
					if op.kind != "Store" && op.kind != "Delete" {
						ok, why = false, "unexpected operation "+op.kind
					}
				}
				k.Require("sequence-map-owners", key, "mutation of the shared sequence map by "+c28short(m)+" ("+role+")", ok, c.InstrPos(op.call.(ssa.Instruction)), why)
			}
		}
	}
	// accessors outside the tracker's methods
	for _, fn := range c.Funcs(c23Dsess) {
		if strings.HasPrefix(eng.Name(eng.Outermost(fn)), c28Tracker) {
			continue
		}
		for _, op := range c28ops(fn) {
			k.Fail("sequence-map-owners", eng.Name(fn)+"#"+op.kind, "only SequenceTracker methods touch the shared sequence map", c.InstrPos(op.call.(ssa.Instruction)), "access from outside the tracker", nil)
		}
	}
	if nMut < 12 {
		k.Unknown("sequence-map-owners", c28Tracker, "mutation sites of the sequence map", fmt.Sprintf("found %d, confirmed floor 12 (10 Store/Delete + LoadOrStore + CompareAndSwap)", nMut))
	}

	helperCalls := func(fn *ssa.Function) []ssa.CallInstruction {
		var names []string
		for h := range helpers {
			names = append(names, c28Tracker+h)
		}
		sort.Strings(names)
		return eng.Calls(fn, eng.Static(names...), true)
	}
	lockCalls := func(fn *ssa.Function) []*ssa.Call {
		var out []*ssa.Call
		for _, ci := range eng.Calls(fn, c28mMutexLock, true) {
			if call, ok := ci.(*ssa.Call); ok && len(call.Call.Args) == 2 && c28trackerField(call.Call.Args[0], "mm") {
				out = append(out, call)
			}
		}
		return out
	}

	seenLocker := map[string]bool{}
	for _, m := range methods {
		name := c28short(m)
		key := eng.Name(m)
		ops := opsOf[m]
		hcalls := helperCalls(m)
		locks := lockCalls(m)

		// (4) initialisation barrier
		if len(ops) > 0 || len(locks) > 0 {
			if name != "initWithRoots" && !helpers[name] {
				tg := eng.NewSet()
				for _, op := range ops {
					if op.fn == m {
						tg.AddI(op.call.(ssa.Instruction))
					}
				}
				for _, l := range locks {
					tg.AddI(l)
				}
				for _, h := range hcalls {
					tg.AddI(h.(ssa.Instruction))
				}
				k.OnlyAfter("init-before-use", m, "the sequence map and the table mutexes are used only after waitForInit returned nil (all branches' maxima are merged)", tg, 1, k.OkCalls(m, "waitinit", c28mWaitInit))
			}
		}

		if name == "AcquireLock" {
			// (3) statement-level lock used by Next in the non-interleaved modes
			ok := len(locks) == 1
			if ok {
				for in := range eng.C23SuccessExits(m).I {
					if c23strip(in.(*ssa.Return).Results[0]) != ssa.Value(locks[0]) {
						ok = false
					}
				}
				if refs := locks[0].Referrers(); refs != nil {
					for _, r := range *refs {
						if _, isRet := r.(*ssa.Return); !isRet {
							ok = false
						}
					}
				}
			}
			k.Require("acquire-returns-table-lock", key, "AcquireLock hands out exactly the release function of a.mm.Lock(table) (the mutex map the other accessors use)", ok, c.Pos(m.Pos()), "AcquireLock does not return a single a.mm.Lock result")
			for _, l := range locks {
				k.Require("lock-key-normalised", key+"#mm.Lock key", "the statement-level table lock uses the lower-cased table name, the key under which Set/AddNewRelation/DropRelation (and Next in Interleaved mode) lock the same table", c28normKey(c, l.Call.Args[1], helpers, 0), c.InstrPos(l), "key is "+eng.Desc(l.Call.Args[1], 3)+": for a table name with upper-case letters AcquireLock and Set/AddNewRelation/DropRelation hold different mutexes")
			}
			continue
		}

		if !lockers[name] {
			continue
		}
		seenLocker[name] = true
		// (2) lockset
		cuts := eng.NewSet()
		for _, l := range locks {
			cuts.AddI(l)
		}
		if lockModeIdiom[name] {
			for _, iff := range c23ifs(m) {
				bo, ok := c23strip(iff.Cond).(*ssa.BinOp)
				if !ok || (bo.Op != token.EQL && bo.Op != token.NEQ) {
					continue
				}
				x, y := bo.X, bo.Y
				if c23globalLoad(x, "dsess.LockMode_Interleaved") {
					x, y = y, x
				}
				if c23globalLoad(y, "dsess.LockMode_Interleaved") && c28trackerField(x, "lockMode") {
					cuts.AddE(c23edge(iff, bo.Op != token.EQL)) // the not-interleaved edge
				}
			}
		}
		targets := eng.NewSet()
		for _, op := range ops {
			if op.fn == m {
				targets.AddI(op.call.(ssa.Instruction))
			} else {
				k.Fail("rmw-under-lock", key+"#literal", "a locking accessor touches the sequence map in its own body (not in a function literal that may outlive the lock)", c.InstrPos(op.call.(ssa.Instruction)), "access from a nested literal", nil)
			}
		}
		for _, h := range hcalls {
			targets.AddI(h.(ssa.Instruction))
		}
		if len(locks) < 1 {
			k.Fail("rmw-under-lock", key, "a locking accessor acquires a.mm.Lock", c.Pos(m.Pos()), "no a.mm.Lock call", nil)
			continue
		}
		k.OnlyAfter("rmw-under-lock", m, "every access to the sequence map and every call of a caller-holds-the-lock helper happens after a.mm.Lock(table)"+map[bool]string{true: " (or on the lockMode != Interleaved edge)", false: ""}[lockModeIdiom[name]], targets, 2, cuts)
		for i, l := range locks {
			lk := fmt.Sprintf("%s#Lock%d", key, i+1)
			deferred := false
			onlyDefer := true
			if refs := l.Referrers(); refs != nil {
				for _, r := range *refs {
					if d, ok := r.(*ssa.Defer); ok && d.Call.Value == ssa.Value(l) {
						deferred = true
					} else {
						onlyDefer = false
					}
				}
			}
			k.Require("release-deferred", lk, "the release function of the table lock is only deferred (the lock is held until the accessor returns, never released before a later map access)", deferred && onlyDefer, c.InstrPos(l), "release function is called directly, stored or dropped")
			k.Require("lock-key-normalised", lk, "the table lock is taken on the lower-cased table name", c28normKey(c, l.Call.Args[1], helpers, 0), c.InstrPos(l), "key is "+eng.Desc(l.Call.Args[1], 3))
			// every map key / helper name argument is the lock key
			for j, op := range ops {
				if op.fn != m {
					continue
				}
				same := c23sameCell(l.Call.Args[1], op.key)
				if !same && op.kind == "loadSequenceState" {
					// loadSequenceState lower-cases its argument itself: the raw name the lock key was derived from is the same table
					same = c28lowerOf(l.Call.Args[1], op.key)
				}
				k.Require("lock-key-is-map-key", fmt.Sprintf("%s#%s%d", lk, op.kind, j+1), "the sequence-map key is the value the table lock was taken on", same, c.InstrPos(op.call.(ssa.Instruction)), "lock key "+eng.Desc(l.Call.Args[1], 3)+" vs map key "+eng.Desc(op.key, 3))
			}
			for j, h := range hcalls {
				same := false
				for _, a := range h.Common().Args {
					if eng.ShortType(a.Type()) == c23Doltdb+".TableName" && c23sameCell(l.Call.Args[1], a) {
						same = true
					}
				}
				k.Require("lock-key-is-map-key", fmt.Sprintf("%s#helper%d", lk, j+1), "the helper is called for the table whose lock is held", same, c.InstrPos(h.(ssa.Instruction)), "helper receives another table name than the lock key")
			}
		}
	}
	for n := range lockers {
		if !seenLocker[n] {
			k.Unknown("anchor", c28Tracker+n, "locking accessor of the sequence tracker", "method not found")
		}
	}

	// map keys are lower-cased wherever the map is written or read directly
	nKeys := 0
	for _, m := range methods {
		for j, op := range opsOf[m] {
			if op.kind == "loadSequenceState" {
				continue // normalises internally (checked below)
			}
			nKeys++
			k.Require("map-key-normalised", fmt.Sprintf("%s#%s%d", eng.Name(m), op.kind, j+1), "the sequence map is keyed by the lower-cased table name (a Store under another spelling is invisible to the next Load: the same value is generated twice)", c28normKey(c, op.key, helpers, 0), c.InstrPos(op.call.(ssa.Instruction)), "key is "+eng.Desc(op.key, 3))
		}
	}
	if nKeys < 12 {
		k.Unknown("map-key-normalised", c28Tracker, "direct sequence-map accesses", fmt.Sprintf("found %d, confirmed floor 12", nKeys))
	}
	if ls := k.Fn("libraries/doltcore/sqle/dsess.loadSequenceState"); ls != nil {
		ok := false
		for _, ci := range eng.Calls(ls, func(ci ssa.CallInstruction) bool {
			f := ci.Common().StaticCallee()
			return f != nil && eng.Name(f) == c28SyncMap+"Load"
		}, false) {
			a := ci.Common().Args
			if len(a) == 2 {
				if call, isCall := c23strip(a[1]).(*ssa.Call); isCall && c28mToLower(call) {
					ok = true
				}
			}
		}
		k.Require("map-key-normalised", eng.Name(ls), "loadSequenceState looks the state up under the lower-cased name", ok, c.Pos(ls.Pos()), "no Load(name.ToLower())")
	}

	// helpers are called only by lockers / helpers
	for _, fn := range c.Funcs(c23Dsess) {
		for _, h := range helperCalls(fn) {
			outer := eng.Outermost(fn)
			n := c28short(outer)
			ok := fn == outer && strings.HasPrefix(eng.Name(outer), c28Tracker) && (lockers[n] || helpers[n])
			if _, isCall := h.(*ssa.Call); !isCall {
				ok = false
			}
			k.Require("helper-callers-hold-lock", eng.Name(fn)+"#"+eng.CalleeName(h), "a caller-holds-the-lock helper is called synchronously, and only from a locking accessor (after its Lock, see rmw-under-lock) or another helper", ok, c.InstrPos(h.(ssa.Instruction)), "called from a function that does not hold the table lock")
		}
	}

	for _, m := range methods {
		switch c28short(m) {
		case "Next":
			c28next(k, m, opsOf[m])
		case "initializeSequenceState":
			c28initState(k, m, opsOf[m])
		}
	}
}

// c28stateNextCalls: calls of the sequence state's Next() (4 results: value, ok, next state, error).
func c28stateNextCalls(fn *ssa.Function) []*ssa.Call {
	var out []*ssa.Call
	for _, ci := range eng.Calls(fn, func(ci ssa.CallInstruction) bool {
		cc := ci.Common()
		name := ""
		if cc.IsInvoke() {
			name = cc.Method.Name()
		} else if f := cc.StaticCallee(); f != nil && f.Signature.Recv() != nil {
			name = f.Name()
		}
		return name == "Next" && cc.Signature().Results().Len() == 4 && !strings.HasPrefix(eng.CalleeName(ci), c28Tracker)
	}, false) {
		out = append(out, ci.(*ssa.Call))
	}
	return out
}

func c28recv(call *ssa.Call) ssa.Value {
	if call.Call.IsInvoke() {
		return call.Call.Value
	}
	if len(call.Call.Args) > 0 {
		return call.Call.Args[0]
	}
	return nil
}

func c28next(k *eng.Check, fn *ssa.Function, ops []c28op) {
	c := k.C
	exits := eng.C23SuccessExits(fn)
	stores := map[*ssa.Call]ssa.Value{}
	allStores := eng.NewSet()
	for _, op := range ops {
		if op.kind == "Store" && op.fn == fn {
			if call, ok := op.call.(*ssa.Call); ok {
				stores[call] = op.val
				allStores.AddI(call)
			}
		}
	}
	isMapState := func(o ssa.Value) bool {
		if call := c23callResult(o, c28mLoadState, 0); call != nil {
			return true
		}
		if call := c23callResult(o, eng.Static(c28SyncMap+"Load"), 0); call != nil {
			return true
		}
		return c23callResult(o, eng.Static(c28Tracker+"initializeSequenceState"), 0) != nil
	}
	nexts := c28stateNextCalls(fn)
	if len(nexts) < 2 {
		k.Unknown("next-stores-successor", eng.Name(fn), "State.Next() calls in SequenceTracker.Next", fmt.Sprintf("found %d, confirmed floor 2", len(nexts)))
	}
	nGen := 0
	for i, n := range nexts {
		key := fmt.Sprintf("%s#State.Next%d", eng.Name(fn), i+1)
		var succ ssa.Value // the successor-state result of n
		var val ssa.Value  // the generated value
		if refs := n.Referrers(); refs != nil {
			for _, r := range *refs {
				if ex, ok := r.(*ssa.Extract); ok {
					if ex.Index == 2 {
						succ = ex
					}
					if ex.Index == 0 {
						val = ex
					}
				}
			}
		}
		cut := eng.NewSet()
		for st, v := range stores {
			if succ != nil && c23anyOrigin(v, func(o ssa.Value) bool { return o == succ }) {
				cut.AddI(st)
			}
		}
		k.OnlyAfter("next-stores-successor", fn, fmt.Sprintf("after State.Next%d computed a successor state, success is returned only after that successor was stored in the sequence map", i+1), exits, 1, cut, c23starts(eng.OkCut(n))...)
		// generating call: its value result is returned
		generates := false
		for in := range exits.I {
			if val != nil && c23anyOrigin(in.(*ssa.Return).Results[0], func(o ssa.Value) bool { return o == val }) {
				generates = true
			}
		}
		if generates {
			nGen++
			k.Require("generated-from-shared-state", key, "the generated value comes from State.Next() of the state loaded from (or initialised into) the sequence map under the lock", c23allOrigins(c28recv(n), isMapState), c.InstrPos(n), "receiver is "+eng.Desc(c28recv(n), 3))
		}
	}
	if nGen < 1 {
		k.Unknown("generated-from-shared-state", eng.Name(fn), "the State.Next() call whose value Next returns", "not found")
	}
	// explicit values: accepted (in bounds) => the map is advanced before success
	valid := eng.NewSet()
	for _, iff := range c23ifs(fn) {
		call, ok := c23strip(iff.Cond).(*ssa.Call)
		if !ok || call.Call.StaticCallee() == nil || eng.Name(call.Call.StaticCallee()) != c28Tracker+"validateBounds" {
			continue
		}
		a := call.Call.Args
		if cst, isC := a[len(a)-1].(*ssa.Const); isC && cst.Value != nil && cst.Value.ExactString() == "false" {
			valid.AddE(c23edge(iff, true))
		}
	}
	if valid.Len() < 1 {
		k.Unknown("explicit-value-advances", eng.Name(fn), "the bounds check of an explicitly inserted value", "branch on validateBounds(..., false) not found")
	} else {
		k.OnlyAfter("explicit-value-advances", fn, "an explicit value that is not below the sequence and is in bounds is acknowledged only after the sequence map was advanced", exits, 1, allStores, c23starts(valid)...)
	}
}

// c28initState: the state initializeSequenceState reports as current is the map's state.
func c28initState(k *eng.Check, fn *ssa.Function, ops []c28op) {
	c := k.C
	exits := eng.C23SuccessExits(fn)
	n := 0
	for _, ret := range c28sortedReturns(exits) {
		if len(ret.Results) < 3 {
			continue
		}
		has, isC := c23strip(ret.Results[1]).(*ssa.Const)
		if isC && has.Value != nil && has.Value.ExactString() == "false" {
			continue // reports "no state"
		}
		n++
		st := c23strip(ret.Results[0])
		ok := false
		why := "returns " + eng.Desc(st, 3)
		// (a) a load found the state: the exit is under the found-edge of that load
		for _, op := range ops {
			if op.kind != "loadSequenceState" && op.kind != "Load" {
				continue
			}
			lc, isCall := op.call.(*ssa.Call)
			if !isCall || c23callResult(st, func(q ssa.CallInstruction) bool { return q == ssa.CallInstruction(lc) }, 0) == nil {
				continue
			}
			why = "returns the result of a lookup on the edge where it found nothing (zero state)"
			for _, iff := range c23ifs(fn) {
				if c23callResult(iff.Cond, func(q ssa.CallInstruction) bool { return q == ssa.CallInstruction(lc) }, 1) != nil {
					t := iff.Block().Succs[0]
					if len(t.Preds) == 1 && t.Dominates(ret.Block()) {
						ok = true
					}
				}
			}
		}
		// (b) the value just stored
		for _, op := range ops {
			if op.kind == "Store" && op.call.Block().Dominates(ret.Block()) && c23strip(op.val) == st {
				ok = true
			}
		}
		k.Require("init-returns-map-state", fmt.Sprintf("%s#ret%d", eng.Name(fn), n), "the state reported as current is the one found in, or just stored into, the sequence map (Next computes the generated value and the successor from it)", ok, c.InstrPos(ret), why)
	}
	if n < 2 {
		k.Unknown("init-returns-map-state", eng.Name(fn), "success exits reporting a state", fmt.Sprintf("found %d, confirmed floor 2", n))
	}
}

// c28sortedReturns lists the Return instructions of a set in block order (stable obligation keys).
func c28sortedReturns(s *eng.Set) []*ssa.Return {
	var out []*ssa.Return
	for in := range s.I {
		if r, ok := in.(*ssa.Return); ok {
			out = append(out, r)
		}
	}
	sort.Slice(out, func(i, j int) bool { return out[i].Block().Index < out[j].Block().Index })
	return out
}

// c28lowerOf: key is `raw.ToLower()` (directly or through a local variable with that single reaching store).
func c28lowerOf(key, raw ssa.Value) bool {
	key, raw = c23strip(key), c23strip(raw)
	if ld, ok := key.(*ssa.UnOp); ok && ld.Op == token.MUL {
		stores, unknown := eng.C23ReachingStores(ld)
		if unknown || len(stores) != 1 {
			return false
		}
		key = c23strip(stores[0].Val)
	}
	call, ok := key.(*ssa.Call)
	if !ok || !c28mToLower(call) || len(call.Call.Args) != 1 {
		return false
	}
	return c23sameCell(call.Call.Args[0], raw) || c23strip(call.Call.Args[0]) == raw
}
