package rules

// Shared helpers of the C18, C19 and C46 rule files (element/index agreement between
// parallel slices, induction-variable shape, phi leaves with their incoming edges, loop
// back edges).  They live in package rules under the c18u prefix so that they cannot
// collide with engine extensions of other properties; c19.go and c46.go depend on this file.

import (
	"go/constant"
	"go/token"
	"go/types"

	"dvcheck/internal/eng"

	"golang.org/x/tools/go/ssa"
)

// c18uElemOf recognises a read of one element of a sequence: `*(&base[idx])` or `base[idx]`
// (wrappers stripped).  base is returned through Origin, so that two reads of the same
// local slice variable compare equal.
func c18uElemOf(v ssa.Value) (base, idx ssa.Value, ok bool) {
	v = eng.Strip(v)
	switch x := v.(type) {
	case *ssa.UnOp:
		if x.Op == token.MUL {
			if ia, isIA := x.X.(*ssa.IndexAddr); isIA {
				return eng.Origin(ia.X), ia.Index, true
			}
		}
	case *ssa.Index:
		return eng.Origin(x.X), x.Index, true
	}
	return nil, nil, false
}

// c18uElemIn reports the element read (base, idx) met first in the backward slice of v
// (not through calls): `[]byte(vals[i].(T))` is an element of vals at i.
func c18uElemIn(v ssa.Value) (base, idx ssa.Value, ok bool) {
	eng.Slice(v, false, func(x ssa.Value) bool {
		if b, i, isElem := c18uElemOf(x); isElem {
			base, idx, ok = b, i, true
			return true
		}
		return false
	})
	return
}

// c18uElemStore is one `base[idx] = val` in a function.
type c18uElemStore struct {
	Store *ssa.Store
	Idx   ssa.Value
	Val   ssa.Value
}

// c18uElemStores lists the stores into elements of the sequence whose Origin is base.
func c18uElemStores(fn *ssa.Function, base ssa.Value) []c18uElemStore {
	var out []c18uElemStore
	for _, b := range fn.Blocks {
		for _, in := range b.Instrs {
			st, ok := in.(*ssa.Store)
			if !ok {
				continue
			}
			ia, ok := st.Addr.(*ssa.IndexAddr)
			if !ok || eng.Origin(ia.X) != base {
				continue
			}
			out = append(out, c18uElemStore{st, ia.Index, st.Val})
		}
	}
	return out
}

// c18uConstInt64 returns the integer value of an integer constant.
func c18uConstInt64(v ssa.Value) (int64, bool) {
	c, ok := eng.Strip(v).(*ssa.Const)
	if !ok || c.Value == nil || c.Value.Kind() != constant.Int {
		return 0, false
	}
	return constant.Int64Val(c.Value)
}

// c18uIndexRange recognises an index that enumerates start, start+1, ... while `idx < len(X)`:
//
//	range lowering:  idx = phi(-1, idx) + 1 ; if idx < len(X)      (start 0)
//	three-clause:    idx = phi(k, idx + 1)  ; if idx < len(X)      (start k)
//
// It returns the first index value, the sequence whose length bounds the loop, the loop
// header and ok=false when idx has neither shape (including a non-unit step, a non-constant
// start, or a bound that is not a len()).
func c18uIndexRange(idx ssa.Value) (start int64, over ssa.Value, header *ssa.BasicBlock, ok bool) {
	var phi *ssa.Phi
	switch x := idx.(type) {
	case *ssa.BinOp: // phi + 1
		if x.Op != token.ADD {
			return
		}
		p, isPhi := x.X.(*ssa.Phi)
		one, isOne := c18uConstInt64(x.Y)
		if !isPhi || !isOne || one != 1 {
			return
		}
		phi = p
		found, loops := false, false
		for _, e := range p.Edges {
			if k, isK := c18uConstInt64(e); isK {
				if found && k+1 != start {
					return
				}
				start, found = k+1, true
			} else if e == ssa.Value(x) {
				loops = true
			} else {
				return
			}
		}
		if !found || !loops {
			return
		}
	case *ssa.Phi: // phi(k, phi + 1)
		phi = x
		found, loops := false, false
		for _, e := range x.Edges {
			if k, isK := c18uConstInt64(e); isK {
				if found && k != start {
					return
				}
				start, found = k, true
				continue
			}
			inc, isInc := e.(*ssa.BinOp)
			if !isInc || inc.Op != token.ADD || inc.X != ssa.Value(x) {
				return
			}
			if one, isOne := c18uConstInt64(inc.Y); !isOne || one != 1 {
				return
			}
			loops = true
		}
		if !found || !loops {
			return
		}
	default:
		return
	}
	header = phi.Block()
	if len(header.Instrs) == 0 {
		return
	}
	iff, isIf := header.Instrs[len(header.Instrs)-1].(*ssa.If)
	if !isIf {
		return
	}
	cmp, isCmp := iff.Cond.(*ssa.BinOp)
	if !isCmp || cmp.Op != token.LSS || cmp.X != idx {
		return
	}
	ln, isCall := cmp.Y.(*ssa.Call)
	if !isCall {
		return
	}
	if bi, isB := ln.Call.Value.(*ssa.Builtin); !isB || bi.Name() != "len" || len(ln.Call.Args) != 1 {
		return
	}
	return start, eng.Origin(ln.Call.Args[0]), header, true
}

// c18uPhiLeaf is a non-phi value that can flow into a phi web, with the CFG edge through
// which it enters (From is nil when the value is not a phi operand at all).
type c18uPhiLeaf struct {
	Val  ssa.Value
	From *ssa.BasicBlock // predecessor block of the phi the value enters through
	Phi  *ssa.Phi
}

// c18uPhiLeaves flattens the phi web rooted at v: every non-phi operand together with the
// predecessor block of the phi it is an operand of.  phis is the set of phis of the web.
func c18uPhiLeaves(v ssa.Value) (leaves []c18uPhiLeaf, phis map[*ssa.Phi]bool) {
	phis = map[*ssa.Phi]bool{}
	var walk func(v ssa.Value, from *ssa.BasicBlock, via *ssa.Phi)
	walk = func(v ssa.Value, from *ssa.BasicBlock, via *ssa.Phi) {
		if p, ok := v.(*ssa.Phi); ok {
			if phis[p] {
				return
			}
			phis[p] = true
			for i, e := range p.Edges {
				walk(e, p.Block().Preds[i], p)
			}
			return
		}
		leaves = append(leaves, c18uPhiLeaf{v, from, via})
	}
	walk(v, nil, nil)
	return
}

// c18uBlockEntry is the first instruction of a block (every block has a terminator).
func c18uBlockEntry(b *ssa.BasicBlock) ssa.Instruction { return b.Instrs[0] }

// c18uLoopOf returns the natural loop of fn whose header is h, or nil.
func c18uLoopOf(fn *ssa.Function, h *ssa.BasicBlock) *eng.Loop {
	for _, l := range eng.Loops(fn) {
		if l.Header == h {
			return l
		}
	}
	return nil
}

// c18uBackEdges are the edges from the body of l to its header.
func c18uBackEdges(l *eng.Loop) *eng.Set {
	s := eng.NewSet()
	for b := range l.Body {
		for si, sb := range b.Succs {
			if sb == l.Header && l.Header.Dominates(b) {
				s.AddE(eng.Edge{From: b, Succ: si})
			}
		}
	}
	return s
}

// c18uReturns is the set of all Return instructions of fn (recover block excluded).
func c18uReturns(fn *ssa.Function) *eng.Set {
	s := eng.NewSet()
	for _, b := range fn.Blocks {
		if len(b.Instrs) == 0 || b == fn.Recover {
			continue
		}
		if r, ok := b.Instrs[len(b.Instrs)-1].(*ssa.Return); ok {
			s.AddI(r)
		}
	}
	return s
}

// c18uParamsOfType lists the parameters of fn whose short type string equals short
// (e.g. "[]uint64", "[]store/hash.Hash", "bool").
func c18uParamsOfType(fn *ssa.Function, short string) []*ssa.Parameter {
	var out []*ssa.Parameter
	for _, p := range fn.Params {
		if eng.ShortType(p.Type()) == short {
			out = append(out, p)
		}
	}
	return out
}

// c18uParamIndex is the position of p among the parameters of its function (-1 if absent).
func c18uParamIndex(p *ssa.Parameter) int {
	for i, q := range p.Parent().Params {
		if q == p {
			return i
		}
	}
	return -1
}

// c18uParamOrigin looks through the entry spill of a parameter (`store alloc <- param`):
// a load of a local whose only store is a parameter is that parameter.
func c18uParamOrigin(v ssa.Value) *ssa.Parameter {
	p, _ := eng.Origin(v).(*ssa.Parameter)
	return p
}

// c18uLocalRoot names the storage a struct value is read from: the alloc a load reads, or
// the parameter itself when the struct was never spilled.
func c18uLocalRoot(v ssa.Value) ssa.Value {
	v = eng.Strip(v)
	if u, ok := v.(*ssa.UnOp); ok && u.Op == token.MUL {
		if a, isA := u.X.(*ssa.Alloc); isA {
			return a
		}
	}
	if p, ok := v.(*ssa.Parameter); ok {
		return p
	}
	return nil
}

// c18uFieldRead recognises a read of a named field: `*(&root.f)` on a local struct, or
// `root.f` on an unspilled struct value; it returns the storage root and "pkg.Type.f".
func c18uFieldRead(v ssa.Value) (root ssa.Value, field string, ok bool) {
	v = eng.Strip(v)
	switch x := v.(type) {
	case *ssa.UnOp:
		if x.Op != token.MUL {
			return
		}
		fa, isFA := x.X.(*ssa.FieldAddr)
		if !isFA {
			return
		}
		if a, isA := fa.X.(*ssa.Alloc); isA {
			return a, eng.FieldName(fa), true
		}
		return fa.X, eng.FieldName(fa), true
	case *ssa.Field:
		if r := c18uLocalRoot(x.X); r != nil {
			return r, eng.FieldName(x), true
		}
		return x.X, eng.FieldName(x), true
	}
	return
}

// c18uIsBuiltinCall reports whether v is a call of the named builtin.
func c18uIsBuiltinCall(v ssa.Value, name string) (*ssa.Call, bool) {
	c, ok := v.(*ssa.Call)
	if !ok {
		return nil, false
	}
	b, ok := c.Call.Value.(*ssa.Builtin)
	if !ok || b.Name() != name {
		return nil, false
	}
	return c, true
}

// c18uIsUnsigned64 reports whether t is uint64.
func c18uIsUnsigned64(t types.Type) bool {
	b, ok := t.Underlying().(*types.Basic)
	return ok && b.Kind() == types.Uint64
}
