package rules

import (
	"fmt"
	"go/constant"
	"go/token"
	"go/types"
	"os"
	"strings"

	"dvcheck/internal/eng"

	"golang.org/x/tools/go/ssa"
)

func init() {
	Registry["C10"] = &Rule{
		Explanation: "Decides the structural half of 'corrupted storage files are reported, never misread' for table files, archives and manifests: (1) at every call site in store/nbs of a function whose job is to reject bad bytes (table footer/index parsers, NewCompressedChunk, manifest parsers, archive footer/index loaders, snappy/zstd decoders, ToChunk) the error verdict is tested or propagated, never dropped (for NewCompressedChunk that obligation is C01's crc-gate and is not repeated), and the non-error results are not used on the error branch; hash.MaybeParse's ok flag controls a branch; (2) inside the parsers, a failed sub-validator cannot lead to a success return (verdict propagation along the parser chain); (3) the parsers' own size/magic/version comparisons cut the success path: newOnHeapTableIndex (buffer length vs indexSize(count)+footerSize), ReadTableFooter (magic number, after error-checked Seek and ReadFull), parseManifest (each versioned parser is reached only under its own version constant and success only through one of them), parseV4Manifest/parseV5Manifest (field count and parity), buildArchiveFooter (file signature, format version), newArchiveReaderFromFooter (footer length). Journal records are covered by C03 (validator-consumed, record-validated-before-use) and the checksum/address gate by C01. Not decided: absence of out-of-range panics for arbitrary bytes, decompression bombs, semantic validity of parsed fields.",
		RuleText:    "error-consumption and use-on-error-edge analysis at validator call sites; cut-reachability on the SSA CFG with comparison gates (an If one outcome of which reaches no success return and which every success return must pass)",
		Assumptions: []string{"the frozen validator table lists the byte-rejecting functions of store/nbs", "snappy/zstd decoders report malformed input through their error result"},
		Patterns:    []string{"./store/nbs", "./libraries/utils/errors"},
		Run:         runC10,
	}
}

// c10Validators: functions whose only job is to reject bad bytes (canonical names), with what they reject.
var c10Validators = map[string]string{
	"store/nbs.ReadTableFooter":                "table-file footer magic",
	"store/nbs.parseTableIndex":                "table index size vs footer",
	"store/nbs.parseTableIndexWithOffsetBuff":  "table index size vs footer",
	"store/nbs.parseTableIndexByCopy":          "table index size vs footer",
	"store/nbs.readTableIndexByCopy":           "table index size vs footer",
	"store/nbs.newOnHeapTableIndex":            "table index buffer length",
	"store/nbs.NewCompressedChunk":             "chunk record CRC",
	"store/nbs.parseManifest":                  "manifest version / field layout",
	"store/nbs.ParseManifest":                  "manifest version / field layout",
	"store/nbs.parseV4Manifest":                "v4 manifest field count",
	"store/nbs.parseV5Manifest":                "v5 manifest field count",
	"store/nbs.parseSpecs":                     "table spec names and counts",
	"store/nbs.buildArchiveFooter":             "archive signature / format version",
	"store/nbs.loadFooter":                     "archive footer",
	"store/nbs.newArchiveReader":               "archive footer and index",
	"store/nbs.newArchiveReaderFromFooter":     "archive footer length, signature, version",
	"store/nbs.buildArchiveReader":             "archive index",
	"store/nbs.newInMemoryArchiveIndexReader":  "archive index sections",
	"store/nbs.newMmapIndexReader":             "archive index sections (mmap)",
	"github.com/golang/snappy.Decode":          "snappy payload",
	"github.com/dolthub/gozstd.Decompress":     "zstd payload",
	"github.com/dolthub/gozstd.DecompressDict": "zstd payload",
	"github.com/dolthub/gozstd.NewDDict":       "zstd dictionary",
}

// c10ConsumedElsewhere: validators whose "verdict consumed at every call site" obligation belongs to another property.
var c10ConsumedElsewhere = map[string]string{
	"store/nbs.NewCompressedChunk": "C01 crc-gate checks that the checksum verdict is consumed at every call site",
}

// c10ErrorPathUseOK: call sites where a validator's result is syntactically reachable on its error branch but guarded by other means.
var c10ErrorPathUseOK = map[string]string{
	"(*store/nbs.archiveReader).tolerantIterate#github.com/dolthub/gozstd.DecompressDict": "fsck's tolerant iteration reports the failure through errCb and clears the chunkOk flag that guards the only use of the decompressed bytes",
}

// realUses: the instructions that use v, looking through value-preserving conversions.
func realUses(v ssa.Value) []ssa.Instruction {
	var out []ssa.Instruction
	seen := map[ssa.Value]bool{}
	var walk func(v ssa.Value)
	walk = func(v ssa.Value) {
		if seen[v] || v.Referrers() == nil {
			return
		}
		seen[v] = true
		for _, u := range *v.Referrers() {
			switch x := u.(type) {
			case *ssa.DebugRef:
			case *ssa.MakeInterface:
				walk(x)
			case *ssa.ChangeType:
				walk(x)
			case *ssa.ChangeInterface:
				walk(x)
			default:
				out = append(out, u)
			}
		}
	}
	walk(v)
	return out
}

func runC10(k *eng.Check, tier string) {
	c := k.C
	debug := os.Getenv("DVCHECK_DEBUG") != ""
	nbs := c.Funcs("store/nbs")
	isValidator := func(ci ssa.CallInstruction) bool {
		if f := ci.Common().StaticCallee(); f != nil {
			if _, ok := c10Validators[eng.Name(f)]; ok {
				return true
			}
		}
		return eng.Method(`store/nbs\.(ToChunker|CompressedChunk|ArchiveToChunker)$`, "ToChunk")(ci)
	}

	// (1) verdicts consumed, results not used on the error branch
	nSites, nGuarded := 0, 0
	seenV := map[string]bool{}
	ord := map[string]int{}
	for _, fn := range nbs {
		if c.IsTestFile(fn.Pos()) {
			continue
		}
		for _, ci := range eng.Calls(fn, isValidator, true) {
			nSites++
			callee := eng.CalleeName(ci)
			seenV[callee] = true
			base := eng.Name(fn) + "#" + callee
			ord[base]++
			construct := base
			if ord[base] > 1 {
				construct = fmt.Sprintf("%s/%d", base, ord[base])
			}
			in := ci.(ssa.Instruction)
			if _, isCall := in.(*ssa.Call); !isCall {
				k.Fail("validator-consumed", construct, "the verdict of a byte validator is tested or propagated", c.InstrPos(in), "validator invoked through defer/go: its verdict is discarded", nil)
				continue
			}
			if _, elsewhere := c10ConsumedElsewhere[callee]; elsewhere {
				// consumption of this verdict is an obligation of another property; here only the use of its results on the error branch
				if !eng.ErrConsumed(ci) {
					continue
				}
			} else if !k.Require("validator-consumed", construct, "the verdict of a byte validator is tested or propagated", eng.ErrConsumed(ci), c.InstrPos(in), "error result dropped: corrupt bytes are accepted silently") {
				continue
			}
			// non-error results must not be used on the error branch
			var errV ssa.Value
			for _, e := range eng.ErrValues(ci) {
				errV = e
			}
			if errV == nil {
				continue
			}
			nilE, _ := eng.NilEdges(errV)
			if len(nilE) == 0 {
				continue // verdict only propagated (return f(...)): nothing follows in this function
			}
			var errHeads []eng.Point
			for _, e := range nilE {
				other := eng.Edge{From: e.From, Succ: 1 - e.Succ}
				errHeads = append(errHeads, eng.Point{B: other.To(), I: 0})
			}
			bad := ""
			nUses := 0
			for _, r := range resultValues(ci) {
				if eng.IsErrType(r.Type()) {
					continue
				}
				for _, u := range realUses(r) {
					if ret, ok := u.(*ssa.Return); ok && returnsValue(ret, errV) {
						continue // `return v, err`: the caller sees the verdict next to the value
					}
					if isReleaseOnly(u, r) {
						continue
					}
					nUses++
					if hits := eng.Reach(fn, errHeads, eng.NewSet().AddI(u), eng.NewSet().AddI(in)); len(hits) > 0 {
						bad = c.InstrPos(u)
					}
				}
			}
			nGuarded++
			if why, ok := c10ErrorPathUseOK[construct]; ok && bad != "" {
				k.Pass("result-unused-on-error", construct, "frozen exception: "+why, 1)
				continue
			}
			if debug && bad != "" {
				fmt.Fprintf(os.Stderr, "  result used on error edge: %s %s\n", construct, bad)
			}
			k.Require("result-unused-on-error", construct, "the non-error results of a byte validator are not used on the branch where it reported an error", bad == "", bad, "a value parsed from rejected bytes is used after the validator failed")
		}
	}
	if nSites < 70 {
		k.Unknown("validator-consumed", "store/nbs", "validator call sites", fmt.Sprintf("%d found (confirmed floor 70)", nSites))
	}
	if nGuarded < 55 {
		k.Unknown("result-unused-on-error", "store/nbs", "validator call sites with a local error test", fmt.Sprintf("%d found (confirmed floor 55)", nGuarded))
	}
	for name := range c10Validators {
		if strings.HasPrefix(name, "store/nbs.") && c.Func(name) == nil {
			k.Unknown("validator-consumed", name, "a function of the frozen validator table", "no longer exists: the table must be revisited")
		}
	}
	// hash.MaybeParse: the ok flag decides a branch
	nMP := 0
	for _, fn := range nbs {
		if c.IsTestFile(fn.Pos()) {
			continue
		}
		for i, ci := range eng.Calls(fn, eng.Static("store/hash.MaybeParse"), true) {
			nMP++
			used := false
			for _, r := range resultValues(ci) {
				if b, ok := r.Type().Underlying().(*types.Basic); !ok || b.Kind() != types.Bool || r.Referrers() == nil {
					continue
				}
				for _, u := range *r.Referrers() {
					switch x := u.(type) {
					case *ssa.If, *ssa.Return, *ssa.Phi, *ssa.Store:
						used = true
					case *ssa.UnOp:
						used = used || (x.Referrers() != nil && len(*x.Referrers()) > 0)
					}
				}
			}
			k.Require("validator-consumed", fmt.Sprintf("%s#store/hash.MaybeParse/%d", eng.Name(fn), i+1), "the ok flag of hash.MaybeParse is consumed", used, c.InstrPos(ci.(ssa.Instruction)), "ok flag dropped: a malformed address becomes the zero hash silently")
		}
	}
	if nMP < 10 {
		k.Unknown("validator-consumed", "store/nbs#MaybeParse", "hash.MaybeParse call sites", fmt.Sprintf("%d found (confirmed floor 10)", nMP))
	}

	// (2) verdict propagation inside the parser chain
	nChain := 0
	for name := range c10Validators {
		fn := c.Func(name)
		if fn == nil {
			continue
		}
		exits := eng.SuccessExits(fn)
		for i, ci := range eng.Calls(fn, isValidator, false) {
			var errV ssa.Value
			for _, e := range eng.ErrValues(ci) {
				errV = e
			}
			if errV == nil {
				continue
			}
			nChain++
			nilE, _ := eng.NilEdges(errV)
			cuts := eng.NewSet().AddE(nilE...)
			targets := eng.NewSet()
			for in := range exits.I {
				if ret, ok := in.(*ssa.Return); ok && returnsValue(ret, errV) {
					continue // the sub-validator's verdict is the function's verdict
				}
				targets.AddI(in)
			}
			for e := range exits.E {
				targets.AddE(e)
			}
			what := fmt.Sprintf("success only if %s (call %d) reported no error", eng.CalleeName(ci), i+1)
			if targets.Len() == 0 {
				k.Pass("verdict-propagates", eng.Name(fn)+"#"+what, "every success return hands the sub-validator's own verdict to the caller", 1)
				continue
			}
			k.OnlyAfter("verdict-propagates", fn, what, targets, 0, cuts, eng.After(ci.(ssa.Instruction)))
		}
	}
	if nChain < 16 {
		k.Unknown("verdict-propagates", "store/nbs", "validator calls inside validators", fmt.Sprintf("%d found (confirmed floor 16)", nChain))
	}

	// (3) the parsers' own comparisons
	constVal := func(name string) constant.Value {
		for _, d := range c.PackageConsts("store/nbs", "", func(n string) bool { return n == name }) {
			return d.Val
		}
		k.Unknown("parser-gate", "store/nbs."+name, "a constant the gates compare against", "constant not found")
		return nil
	}
	isConstOf := func(v ssa.Value, want constant.Value) bool {
		cv, ok := v.(*ssa.Const)
		if !ok || cv.Value == nil || want == nil {
			return false
		}
		if cv.Value.Kind() == constant.String || want.Kind() == constant.String {
			return cv.Value.Kind() == want.Kind() && constant.StringVal(cv.Value) == constant.StringVal(want)
		}
		return constant.Compare(constant.ToInt(cv.Value), token.EQL, constant.ToInt(want))
	}
	isLenOf := func(v ssa.Value, p func(ssa.Value) bool) bool {
		return eng.Mentions(v, func(x ssa.Value) bool {
			call, ok := x.(*ssa.Call)
			if !ok {
				return false
			}
			bi, ok := call.Call.Value.(*ssa.Builtin)
			return ok && bi.Name() == "len" && len(call.Call.Args) == 1 && eng.Slice(call.Call.Args[0], false, p)
		})
	}
	byteSliceParam := func(fn *ssa.Function) func(ssa.Value) bool {
		return func(v ssa.Value) bool {
			p, ok := v.(*ssa.Parameter)
			if !ok || p.Parent() != fn {
				return false
			}
			sl, ok := p.Type().Underlying().(*types.Slice)
			if !ok {
				return false
			}
			b, ok := sl.Elem().Underlying().(*types.Basic)
			return ok && b.Kind() == types.Byte
		}
	}
	cmp := func(v ssa.Value, ops ...token.Token) *ssa.BinOp {
		for {
			u, ok := v.(*ssa.UnOp)
			if !ok || u.Op != token.NOT {
				break
			}
			v = u.X
		}
		b, ok := v.(*ssa.BinOp)
		if !ok {
			return nil
		}
		for _, o := range ops {
			if b.Op == o {
				return b
			}
		}
		return nil
	}
	either := func(b *ssa.BinOp, p, q func(ssa.Value) bool) bool {
		return (p(b.X) && q(b.Y)) || (p(b.Y) && q(b.X))
	}
	anyCmp := []token.Token{token.EQL, token.NEQ, token.LSS, token.LEQ, token.GTR, token.GEQ}

	if fn := k.Fn("store/nbs.newOnHeapTableIndex"); fn != nil {
		isBuf := byteSliceParam(fn)
		first := func(v ssa.Value) bool { return isBuf(v) && len(fn.Params) > 0 && v == ssa.Value(fn.Params[0]) }
		c10Gate(k, fn, "an index is returned only when len(indexBuff) equals indexSize(count)+footerSize", func(v ssa.Value) bool {
			b := cmp(v, token.EQL, token.NEQ)
			return b != nil && either(b, func(x ssa.Value) bool { return isLenOf(x, first) }, func(x ssa.Value) bool {
				return eng.MentionsDeep(x, eng.IsCall(eng.Static("store/nbs.indexSize")))
			})
		})
	}
	if fn := k.Fn("store/nbs.ReadTableFooter"); fn != nil {
		magic := constVal("magicNumber")
		c10Gate(k, fn, "footer fields are returned only when the trailing bytes equal the table-file magic number", func(v ssa.Value) bool {
			b := cmp(v, token.EQL, token.NEQ)
			return b != nil && (isConstOf(b.X, magic) || isConstOf(b.Y, magic))
		})
		exits := eng.SuccessExits(fn)
		k.OnlyAfter("parser-gate", fn, "footer fields are returned only after the seek to the footer succeeded", exits, 1, k.OkCalls(fn, "seek", eng.Method(`io\.ReadSeeker$|io\.Seeker$`, "Seek")))
		k.OnlyAfter("parser-gate", fn, "footer fields are returned only after the footer was read in full", exits, 1, k.OkCalls(fn, "readfull", eng.Static("io.ReadFull")))
	}
	if fn := k.Fn("store/nbs.parseManifest"); fn != nil {
		versioned := map[string]string{"store/nbs.parseV4Manifest": "storageVersion4", "store/nbs.parseV5Manifest": "StorageVersion"}
		all := eng.NewSet()
		for callee, cname := range versioned {
			want := constVal(cname)
			calls := eng.CallSet(fn, eng.Static(callee))
			all.Union(calls)
			under := equalEdges(fn, func(b *ssa.BinOp) bool { return isConstOf(b.X, want) || isConstOf(b.Y, want) }, true)
			k.OnlyAfter("parser-gate", fn, fmt.Sprintf("%s is reached only when the version field equals %s", strings.TrimPrefix(callee, "store/nbs."), cname), calls, 1, under)
		}
		k.OnlyAfter("parser-gate", fn, "manifest contents are returned only through a versioned parser (unknown versions are an error)", eng.SuccessExits(fn), 1, all)
	}
	isSplit := eng.IsCall(eng.Static("strings.Split"))
	for _, name := range []string{"store/nbs.parseV5Manifest", "store/nbs.parseV4Manifest"} {
		fn := k.Fn(name)
		if fn == nil {
			continue
		}
		c10Gate(k, fn, "contents are returned only when the number of ':'-separated fields passed the minimum-count comparison", func(v ssa.Value) bool {
			b := cmp(v, token.LSS, token.LEQ, token.GTR, token.GEQ)
			if b == nil {
				return false
			}
			isC := func(x ssa.Value) bool { _, ok := x.(*ssa.Const); return ok }
			return either(b, func(x ssa.Value) bool { return isLenOf(x, isSplit) }, isC)
		})
		c10Gate(k, fn, "contents are returned only when the number of fields passed the parity comparison (table specs come in pairs)", func(v ssa.Value) bool {
			b := cmp(v, token.EQL, token.NEQ)
			if b == nil {
				return false
			}
			isRem := func(x ssa.Value) bool {
				r, ok := x.(*ssa.BinOp)
				return ok && r.Op == token.REM && isLenOf(r.X, isSplit)
			}
			return isRem(b.X) || isRem(b.Y)
		})
	}
	if fn := k.Fn("store/nbs.buildArchiveFooter"); fn != nil {
		sig := constVal("archiveFileSignature")
		maxV := constVal("archiveFormatVersionMax")
		c10Gate(k, fn, "a footer is returned without error only when the file signature matches", func(v ssa.Value) bool {
			b := cmp(v, token.EQL, token.NEQ)
			return b != nil && (isConstOf(b.X, sig) || isConstOf(b.Y, sig))
		})
		c10Gate(k, fn, "a footer is returned without error only when the format version passed the comparison with archiveFormatVersionMax", func(v ssa.Value) bool {
			b := cmp(v, anyCmp...)
			isVer := func(x ssa.Value) bool { return eng.Mentions(x, eng.IsField("store/nbs.archiveFooter.formatVersion")) }
			return b != nil && either(b, isVer, func(x ssa.Value) bool { return isConstOf(x, maxV) })
		})
	}
	if fn := k.Fn("store/nbs.newArchiveReaderFromFooter"); fn != nil {
		sz := constVal("archiveFooterSize")
		isBuf := byteSliceParam(fn)
		c10Gate(k, fn, "a reader is built only when the footer buffer has exactly archiveFooterSize bytes", func(v ssa.Value) bool {
			b := cmp(v, token.EQL, token.NEQ)
			return b != nil && either(b, func(x ssa.Value) bool { return isLenOf(x, isBuf) }, func(x ssa.Value) bool { return isConstOf(x, sz) })
		})
	}
	debugObls(k)
}

// c10Gate: some If of fn whose condition satisfies pred is a gate: one outcome reaches no
// success exit, and no success exit is reachable once the other (passing) outcome is removed.
func c10Gate(k *eng.Check, fn *ssa.Function, what string, pred func(ssa.Value) bool) {
	exits := eng.SuccessExits(fn)
	pass := eng.NewSet()
	n, pos := 0, k.C.Pos(fn.Pos())
	for _, b := range fn.Blocks {
		if len(b.Instrs) == 0 {
			continue
		}
		iff, ok := b.Instrs[len(b.Instrs)-1].(*ssa.If)
		if !ok || !pred(iff.Cond) {
			continue
		}
		n++
		pos = k.C.InstrPos(iff)
		r0 := len(eng.Reach(fn, []eng.Point{{B: b.Succs[0], I: 0}}, exits, nil)) > 0
		r1 := len(eng.Reach(fn, []eng.Point{{B: b.Succs[1], I: 0}}, exits, nil)) > 0
		switch {
		case r0 && !r1:
			pass.AddE(eng.Edge{From: b, Succ: 0})
		case r1 && !r0:
			pass.AddE(eng.Edge{From: b, Succ: 1})
		}
	}
	construct := eng.Name(fn) + "#" + what
	if n == 0 {
		k.Unknown("parser-gate", construct, what, "the comparison was not found in this function")
		return
	}
	if pass.Len() == 0 {
		k.Fail("parser-gate", construct, what, pos, "both outcomes of the comparison can reach a success return: the comparison rejects nothing", nil)
		return
	}
	k.OnlyAfter("parser-gate", fn, what, exits, 1, pass)
}

// resultValues: the SSA values carrying the results of a call (the call itself or its extracts).
func resultValues(ci ssa.CallInstruction) []ssa.Value {
	v := ci.Value()
	if v == nil {
		return nil
	}
	if _, ok := v.Type().(*types.Tuple); !ok {
		return []ssa.Value{v}
	}
	var out []ssa.Value
	if v.Referrers() != nil {
		for _, r := range *v.Referrers() {
			if ex, ok := r.(*ssa.Extract); ok {
				out = append(out, ex)
			}
		}
	}
	return out
}

// returnsValue: ret returns v itself (possibly through interface conversions or a phi that includes it).
func returnsValue(ret *ssa.Return, v ssa.Value) bool {
	for _, r := range ret.Results {
		if r == v {
			return true
		}
		if phi, ok := r.(*ssa.Phi); ok {
			for _, e := range phi.Edges {
				if e == v {
					return true
				}
			}
		}
	}
	return false
}

// isReleaseOnly: use u of value r only measures or releases it (len/cap, Close, quota release): no parsed content flows on.
func isReleaseOnly(u ssa.Instruction, r ssa.Value) bool {
	call, ok := u.(ssa.CallInstruction)
	if !ok {
		return false
	}
	if bi, ok := call.Common().Value.(*ssa.Builtin); ok {
		return bi.Name() == "len" || bi.Name() == "cap"
	}
	n := eng.CalleeName(call)
	return strings.HasSuffix(n, ".Close") || strings.HasSuffix(n, ".close")
}
