package rules

import (
	"fmt"
	"go/token"
	"go/types"
	"strings"

	"dvcheck/internal/eng"

	"golang.org/x/tools/go/ssa"
)

func init() {
	Registry["C07"] = &Rule{
		Explanation: "Decides that every path which makes chunks or a root durable passes the reference check, and that a failed check discards the pending writes: (1) tableSet.append persists a memtable only after the checker returned nil and reported no absent address, over pending refs that were filled from every registered child-address thunk; (2) a chunk enters a memtable only together with its child-address thunk; (3) updateManifest writes the manifest only after the dangling-root check, and every error exit after append/errorIfDangling passes handlePossibleDanglingRefError, which drops the memtable on ErrDanglingRef; errorIfDangling succeeds only if the checker reported nothing absent; (4) addTableFilesToManifest adds files only after refCheckAllSources returned nil, or for a store with an empty root; refCheckAllSources fails when any chunk has a missing reference; (4b) the error of a chunk's child-address walk is tested wherever the walk feeds a reference check, and the check runs only on its nil edge; (5) the entry points that add table files without a reference check are exactly the frozen administrative ones. Does not decide the correctness of the address walker (C09) or of hasMany (C01).",
		RuleText:    "CFG cut-reachability with error-checked edges; must-call on success paths; who-may-call allowlist; data-derivation of the checked records",
		Assumptions: []string{"the refCheck function handed in by ValueStore reports absent addresses faithfully"},
		Patterns:    []string{"./store/nbs", "./libraries/utils/errors"},
		Run:         runC07,
	}
}

func runC07(k *eng.Check, tier string) {
	c := k.C
	nbs := c.Funcs("store/nbs")
	mChecker := eng.DynOfType("store/nbs.refCheck")
	absentEmpty := func(fn *ssa.Function) *eng.Set {
		// `absent.Size() > 0` false edge (or len(x) > 0 false edge)
		return eng.CondEdgesP(fn, func(v ssa.Value) bool {
			b, ok := eng.IsCompare(v, token.GTR)
			if !ok || !isConstInt(b.Y, 0) {
				return false
			}
			return eng.Mentions(b.X, func(x ssa.Value) bool {
				cc, ok := x.(*ssa.Call)
				if !ok {
					return false
				}
				n := eng.CalleeName(cc)
				return n == "(store/hash.HashSet).Size" || n == "builtin:len"
			})
		}, false)
	}

	// ---- (1) tableSet.append
	if fn := k.Fn("(*store/nbs.tableSet).append"); fn != nil {
		persist := eng.CallSet(fn, eng.Named(`^iface:store/nbs\.tablePersister\.Persist$`))
		k.OnlyAfter("refcheck-before-persist", fn, "a memtable is persisted only after the reference checker returned nil", persist, 1, k.OkCalls(fn, "checker", mChecker))
		k.OnlyAfter("refcheck-before-persist", fn, "a memtable is persisted only on the edge where no referenced address is absent", persist, 1, absentEmpty(fn))
		// the checker is applied to the memtable's pending refs
		okArg := false
		for _, call := range eng.Calls(fn, mChecker, false) {
			for _, a := range call.Common().Args {
				if eng.Mentions(a, eng.IsField("store/nbs.memTable.pendingRefs")) {
					okArg = true
				}
			}
		}
		k.Require("refcheck-before-persist", eng.Name(fn)+"#checked-records", "the checker is applied to the memtable's pendingRefs", okArg, c.Pos(fn.Pos()), "checker argument is not mt.pendingRefs")
		// pending refs are filled from every child-address thunk: a range loop over mt.getChildAddrs that invokes the element, then addChildRefs, before the checker
		loopOK := false
		for _, l := range eng.Loops(fn) {
			for b := range l.Body {
				for _, in := range b.Instrs {
					if call, ok := in.(*ssa.Call); ok && strings.HasPrefix(eng.CalleeName(call), "dyn:") && eng.MentionsDeep(call.Call.Value, eng.IsField("store/nbs.memTable.getChildAddrs")) {
						loopOK = true
					}
				}
			}
		}
		k.Require("refcheck-before-persist", eng.Name(fn)+"#all-thunks", "every registered child-address thunk is invoked to fill the pending refs", loopOK, c.Pos(fn.Pos()), "no loop invoking the elements of mt.getChildAddrs")
		chk := eng.CallSet(fn, mChecker)
		k.OnlyAfter("refcheck-before-persist", fn, "the checker runs only after the collected child addresses were added to pendingRefs", chk, 1, eng.CallSet(fn, eng.Static("(*store/nbs.memTable).addChildRefs")))
	}

	// ---- (2) addChunk registers the reference thunk with every added chunk
	if fn := k.Fn("(*store/nbs.NomsBlockStore).addChunk"); fn != nil {
		reg := eng.Calls(fn, eng.Static("(*store/nbs.memTable).addGetChildRefs"), false)
		k.Require("thunk-with-chunk", eng.Name(fn)+"#registered", "addChunk registers the chunk's child-address thunk", len(reg) >= 1, c.Pos(fn.Pos()), "no call to memTable.addGetChildRefs")
		for _, r := range reg {
			a := r.Common().Args
			ok := len(a) == 2 && eng.MentionsDeep(a[1], eng.IsParamOfType("chunks.InsertAddrsCurry")) && eng.MentionsDeep(a[1], eng.IsParamOfType("chunks.Chunk"))
			k.Require("thunk-with-chunk", eng.Name(fn)+"#thunk-arg", "the registered thunk is getAddrs applied to the chunk being added", ok, c.InstrPos(r.(ssa.Instruction)), "thunk is not getAddrs(ch)")
		}
		// once the memtable reported chunkAdded, the thunk is registered unconditionally: starting at the true edge of
		// the `== chunkAdded` test that guards the registration, no return is reachable without the registration
		for _, r := range reg {
			rb := r.(ssa.Instruction).Block()
			var guard *eng.Edge
			// the edge on which the memtable's verdict equals chunkAdded, in whatever polarity the test is written
			added := eng.CondEdgesP(fn, func(v ssa.Value) bool {
				bo, ok := eng.IsCompare(v, token.EQL)
				return ok && bo.X.Type() != nil && strings.HasSuffix(eng.ShortType(bo.X.Type()), "addChunkResult") && isNamedConst(c, bo.Y, "store/nbs", "chunkAdded")
			}, true)
			for d := rb; d != nil && guard == nil; d = d.Idom() {
				for e := range added.E {
					if e.To() == d && guard == nil {
						ee := e
						guard = &ee
					}
				}
			}
			if guard == nil {
				k.Unknown("thunk-with-chunk", eng.Name(fn)+"#guard", "the `== chunkAdded` test guarding the registration", "not found")
				continue
			}
			rets := eng.NewSet()
			for _, b := range fn.Blocks {
				if len(b.Instrs) > 0 && b != fn.Recover {
					if rt, ok := b.Instrs[len(b.Instrs)-1].(*ssa.Return); ok {
						rets.AddI(rt)
					}
				}
			}
			k.OnlyAfter("thunk-with-chunk", fn, "after the memtable accepted a new chunk, addChunk returns only after registering its child-address thunk", rets, 1, eng.NewSet().AddI(r.(ssa.Instruction)), eng.Point{B: guard.To(), I: 0})
		}
		// stronger form (correlated-branch aware): from every point where the memtable just accepted the chunk
		// (`addChunk` call followed by a `== chunkAdded` true edge), neither a return nor another loop iteration is
		// reachable before the registration -- in particular not through the GC-keeper wait, whose retry finds the
		// chunk already present and would never register it
		mtAdd := eng.Calls(fn, eng.Static("(*store/nbs.memTable).addChunk"), false)
		if len(mtAdd) < 1 {
			k.Unknown("thunk-with-chunk", eng.Name(fn)+"#memtable-add", "calls to memTable.addChunk", "not found")
		}
		regSet := eng.NewSet()
		for _, r := range reg {
			regSet.AddI(r.(ssa.Instruction))
		}
		exits := eng.NewSet()
		for _, b := range fn.Blocks {
			if len(b.Instrs) > 0 && b != fn.Recover {
				if rt, ok := b.Instrs[len(b.Instrs)-1].(*ssa.Return); ok {
					exits.AddI(rt)
				}
			}
		}
		backEdges := eng.NewSet() // the decision must be taken within the iteration that added the chunk
		for _, l := range eng.Loops(fn) {
			for _, b := range fn.Blocks {
				for si, sb := range b.Succs {
					if sb == l.Header && l.Body[b] {
						exits.AddE(eng.Edge{From: b, Succ: si}) // back edge: next retry
						backEdges.AddE(eng.Edge{From: b, Succ: si})
					}
				}
			}
		}
		addedEdges := eng.CondEdgesP(fn, func(v ssa.Value) bool {
			bo, ok := eng.IsCompare(v, token.EQL)
			return ok && strings.HasSuffix(eng.ShortType(bo.X.Type()), "addChunkResult") && isNamedConst(c, bo.Y, "store/nbs", "chunkAdded")
		}, true)
		bad := ""
		for _, a := range mtAdd {
			// phase 1: chunkAdded-true edges reachable after this memtable add without a registration in between
			for _, h1 := range eng.ReachFacts(fn, []eng.Point{eng.After(a.(ssa.Instruction))}, addedEdges, eng.UnionOf(regSet, eng.CallSet(fn, eng.Static("(*store/nbs.memTable).addChunk")), backEdges)) {
				// phase 2: from there, an exit or the next iteration without registration
				if hs := eng.ReachFacts(fn, []eng.Point{{B: h1.Edge.To(), I: 0}}, exits, regSet); len(hs) > 0 {
					if hs[0].Instr != nil {
						bad = c.InstrPos(hs[0].Instr)
					} else {
						bad = c.InstrPos(hs[0].Edge.From.Instrs[len(hs[0].Edge.From.Instrs)-1])
					}
				}
			}
		}
		k.Require("thunk-with-chunk", eng.Name(fn)+"#no-exit-or-retry-before-registration", "once the memtable accepted a new chunk, neither a return nor another retry iteration is reached before its child-address thunk is registered", bad == "", bad,
			"a path leaves the iteration after the chunk was added without registering its references (e.g. the GC-keeper wait): a retry finds the chunk already present and its references are never checked")
		// persist path inside addChunk: tables.append error -> handlePossibleDanglingRefError
		checkDanglingHandled(k, fn)
	}

	// ---- (3) updateManifest
	if fn := k.Fn("(*store/nbs.NomsBlockStore).updateManifest"); fn != nil {
		upd := eng.CallSet(fn, eng.Named(`^iface:store/nbs\.manifest\.Update$`))
		k.OnlyAfter("dangling-root-check", fn, "the manifest is written only after errorIfDangling(current) returned nil", upd, 1, k.OkCalls(fn, "errorIfDangling", eng.Static("(*store/nbs.NomsBlockStore).errorIfDangling")))
		for _, call := range eng.Calls(fn, eng.Static("(*store/nbs.NomsBlockStore).errorIfDangling"), false) {
			a := call.Common().Args
			ok := len(a) == 3 && eng.Mentions(a[1], eng.IsParamOfType("store/hash.Hash")) && eng.Mentions(a[2], eng.IsParamOfType("store/nbs.refCheck"))
			k.Require("dangling-root-check", eng.Name(fn)+"#args", "the dangling check is applied to the new root with the caller's checker", ok, c.InstrPos(call.(ssa.Instruction)), "arguments are not (current, checker)")
		}
		checkDanglingHandled(k, fn)
		// the root is checked (and remembered as present in the has-cache) only once the memtable that may hold it has been
		// persisted: a later dangling-reference failure drops the memtable, and a root verified against it would stay cached
		mAppend := eng.Static("(*store/nbs.tableSet).append")
		noMT := eng.CondEdgesP(fn, func(v ssa.Value) bool { return isNilCompareOfField(v, nbsT+".memtable", token.NEQ) }, false)
		emptyMT := eng.CondEdgesP(fn, func(v ssa.Value) bool {
			b, ok := eng.IsCompare(v, token.GTR)
			return ok && isConstInt(b.Y, 0) && eng.Mentions(b.X, eng.IsCall(eng.Static("(*store/nbs.memTable).count")))
		}, false)
		k.OnlyAfter("dangling-root-check", fn, "the new root is checked only after the memtable was persisted (or is nil/empty)", eng.CallSet(fn, eng.Static("(*store/nbs.NomsBlockStore).errorIfDangling")), 1, eng.UnionOf(k.OkCalls(fn, "append", mAppend), noMT, emptyMT))
	}
	if fn := k.Fn("(*store/nbs.NomsBlockStore).errorIfDangling"); fn != nil {
		// success is reached only: root empty, or in the has-cache, or checker ok && nothing absent
		chkOK := k.OkCalls(fn, "checker", mChecker)
		emptyRoot := eng.CondEdgesP(fn, func(v ssa.Value) bool { return eng.Mentions(v, eng.IsCall(eng.Static("(store/hash.Hash).IsEmpty"))) }, true)
		emptyRoot.Union(eng.CondEdgesP(fn, func(v ssa.Value) bool {
			u, ok := v.(*ssa.UnOp)
			return ok && u.Op == token.NOT && eng.Mentions(u.X, eng.IsCall(eng.Static("(store/hash.Hash).IsEmpty")))
		}, false))
		cached := eng.CondEdgesP(fn, func(v ssa.Value) bool {
			return eng.Mentions(v, func(x ssa.Value) bool {
				cc, ok := x.(*ssa.Call)
				return ok && strings.HasSuffix(eng.CalleeName(cc), "TwoQueueCache).Get")
			})
		}, true)
		k.OnlyAfter("dangling-root-check", fn, "errorIfDangling succeeds only for an empty root, a root known to be present, or after the checker returned nil", eng.SuccessExits(fn), 1, eng.UnionOf(chkOK, emptyRoot, cached))
		k.OnlyAfter("dangling-root-check", fn, "errorIfDangling succeeds only for an empty root, a cached root, or when the checker reported nothing absent", eng.SuccessExits(fn), 1, eng.UnionOf(absentEmpty(fn), emptyRoot, cached))
	}
	if fn := k.Fn("(*store/nbs.NomsBlockStore).handlePossibleDanglingRefError"); fn != nil {
		st := eng.FieldStores(fn, `store/nbs\.NomsBlockStore$`, "memtable")
		ok := false
		for _, s := range st {
			if isNil(s.(*ssa.Store).Val) {
				ok = true
			}
		}
		k.Require("dangling-drops-memtable", eng.Name(fn), "a dangling-reference error discards the memtable", ok, c.Pos(fn.Pos()), "nbs.memtable is not reset to nil")
	}

	// ---- (4) addTableFilesToManifest
	if fn := k.Fn("(*store/nbs.NomsBlockStore).addTableFilesToManifest"); fn != nil {
		add := eng.CallSet(fn, eng.Static("(*store/nbs.NomsBlockStore).updateManifestAddFiles"))
		emptyRoot := eng.CondEdgesP(fn, func(v ssa.Value) bool {
			return eng.Mentions(v, eng.IsCall(eng.Static("(store/hash.Hash).IsEmpty"))) && eng.MentionsDeep(v, eng.IsField("store/nbs.openChunkSourcesResult.root"))
		}, true)
		emptyRoot.Union(eng.CondEdgesP(fn, func(v ssa.Value) bool {
			u, ok := v.(*ssa.UnOp)
			return ok && u.Op == token.NOT && eng.MentionsDeep(u.X, eng.IsField("store/nbs.openChunkSourcesResult.root"))
		}, false))
		k.OnlyAfter("refcheck-before-add-files", fn, "table files are added to the manifest only after refCheckAllSources returned nil, or into a store with an empty root", add, 1, eng.UnionOf(k.OkCalls(fn, "refCheckAllSources", eng.Static("store/nbs.refCheckAllSources")), emptyRoot))
		// the files added are the files that were checked: the sources argument is shared
		for _, call := range eng.Calls(fn, eng.Static("store/nbs.refCheckAllSources"), false) {
			a := call.Common().Args
			ok := len(a) >= 4 && eng.MentionsDeep(a[3], eng.IsCall(eng.Static("(*store/nbs.NomsBlockStore).openChunkSourcesForManifestUpdateAndRebase")))
			k.Require("refcheck-before-add-files", eng.Name(fn)+"#checked-sources", "the sources checked are the opened sources of the files being added", ok, c.InstrPos(call.(ssa.Instruction)), "refCheckAllSources is not applied to the opened sources")
		}
	}
	if fn := k.Fn("store/nbs.refCheckAllSources"); fn != nil {
		// the per-chunk literal records an error when the check fails or reports remaining addresses
		var lit *ssa.Function
		for _, a := range eng.WithAnons(fn) {
			if a != fn && len(eng.Calls(a, eng.DynOfType("(store/hash.HashSet, error)"), false)) > 0 {
				lit = a
			}
		}
		if lit == nil {
			k.Unknown("refcheck-all-sources", eng.Name(fn), "the per-chunk checking literal", "not found")
		} else {
			k.FuncsSeen[lit] = true
			// on the `len(remaining) > 0` true edge, and on the err != nil edge, checkErr is stored
			stores := eng.Instrs(lit, func(in ssa.Instruction) bool {
				st, ok := in.(*ssa.Store)
				if !ok {
					return false
				}
				_, isFV := st.Addr.(*ssa.FreeVar)
				return isFV && strings.HasSuffix(eng.ShortType(st.Val.Type()), "error")
			})
			k.Require("refcheck-all-sources", eng.Name(lit)+"#records", "a failed or incomplete reference check is recorded in the captured error", len(stores) >= 2, c.Pos(lit.Pos()), "fewer than two stores to the captured error (check error, missing references)")
			missing := eng.CondEdgesP(lit, func(v ssa.Value) bool {
				b, ok := eng.IsCompare(v, token.GTR)
				return ok && isConstInt(b.Y, 0) && eng.Mentions(b.X, func(x ssa.Value) bool { cc, ok := x.(*ssa.Call); return ok && eng.CalleeName(cc) == "builtin:len" })
			}, true)
			if missing.Len() < 1 {
				k.Unknown("refcheck-all-sources", eng.Name(lit)+"#missing-test", "the `len(remaining) > 0` test", "not found")
			} else {
				st := eng.NewSet().AddI(stores...)
				k.OnlyAfter("refcheck-all-sources", lit, "when references are missing the literal returns only after recording the error", eng.SuccessExits(lit), 1, st, eng.EdgeTargets(missing)...)
			}
		}
		// the function's result is the captured error
		vals, unknown := eng.ResultValuesFrom(fn, []eng.Point{{B: fn.Blocks[0], I: 0}}, 0)
		_ = vals
		_ = unknown
		// nil refCheck short-circuit is the documented opt-out used only by the frozen callers below
	}

	// ---- (4b) a chunk whose references cannot be walked is not treated as a chunk without references: wherever the
	// child-address callback (chunks.InsertAddrsCb) is invoked to feed a reference check, its error is tested and the
	// check (the refCheck call) is reached only on its nil edge
	mWalk := eng.DynOfType("store/chunks.InsertAddrsCb")
	mAnyCheck := eng.AnyOf(mChecker, eng.DynOfType("(store/hash.HashSet, error)"))
	nWalk := 0
	for _, fn := range nbs {
		walks := eng.Calls(fn, mWalk, false)
		if len(walks) == 0 || c.IsTestFile(fn.Pos()) {
			continue
		}
		// the reference check the walked addresses feed may sit in the same function or in a sibling literal of
		// the same top-level function (a batched check)
		top := eng.Outermost(fn)
		var checkFn *ssa.Function
		for _, g := range eng.WithAnons(top) {
			if len(eng.Calls(g, mAnyCheck, false)) > 0 {
				if g == fn || checkFn == nil {
					checkFn = g
				}
			}
		}
		if checkFn == nil {
			continue // the callback is invoked for another purpose (e.g. GC marking, decided under C08)
		}
		k.FuncsSeen[fn] = true
		checks := eng.CallSet(checkFn, mAnyCheck)
		for _, w := range walks {
			nWalk++
			okc := eng.OkCut(w)
			k.Require("walker-error-consumed", eng.Name(fn)+"#walk", "the error of the child-address walk feeding a reference check is tested", okc.Len() > 0, c.InstrPos(w.(ssa.Instruction)), "the walker's error is dropped: a chunk that cannot be walked is checked as if it referenced nothing")
			if okc.Len() == 0 {
				continue
			}
			if checkFn == fn {
				k.OnlyAfter("walker-error-consumed", fn, "after a child-address walk, the reference check is reached only if the walk returned nil", checks, 1, okc, eng.After(w.(ssa.Instruction)))
				// what was walked is checked before the function returns (no address set is left unchecked)
				rets := allReturns(fn)
				if res := fn.Signature.Results(); res.Len() > 0 && eng.IsErrorType(res.At(res.Len()-1).Type()) {
					rets = eng.SuccessExits(fn) // an error return needs no check
				}
				k.OnlyAfter("walked-addresses-checked", fn, "after a successful child-address walk the function returns only after the reference check was called on the collected addresses", rets, 1, checks, eng.EdgeTargets(okc)...)
			}
		}
		if checkFn != fn {
			// deferred (batched) check: the top-level function must run the checking literal after the iteration on
			// every path to a success return; paths that already carry an error (a non-nil test of an error variable
			// the literals write) and the "no checker configured" early exit are exempt
			cuts := eng.NewSet()
			for _, b := range top.Blocks {
				for _, in := range b.Instrs {
					ci, ok := in.(ssa.CallInstruction)
					if !ok || ci.Common().IsInvoke() {
						continue
					}
					// the literal may be called through the local (cell) it was assigned to
					if eng.FuncOf(ci.Common().Value) == checkFn || eng.Slice(ci.Common().Value, false, func(x ssa.Value) bool {
						mc, isMC := x.(*ssa.MakeClosure)
						return isMC && mc.Fn == ssa.Value(checkFn)
					}) {
						cuts.AddI(in)
					}
				}
			}
			cuts.Union(eng.CondEdgesP(top, func(v ssa.Value) bool {
				b, ok := eng.IsCompare(v, token.NEQ)
				if !ok || !isNil(b.Y) {
					return false
				}
				if ld, isLd := b.X.(*ssa.UnOp); isLd && ld.Op == token.MUL {
					if a, isA := ld.X.(*ssa.Alloc); isA {
						return eng.IsErrorType(a.Type().(*types.Pointer).Elem())
					}
				}
				return false
			}, true))
			cuts.Union(eng.CondEdgesP(top, func(v ssa.Value) bool {
				b, ok := eng.IsCompare(v, token.EQL)
				if !ok || !isNil(b.Y) {
					return false
				}
				if _, isP := b.X.(*ssa.Parameter); isP {
					return true
				}
				// a parameter captured by a literal lives in a cell
				if ld, isLd := b.X.(*ssa.UnOp); isLd && ld.Op == token.MUL {
					if a, isA := ld.X.(*ssa.Alloc); isA {
						sts := eng.StoresTo(a)
						if len(sts) == 1 {
							_, isP := sts[0].Val.(*ssa.Parameter)
							return isP
						}
					}
				}
				return false
			}, true))
			// nothing collected since the last batch: `len(set) == 0` / not `len(set) > 0`
			lenOfSet := func(v ssa.Value) bool {
				call, ok := v.(*ssa.Call)
				return ok && eng.CalleeName(call) == "builtin:len" && len(call.Call.Args) == 1 && strings.HasSuffix(eng.ShortType(call.Call.Args[0].Type()), "store/hash.HashSet")
			}
			isZero := func(v ssa.Value) bool {
				cst, ok := v.(*ssa.Const)
				return ok && cst.Value != nil && cst.Value.ExactString() == "0"
			}
			cuts.Union(eng.CondEdgesP(top, func(v ssa.Value) bool {
				b, ok := eng.IsCompare(v, token.EQL)
				return ok && lenOfSet(b.X) && isZero(b.Y)
			}, true))
			cuts.Union(eng.CondEdgesP(top, func(v ssa.Value) bool {
				b, ok := eng.IsCompare(v, token.GTR)
				return ok && lenOfSet(b.X) && isZero(b.Y)
			}, false))
			k.OnlyAfter("walked-addresses-checked", top, "with a deferred (batched) reference check, success is returned only after the checking literal ran after the iteration", eng.SuccessExits(top), 1, cuts)
		}
	}
	if nWalk < 2 {
		k.Unknown("walker-error-consumed", "store/nbs", "child-address walks feeding a reference check", fmt.Sprintf("%d found (floor 2)", nWalk))
	}

	// ---- (5) who may add table files without a reference check
	unchecked := map[string]string{
		"(*store/nbs.NomsBlockStore).UpdateManifest":             "administrative entry point (table files produced by this store's own tools)",
		"(*store/nbs.NomsBlockStore).UpdateManifestWithAppendix": "administrative entry point (appendix table files)",
		"(*store/nbs.NomsBlockStore).addTableFilesToManifest":    "the checked route (rule 4)",
	}
	if t := c.Func("(*store/nbs.NomsBlockStore).updateManifestAddFiles"); t != nil {
		sites := eng.CallersOf(nbs, t)
		for _, s := range sites {
			name := eng.Name(eng.Outermost(s.Parent()))
			_, ok := unchecked[name]
			k.Require("add-files-owners", name, "updateManifestAddFiles is reached only from the checked route or the frozen administrative entry points", ok, c.InstrPos(s.(ssa.Instruction)), "new route that adds table files to the manifest")
		}
		if len(sites) < 3 {
			k.Unknown("add-files-owners", "updateManifestAddFiles", "call sites", fmt.Sprintf("%d found (floor 3)", len(sites)))
		}
	}
}

// checkDanglingHandled: in fn, every error exit taken because tables.append or errorIfDangling failed passes handlePossibleDanglingRefError.
func checkDanglingHandled(k *eng.Check, fn *ssa.Function) {
	c := k.C
	handler := eng.CallSet(fn, eng.Static("(*store/nbs.NomsBlockStore).handlePossibleDanglingRefError"))
	for _, call := range eng.Calls(fn, eng.Static("(*store/nbs.tableSet).append", "(*store/nbs.NomsBlockStore).errorIfDangling"), false) {
		// error edges of this call = complement of its ok-cut: the If blocks' other successor
		ok := eng.OkCut(call)
		errEdges := eng.NewSet()
		for e := range ok.E {
			errEdges.AddE(eng.Edge{From: e.From, Succ: 1 - e.Succ})
		}
		if errEdges.Len() == 0 {
			k.Unknown("dangling-drops-memtable", eng.Name(fn)+"#"+eng.CalleeName(call), "error edge of the reference-checking call", "the error of this call is not tested")
			continue
		}
		// all returns reachable from the error edge are preceded by the handler
		rets := eng.NewSet()
		for _, b := range fn.Blocks {
			if len(b.Instrs) > 0 {
				if r, isRet := b.Instrs[len(b.Instrs)-1].(*ssa.Return); isRet && b != fn.Recover {
					rets.AddI(r)
				}
			}
		}
		k.OnlyAfter("dangling-drops-memtable", fn, "after "+eng.CalleeName(call)+" fails, the function returns only after handlePossibleDanglingRefError", rets, 1, handler, eng.EdgeTargets(errEdges)...)
	}
	_ = c
}

func isNamedConst(c *eng.Ctx, v ssa.Value, pkg, name string) bool {
	cst, ok := v.(*ssa.Const)
	if !ok || cst.Value == nil {
		return false
	}
	for _, cd := range c.PackageConsts(pkg, "", func(n string) bool { return n == name }) {
		if cd.Value == cst.Value.ExactString() {
			return true
		}
	}
	return false
}
