package rules

import (
	"fmt"
	"strings"

	"dvcheck/internal/eng"

	"golang.org/x/tools/go/ssa"
)

func init() {
	Registry["C31"] = &Rule{
		Explanation: "Decides the argument roles of the three-way merge performed by cherry-pick and revert, and the action dispatch of rebase plan execution. (1) In cherry_pick.cherryPick the single merge.MergeRoots call has ours = the Working root of the roots parameter, theirs = GetRootValue(X), ancestor = GetRootValue(P) with P = ToCommit(ResolveParent(X, 0)), theirs/ancestor rootish = X / P, and X = ToCommit(Resolve(NewCommitSpec(<commit string parameter>))); CherryPick passes its commit-string parameter and the session roots to cherryPick, and installs the Root of that merge result as the working root (error checked) before any success exit. (2) In revert.revertCommit the roles are mirrored: ours = the root parameter, theirs = GetRootValue(P), ancestor = GetRootValue(X), rootish = P / X with X the commit parameter and P its parent 0; applySingleRevert passes the session's Working root and its commit parameter, and installs the result Root; Revert passes the commit resolved from its spec parameter. (3) Rebase: processRebasePlanStep reaches the cherry-pick only on the Action != drop edge, and on that edge every return passes through the cherry-pick or an error result; the cherry-pick receives the step's CommitHash and the options built for the same step; in createCherryPickOptionsForRebaseStep CherryPickOptions.Amend is set to true only on the squash/fixup edges and always on them, and every declared rebase.RebaseAction* constant is compared against; CreateCommitStagedPropsFromCherryPickOptions turns options.Amend into CommitStagedProps.Amend. It does not decide the merge itself, commit metadata, nor the skip/continue arithmetic over rebase orders.",
		RuleText:    "argument provenance on SSA values (result-of / parameter / field chains, identical SSA value for commit and rootish), cut-reachability with constant-comparison edges for the action dispatch",
		Assumptions: []string{"merge.MergeRoots(ctx, resolver, ours, theirs, ancestor, theirsRootish, ancestorRootish, ...) keeps its parameter order (checked by parameter names being types only: positions 2..6)", "(*doltdb.Commit).GetRootValue returns the root of its receiver; ResolveParent/GetParent(c, i) returns parent i of c"},
		Patterns:    []string{"./libraries/doltcore/cherry_pick", "./libraries/doltcore/revert", "./libraries/doltcore/rebase", "./libraries/doltcore/sqle/dprocedures"},
		Run:         runC31,
	}
}

const (
	c31Doltdb = "libraries/doltcore/doltdb"
	c31CP     = "libraries/doltcore/cherry_pick"
	c31Rev    = "libraries/doltcore/revert"
	c31Proc   = "libraries/doltcore/sqle/dprocedures"
)

// c31CallRes: v is result #idx of a static call to one of names; returns the call.
func c31CallRes(v ssa.Value, idx int, names ...string) *ssa.Call {
	v = eng.Origin(v)
	var call *ssa.Call
	switch x := v.(type) {
	case *ssa.Extract:
		if x.Index != idx {
			return nil
		}
		call, _ = x.Tuple.(*ssa.Call)
	case *ssa.Call:
		if idx != 0 {
			return nil
		}
		call = x
	}
	if call == nil {
		return nil
	}
	f := call.Call.StaticCallee()
	if f == nil {
		return nil
	}
	for _, n := range names {
		if eng.Name(f) == n {
			return call
		}
	}
	return nil
}

// c31RootCommit: v = GetRootValue(c) -> c
func c31RootCommit(v ssa.Value) ssa.Value {
	call := c31CallRes(v, 0, "(*"+c31Doltdb+".Commit).GetRootValue")
	if call == nil || len(call.Call.Args) < 1 {
		return nil
	}
	return eng.Origin(call.Call.Args[0])
}

// c31ParentOf: v = ToCommit(ResolveParent(_, _, c, i)#0)#0 or ToCommit(c.GetParent(_, i)#0)#0 -> (c, i)
func c31ParentOf(v ssa.Value) (ssa.Value, string) {
	tc := c31CallRes(v, 0, "(*"+c31Doltdb+".OptionalCommit).ToCommit")
	if tc == nil || len(tc.Call.Args) < 1 {
		return nil, ""
	}
	if rp := c31CallRes(tc.Call.Args[0], 0, "(*"+c31Doltdb+".DoltDB).ResolveParent"); rp != nil && len(rp.Call.Args) == 4 {
		return eng.Origin(rp.Call.Args[2]), eng.Desc(rp.Call.Args[3], 2)
	}
	if gp := c31CallRes(tc.Call.Args[0], 0, "(*"+c31Doltdb+".Commit).GetParent"); gp != nil && len(gp.Call.Args) == 3 {
		return eng.Origin(gp.Call.Args[0]), eng.Desc(gp.Call.Args[2], 2)
	}
	return nil, ""
}

// c31ResolvedFrom: v = ToCommit(Resolve(_, _, NewCommitSpec(s)#0, _)#0)#0 -> s
func c31ResolvedFrom(v ssa.Value) ssa.Value {
	tc := c31CallRes(v, 0, "(*"+c31Doltdb+".OptionalCommit).ToCommit")
	if tc == nil || len(tc.Call.Args) < 1 {
		return nil
	}
	rs := c31CallRes(tc.Call.Args[0], 0, "(*"+c31Doltdb+".DoltDB).Resolve")
	if rs == nil || len(rs.Call.Args) != 4 {
		return nil
	}
	sp := c31CallRes(rs.Call.Args[2], 0, c31Doltdb+".NewCommitSpec")
	if sp == nil || len(sp.Call.Args) != 1 {
		return nil
	}
	return eng.Origin(sp.Call.Args[0])
}

func c31IsParam(fn *ssa.Function, v ssa.Value, typeSuffix string) bool {
	p, ok := eng.Origin(v).(*ssa.Parameter)
	if !ok || p.Parent() != fn {
		return false
	}
	return strings.HasSuffix(eng.ShortType(p.Type()), typeSuffix)
}

func runC31(k *eng.Check, tier string) {
	c := k.C
	mMerge := eng.Static("libraries/doltcore/merge.MergeRoots")
	fWorking := eng.IsField(c31Doltdb + ".Roots.Working")
	fResRoot := eng.IsField("libraries/doltcore/merge.Result.Root")
	mSetRoot := eng.Static("(*libraries/doltcore/sqle/dsess.DoltSession).SetWorkingRoot")

	req := func(rule string, fn *ssa.Function, what, desc string, ok bool, at ssa.Instruction, why string) {
		k.Require(rule, eng.Name(fn)+"#"+what, desc, ok, c.InstrPos(at), why)
	}
	// mergeCall returns the single MergeRoots call of fn with its 9 arguments
	mergeCall := func(rule string, fn *ssa.Function) (ssa.CallInstruction, []ssa.Value) {
		calls := eng.Calls(fn, mMerge, false)
		if len(calls) != 1 || len(calls[0].Common().Args) != 9 {
			k.Unknown(rule, eng.Name(fn)+"#MergeRoots", "exactly one merge.MergeRoots call with 9 arguments", fmt.Sprintf("found %d calls", len(calls)))
			return nil, nil
		}
		return calls[0], calls[0].Common().Args
	}

	// ---- (1) cherry-pick ------------------------------------------------------------------
	if fn := k.Fn(c31CP + ".cherryPick"); fn != nil {
		if call, a := mergeCall("cherry-pick-roles", fn); call != nil {
			at := call.(ssa.Instruction)
			X, P := eng.Origin(a[5]), eng.Origin(a[6])
			ours := eng.Mentions(a[2], fWorking) && eng.Mentions(a[2], func(v ssa.Value) bool { return c31IsParam(fn, v, c31Doltdb+".Roots") })
			req("cherry-pick-roles", fn, "ours", "ours = Working root of the roots parameter", ours, at, "ours is not roots.Working of the caller-supplied roots")
			req("cherry-pick-roles", fn, "theirs", "theirs root = GetRootValue(X) where X is the theirs rootish (the cherry-picked commit)", c31RootCommit(a[3]) != nil && c31RootCommit(a[3]) == X, at, "theirs root is not the root of the cherry-picked commit")
			req("cherry-pick-roles", fn, "ancestor", "ancestor root = GetRootValue(P) where P is the ancestor rootish", c31RootCommit(a[4]) != nil && c31RootCommit(a[4]) == P, at, "ancestor root is not the root of the ancestor commit")
			pc, idx := c31ParentOf(P)
			req("cherry-pick-roles", fn, "ancestor-is-parent", "the ancestor commit P is parent 0 of the cherry-picked commit X", pc != nil && pc == X && idx == "const:0", at, "ancestor commit is not ResolveParent(X, 0)")
			s := c31ResolvedFrom(X)
			req("cherry-pick-roles", fn, "commit-from-spec", "X is resolved from the commit-spec string parameter", s != nil && c31IsParam(fn, s, "string"), at, "the cherry-picked commit is not Resolve(NewCommitSpec(<string parameter>))")
			// the merge result is what is returned
			nret := 0
			for in := range eng.SuccessExits(fn).I {
				if ret, ok := in.(*ssa.Return); ok && len(ret.Results) > 0 && eng.ResultOf(ret.Results[0], call, 0) {
					nret++
				}
			}
			req("merge-result-returned", fn, "result", "a success return hands the MergeRoots result to the caller", nret >= 1, at, "no success return returns the merge result")
			// which parameter carries the spec: used below at the call site
			if sp, ok := s.(*ssa.Parameter); ok {
				if top := k.Fn(c31CP + ".CherryPick"); top != nil {
					inner := eng.Calls(top, eng.Static(c31CP+".cherryPick"), false)
					if len(inner) != 1 {
						k.Unknown("cherry-pick-roles", eng.Name(top)+"#cherryPick", "the single cherryPick call", fmt.Sprintf("found %d", len(inner)))
					} else {
						ia := inner[0].Common().Args
						pi, ri := -1, -1
						for i, p := range fn.Params {
							if p == sp {
								pi = i
							}
							if strings.HasSuffix(eng.ShortType(p.Type()), c31Doltdb+".Roots") {
								ri = i
							}
						}
						req("cherry-pick-roles", top, "commit-string", "CherryPick hands its commit-string parameter to cherryPick", pi >= 0 && pi < len(ia) && c31IsParam(top, ia[pi], "string"), inner[0].(ssa.Instruction), "cherryPick does not receive CherryPick's commit string")
						rootsOK := ri >= 0 && ri < len(ia) && eng.Mentions(ia[ri], func(v ssa.Value) bool {
							return c31CallRes(v, 0, "(*libraries/doltcore/sqle/dsess.DoltSession).GetRoots") != nil
						})
						req("cherry-pick-roles", top, "session-roots", "CherryPick hands the session's current roots to cherryPick", rootsOK, inner[0].(ssa.Instruction), "roots argument is not DoltSession.GetRoots(...)")
						c31Installed(k, top, inner[0], mSetRoot, fResRoot)
					}
				}
			}
		}
	}

	// ---- (2) revert -----------------------------------------------------------------------
	if fn := k.Fn(c31Rev + ".revertCommit"); fn != nil {
		if call, a := mergeCall("revert-roles", fn); call != nil {
			at := call.(ssa.Instruction)
			P, X := eng.Origin(a[5]), eng.Origin(a[6])
			req("revert-roles", fn, "ours", "ours = the root parameter", c31IsParam(fn, a[2], c31Doltdb+".RootValue"), at, "ours is not the caller-supplied root")
			req("revert-roles", fn, "commit", "the ancestor rootish X is the commit parameter (the commit being reverted)", c31IsParam(fn, X, c31Doltdb+".Commit"), at, "ancestor rootish is not the commit parameter")
			req("revert-roles", fn, "ancestor", "ancestor root = GetRootValue(X), the reverted commit itself", c31RootCommit(a[4]) != nil && c31RootCommit(a[4]) == X, at, "ancestor root is not the root of the reverted commit")
			req("revert-roles", fn, "theirs", "theirs root = GetRootValue(P) where P is the theirs rootish", c31RootCommit(a[3]) != nil && c31RootCommit(a[3]) == P, at, "theirs root is not the root of the theirs commit")
			pc, idx := c31ParentOf(P)
			req("revert-roles", fn, "theirs-is-parent", "the theirs commit P is parent 0 of the reverted commit X", pc != nil && pc == X && idx == "const:0", at, "theirs commit is not ResolveParent(X, 0)")
			nret := 0
			for in := range eng.SuccessExits(fn).I {
				if ret, ok := in.(*ssa.Return); ok && len(ret.Results) > 0 && eng.ResultOf(ret.Results[0], call, 0) {
					nret++
				}
			}
			req("merge-result-returned", fn, "result", "a success return hands the MergeRoots result to the caller", nret >= 1, at, "no success return returns the merge result")
		}
		if top := k.Fn(c31Rev + ".applySingleRevert"); top != nil {
			inner := eng.Calls(top, eng.Static(c31Rev+".revertCommit"), false)
			if len(inner) != 1 {
				k.Unknown("revert-roles", eng.Name(top)+"#revertCommit", "the single revertCommit call", fmt.Sprintf("found %d", len(inner)))
			} else {
				ia := inner[0].Common().Args
				ri, ci := -1, -1
				for i, p := range fn.Params {
					switch {
					case strings.HasSuffix(eng.ShortType(p.Type()), c31Doltdb+".RootValue"):
						ri = i
					case strings.HasSuffix(eng.ShortType(p.Type()), c31Doltdb+".Commit"):
						ci = i
					}
				}
				at := inner[0].(ssa.Instruction)
				rootOK := ri >= 0 && ri < len(ia) && eng.Mentions(ia[ri], fWorking) && eng.Mentions(ia[ri], func(v ssa.Value) bool {
					return c31CallRes(v, 0, "(*libraries/doltcore/sqle/dsess.DoltSession).GetRoots") != nil
				})
				req("revert-roles", top, "ours", "revertCommit receives the Working root of the session's current roots", rootOK, at, "root argument is not GetRoots(...).Working")
				req("revert-roles", top, "commit", "revertCommit receives applySingleRevert's commit parameter", ci >= 0 && ci < len(ia) && c31IsParam(top, ia[ci], c31Doltdb+".Commit"), at, "commit argument is not the commit parameter")
				c31Installed(k, top, inner[0], mSetRoot, fResRoot)
				// Revert resolves the commit from its spec string
				if rv := k.Fn(c31Rev + ".Revert"); rv != nil {
					calls := eng.Calls(rv, eng.Static(c31Rev+".applySingleRevert"), false)
					cpi := -1
					for i, p := range top.Params {
						if strings.HasSuffix(eng.ShortType(p.Type()), c31Doltdb+".Commit") && cpi < 0 {
							cpi = i // first *Commit parameter: the commit to revert (the second is the series head)
						}
					}
					if len(calls) != 1 || cpi < 0 {
						k.Unknown("revert-roles", eng.Name(rv)+"#applySingleRevert", "the single applySingleRevert call", fmt.Sprintf("found %d", len(calls)))
					} else {
						// the parameter of applySingleRevert that flows to revertCommit's commit
						flow := eng.Origin(ia[ci])
						for i, p := range top.Params {
							if ssa.Value(p) == flow {
								cpi = i
							}
						}
						s := c31ResolvedFrom(calls[0].Common().Args[cpi])
						req("revert-roles", rv, "commit-from-spec", "the reverted commit is resolved from Revert's commit-spec string parameter", s != nil && c31IsParam(rv, s, "string"), calls[0].(ssa.Instruction), "commit argument is not Resolve(NewCommitSpec(<string parameter>))")
					}
				}
			}
		}
	}

	// ---- (3) rebase -----------------------------------------------------------------------
	actions := c.PackageConsts("libraries/doltcore/rebase", "", func(n string) bool { return strings.HasPrefix(n, "RebaseAction") })
	byName := map[string]string{}
	for _, a := range actions {
		byName[a.Name] = a.Value
	}
	if len(actions) < 6 {
		k.Unknown("rebase-action-exhaustive", "rebase.RebaseAction*", "declared rebase actions", fmt.Sprintf("found %d constants (floor 6)", len(actions)))
	}
	isAction := func(v ssa.Value) bool {
		return eng.Mentions(v, eng.IsField("libraries/doltcore/rebase.RebasePlanStep.Action"))
	}
	mCherry := eng.Static(c31CP + ".CherryPick")
	mPick := eng.AnyOf(mCherry, eng.CallsInto(mCherry))

	if fn := k.Fn(c31Proc + ".processRebasePlanStep"); fn != nil && byName["RebaseActionDrop"] != "" {
		drop := byName["RebaseActionDrop"]
		picks := eng.CallSet(fn, mPick)
		k.OnlyAfter("rebase-drop-skips", fn, "the cherry-pick is reached only on the Action != drop edge", picks, 1, eng.ConstEqEdges(fn, isAction, drop, false))
		notDrop := eng.ConstEqEdges(fn, isAction, drop, false)
		var starts []eng.Point
		for e := range notDrop.E {
			starts = append(starts, eng.Point{B: e.To(), I: 0})
		}
		rets := eng.NewSet()
		for _, b := range fn.Blocks {
			if len(b.Instrs) > 0 {
				if r, ok := b.Instrs[len(b.Instrs)-1].(*ssa.Return); ok {
					rets.AddI(r)
				}
			}
		}
		if len(starts) < 1 {
			k.Unknown("rebase-nondrop-picks", eng.Name(fn), "the Action == drop test", "no comparison of planStep.Action with the drop constant")
		} else {
			k.OnlyAfter("rebase-nondrop-picks", fn, "for every action other than drop, each return passes through the cherry-pick or an error result", rets, 2,
				eng.UnionOf(picks, eng.CallSet(fn, eng.Static(c31Proc+".newRebaseError"))), starts...)
		}
		// arguments of the step handler
		for in := range picks.I {
			call := in.(ssa.CallInstruction)
			if mCherry(call) {
				continue
			}
			args := call.Common().Args
			stepOK, optOK := false, false
			var mk *ssa.Call
			for _, a := range args {
				if c31IsParam(fn, a, "rebase.RebasePlanStep") {
					stepOK = true
				}
				if u, ok := eng.Origin(a).(*ssa.UnOp); ok {
					if cr := c31CallRes(u.X, 0, c31Proc+".createCherryPickOptionsForRebaseStep"); cr != nil {
						mk, optOK = cr, true
					}
				}
			}
			if mk != nil {
				same := false
				for _, a := range mk.Call.Args {
					if c31IsParam(fn, a, "rebase.RebasePlanStep") {
						same = true
					}
				}
				optOK = same
			}
			req("rebase-step-args", fn, "step", "the step handed to the cherry-pick handler is the step parameter", stepOK, in, "handler does not receive the plan step parameter")
			req("rebase-step-args", fn, "options", "the options handed to the handler are those built by createCherryPickOptionsForRebaseStep for the same step", optOK, in, "options are not createCherryPickOptionsForRebaseStep(step)")
		}
	}
	if fn := k.Fn(c31Proc + ".handleRebaseCherryPick"); fn != nil {
		calls := eng.Calls(fn, mCherry, false)
		if len(calls) < 1 {
			k.Unknown("rebase-step-args", eng.Name(fn), "the cherry_pick.CherryPick call", "not found")
		}
		for _, call := range calls {
			a := call.Common().Args
			hashOK := len(a) == 3 && eng.Mentions(a[1], eng.IsField("libraries/doltcore/rebase.RebasePlanStep.CommitHash")) && eng.Mentions(a[1], func(v ssa.Value) bool { return c31IsParam(fn, v, "rebase.RebasePlanStep") })
			optOK := len(a) == 3 && eng.Mentions(a[2], func(v ssa.Value) bool { return c31IsParam(fn, v, c31CP+".CherryPickOptions") })
			req("rebase-step-args", fn, "commit", "CherryPick receives the CommitHash of the step parameter", hashOK, call.(ssa.Instruction), "commit argument is not planStep.CommitHash")
			req("rebase-step-args", fn, "options", "CherryPick receives the options parameter", optOK, call.(ssa.Instruction), "options argument is not the options parameter")
		}
	}
	if fn := k.Fn(c31Proc + ".createCherryPickOptionsForRebaseStep"); fn != nil {
		// stores of true into CherryPickOptions.Amend
		amend := eng.NewSet()
		for _, st := range eng.FieldStores(fn, `libraries/doltcore/cherry_pick\.CherryPickOptions$`, "Amend") {
			if eng.Desc(st.(*ssa.Store).Val, 2) == "const:true" {
				amend.AddI(st)
			} else {
				k.Fail("rebase-amend-cases", eng.Name(fn)+"#Amend", "Amend is only ever assigned the constant true", c.InstrPos(st), "non-constant assignment to CherryPickOptions.Amend", nil)
			}
		}
		folding := []string{"RebaseActionSquash", "RebaseActionFixup"}
		cuts := eng.NewSet()
		for _, n := range folding {
			if byName[n] == "" {
				k.Unknown("rebase-amend-cases", "rebase."+n, "declared constant", "not found")
				continue
			}
			e := eng.ConstEqEdges(fn, isAction, byName[n], true)
			cuts.Union(e)
			var starts []eng.Point
			for ed := range e.E {
				starts = append(starts, eng.Point{B: ed.To(), I: 0})
			}
			if len(starts) < 1 {
				continue // reported by rebase-action-exhaustive
			}
			k.OnlyAfter("rebase-amend-cases", fn, "on the "+n+" edge every success exit is preceded by Amend = true", eng.SuccessExits(fn), 1, amend, starts...)
		}
		k.OnlyAfter("rebase-amend-cases", fn, "Amend = true is reachable only through the squash / fixup edges", amend, 2, cuts)
		for _, a := range actions {
			n := eng.ConstEqEdges(fn, isAction, a.Value, true).Len()
			k.Require("rebase-action-exhaustive", eng.Name(fn)+"#"+a.Name, "every declared rebase action is dispatched on when the cherry-pick options are built", n >= 1, c.Pos(fn.Pos()), "no comparison of planStep.Action with rebase."+a.Name+": the action falls into the unsupported-action error")
		}
	}
	if fn := k.Fn(c31CP + ".CreateCommitStagedPropsFromCherryPickOptions"); fn != nil {
		st := eng.NewSet()
		for _, s := range eng.FieldStores(fn, `CommitStagedProps$`, "Amend") {
			if eng.Desc(s.(*ssa.Store).Val, 2) == "const:true" {
				st.AddI(s)
			}
		}
		on := eng.BoolEdges(fn, func(v ssa.Value) bool { return eng.Mentions(v, eng.IsField(c31CP+".CherryPickOptions.Amend")) }, true)
		var starts []eng.Point
		for e := range on.E {
			starts = append(starts, eng.Point{B: e.To(), I: 0})
		}
		if len(starts) < 1 {
			k.Unknown("amend-propagates", eng.Name(fn), "the test of options.Amend", "no If on CherryPickOptions.Amend")
		} else {
			k.OnlyAfter("amend-propagates", fn, "when options.Amend is set every success exit is preceded by CommitStagedProps.Amend = true", eng.SuccessExits(fn), 1, st, starts...)
		}
	}
}

// c31Installed: in top, the Root of the merge result returned by call `inner` is installed
// with SetWorkingRoot (error checked) before any success exit that follows a successful inner call.
func c31Installed(k *eng.Check, top *ssa.Function, inner ssa.CallInstruction, mSetRoot eng.CallM, fResRoot func(ssa.Value) bool) {
	c := k.C
	sets := eng.Calls(top, mSetRoot, false)
	ok := false
	for _, s := range sets {
		a := s.Common().Args
		if len(a) == 4 && eng.Mentions(a[3], fResRoot) && eng.Mentions(a[3], func(v ssa.Value) bool { return eng.ResultOf(v, inner, 0) }) {
			ok = true
		}
	}
	k.Require("merge-result-installed", eng.Name(top)+"#SetWorkingRoot", "the working root installed is the Root of the merge result", ok, c.InstrPos(inner.(ssa.Instruction)), "no SetWorkingRoot call receives <merge result>.Root")
	okInner := eng.OkCut(inner)
	var starts []eng.Point
	for e := range okInner.E {
		starts = append(starts, eng.Point{B: e.To(), I: 0})
	}
	if len(starts) < 1 {
		k.Unknown("merge-result-installed", eng.Name(top)+"#checked", "the error of the merge step is checked", "no nil-edge for the inner call's error")
		return
	}
	k.OnlyAfter("merge-result-installed", top, "after a successful merge every success exit is preceded by an error-checked SetWorkingRoot", eng.SuccessExits(top), 1, k.OkCalls(top, "setroot", mSetRoot), starts...)
}
