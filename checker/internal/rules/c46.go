package rules

import (
	"fmt"
	"go/token"
	"sort"
	"strings"

	"dvcheck/internal/eng"

	"golang.org/x/tools/go/ssa"
)

func init() {
	Registry["C46"] = &Rule{
		Explanation: "Decides that every 'stage everything' path and dolt_clean route their table lists through the dolt_ignore filter, not what the filter answers for a given pattern set. " +
			"(1) stage-all-forwards-filter: StageAllTables hands its own filter flag, unchanged, to StageTables and never stages directly. " +
			"(2) filter-before-stage: in StageTables, on the flag-true edge stageTables is reached only after FilterIgnoredTables returned nil, the list it then receives is the filter's DontIgnore field (the unfiltered parameter flows in only on the flag-false edge), and a non-empty Conflicts list reaches neither stageTables nor a success exit. " +
			"(3) classification: FilterIgnoredTables appends to DontIgnore only on verdict==DontIgnore and always does so on that edge; ExcludeIgnoredTables never keeps a table in the iteration where the verdict is Ignore and always keeps it when the verdict is DontIgnore; verdict errors are consumed. " +
			"(4) unfiltered-stagers: the unfiltered primitive stageTables is called only by StageTables and StageModifiedAndDeletedTables, and only stageTables moves tables from the working root into the staged root; StageModifiedAndDeletedTables (commit -a) collects names only on the IsAdd()==false edge. " +
			"(5) flag-at-callers: every call of StageAllTables passes constant true, the negation of the parsed force flag, or the caller's own flag parameter; dolt_clean passes the negation of the parsed -x flag as CleanUntracked's respect-ignore parameter. " +
			"(6) clean: in CleanUntracked, on the respect-ignore edge the candidates put into the removal set are the error-checked result of ExcludeIgnoredTables (the unfiltered list flows in only on the other edge); the list given to RootValue.RemoveTables (on roots.Working) is made of the removal set's keys; RemoveTables is reached only after a loop that deletes every table name of roots.Staged from the removal set ran to completion, and nothing is inserted after it. " +
			"It does not decide IsTableNameIgnored/pattern specificity, nor which tables are new, dropped or untracked at run time.",
		RuleText:    "cut-reachability on the SSA CFG from flag/verdict edges, role rules over phi operands (which list may flow into the staging/removal call on which edge), who-may-call allowlists, argument-shape rules at call sites (negated parsed flag, constants by value)",
		Assumptions: []string{"argparser.ArgParseResults.Contains(name) reports whether the flag was given", "doltdb.RootValue.RemoveTables removes only the tables it is given"},
		Patterns:    []string{"./libraries/doltcore/env/actions", "./libraries/doltcore/doltdb", "./libraries/doltcore/sqle/dprocedures"},
		Run:         runC46,
	}
}

const (
	c46Actions   = "libraries/doltcore/env/actions"
	c46Doltdb    = "libraries/doltcore/doltdb"
	c46TblSlice  = "[]libraries/doltcore/doltdb.TableName"
	c46DontField = "libraries/doltcore/doltdb.IgnoredTables.DontIgnore"
	c46ConfField = "libraries/doltcore/doltdb.IgnoredTables.Conflicts"
	c46RootsW    = "libraries/doltcore/doltdb.Roots.Working"
	c46RootsS    = "libraries/doltcore/doltdb.Roots.Staged"
)

var (
	c46mStage      = eng.Static(c46Actions + ".StageTables")
	c46mStageRaw   = eng.Static(c46Actions + ".stageTables")
	c46mMove       = eng.Static(c46Actions + ".MoveTablesBetweenRoots")
	c46mClean      = eng.Static(c46Actions + ".CleanUntracked")
	c46mAllNames   = eng.Static(c46Actions + ".GetAllTableNames")
	c46mFilter     = eng.Static(c46Doltdb + ".FilterIgnoredTables")
	c46mExclude    = eng.Static(c46Doltdb + ".ExcludeIgnoredTables")
	c46mVerdict    = eng.Static("(*" + c46Doltdb + ".IgnorePatterns).IsTableNameIgnored")
	c46mPatterns   = eng.Static(c46Doltdb + ".GetIgnoredTablePatterns")
	c46mContains   = eng.Method(`libraries/utils/argparser\.ArgParseResults$`, "Contains")
	c46mRemove     = eng.Method(`libraries/doltcore/doltdb\.RootValue$`, "RemoveTables")
	c46mIsAdd      = eng.Method(`libraries/doltcore/diff\.TableDelta$`, "IsAdd")
	c46mAppend     = eng.Named(`^builtin:append$`)
	c46mDeleteBI   = eng.Named(`^builtin:delete$`)
	c46mResolveTbl = eng.Named(`^libraries/doltcore/sqle/resolve\.TableName`)
)

func runC46(k *eng.Check, tier string) {
	c := k.C
	consts := map[string]string{}
	for _, cd := range c.PackageConsts(c46Doltdb, "IgnoreResult", nil) {
		consts[cd.Name] = cd.Value
	}
	for _, cd := range c.PackageConsts("cmd/dolt/cli", "", func(n string) bool { return n == "ForceFlag" || n == "ExcludeIgnoreRulesFlag" }) {
		consts[cd.Name] = cd.Value
	}
	for _, n := range []string{"Ignore", "DontIgnore", "ForceFlag", "ExcludeIgnoreRulesFlag"} {
		if consts[n] == "" {
			k.Unknown("constants", n, "declared constant", "constant not found (doltdb.IgnoreResult / cli flag names)")
			return
		}
	}

	c46StageAll(k)
	c46StageTables(k)
	c46Filter(k, consts)
	c46Exclude(k, consts)
	c46CommitLowerA(k)
	c46WhoMay(k)
	rp := c46Clean(k)
	c46Callers(k, consts, rp)
}

// ---------------------------------------------------------------------------------------------

func c46BoolParam(k *eng.Check, rule string, fn *ssa.Function) *ssa.Parameter {
	bp := c18uParamsOfType(fn, "bool")
	if len(bp) != 1 {
		k.Unknown(rule, eng.Name(fn)+"#flag", "the filter flag parameter", fmt.Sprintf("%d bool parameters (confirmed 1)", len(bp)))
		return nil
	}
	return bp[0]
}

func c46ArgOfType(call ssa.CallInstruction, short string) ssa.Value {
	var out ssa.Value
	n := 0
	for _, a := range call.Common().Args {
		if eng.ShortType(a.Type()) == short {
			out = a
			n++
		}
	}
	if n != 1 {
		return nil
	}
	return out
}

func c46IsParam(p *ssa.Parameter) func(ssa.Value) bool {
	return func(v ssa.Value) bool { return c18uParamOrigin(v) == p }
}

// (1)
func c46StageAll(k *eng.Check) {
	c := k.C
	fn := k.Fn(c46Actions + ".StageAllTables")
	if fn == nil {
		return
	}
	name := eng.Name(fn)
	bp := c46BoolParam(k, "stage-all-forwards-filter", fn)
	if bp == nil {
		return
	}
	calls := eng.Calls(fn, c46mStage, false)
	if len(calls) < 1 {
		k.Unknown("stage-all-forwards-filter", name, "the call of StageTables", "not found (confirmed floor 1)")
		return
	}
	for _, call := range calls {
		flag := c46ArgOfType(call, "bool")
		k.Require("stage-all-forwards-filter", name+"#flag", "StageAllTables hands its own filterIgnoredTables parameter, unchanged, to StageTables", flag != nil && c18uParamOrigin(flag) == bp, c.InstrPos(call.(ssa.Instruction)),
			"the filter flag given to StageTables is not this function's parameter: `add -A` / `commit -A` would stage (or skip) ignored tables regardless of what the caller asked")
	}
	direct := eng.CallsDeep(fn, eng.AnyOf(c46mStageRaw, c46mMove), true)
	k.Require("stage-all-forwards-filter", name+"#no-direct-staging", "StageAllTables stages only through StageTables", len(direct) == 0, c.Pos(fn.Pos()), "StageAllTables calls the unfiltered staging primitive itself")
	k.OnlyAfter("stage-all-forwards-filter", fn, "success exit only after StageTables returned nil", eng.SuccessExits(fn), 1, k.OkCalls(fn, "c46stage", c46mStage))
}

// nonEmptyEdges: edges on which len(x) > 0 is established, for x satisfying isSeq.
func c46NonEmptyEdges(fn *ssa.Function, isSeq func(ssa.Value) bool) *eng.Set {
	s := eng.NewSet()
	for _, b := range fn.Blocks {
		iff, ok := b.Instrs[len(b.Instrs)-1].(*ssa.If)
		if !ok {
			continue
		}
		base, pos := eng.NormBool(iff.Cond)
		cmp, ok := base.(*ssa.BinOp)
		if !ok {
			continue
		}
		ln, ok := c18uIsBuiltinCall(cmp.X, "len")
		if !ok || !isSeq(ln.Call.Args[0]) {
			continue
		}
		kv, isK := c18uConstInt64(cmp.Y)
		if !isK {
			continue
		}
		var nonEmptyOnTrue bool
		switch {
		case (cmp.Op == token.GTR || cmp.Op == token.NEQ) && kv == 0, cmp.Op == token.GEQ && kv == 1:
			nonEmptyOnTrue = true
		case (cmp.Op == token.EQL || cmp.Op == token.LEQ) && kv == 0, cmp.Op == token.LSS && kv == 1:
			nonEmptyOnTrue = false
		default:
			continue
		}
		if nonEmptyOnTrue == pos {
			s.AddE(eng.Edge{From: b, Succ: 0})
		} else {
			s.AddE(eng.Edge{From: b, Succ: 1})
		}
	}
	return s
}

// c46LeafRole checks the operands of the phi web of list: every operand must satisfy
// filtered, unless it enters through an edge that cannot be taken once one of the
// `respect` edges has been taken.
func c46LeafRole(fn *ssa.Function, list ssa.Value, respect *eng.Set, filtered func(ssa.Value) bool) (bool, string) {
	leaves, _ := c18uPhiLeaves(eng.Origin(list))
	nFiltered := 0
	for _, lf := range leaves {
		if filtered(lf.Val) {
			nFiltered++
			continue
		}
		if lf.From == nil {
			return false, "the list is an unfiltered value on every path: " + eng.Desc(lf.Val, 3)
		}
		if len(eng.Reach(fn, eng.EdgeTargets(respect), eng.NewSet().AddI(c18uBlockEntry(lf.From)), nil)) > 0 {
			return false, "an unfiltered list (" + eng.Desc(lf.Val, 3) + ") can flow in after the filter edge was taken"
		}
	}
	if nFiltered == 0 {
		return false, "the filter's result never flows into the list"
	}
	return true, ""
}

// (2)
func c46StageTables(k *eng.Check) {
	c := k.C
	fn := k.Fn(c46Actions + ".StageTables")
	if fn == nil {
		return
	}
	name := eng.Name(fn)
	bp := c46BoolParam(k, "filter-before-stage", fn)
	if bp == nil {
		return
	}
	filts := eng.Calls(fn, c46mFilter, false)
	raws := eng.Calls(fn, c46mStageRaw, false)
	if len(filts) < 1 || len(raws) < 1 {
		k.Unknown("filter-before-stage", name, "the FilterIgnoredTables and stageTables calls", fmt.Sprintf("%d / %d found (confirmed floor 1 / 1)", len(filts), len(raws)))
		return
	}
	flagTrue := eng.BoolEdges(fn, c46IsParam(bp), true)
	if flagTrue.Len() < 1 {
		k.Unknown("filter-before-stage", name+"#flag-edge", "the branch on filterIgnoredTables", "not found")
		return
	}
	okFilter := eng.NewSet()
	for _, f := range filts {
		okFilter.Union(eng.OkCut(f))
	}
	k.OnlyAfter("filter-before-stage", fn, "with filtering requested, stageTables is reached only after FilterIgnoredTables returned nil", eng.CallSet(fn, c46mStageRaw), 1, okFilter, eng.EdgeTargets(flagTrue)...)
	isFilterResult := func(root ssa.Value) bool {
		if a, ok := root.(*ssa.Alloc); ok {
			sts := eng.StoresTo(a)
			if len(sts) == 0 {
				return false
			}
			for _, st := range sts {
				okSt := false
				for _, f := range filts {
					if eng.ResultOf(st.Val, f, 0) {
						okSt = true
					}
				}
				if !okSt {
					return false
				}
			}
			return true
		}
		for _, f := range filts {
			if eng.ResultOf(root, f, 0) {
				return true
			}
		}
		return false
	}
	isDontIgnore := func(v ssa.Value) bool {
		root, field, ok := c18uFieldRead(v)
		return ok && field == c46DontField && isFilterResult(root)
	}
	for _, raw := range raws {
		list := c46ArgOfType(raw, c46TblSlice)
		ok, why := false, "stageTables has no single table-list argument"
		if list != nil {
			ok, why = c46LeafRole(fn, list, flagTrue, isDontIgnore)
		}
		k.Require("filter-before-stage", name+"#staged-list", "with filtering requested, the list handed to stageTables is the filter's DontIgnore field", ok, c.InstrPos(raw.(ssa.Instruction)), why)
	}
	isConflicts := func(v ssa.Value) bool {
		root, field, ok := c18uFieldRead(v)
		return ok && field == c46ConfField && isFilterResult(root)
	}
	conf := c46NonEmptyEdges(fn, isConflicts)
	if conf.Len() < 1 {
		k.Unknown("conflict-is-error", name, "the test for a non-empty Conflicts list", "not found: contradicting dolt_ignore patterns would be staged or skipped silently")
		return
	}
	k.OnlyAfter("conflict-is-error", fn, "when the filter reports conflicting patterns neither stageTables nor a success exit is reachable", eng.UnionOf(eng.CallSet(fn, c46mStageRaw), eng.SuccessExits(fn)), 1, eng.NewSet(), eng.EdgeTargets(conf)...)
}

func c46IsVerdict(v ssa.Value) bool {
	ex, ok := eng.Origin(v).(*ssa.Extract)
	if !ok || ex.Index != 0 {
		return false
	}
	call, ok := ex.Tuple.(*ssa.Call)
	return ok && c46mVerdict(call)
}

func c46LoopOfInstr(fn *ssa.Function, in ssa.Instruction) *eng.Loop {
	var best *eng.Loop
	for _, l := range eng.Loops(fn) {
		if l.Body[in.Block()] && (best == nil || len(l.Body) < len(best.Body)) {
			best = l
		}
	}
	return best
}

func c46VerdictErrors(k *eng.Check, rule string, fn *ssa.Function) {
	n := 0
	for _, call := range eng.Calls(fn, eng.AnyOf(c46mVerdict, c46mPatterns), false) {
		n++
		k.Require(rule, eng.Name(fn)+"#"+eng.CalleeName(call)+"-error", "the error of reading/evaluating the ignore patterns is consumed", eng.ErrConsumed(call), k.C.InstrPos(call.(ssa.Instruction)), "error dropped: a failed pattern evaluation would be treated as a verdict")
	}
	if n < 2 {
		k.Unknown(rule, eng.Name(fn)+"#pattern-calls", "GetIgnoredTablePatterns and IsTableNameIgnored calls", fmt.Sprintf("%d found (confirmed floor 2)", n))
	}
}

// (3a)
func c46Filter(k *eng.Check, consts map[string]string) {
	fn := k.Fn(c46Doltdb + ".FilterIgnoredTables")
	if fn == nil {
		return
	}
	name := eng.Name(fn)
	dont := eng.ConstEqEdges(fn, c46IsVerdict, consts["DontIgnore"], true)
	stores := eng.NewSet().AddI(eng.FieldStores(fn, `libraries/doltcore/doltdb\.IgnoredTables$`, "DontIgnore")...)
	if dont.Len() < 1 || stores.Len() < 1 {
		k.Unknown("classification", name, "the verdict==DontIgnore branch and the DontIgnore append", fmt.Sprintf("%d / %d found (confirmed floor 1 / 1)", dont.Len(), stores.Len()))
		return
	}
	k.OnlyAfter("classification", fn, "a table is appended to DontIgnore only on the verdict==DontIgnore edge", stores, 1, dont)
	targets := c18uReturns(fn)
	for in := range stores.I {
		if l := c46LoopOfInstr(fn, in); l != nil {
			targets.Union(c18uBackEdges(l))
		}
	}
	k.OnlyAfter("classification", fn, "on the verdict==DontIgnore edge the table is always appended to DontIgnore before the next table is examined", targets, 2, stores, eng.EdgeTargets(dont)...)
	c46VerdictErrors(k, "classification", fn)
}

// (3b)
func c46Exclude(k *eng.Check, consts map[string]string) {
	fn := k.Fn(c46Doltdb + ".ExcludeIgnoredTables")
	if fn == nil {
		return
	}
	name := eng.Name(fn)
	ign := eng.ConstEqEdges(fn, c46IsVerdict, consts["Ignore"], true)
	dont := eng.ConstEqEdges(fn, c46IsVerdict, consts["DontIgnore"], true)
	keeps := eng.NewSet()
	for _, ap := range eng.Calls(fn, c46mAppend, false) {
		kept := false
		for in := range eng.SuccessExits(fn).I {
			if ret, ok := in.(*ssa.Return); ok && len(ret.Results) > 0 && eng.MentionsDeep(ret.Results[0], func(v ssa.Value) bool { return v == ap.Value() }) {
				kept = true
			}
		}
		if kept {
			keeps.AddI(ap.(ssa.Instruction))
		}
	}
	if ign.Len() < 1 || dont.Len() < 1 || keeps.Len() < 1 {
		k.Unknown("exclude-filter", name, "the verdict branches and the append to the returned list", fmt.Sprintf("%d / %d / %d found (confirmed floor 1 / 1 / 1)", ign.Len(), dont.Len(), keeps.Len()))
		return
	}
	headers, back := eng.NewSet(), c18uReturns(fn)
	for in := range keeps.I {
		if l := c46LoopOfInstr(fn, in); l != nil {
			headers.AddI(c18uBlockEntry(l.Header))
			back.Union(c18uBackEdges(l))
		}
	}
	if headers.Len() < 1 {
		k.Unknown("exclude-filter", name+"#loop", "the loop over the candidate tables", "not found")
		return
	}
	k.OnlyAfter("exclude-filter", fn, "in the iteration whose verdict is Ignore the table is not appended to the returned list", keeps, 1, headers, eng.EdgeTargets(ign)...)
	k.OnlyAfter("exclude-filter", fn, "on the verdict==DontIgnore edge the table is always kept before the next table is examined", back, 2, keeps, eng.EdgeTargets(dont)...)
	c46VerdictErrors(k, "exclude-filter", fn)
}

// (4a) commit -a
func c46CommitLowerA(k *eng.Check) {
	fn := k.Fn(c46Actions + ".StageModifiedAndDeletedTables")
	if fn == nil {
		return
	}
	name := eng.Name(fn)
	raws := eng.Calls(fn, c46mStageRaw, false)
	if len(raws) < 1 {
		k.Unknown("commit-a-skips-new-tables", name, "the stageTables call", "not found (confirmed floor 1)")
		return
	}
	collect := eng.NewSet()
	for _, raw := range raws {
		list := c46ArgOfType(raw, c46TblSlice)
		if list == nil {
			continue
		}
		for _, ap := range eng.Calls(fn, c46mAppend, false) {
			if eng.MentionsDeep(list, func(v ssa.Value) bool { return v == ap.Value() }) {
				collect.AddI(ap.(ssa.Instruction))
			}
		}
	}
	notAdd := eng.BoolEdges(fn, eng.IsCall(c46mIsAdd), false)
	k.OnlyAfter("commit-a-skips-new-tables", fn, "a table name is collected for staging only on the IsAdd()==false edge (new tables, ignored or not, are never staged by commit -a)", collect, 1, notAdd)
}

// (4b) who may stage without the filter
func c46WhoMay(k *eng.Check) {
	c := k.C
	raw := k.Fn(c46Actions + ".stageTables")
	if raw == nil {
		return
	}
	allowed := map[string]string{
		c46Actions + ".StageTables":                   "filters first when asked to (rule filter-before-stage)",
		c46Actions + ".StageModifiedAndDeletedTables": "collects only tables that are not additions (rule commit-a-skips-new-tables)",
	}
	// stageTables is unexported: only its own package can name it
	n := 0
	for _, fn := range c.Funcs(c46Actions) {
		for _, call := range eng.CallersOf([]*ssa.Function{fn}, raw) {
			n++
			caller := eng.Name(eng.Outermost(fn))
			_, ok := allowed[caller]
			k.Require("unfiltered-stagers", caller+"#stageTables", "the unfiltered staging primitive is called only from the frozen set", ok, c.InstrPos(call.(ssa.Instruction)), "new caller of stageTables: a path that stages tables without consulting dolt_ignore")
		}
		if len(eng.FuncValueUses([]*ssa.Function{fn}, raw)) > 0 {
			k.Fail("unfiltered-stagers", eng.Name(fn)+"#stageTables-value", "stageTables is not passed around as a value", c.Pos(fn.Pos()), "stageTables escapes as a function value", nil)
		}
	}
	if n < 2 {
		k.Unknown("unfiltered-stagers", c46Actions, "callers of stageTables", fmt.Sprintf("%d found (confirmed floor 2)", n))
	}
	m := 0
	if mv := k.Fn(c46Actions + ".MoveTablesBetweenRoots"); mv != nil {
		for _, fn := range c.All() {
			for _, call := range eng.CallersOf([]*ssa.Function{fn}, mv) {
				a := call.Common().Args
				if len(a) != 4 || !eng.FromField(a[2], c46RootsW) || !eng.FromField(a[3], c46RootsS) {
					continue
				}
				m++
				k.Require("unfiltered-stagers", eng.Name(eng.Outermost(fn))+"#working->staged", "tables are moved from the working root into the staged root only by stageTables", eng.Outermost(fn) == raw, c.InstrPos(call.(ssa.Instruction)), "another function copies working tables into the staged root")
			}
		}
	}
	if m < 1 {
		k.Unknown("unfiltered-stagers", c46Actions+"#working->staged", "MoveTablesBetweenRoots(working, staged) sites", "none found (confirmed floor 1)")
	}
}

// c46NegatedFlag: v is `!apr.Contains(<flag>)`.
func c46NegatedFlag(v ssa.Value, flag string) bool {
	base, pos := eng.NormBool(eng.Origin(v))
	call, ok := base.(*ssa.Call)
	if !ok || pos || !c46mContains(call) {
		return false
	}
	for _, a := range eng.PathArgs(call) {
		if s, isS := eng.ConstString(a); isS && `"`+s+`"` == flag {
			return true
		}
	}
	return false
}

// (6)
func c46Clean(k *eng.Check) *ssa.Parameter {
	c := k.C
	fn := k.Fn(c46Actions + ".CleanUntracked")
	if fn == nil {
		return nil
	}
	name := eng.Name(fn)
	excl := eng.Calls(fn, c46mExclude, false)
	rms := eng.Calls(fn, c46mRemove, false)
	if len(excl) < 1 || len(rms) < 1 {
		k.Unknown("clean-respects-ignore", name, "the ExcludeIgnoredTables and RemoveTables calls", fmt.Sprintf("%d / %d found (confirmed floor 1 / 1)", len(excl), len(rms)))
		return nil
	}
	// the flag that guards ExcludeIgnoredTables
	var rp *ssa.Parameter
	var respect *eng.Set
	for _, p := range c18uParamsOfType(fn, "bool") {
		e := eng.BoolEdges(fn, c46IsParam(p), true)
		if e.Len() > 0 && len(eng.Reach(fn, nil, eng.CallSet(fn, c46mExclude), e)) == 0 {
			if rp != nil {
				k.Unknown("clean-respects-ignore", name+"#flag", "the respect-ignore flag", "two boolean parameters guard ExcludeIgnoredTables")
				return nil
			}
			rp, respect = p, e
		}
	}
	if rp == nil {
		k.Unknown("clean-respects-ignore", name+"#flag", "the boolean parameter whose true edge leads to ExcludeIgnoredTables", "not found")
		return nil
	}
	// the removal set
	var set *ssa.MakeMap
	nMaps := 0
	for _, in := range eng.Instrs(fn, func(in ssa.Instruction) bool { _, ok := in.(*ssa.MakeMap); return ok }) {
		mm := in.(*ssa.MakeMap)
		if strings.HasPrefix(eng.ShortType(mm.Type()), "map[libraries/doltcore/doltdb.TableName]") {
			set = mm
			nMaps++
		}
	}
	if nMaps != 1 {
		k.Unknown("clean-removal-set", name, "the removal set (map keyed by TableName)", fmt.Sprintf("%d maps found (confirmed 1)", nMaps))
		return rp
	}
	isSet := func(v ssa.Value) bool { return eng.Origin(v) == ssa.Value(set) }
	// what is removed is the set's keys, from the working root
	for _, rm := range rms {
		args := eng.PathArgs(rm)
		fromSet := len(args) > 0 && eng.MentionsDeep(args[len(args)-1], func(v ssa.Value) bool {
			nx, ok := v.(*ssa.Next)
			if !ok {
				return false
			}
			rg, ok := nx.Iter.(*ssa.Range)
			return ok && isSet(rg.X)
		})
		onWorking := rm.Common().IsInvoke() && eng.FromField(rm.Common().Value, c46RootsW)
		k.Require("clean-removal-set", name+"#RemoveTables", "the tables removed are the keys of the removal set, and they are removed from the working root", fromSet && onWorking, c.InstrPos(rm.(ssa.Instruction)), fmt.Sprintf("list made of the removal set's keys: %v; receiver is roots.Working: %v", fromSet, onWorking))
	}
	// insertions
	isExcluded := func(v ssa.Value) bool {
		for _, e := range excl {
			if eng.ResultOf(v, e, 0) {
				return true
			}
		}
		return false
	}
	inserts := eng.NewSet()
	nCand := 0
	for _, in := range eng.Instrs(fn, func(in ssa.Instruction) bool { mu, ok := in.(*ssa.MapUpdate); return ok && isSet(mu.Map) }) {
		mu := in.(*ssa.MapUpdate)
		inserts.AddI(mu)
		pos := c.InstrPos(mu)
		named := false
		for _, rc := range eng.Calls(fn, c46mResolveTbl, false) {
			if eng.ResultOf(mu.Key, rc, 0) {
				named = true
			}
		}
		if named {
			k.Pass("clean-respects-ignore", name+"#named-table", "a table named explicitly on the command line is a candidate whatever dolt_ignore says", 1)
			continue
		}
		list, _, isElem := c18uElemIn(mu.Key)
		if !isElem {
			k.Fail("clean-respects-ignore", name+"#candidates", "a candidate comes from the explicit arguments or from the (filtered) list of working tables", pos, "unrecognised source of a removal candidate", nil)
			continue
		}
		nCand++
		ok, why := c46LeafRole(fn, list, respect, isExcluded)
		k.Require("clean-respects-ignore", name+"#candidates", "with ignore rules respected, the candidates put into the removal set are the result of ExcludeIgnoredTables", ok, pos, why)
		okCut := eng.NewSet()
		for _, e := range excl {
			okCut.Union(eng.OkCut(e))
		}
		k.OnlyAfter("clean-respects-ignore", fn, "with ignore rules respected, a candidate is inserted only after ExcludeIgnoredTables returned nil", eng.NewSet().AddI(mu), 1, okCut, eng.EdgeTargets(respect)...)
	}
	if nCand < 1 {
		k.Unknown("clean-respects-ignore", name+"#candidates", "insertion of working-table candidates into the removal set", "not found (confirmed floor 1)")
	}
	// tracked tables are taken out before anything is removed
	nDel := 0
	for _, del := range eng.Calls(fn, c46mDeleteBI, false) {
		a := del.Common().Args
		if len(a) != 2 || !isSet(a[0]) {
			continue
		}
		tracked, _, isElem := c18uElemIn(a[1])
		tc, isCall := tracked.(*ssa.Call)
		if !isElem || !isCall || !c46mAllNames(tc) || len(tc.Call.Args) != 2 || !eng.FromField(tc.Call.Args[1], c46RootsS) {
			continue
		}
		for _, rl := range eng.RangeLoops(fn) {
			if eng.Origin(rl.Over) != tracked {
				continue
			}
			nDel++
			k.OnlyAfter("clean-keeps-tracked", fn, "RemoveTables is reached only after the loop that deletes every table of roots.Staged from the removal set ran to completion", eng.CallSet(fn, c46mRemove), 1, eng.NewSet().AddE(rl.Done))
			k.OnlyAfter("clean-keeps-tracked", fn, "every iteration over the staged root's tables deletes the table from the removal set", eng.NewSet().AddI(rl.Step), 1, eng.NewSet().AddI(del.(ssa.Instruction)), rl.BodyStart())
			k.OnlyAfter("clean-keeps-tracked", fn, "nothing is inserted into the removal set after the tracked tables were taken out", inserts, 2, eng.NewSet(), eng.Point{B: rl.Done.To(), I: 0})
		}
	}
	if nDel < 1 {
		k.Unknown("clean-keeps-tracked", name, "a loop over GetAllTableNames(roots.Staged) that deletes each name from the removal set", "not found (confirmed floor 1): tracked tables could be removed by clean")
	}
	return rp
}

// (5)
func c46Callers(k *eng.Check, consts map[string]string, rp *ssa.Parameter) {
	c := k.C
	type site struct {
		pos, fn string
		ok      bool
		how     string
	}
	var sites []site
	stageAll := k.Fn(c46Actions + ".StageAllTables")
	for _, fn := range c.All() {
		if stageAll == nil {
			break
		}
		for _, call := range eng.CallersOf([]*ssa.Function{fn}, stageAll) {
			flag := c46ArgOfType(call, "bool")
			s := site{pos: c.InstrPos(call.(ssa.Instruction)), fn: eng.Name(fn)}
			switch {
			case flag == nil:
				s.how = "no boolean argument"
			case eng.IsConstBool(eng.Origin(flag), true):
				s.ok, s.how = true, "constant true"
			case c46NegatedFlag(flag, consts["ForceFlag"]):
				s.ok, s.how = true, "!Contains(force)"
			case c18uParamOrigin(flag) != nil && c18uParamOrigin(flag).Parent() == fn:
				s.ok, s.how = true, "caller's own parameter"
			default:
				s.how = "filter flag is " + eng.Desc(flag, 4)
			}
			sites = append(sites, s)
		}
	}
	sort.Slice(sites, func(i, j int) bool { return sites[i].pos < sites[j].pos })
	perFn := map[string]int{}
	for _, s := range sites {
		perFn[s.fn]++
		k.Require("flag-at-callers", fmt.Sprintf("%s#StageAllTables-%d", s.fn, perFn[s.fn]), "stage-all is asked to skip ignored tables unless the parsed force flag is present ("+s.how+")", s.ok, s.pos,
			"StageAllTables is called with a filter flag that is neither true, nor !Contains(force), nor the caller's own parameter: "+s.how)
	}
	if len(sites) < 3 {
		k.Unknown("flag-at-callers", "StageAllTables", "call sites of StageAllTables", fmt.Sprintf("%d found (confirmed floor 3: dolt_add, dolt_commit -A, dolt_merge)", len(sites)))
	}
	// dolt_add stages explicit tables with the same flag
	if fn := k.Fn("libraries/doltcore/sqle/dprocedures.doDoltAdd"); fn != nil {
		n := 0
		for _, call := range eng.Calls(fn, c46mStage, false) {
			n++
			flag := c46ArgOfType(call, "bool")
			k.Require("flag-at-callers", eng.Name(fn)+"#StageTables", "dolt_add of named tables skips ignored tables unless the parsed force flag is present", flag != nil && c46NegatedFlag(flag, consts["ForceFlag"]), c.InstrPos(call.(ssa.Instruction)), "the filter flag is not !Contains(force)")
		}
		if n < 1 {
			k.Unknown("flag-at-callers", eng.Name(fn)+"#StageTables", "the StageTables call of dolt_add", "not found (confirmed floor 1)")
		}
	}
	// dolt_clean
	if fn := k.Fn("libraries/doltcore/sqle/dprocedures.doDoltClean"); fn != nil && rp != nil {
		n := 0
		idx := c18uParamIndex(rp)
		for _, call := range eng.Calls(fn, c46mClean, false) {
			n++
			a := call.Common().Args
			ok := idx >= 0 && idx < len(a) && c46NegatedFlag(a[idx], consts["ExcludeIgnoreRulesFlag"])
			k.Require("flag-at-callers", eng.Name(fn)+"#CleanUntracked", "dolt_clean respects dolt_ignore unless the parsed -x flag is present", ok, c.InstrPos(call.(ssa.Instruction)), "CleanUntracked's respect-ignore argument is not !Contains(x)")
		}
		if n < 1 {
			k.Unknown("flag-at-callers", eng.Name(fn)+"#CleanUntracked", "the CleanUntracked call of dolt_clean", "not found (confirmed floor 1)")
		}
	}
}
