package rules

// Shared model of the dataset-update closures of store/datas (used by C20 and C21).
//
// Every change of the datasets map goes through (*database).update(ctx, editFB): update reads the
// store root, loads the datasets AddressMap of that root, hands it to editFB and then compare-and-swaps
// the store root.  The model below enumerates the function literals passed as editFB and, for each,
// the edits applied to the map (AddressMapEditor.Update/Delete), the reads of the map
// (AddressMap.Get on the closure's own parameter) and the comparisons made on those reads.

import (
	"go/constant"
	"go/token"
	"go/types"
	"strings"

	"dvcheck/internal/eng"

	"golang.org/x/tools/go/ssa"
)

const (
	dsFnUpdate   = "(*store/datas.database).update"
	dsFnEdUpdate = "(store/prolly.AddressMapEditor).Update"
	dsFnEdDelete = "(store/prolly.AddressMapEditor).Delete"
	dsFnEdFlush  = "(store/prolly.AddressMapEditor).Flush"
	dsFnAmGet    = "(store/prolly.AddressMap).Get"
	dsFnAmHas    = "(store/prolly.AddressMap).Has"
	dsFnAmEditor = "(store/prolly.AddressMap).Editor"
)

// dsEdit is one AddressMapEditor.Update/Delete call of an edit closure.
type dsEdit struct {
	Call   *ssa.Call
	Key    ssa.Value
	Val    ssa.Value // nil for Delete
	Delete bool
}

// dsClosure is one function literal passed to (*database).update.
type dsClosure struct {
	Site  ssa.CallInstruction // the call of update
	Host  *ssa.Function       // function that contains the call
	Outer string              // canonical name of the declared function enclosing Host
	MC    *ssa.MakeClosure    // nil when a plain function is passed
	Fn    *ssa.Function       // the edit closure
	Am    *ssa.Parameter      // its AddressMap parameter: the datasets of the root being CAS-ed
	Edits []dsEdit
}

func dsIsNamed(t types.Type, pkgSuffix, name string) bool {
	if p, ok := t.(*types.Pointer); ok {
		t = p.Elem()
	}
	n, ok := t.(*types.Named)
	if !ok || n.Obj().Name() != name || n.Obj().Pkg() == nil {
		return false
	}
	return strings.HasSuffix(n.Obj().Pkg().Path(), pkgSuffix)
}

// datasClosures enumerates the closures passed to (*database).update in store/datas.  Call sites whose
// argument cannot be resolved to a function, or closures without a unique AddressMap parameter, are
// recorded as undecided.
func datasClosures(k *eng.Check) []*dsClosure {
	c := k.C
	var out []*dsClosure
	for _, fn := range c.Funcs("store/datas") {
		for _, call := range eng.Calls(fn, eng.Static(dsFnUpdate), true) {
			cl := &dsClosure{Site: call, Host: fn, Outer: eng.Name(eng.Outermost(fn))}
			args := call.Common().Args
			if len(args) != 3 {
				k.Unknown("update-closure", cl.Outer, "the edit function passed to database.update", "unexpected arity of the update call")
				continue
			}
			switch a := args[2].(type) {
			case *ssa.MakeClosure:
				cl.MC = a
				cl.Fn = a.Fn.(*ssa.Function)
			case *ssa.Function:
				cl.Fn = a
			}
			if cl.Fn == nil || len(cl.Fn.Blocks) == 0 {
				k.Unknown("update-closure", cl.Outer, "the edit function passed to database.update", "argument is not a function literal or declared function: "+eng.Desc(args[2], 3))
				continue
			}
			for _, p := range cl.Fn.Params {
				if dsIsNamed(p.Type(), "store/prolly", "AddressMap") {
					if cl.Am != nil {
						cl.Am = nil
						break
					}
					cl.Am = p
				}
			}
			if cl.Am == nil {
				k.Unknown("update-closure", eng.Name(cl.Fn), "the edit function passed to database.update", "no unique AddressMap parameter")
				continue
			}
			mEdit := eng.Static(dsFnEdUpdate, dsFnEdDelete)
			for _, e := range eng.Calls(cl.Fn, mEdit, false) {
				ec, ok := e.(*ssa.Call)
				if !ok {
					continue
				}
				ea := ec.Call.Args
				ed := dsEdit{Call: ec, Delete: eng.CalleeName(ec) == dsFnEdDelete}
				if len(ea) >= 3 {
					ed.Key = ea[2]
				}
				if !ed.Delete && len(ea) >= 4 {
					ed.Val = ea[3]
				}
				cl.Edits = append(cl.Edits, ed)
			}
			// edits hidden in nested literals or deferred calls are not modelled
			if n := len(eng.CallsDeep(cl.Fn, mEdit, true)); n != len(cl.Edits) {
				k.Unknown("update-closure", eng.Name(cl.Fn), "every edit of the datasets map is a direct call in the edit closure", "edits found in nested literals or deferred calls")
				continue
			}
			k.FuncsSeen[cl.Fn] = true
			k.FuncsSeen[fn] = true
			out = append(out, cl)
		}
	}
	return out
}

// isAm: v is the closure's AddressMap parameter.
func (cl *dsClosure) isAm(v ssa.Value) bool {
	for {
		switch x := v.(type) {
		case *ssa.ChangeType:
			v = x.X
			continue
		case *ssa.UnOp:
			// parameter spilled to a local because a nested literal captures it
			if a, ok := x.X.(*ssa.Alloc); ok && x.Op == token.MUL {
				if st := dsSingleStore(a); st != nil {
					v = st.Val
					continue
				}
			}
		}
		break
	}
	return v == ssa.Value(cl.Am)
}

// singleStore returns the only store into a when a is written exactly once in its function and is not
// written by any nested literal; nil otherwise.
func dsSingleStore(a *ssa.Alloc) *ssa.Store {
	var st *ssa.Store
	for _, ref := range *a.Referrers() {
		switch r := ref.(type) {
		case *ssa.Store:
			if r.Addr == ssa.Value(a) {
				if st != nil {
					return nil
				}
				st = r
			}
		case *ssa.MakeClosure:
			f := r.Fn.(*ssa.Function)
			for i, b := range r.Bindings {
				if b == ssa.Value(a) && i < len(f.FreeVars) && dsStoresTo(f, f.FreeVars[i]) {
					return nil
				}
			}
		}
	}
	return st
}

// storesTo: fn (or a literal nested in it that re-captures the variable) stores through free variable fv.
func dsStoresTo(fn *ssa.Function, fv *ssa.FreeVar) bool {
	for _, ref := range *fv.Referrers() {
		switch r := ref.(type) {
		case *ssa.Store:
			if dsAddrRoot(r.Addr) == ssa.Value(fv) {
				return true
			}
		case *ssa.MakeClosure:
			f := r.Fn.(*ssa.Function)
			for i, b := range r.Bindings {
				if b == ssa.Value(fv) && i < len(f.FreeVars) && dsStoresTo(f, f.FreeVars[i]) {
					return true
				}
			}
		case *ssa.FieldAddr, *ssa.IndexAddr:
			for _, rr := range *r.(ssa.Value).Referrers() {
				if st, ok := rr.(*ssa.Store); ok && dsAddrRoot(st.Addr) == ssa.Value(fv) {
					return true
				}
			}
		}
	}
	return false
}

// addrRoot strips field/index address computations from an address.
func dsAddrRoot(v ssa.Value) ssa.Value {
	for {
		switch x := v.(type) {
		case *ssa.FieldAddr:
			v = x.X
		case *ssa.IndexAddr:
			v = x.X
		default:
			return v
		}
	}
}

// pureGetter: a declared function whose body neither calls nor stores anything (a field accessor such
// as Dataset.ID).  Two calls with the same arguments yield the same value.
func dsPureGetter(f *ssa.Function) bool {
	if f == nil || len(f.Blocks) == 0 || len(f.Blocks) > 3 {
		return false
	}
	for _, b := range f.Blocks {
		for _, in := range b.Instrs {
			switch x := in.(type) {
			case *ssa.Store:
				// spilling a by-value parameter into a non-escaping local is not an effect
				if a, ok := dsAddrRoot(x.Addr).(*ssa.Alloc); !ok || a.Heap {
					return false
				}
			case *ssa.Call, *ssa.MapUpdate, *ssa.Send, *ssa.Go, *ssa.Defer, *ssa.Panic, *ssa.MakeClosure:
				return false
			}
		}
	}
	return true
}

// sameVal: a and b denote the same run-time value within one activation of fn: the same SSA value,
// equal constants, loads of the same variable that fn never re-assigns, or calls of the same pure
// getter on the same arguments.
func dsSameVal(a, b ssa.Value, depth int) bool {
	if a == b {
		return true
	}
	if depth <= 0 || a == nil || b == nil {
		return false
	}
	switch x := a.(type) {
	case *ssa.ChangeType:
		return dsSameVal(x.X, b, depth-1)
	case *ssa.MakeInterface:
		if y, ok := b.(*ssa.MakeInterface); ok {
			return dsSameVal(x.X, y.X, depth-1)
		}
	}
	if y, ok := b.(*ssa.ChangeType); ok {
		return dsSameVal(a, y.X, depth-1)
	}
	switch x := a.(type) {
	case *ssa.Const:
		y, ok := b.(*ssa.Const)
		if !ok || !types.Identical(x.Type(), y.Type()) {
			return false
		}
		if x.Value == nil || y.Value == nil {
			return x.Value == nil && y.Value == nil
		}
		return constant.Compare(x.Value, token.EQL, y.Value)
	case *ssa.UnOp:
		y, ok := b.(*ssa.UnOp)
		if !ok || x.Op != y.Op {
			return false
		}
		if x.Op != token.MUL {
			return dsSameVal(x.X, y.X, depth-1)
		}
		return dsSameAddr(x.X, y.X, depth-1)
	case *ssa.Field:
		y, ok := b.(*ssa.Field)
		return ok && x.Field == y.Field && dsSameVal(x.X, y.X, depth-1)
	case *ssa.Call:
		y, ok := b.(*ssa.Call)
		if !ok {
			return false
		}
		fx, fy := x.Call.StaticCallee(), y.Call.StaticCallee()
		if fx == nil || fx != fy || !dsPureGetter(fx) || len(x.Call.Args) != len(y.Call.Args) {
			return false
		}
		for i := range x.Call.Args {
			if !dsSameVal(x.Call.Args[i], y.Call.Args[i], depth-1) {
				return false
			}
		}
		return true
	}
	return false
}

// sameAddr: two addresses name the same variable and that variable is not re-assigned by the function
// that reads it.
func dsSameAddr(a, b ssa.Value, depth int) bool {
	switch x := a.(type) {
	case *ssa.FreeVar:
		return a == b && !dsStoresTo(x.Parent(), x)
	case *ssa.Alloc:
		return a == b && dsSingleStore(x) != nil
	case *ssa.FieldAddr:
		y, ok := b.(*ssa.FieldAddr)
		if !ok || x.Field != y.Field {
			return false
		}
		if x.X == y.X || dsSameVal(x.X, y.X, depth-1) {
			return !dsFieldStored(x)
		}
		return dsSameAddr(x.X, y.X, depth-1) && !dsFieldStored(x)
	}
	return false
}

// fieldStored: the function containing fa stores into the same field of any base (conservative).
func dsFieldStored(fa *ssa.FieldAddr) bool {
	fn := fa.Parent()
	for _, b := range fn.Blocks {
		for _, in := range b.Instrs {
			if st, ok := in.(*ssa.Store); ok {
				if fb, ok := st.Addr.(*ssa.FieldAddr); ok && fb.Field == fa.Field && types.Identical(fb.X.Type(), fa.X.Type()) {
					return true
				}
			}
		}
	}
	return false
}

// capturedOnly reports whether v is computed, inside the closure, only from variables captured from the
// enclosing function (and constants, pure getters of such values): it is not derived from the closure's
// parameters nor from any effectful call, hence it was fixed before update ran the closure.  The free
// variables met are returned.  zero is set when v is a zero-value/nil constant.
func dsCapturedOnly(v ssa.Value, depth int, fvs map[*ssa.FreeVar]bool) (ok bool, zero bool) {
	if depth <= 0 || v == nil {
		return false, false
	}
	switch x := v.(type) {
	case *ssa.Const:
		return true, x.Value == nil
	case *ssa.FreeVar:
		fvs[x] = true
		return true, false
	case *ssa.UnOp:
		if x.Op != token.MUL {
			return false, false
		}
		ok, _ := dsCapturedOnly(x.X, depth-1, fvs)
		return ok, false
	case *ssa.FieldAddr:
		ok, _ := dsCapturedOnly(x.X, depth-1, fvs)
		return ok, false
	case *ssa.Field:
		ok, _ := dsCapturedOnly(x.X, depth-1, fvs)
		return ok, false
	case *ssa.ChangeType:
		return dsCapturedOnly(x.X, depth-1, fvs)
	case *ssa.Call:
		f := x.Call.StaticCallee()
		if f == nil || !dsPureGetter(f) {
			return false, false
		}
		for _, a := range x.Call.Args {
			if ok, _ := dsCapturedOnly(a, depth-1, fvs); !ok {
				return false, false
			}
		}
		return true, false
	case *ssa.Extract:
		if c, isCall := x.Tuple.(*ssa.Call); isCall {
			ok, _ := dsCapturedOnly(c, depth-1, fvs)
			return ok, false
		}
	}
	return false, false
}

// dsGuard is one comparison `am.Get(ctx, key)#0 ==/!= expected` that controls a branch of the closure.
type dsGuard struct {
	Get      *ssa.Call
	Cmp      *ssa.BinOp
	If       *ssa.If
	Eq, Ne   eng.Edge // edges on which the stored address equals / differs from the expected one
	Expected ssa.Value
	Zero     bool // expected is the zero hash (dataset must not exist)
	Captured bool // expected is fixed outside the closure (capturedOnly) and not re-assigned inside it
	FVs      []*ssa.FreeVar
}

// getsOf lists the AddressMap.Get calls on the closure's own map whose key is the same value as key.
func (cl *dsClosure) getsOf(key ssa.Value) []*ssa.Call {
	var out []*ssa.Call
	for _, g := range eng.Calls(cl.Fn, eng.Static(dsFnAmGet), false) {
		gc, ok := g.(*ssa.Call)
		if !ok || len(gc.Call.Args) < 3 {
			continue
		}
		if cl.isAm(gc.Call.Args[0]) && dsSameVal(gc.Call.Args[2], key, 6) {
			out = append(out, gc)
		}
	}
	return out
}

// guards lists the comparisons of the stored address of key with some other value.
func (cl *dsClosure) guards(key ssa.Value) []dsGuard {
	var out []dsGuard
	for _, gc := range cl.getsOf(key) {
		for _, ref := range *gc.Referrers() {
			ex, ok := ref.(*ssa.Extract)
			if !ok || ex.Index != 0 {
				continue
			}
			for _, r2 := range *ex.Referrers() {
				bo, ok := r2.(*ssa.BinOp)
				if !ok || (bo.Op != token.EQL && bo.Op != token.NEQ) {
					continue
				}
				other := bo.Y
				if bo.Y == ssa.Value(ex) {
					other = bo.X
				}
				for _, r3 := range *bo.Referrers() {
					iff, ok := r3.(*ssa.If)
					if !ok {
						continue
					}
					g := dsGuard{Get: gc, Cmp: bo, If: iff, Expected: other}
					if bo.Op == token.EQL {
						g.Eq, g.Ne = eng.Edge{From: iff.Block(), Succ: 0}, eng.Edge{From: iff.Block(), Succ: 1}
					} else {
						g.Eq, g.Ne = eng.Edge{From: iff.Block(), Succ: 1}, eng.Edge{From: iff.Block(), Succ: 0}
					}
					fvs := map[*ssa.FreeVar]bool{}
					okc, zero := dsCapturedOnly(other, 8, fvs)
					g.Zero = okc && zero
					g.Captured = okc && !zero && len(fvs) > 0
					for fv := range fvs {
						g.FVs = append(g.FVs, fv)
						if dsStoresTo(cl.Fn, fv) {
							g.Captured = false
						}
					}
					out = append(out, g)
				}
			}
		}
	}
	return out
}

// editorOf returns the AddressMap.Editor call an edit's (or Flush's) receiver comes from, nil when the
// receiver is not (only) such a call; onAm tells whether that editor was made from the closure's own map.
func (cl *dsClosure) editorOf(recv ssa.Value) (ed *ssa.Call, onAm bool) {
	n := 0
	eng.Slice(recv, false, func(v ssa.Value) bool {
		if call, ok := v.(*ssa.Call); ok {
			n++
			if f := call.Call.StaticCallee(); f != nil && eng.Name(f) == dsFnAmEditor && len(call.Call.Args) >= 1 {
				ed = call
				onAm = cl.isAm(call.Call.Args[0])
			}
		}
		return false
	})
	if n != 1 {
		return nil, false
	}
	return ed, onAm
}

// reachableFrom: targets reachable from the given start blocks with no cut.
func dsReachableFrom(fn *ssa.Function, starts []*ssa.BasicBlock, targets *eng.Set) []eng.Hit {
	var pts []eng.Point
	for _, b := range starts {
		pts = append(pts, eng.Point{B: b, I: 0})
	}
	if len(pts) == 0 {
		return nil
	}
	return eng.Reach(fn, pts, targets, eng.NewSet())
}

// boolEdges returns the edges on which boolean value v is known to be want, for every If of fn that
// branches on v itself or on !v.
func dsBoolEdges(fn *ssa.Function, isV func(ssa.Value) bool, want bool) *eng.Set {
	s := eng.NewSet()
	for _, b := range fn.Blocks {
		if len(b.Instrs) == 0 {
			continue
		}
		iff, ok := b.Instrs[len(b.Instrs)-1].(*ssa.If)
		if !ok {
			continue
		}
		cond, neg := iff.Cond, false
		for {
			if u, ok := cond.(*ssa.UnOp); ok && u.Op == token.NOT {
				cond, neg = u.X, !neg
				continue
			}
			break
		}
		if !isV(cond) {
			continue
		}
		// true edge means cond is true, i.e. v == !neg
		if want != neg {
			s.AddE(eng.Edge{From: b, Succ: 0})
		} else {
			s.AddE(eng.Edge{From: b, Succ: 1})
		}
	}
	return s
}

// cmpEdges returns, for every If of fn on `x == y` / `x != y` with isX(x) and isY(y) (in either order),
// the edge on which the operands are equal (eq=true) or different.
func dsCmpEdges(fn *ssa.Function, isX, isY func(ssa.Value) bool, eq bool) *eng.Set {
	s := eng.NewSet()
	for _, b := range fn.Blocks {
		if len(b.Instrs) == 0 {
			continue
		}
		iff, ok := b.Instrs[len(b.Instrs)-1].(*ssa.If)
		if !ok {
			continue
		}
		bo, ok := iff.Cond.(*ssa.BinOp)
		if !ok || (bo.Op != token.EQL && bo.Op != token.NEQ) {
			continue
		}
		if !(isX(bo.X) && isY(bo.Y)) && !(isX(bo.Y) && isY(bo.X)) {
			continue
		}
		if (bo.Op == token.EQL) == eq {
			s.AddE(eng.Edge{From: b, Succ: 0})
		} else {
			s.AddE(eng.Edge{From: b, Succ: 1})
		}
	}
	return s
}

// loadsField: v is a load of the struct field "pkg.Type.field" (through FieldAddr or Field).
func dsLoadsField(v ssa.Value, field string) bool {
	switch x := v.(type) {
	case *ssa.UnOp:
		if x.Op == token.MUL {
			return eng.FieldName(x.X) == field
		}
	case *ssa.Field:
		return eng.FieldName(x) == field
	}
	return false
}

// isZeroOrEmptyConst: nil/zero-value constant or the empty string / 0.
func dsIsConstVal(v ssa.Value, want constant.Value) bool {
	c, ok := v.(*ssa.Const)
	if !ok {
		return false
	}
	if want == nil {
		return c.Value == nil
	}
	return c.Value != nil && constant.Compare(c.Value, token.EQL, want)
}

// callTo: v is a call (or an extract of a call) whose static callee has the canonical name.
func dsCallTo(v ssa.Value, name string) *ssa.Call {
	if ex, ok := v.(*ssa.Extract); ok {
		v = ex.Tuple
	}
	c, ok := v.(*ssa.Call)
	if !ok {
		return nil
	}
	if f := c.Call.StaticCallee(); f != nil && eng.Name(f) == name {
		return c
	}
	return nil
}

// extractOf returns the Extract #idx of a tuple-valued call, nil if the component is unused.
func dsExtractOf(call *ssa.Call, idx int) *ssa.Extract {
	for _, ref := range *call.Referrers() {
		if ex, ok := ref.(*ssa.Extract); ok && ex.Index == idx {
			return ex
		}
	}
	return nil
}

// freeBinding returns the value bound to free variable fv by the MakeClosure that created the closure.
func dsFreeBinding(mc *ssa.MakeClosure, fv *ssa.FreeVar) ssa.Value {
	if mc == nil {
		return nil
	}
	f := mc.Fn.(*ssa.Function)
	for i, x := range f.FreeVars {
		if x == fv && i < len(mc.Bindings) {
			return mc.Bindings[i]
		}
	}
	return nil
}

// storedValues lists the values stored into a local variable (alloc) of the host function.
func dsStoredValues(a *ssa.Alloc) []ssa.Value {
	var out []ssa.Value
	for _, ref := range *a.Referrers() {
		if st, ok := ref.(*ssa.Store); ok && st.Addr == ssa.Value(a) {
			out = append(out, st.Val)
		}
	}
	return out
}
