package rules

import (
	"fmt"
	"go/token"
	"go/types"
	"os"
	"sort"

	"dvcheck/internal/eng"

	"golang.org/x/tools/go/ssa"
)

const (
	fKeeper   = "store/nbs.NomsBlockStore.keeperFunc"
	fInProg   = "store/nbs.NomsBlockStore.gcInProgress"
	fNbsMu    = "store/nbs.NomsBlockStore.mu"
	fGcCond   = "store/nbs.NomsBlockStore.gcCond"
	fOutReads = "store/nbs.NomsBlockStore.gcOutstandingReads"
)

func isKeeperT(t types.Type) bool { return eng.IsNamedType(t, "store/nbs", "keeperF") && !isPtr(t) }

// isKeeperLike: keeperF or its underlying func(hash.Hash) bool (the type of NomsBlockStore.keeperFunc and of locals copied from it).
func isKeeperLike(t types.Type) bool {
	if isKeeperT(t) {
		return true
	}
	sig, ok := t.Underlying().(*types.Signature)
	if !ok || sig.Params().Len() != 1 || sig.Results().Len() != 1 {
		return false
	}
	b, ok := sig.Results().At(0).Type().(*types.Basic)
	return ok && b.Kind() == types.Bool && eng.IsNamedType(sig.Params().At(0).Type(), "store/hash", "Hash") && !isPtr(sig.Params().At(0).Type())
}

// fromKeeperField: v derives (through locals, phis and variables captured by function literals) from a read of NomsBlockStore.keeperFunc.
func fromKeeperField(v ssa.Value) bool {
	seen := map[ssa.Value]bool{}
	var rec func(v ssa.Value, d int) bool
	rec = func(v ssa.Value, d int) bool {
		if d > 4 || v == nil || seen[v] {
			return false
		}
		seen[v] = true
		return eng.Slice(v, false, func(x ssa.Value) bool {
			if eng.FieldName(x) == fKeeper {
				return true
			}
			if fv, ok := x.(*ssa.FreeVar); ok {
				if o := eng.ClosureOrigin(fv); o != nil {
					return rec(o, d+1)
				}
			}
			return false
		})
	}
	return rec(v, 0)
}

func isGcbT(t types.Type) bool { return eng.IsNamedType(t, "store/nbs", "gcBehavior") && !isPtr(t) }
func isPtr(t types.Type) bool  { _, ok := t.(*types.Pointer); return ok }

// nbsMuLock matches acquiring (or, with unlock, releasing) NomsBlockStore.mu, either
// directly or through the Locker of the condition variable built on it (gcCond.L).
func nbsMuOp(unlock bool) eng.CallM {
	direct := eng.MutexOn(fNbsMu, "Lock", "RLock")
	name := "Lock"
	if unlock {
		direct = eng.MutexOn(fNbsMu, "Unlock", "RUnlock")
		name = "Unlock"
	}
	return func(c ssa.CallInstruction) bool {
		if direct(c) {
			return true
		}
		cc := c.Common()
		if !cc.IsInvoke() || cc.Method.Name() != name || !eng.IsNamedType(cc.Value.Type(), "sync", "Locker") {
			return false
		}
		return eng.FromField(cc.Value, "sync.Cond.L") && eng.FromField(cc.Value, fGcCond)
	}
}

// (4) NomsBlockStore GC state
func c08NbsState(k *eng.Check) {
	c := k.C
	nbs := c.Funcs("store/nbs")
	owners := map[string]bool{"(*store/nbs.NomsBlockStore).lockedBeginGC": true, "(*store/nbs.NomsBlockStore).lockedEndGC": true}
	nStores := 0
	for _, fn := range nbs {
		for _, f := range []string{"keeperFunc", "gcInProgress", "gcCycleCounter"} {
			for _, st := range eng.FieldStores(fn, `store/nbs\.NomsBlockStore$`, f) {
				nStores++
				name := eng.Name(eng.Outermost(fn))
				k.Require("gc-state-writers", name+"#NomsBlockStore."+f, "the GC state of the block store is written only by lockedBeginGC/lockedEndGC", owners[name], c.InstrPos(st), "GC state field written outside the begin/end functions")
			}
		}
	}
	if nStores < 5 {
		k.Unknown("gc-state-writers", "store/nbs", "stores to keeperFunc/gcInProgress/gcCycleCounter", fmt.Sprintf("%d found (confirmed floor 5)", nStores))
	}
	// gcCond is built on nbs.mu
	condOK, nCond := true, 0
	for _, fn := range nbs {
		for _, st := range eng.FieldStores(fn, `store/nbs\.NomsBlockStore$`, "gcCond") {
			nCond++
			call, ok := st.(*ssa.Store).Val.(*ssa.Call)
			if !ok || !eng.Static("sync.NewCond")(call) || len(call.Call.Args) != 1 || !eng.Slice(call.Call.Args[0], false, eng.IsField(fNbsMu)) {
				condOK = false
			}
		}
	}
	k.Require("gc-state-under-lock", "store/nbs#gcCond.L", "the condition variable gcCond is built on nbs.mu (so gcCond.L.Lock() is nbs.mu.Lock())", condOK && nCond >= 1, "-", "gcCond is not constructed as sync.NewCond(&nbs.mu)")
	nCallers := 0
	for name := range owners {
		target := k.Fn(name)
		if target == nil {
			continue
		}
		for _, fn := range nbs {
			for _, call := range eng.CallersOf([]*ssa.Function{fn}, target) {
				nCallers++
				k.HeldAt("gc-state-under-lock", fn, "nbs.mu is held at the call of "+target.Name(), eng.NewSet().AddI(call.(ssa.Instruction)), 1, nbsMuOp(false), nbsMuOp(true))
			}
		}
	}
	if nCallers < 2 {
		k.Unknown("gc-state-under-lock", "store/nbs", "callers of lockedBeginGC/lockedEndGC", fmt.Sprintf("%d found (floor 2)", nCallers))
	}
	if fn := k.Fn("(*store/nbs.NomsBlockStore).lockedBeginGC"); fn != nil {
		var kp *ssa.Parameter
		for _, p := range fn.Params {
			if sig, ok := p.Type().Underlying().(*types.Signature); ok && sig.Results().Len() == 1 {
				kp = p
			}
		}
		inst := eng.NewSet()
		for _, st := range eng.FieldStores(fn, `store/nbs\.NomsBlockStore$`, "keeperFunc") {
			if kp != nil && eng.Slice(st.(*ssa.Store).Val, false, func(v ssa.Value) bool { return v == ssa.Value(kp) }) {
				inst.AddI(st)
			}
		}
		k.OnlyAfter("begin-installs-keeper", fn, "BeginGC succeeds only after the caller's keeper was installed in nbs.keeperFunc", eng.SuccessExits(fn), 1, inst)
		busy := eng.CondEdgesP(fn, func(v ssa.Value) bool { return eng.FieldName(loadOf(v)) == fInProg }, true)
		if busy.Len() < 1 {
			k.Unknown("begin-refuses-second-gc", eng.Name(fn), "the test of gcInProgress", "not found")
		} else {
			k.OnlyAfter("begin-refuses-second-gc", fn, "when a collection is already in progress BeginGC fails (the running collection's keeper is not replaced)", eng.UnionOf(eng.SuccessExits(fn), inst), 1, eng.NewSet(), eng.EdgeTargets(busy)...)
		}
	}
	if fn := k.Fn("(*store/nbs.NomsBlockStore).lockedEndGC"); fn != nil {
		clear := eng.NewSet().AddI(eng.FieldStores(fn, `store/nbs\.NomsBlockStore$`, "keeperFunc")...).AddI(eng.FieldStores(fn, `store/nbs\.NomsBlockStore$`, "gcInProgress")...)
		// edges on which gcOutstandingReads is known to be zero / not positive
		idle := eng.NewSet()
		for _, b := range fn.Blocks {
			if len(b.Instrs) == 0 {
				continue
			}
			iff, ok := b.Instrs[len(b.Instrs)-1].(*ssa.If)
			if !ok {
				continue
			}
			bo, ok := iff.Cond.(*ssa.BinOp)
			if !ok || !eng.Mentions(bo.X, eng.IsField(fOutReads)) || !isConstInt(bo.Y, 0) {
				continue
			}
			switch bo.Op {
			case token.GTR, token.NEQ:
				idle.AddE(eng.Edge{From: b, Succ: 1})
			case token.EQL, token.LEQ:
				idle.AddE(eng.Edge{From: b, Succ: 0})
			}
		}
		k.OnlyAfter("endgc-waits-for-readers", fn, "the keeper is removed only once no read that started during the collection is outstanding", clear, 2, idle)
	}
}

// keeperExempt: chunk readers that legitimately ignore their keeper parameter.
var keeperExempt = map[string]string{
	"(store/nbs.emptyChunkSource).has":               "the empty source never reports a hit",
	"(store/nbs.emptyChunkSource).hasMany":           "the empty source never reports a hit",
	"(store/nbs.emptyChunkSource).get":               "the empty source never reports a hit",
	"(store/nbs.emptyChunkSource).getMany":           "the empty source never reports a hit",
	"(store/nbs.emptyChunkSource).getManyCompressed": "the empty source never reports a hit",
	"(store/nbs.emptyChunkSource).getRecordRanges":   "the empty source never reports a hit",
}

// (5) keeper honoured
func c08Keeper(k *eng.Check) {
	c := k.C
	nbs := c.Funcs("store/nbs")
	debug := os.Getenv("DVCHECK_DEBUG") != ""

	// keeper sources visible inside a function: its keeperF parameters / captured keeperF variables
	keeperSources := func(fn *ssa.Function) map[ssa.Value]bool {
		out := map[ssa.Value]bool{}
		for _, p := range fn.Params {
			if isKeeperT(p.Type()) {
				out[p] = true
			}
		}
		for _, fv := range fn.FreeVars {
			t := fv.Type()
			if pt, ok := t.(*types.Pointer); ok {
				t = pt.Elem()
			}
			if isKeeperT(t) {
				out[fv] = true
			}
		}
		return out
	}
	// positions of keeperF parameters in a call's signature mapped onto its Args
	keeperArgs := func(ci ssa.CallInstruction) []ssa.Value {
		cc := ci.Common()
		sig := cc.Signature()
		var out []ssa.Value
		off := 0
		if !cc.IsInvoke() && sig.Recv() != nil {
			off = 1
		}
		for i := 0; i < sig.Params().Len(); i++ {
			if isKeeperT(sig.Params().At(i).Type()) && i+off < len(cc.Args) {
				out = append(out, cc.Args[i+off])
			}
		}
		return out
	}

	nWithKeeper, nVeto, nFwd, nFront := 0, 0, 0, 0
	for _, fn := range nbs {
		if c.IsTestFile(fn.Pos()) {
			continue
		}
		name := eng.Name(fn)
		srcs := keeperSources(fn)
		// (5a) a keeper parameter is never ignored
		for _, p := range fn.Params {
			if !isKeeperT(p.Type()) {
				continue
			}
			nWithKeeper++
			used := false
			if refs := p.Referrers(); refs != nil {
				for _, r := range *refs {
					if _, dbg := r.(*ssa.DebugRef); !dbg {
						used = true
					}
				}
			}
			if why, ok := keeperExempt[name]; ok {
				k.Pass("keeper-not-ignored", name, "frozen exception: "+why, 1)
				// an exempt reader must really never report a hit: its gcBehavior/bool results are constants
				continue
			}
			k.Require("keeper-not-ignored", name, "a function that receives a keeper calls it or forwards it", used, c.Pos(fn.Pos()), "the keeper parameter is unused: chunks found by this reader are not reported to the running collection")
		}
		// (5b) forwarding: a keeper argument passed on by a function that itself received one is that keeper
		// (5c) front-ends (no keeper of their own) pass nbs.keeperFunc
		for _, b := range fn.Blocks {
			for _, in := range b.Instrs {
				ci, ok := in.(ssa.CallInstruction)
				if !ok {
					continue
				}
				for ai, a := range keeperArgs(ci) {
					construct := fmt.Sprintf("%s#%s/arg%d", name, eng.CalleeName(ci), ai)
					if len(srcs) > 0 {
						nFwd++
						ok := eng.Slice(a, false, func(v ssa.Value) bool { return srcs[v] })
						k.Require("keeper-forwarded", construct, "a reader that received a keeper forwards that keeper (not nil, not another function)", ok, c.InstrPos(in), "the keeper passed on does not derive from the keeper received")
						continue
					}
					nFront++
					fromField := fromKeeperField(a)
					owner := eng.Name(eng.Outermost(fn))
					if why, ok := noKeeperCallers[owner]; ok && !fromField {
						k.Pass("frontend-passes-keeper", construct, "frozen exception: "+why, 1)
						continue
					}
					if debug && !fromField {
						fmt.Fprintf(os.Stderr, "  keeper-arg not from field: %s %s %s\n", c.InstrPos(in), construct, eng.Desc(a, 4))
					}
					k.Require("frontend-passes-keeper", construct, "a block-store front-end passes nbs.keeperFunc to the chunk readers", fromField, c.InstrPos(in), "a reader is called with a keeper that is not nbs.keeperFunc: chunks it finds are not reported to the running collection")
				}
			}
		}
		// (5d) a keeper veto is reported as gcBehavior_Block
		gi := -1
		res := fn.Signature.Results()
		for i := 0; i < res.Len(); i++ {
			if isGcbT(res.At(i).Type()) {
				gi = i
			}
		}
		if gi >= 0 && len(srcs) > 0 {
			veto := boolCallEdges(fn, func(ci ssa.CallInstruction) bool {
				cc := ci.Common()
				if cc.IsInvoke() || cc.StaticCallee() != nil {
					return false
				}
				return eng.Slice(cc.Value, false, func(v ssa.Value) bool { return srcs[v] })
			}, true)
			if veto.Len() > 0 {
				nVeto++
				vals, unknown := eng.ResultValuesFromEdges(fn, veto, gi)
				ok := !unknown && len(vals) > 0
				for _, v := range vals {
					if !eng.IsConstBool(v, true) {
						ok = false
					}
				}
				k.Require("keeper-veto-blocks", name, "when the keeper answers true the reader returns gcBehavior_Block", ok, c.Pos(fn.Pos()), "a path from the keeper's veto returns something other than gcBehavior_Block: the caller proceeds with a chunk the collection asked it to wait for")
			}
		}
	}
	if nWithKeeper < 45 {
		k.Unknown("keeper-not-ignored", "store/nbs", "functions with a keeper parameter", fmt.Sprintf("%d found (confirmed floor 45)", nWithKeeper))
	}
	if nVeto < 15 {
		k.Unknown("keeper-veto-blocks", "store/nbs", "readers that call the keeper", fmt.Sprintf("%d found (confirmed floor 15)", nVeto))
	}
	if nFwd < 20 {
		k.Unknown("keeper-forwarded", "store/nbs", "forwarding call sites", fmt.Sprintf("%d found (confirmed floor 20)", nFwd))
	}
	if nFront < 8 {
		k.Unknown("frontend-passes-keeper", "store/nbs", "front-end call sites with a keeper argument", fmt.Sprintf("%d found (confirmed floor 8)", nFront))
	}

	// (5e) every gcBehavior result is consumed
	nGcb := 0
	for _, fn := range nbs {
		if c.IsTestFile(fn.Pos()) {
			continue
		}
		for _, b := range fn.Blocks {
			for _, in := range b.Instrs {
				ci, ok := in.(ssa.CallInstruction)
				if !ok {
					continue
				}
				res := ci.Common().Signature().Results()
				gi := -1
				for i := 0; i < res.Len(); i++ {
					if isGcbT(res.At(i).Type()) {
						gi = i
					}
				}
				if gi < 0 {
					continue
				}
				nGcb++
				used := false
				if v := ci.Value(); v != nil && v.Referrers() != nil {
					for _, r := range *v.Referrers() {
						switch x := r.(type) {
						case *ssa.Extract:
							if x.Index == gi && x.Referrers() != nil {
								for _, rr := range *x.Referrers() {
									if _, dbg := rr.(*ssa.DebugRef); !dbg {
										used = true
									}
								}
							}
						case *ssa.Return:
							used = true
						}
					}
				}
				if _, isCall := in.(*ssa.Call); !isCall {
					used = false // go/defer discard results
				}
				construct := eng.Name(fn) + "#" + eng.CalleeName(ci)
				if kas := keeperArgs(ci); !used && len(kas) > 0 {
					allNil := true
					for _, a := range kas {
						if !eng.IsNil(a) {
							allNil = false
						}
					}
					if allNil {
						k.Pass("gcb-consumed", construct, "no keeper is passed (constant nil), so the reader cannot veto: the verdict is always Continue", 1)
						continue
					}
				}
				if why, ok := gcbDropOK[eng.Name(eng.Outermost(fn))+"#"+eng.CalleeName(ci)]; ok && !used {
					k.Pass("gcb-consumed", construct, "frozen exception: "+why, 1)
					continue
				}
				if debug && !used {
					fmt.Fprintf(os.Stderr, "  gcb dropped: %s %s\n", c.InstrPos(in), construct)
				}
				k.Require("gcb-consumed", construct, "the gcBehavior verdict of a chunk reader is tested or propagated", used, c.InstrPos(in), "the Block verdict is dropped: the caller proceeds although the collection asked it to wait")
			}
		}
	}
	if nGcb < 40 {
		k.Unknown("gcb-consumed", "store/nbs", "calls returning a gcBehavior", fmt.Sprintf("%d found (confirmed floor 40)", nGcb))
	}

	// (5f) a Block verdict waits for the collection and retries
	mWait := eng.Static("(*store/nbs.NomsBlockStore).waitForGC")
	if fn := k.Fn("(*store/nbs.NomsBlockStore).handleUnlockedRead"); fn != nil {
		var gp *ssa.Parameter
		for _, p := range fn.Params {
			if isGcbT(p.Type()) {
				gp = p
			}
		}
		blocked := eng.NewSet()
		for _, b := range fn.Blocks {
			if len(b.Instrs) == 0 {
				continue
			}
			iff, ok := b.Instrs[len(b.Instrs)-1].(*ssa.If)
			if !ok {
				continue
			}
			switch x := iff.Cond.(type) {
			case *ssa.Parameter:
				if x == gp {
					blocked.AddE(eng.Edge{From: b, Succ: 0})
				}
			case *ssa.BinOp:
				if (x.X == ssa.Value(gp) && eng.IsConstBool(x.Y, true) && x.Op == token.EQL) || (x.X == ssa.Value(gp) && eng.IsConstBool(x.Y, false) && x.Op == token.NEQ) {
					blocked.AddE(eng.Edge{From: b, Succ: 0})
				} else if (x.X == ssa.Value(gp) && eng.IsConstBool(x.Y, false) && x.Op == token.EQL) || (x.X == ssa.Value(gp) && eng.IsConstBool(x.Y, true) && x.Op == token.NEQ) {
					blocked.AddE(eng.Edge{From: b, Succ: 1})
				}
			}
		}
		if blocked.Len() < 1 {
			k.Unknown("block-waits-and-retries", eng.Name(fn), "the test of the gcBehavior parameter", "not found")
		} else {
			k.OnlyAfter("block-waits-and-retries", fn, "on gcBehavior_Block the read returns only after waitForGC", allReturns(fn), 1, eng.CallSet(fn, mWait), eng.EdgeTargets(blocked)...)
			vals, unknown := eng.ResultValuesFromEdges(fn, blocked, 0)
			ok := !unknown && len(vals) > 0
			for _, v := range vals {
				if !eng.IsConstBool(v, true) && !eng.IsConstBool(v, false) {
					ok = false
				}
				if eng.IsConstBool(v, false) {
					// `false` is legal only together with an error; accept only when no success exit is reachable with it
					ok = false
				}
			}
			k.Require("block-waits-and-retries", eng.Name(fn)+"#needsContinue", "on gcBehavior_Block the caller is told to retry (first result true)", ok, c.Pos(fn.Pos()), "a blocked read is not retried")
		}
	}
	// direct keeper calls by front-ends (writes): a veto waits for the collection
	nDirect := 0
	for _, fn := range nbs {
		if c.IsTestFile(fn.Pos()) || len(keeperSources(fn)) > 0 {
			continue
		}
		veto := boolCallEdges(fn, func(ci ssa.CallInstruction) bool {
			cc := ci.Common()
			if cc.IsInvoke() || cc.StaticCallee() != nil {
				return false
			}
			return eng.Slice(cc.Value, false, eng.IsField(fKeeper))
		}, true)
		if veto.Len() == 0 {
			continue
		}
		nDirect++
		k.OnlyAfter("veto-waits-for-gc", fn, "when nbs.keeperFunc vetoes a write, success is reported only after waitForGC", eng.SuccessExits(fn), 1, eng.CallSet(fn, mWait), eng.EdgeTargets(veto)...)
	}
	if nDirect < 2 {
		k.Unknown("veto-waits-for-gc", "store/nbs", "front-ends calling nbs.keeperFunc directly", fmt.Sprintf("%d found (confirmed floor 2: addChunk, commit)", nDirect))
	}

	// (5g) keeper-carrying reads made outside nbs.mu follow a beginRead in the same critical section
	mBeginRead := eng.Static("(*store/nbs.NomsBlockStore).beginRead")
	nUnlocked := 0
	var names []string
	for _, fn := range nbs {
		if c.IsTestFile(fn.Pos()) || fn.Parent() != nil {
			continue
		}
		uses := eng.NewSet()
		for _, b := range fn.Blocks {
			for _, in := range b.Instrs {
				ci, ok := in.(*ssa.Call)
				if !ok {
					continue
				}
				carries := false
				for _, a := range ci.Call.Args {
					if isKeeperLike(a.Type()) && fromKeeperField(a) {
						carries = true
					}
				}
				if mc, ok := ci.Call.Value.(*ssa.MakeClosure); ok {
					for _, bnd := range mc.Bindings {
						t := bnd.Type()
						if pt, ok := t.(*types.Pointer); ok {
							t = pt.Elem()
						}
						if isKeeperLike(t) && fromKeeperField(bnd) {
							carries = true
						}
					}
				}
				if carries {
					uses.AddI(ci)
				}
			}
		}
		if uses.Len() == 0 {
			continue
		}
		locks := eng.CallSet(fn, nbsMuOp(false))
		unlocks := eng.Calls(fn, nbsMuOp(true), false)
		if len(unlocks) == 0 || locks.Len() == 0 {
			continue
		}
		var starts []eng.Point
		for in := range locks.I {
			starts = append(starts, eng.After(in))
		}
		bare := map[ssa.Instruction]bool{}
		for _, h := range eng.Reach(fn, starts, callInstrs(unlocks), eng.CallSet(fn, mBeginRead)) {
			bare[h.Instr] = true
		}
		unlockedUse, bad := false, ""
		for _, u := range unlocks {
			ui := u.(ssa.Instruction)
			hits := eng.Reach(fn, []eng.Point{eng.After(ui)}, uses, locks)
			if len(hits) == 0 {
				continue
			}
			unlockedUse = true
			if bare[ui] {
				bad = c.InstrPos(hits[0].Instr)
			}
		}
		if !unlockedUse {
			continue
		}
		nUnlocked++
		names = append(names, eng.Name(fn))
		k.Require("unlocked-read-bracketed", eng.Name(fn), "a read that carries nbs.keeperFunc outside nbs.mu is preceded by beginRead() in the critical section that sampled the keeper", bad == "", bad, "the lock is released without beginRead() before a keeper-carrying read: EndGC can complete while the read is still reporting chunks to the finished collection")
		// and the read is closed by handleUnlockedRead before any return
		for in := range eng.CallSet(fn, mBeginRead).I {
			k.OnlyAfter("unlocked-read-bracketed", fn, "after beginRead() every return passes handleUnlockedRead (which ends the read and honours the verdict)", allReturns(fn), 1, eng.CallSet(fn, eng.Static("(*store/nbs.NomsBlockStore).handleUnlockedRead")), eng.After(in))
		}
	}
	sort.Strings(names)
	if nUnlocked < 5 {
		k.Unknown("unlocked-read-bracketed", "store/nbs", "front-ends reading outside the lock", fmt.Sprintf("%d found %v (confirmed floor 5)", nUnlocked, names))
	}
}

// noKeeperCallers: functions that call chunk readers without nbs.keeperFunc on purpose.
var noKeeperCallers = map[string]string{
	"(*store/nbs.NomsBlockStore).refCheck":    "dangling-reference check for chunks being written; documented to take no read dependency (the written chunk itself is reported to the keeper by addChunk/commit)",
	"store/nbs.getRefCheck":                   "the same reference check extended over table files that are being added",
	"(*store/nbs.chunkSourceSet).hasMany":     "membership filter over table files the collection itself just wrote (GCFinalizer.AddChunksToStore, incremental GC files)",
	"(*store/nbs.simpleChunkSourceCache).get": "offline archive build reading a single table file, not a live store",
	"store/nbs.writeChunksToMT":               "serialises an in-memory table built from caller-supplied chunks; no store is involved",
}

// gcbDropOK: call sites that may drop the gcBehavior verdict ("Outermost#callee").
var gcbDropOK = map[string]string{}

// (6) markAndSweeper.SaveHashes and swapTables
func c08SaveHashes(k *eng.Check) {
	c := k.C
	if fn := k.Fn("(*store/nbs.markAndSweeper).SaveHashes"); fn != nil {
		gms := eng.Calls(fn, eng.Method(`store/nbs\.CompressedChunkStoreForGC$`, "getManyCompressed"), false)
		var cb *ssa.Function
		if len(gms) == 1 {
			cb = funcArg(gms[0])
		}
		if cb == nil {
			k.Unknown("walk-error-consumed", eng.Name(fn), "the per-chunk callback handed to getManyCompressed", "not found")
		} else {
			k.FuncsSeen[cb] = true
			gm := gms[0]
			var walks []ssa.CallInstruction
			for _, ci := range eng.Calls(cb, func(ci ssa.CallInstruction) bool {
				cc := ci.Common()
				return !cc.IsInvoke() && cc.StaticCallee() == nil && eng.FromField(cc.Value, "store/nbs.markAndSweeper.getAddrs")
			}, false) {
				walks = append(walks, ci)
			}
			copies := eng.NewSet()
			for _, ci := range eng.Calls(cb, eng.Static("(*store/nbs.gcCopier).addChunk", "(*store/nbs.rotatingGCCopier).addChunk"), false) {
				copies.AddI(ci.(ssa.Instruction))
			}
			for _, ci := range eng.Calls(cb, mHashInsert, false) {
				if eng.FromField(ci.Common().Args[0], "store/nbs.markAndSweeper.visited") {
					copies.AddI(ci.(ssa.Instruction))
				}
			}
			if len(walks) < 1 {
				k.Unknown("walk-error-consumed", eng.Name(cb), "the call of the reference walker (markAndSweeper.getAddrs)", "not found")
			} else {
				okWalk := eng.NewSet()
				for _, w := range walks {
					okWalk.Union(eng.StrictOkCut(w))
				}
				// stable key (nbs.markAndSweeper.SaveHashes#getAddrs-error, DESIGN section 7)
				construct := eng.Name(fn) + "#getAddrs-error"
				desc := "in the per-chunk callback a chunk is copied to the destination / marked visited only after the reference walker (getAddrs) returned and its error was found nil"
				if copies.Len() < 3 {
					k.Unknown("walk-error-consumed", construct, desc, fmt.Sprintf("found %d copy/mark site(s), confirmed floor is 3 (gcc.addChunk, incrementalGcc.addChunk, visited.Insert)", copies.Len()))
				} else if hits := eng.Reach(cb, nil, copies, okWalk); len(hits) == 0 {
					k.Pass("walk-error-consumed", construct, desc, copies.Len()+okWalk.Len())
				} else {
					why := fmt.Sprintf("%d of %d copy/mark site(s) reachable without a nil test of the walker's error", len(hits), copies.Len())
					if okWalk.Len() == 0 {
						why += ": the error is stored and overwritten before any read, so a walker that fails after reporting only part of a chunk's children (or none) still has the chunk copied and marked visited, and the unreported children are never visited"
					}
					k.Fail("walk-error-consumed", construct, desc, c.InstrPos(hits[0].Instr), why, eng.BlockPath(c, cb, hits[0].Path))
				}
			}
			// walked children become the next round
			queued := false
			var nextSet ssa.Value
			for _, w := range walks {
				inner := funcArg(w)
				if inner == nil {
					continue
				}
				k.FuncsSeen[inner] = true
				hp := paramOfType(inner, "store/hash", "Hash")
				ins := eng.NewSet()
				for _, ic := range eng.Calls(inner, mHashInsert, false) {
					if hp != nil && len(ic.Common().Args) == 2 && ic.Common().Args[1] == ssa.Value(hp) {
						if fv, ok := loadOf(ic.Common().Args[0]).(*ssa.FreeVar); ok {
							if o := eng.ClosureOrigin(fv); o != nil {
								ins.AddI(ic.(ssa.Instruction))
								nextSet = o
							}
						}
					}
				}
				k.Require("walked-children-queued", eng.Name(inner), "the callback handed to the walker inserts the reported address into a set owned by SaveHashes", ins.Len() >= 1, c.Pos(inner.Pos()), "the walker callback does not record the addresses it is given")
			}
			if nextSet != nil {
				if set := argOfType(gm, "store/hash", "HashSet"); set != nil {
					queued = eng.Slice(set, true, func(v ssa.Value) bool {
						phi, ok := v.(*ssa.Phi)
						if !ok {
							return false
						}
						for _, e := range phi.Edges {
							if loadOf(e) == nextSet {
								return true
							}
						}
						return false
					})
				}
			}
			k.Require("walked-children-queued", eng.Name(fn)+"#next-round", "the set filled by the walker callback is what the next round of the mark loop reads", queued, c.Pos(fn.Pos()), "the addresses collected from walked chunks do not feed the next iteration: children are never visited")

			// errors of the round fail the collection
			again := eng.UnionOf(eng.SuccessExits(fn), eng.NewSet().AddI(gm.(ssa.Instruction)))
			after := eng.After(gm.(ssa.Instruction))
			k.OnlyAfter("mark-errors-fail-gc", fn, "the next round / success is reached only after getManyCompressed returned without error", again, 2, eng.OkCut(gm), after)
			var errVar, cntVar ssa.Value
			for _, a := range gm.Common().Args {
				if mc, ok := a.(*ssa.MakeClosure); ok {
					for _, bnd := range mc.Bindings {
						al, ok := bnd.(*ssa.Alloc)
						if !ok {
							continue
						}
						et := al.Type().(*types.Pointer).Elem()
						if eng.IsErrType(et) {
							errVar = al
						} else if b, ok := et.Underlying().(*types.Basic); ok && b.Kind() == types.Int {
							cntVar = al
						}
					}
				}
			}
			if errVar == nil || cntVar == nil {
				k.Unknown("mark-errors-fail-gc", eng.Name(fn), "the error and found-count variables shared with the callback", "not found among the callback's bindings")
			} else {
				noErr := nilCompareEdges(fn, func(v ssa.Value) bool { return loadOf(v) == errVar }, true)
				k.OnlyAfter("mark-errors-fail-gc", fn, "the next round / success is reached only after the callback's error variable was found nil", again, 2, noErr, after)
				all := equalEdges(fn, func(b *ssa.BinOp) bool {
					isCnt := func(v ssa.Value) bool { return loadOf(v) == cntVar }
					isLen := func(v ssa.Value) bool {
						call, ok := v.(*ssa.Call)
						if !ok {
							return false
						}
						bi, ok := call.Call.Value.(*ssa.Builtin)
						return ok && bi.Name() == "len"
					}
					return (isCnt(b.X) && isLen(b.Y)) || (isCnt(b.Y) && isLen(b.X))
				}, true)
				k.OnlyAfter("mark-errors-fail-gc", fn, "the next round / success is reached only when every requested chunk was found (found == len(toVisit))", again, 2, all, after)
			}
		}
	}
	if fn := k.Fn("(*store/nbs.NomsBlockStore).swapTables"); fn != nil {
		install := eng.NewSet().AddI(eng.FieldStores(fn, `store/nbs\.NomsBlockStore$`, "tables")...)
		upd := eng.Calls(fn, eng.Method(`store/nbs\.manifestGCGenUpdater$|store/nbs\.manifest`, "UpdateGCGen"), false)
		okUpd := eng.NewSet()
		for _, u := range upd {
			okUpd.Union(eng.OkCut(u))
		}
		if len(upd) < 1 {
			k.Unknown("swap-installs-after-manifest", eng.Name(fn), "the UpdateGCGen call", "not found")
		} else {
			k.OnlyAfter("swap-installs-after-manifest", fn, "the new table set is installed only after the manifest update succeeded", install, 1, okUpd)
			sameLock := equalEdges(fn, func(b *ssa.BinOp) bool {
				isLock := eng.IsField("store/nbs.manifestContents.lock")
				return eng.Mentions(b.X, isLock) && eng.Mentions(b.Y, isLock)
			}, true)
			k.OnlyAfter("swap-installs-after-manifest", fn, "the new table set is installed only when the manifest now carries the lock that was written", install, 1, sameLock)
		}
		purge := eng.NewSet()
		for _, ci := range eng.Calls(fn, eng.Named(`\.Purge$`), false) {
			if len(ci.Common().Args) > 0 && eng.FromField(ci.Common().Args[0], "store/nbs.NomsBlockStore.hasCache") {
				purge.AddI(ci.(ssa.Instruction))
			}
		}
		k.OnlyAfter("swap-purges-has-cache", fn, "the table set that drops chunks is installed only after the has-cache was purged", install, 1, purge)
	}
}
