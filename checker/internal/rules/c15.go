package rules

import (
	"fmt"
	"go/ast"
	"go/constant"
	"go/token"
	"go/types"
	"sort"
	"strings"

	"dvcheck/internal/eng"

	"golang.org/x/tools/go/ssa"
)

func init() {
	Registry["C15"] = &Rule{
		Explanation: "Decides agreement of the tuple codec tables of store/val and their dispatchers: (1) cmp-total: every declared val.Encoding has a case in val.compare or a frozen reason (NULL/sentinel, extended encodings dispatched to the type handler, legacy value-only JSON/Geometry); extended-dispatch: the extended encodings are exactly the cases ExtendedTupleComparator.CompareValues/Validated route to the handler, every other encoding goes to compare, and every descriptor's comparator is built through Validated; (2) cmp-symmetric: in every case of compare the result returned is one comparison call that receives a value derived from the left field before a value derived from the right field, both obtained through the same reader; (3) cmp-read-agrees-with-get: that reader is (up to pure wrappers) a reader used by the TupleDesc.Get* accessors that assert the same encoding, so index order is the order of the values SQL reads back; (4) null-first: with left NULL and right not, compare (and the adaptive handler's SerializedCompare) can only return a non-positive constant and does return -1, symmetrically +1, and the encoding dispatch is unreachable with a NULL side; (5) fixed-size-agreement: for every encoding with a fixed size in sizeFromType (which drives fixed-offset field access) every writer used by the TupleBuilder.Put* methods and every reader used by the TupleDesc.Get* methods asserting that encoding checks the same constant size; (6) field-dispatch: tree.GetField and tree.PutField have a case for every encoding (frozen exceptions) and in the case for encoding E only call Put*/Get* methods whose asserted encodings include E. It does not decide the bit-level order preservation or round trip of any individual codec.",
		RuleText:    "table extraction (switch case sets by go/constant value, constants passed to ExpectEncoding/expectSize, static callees per case clause) with equality/inclusion obligations; cut-reachability on the CFG of compare under each NULL assumption",
		Assumptions: []string{"TupleDesc.ExpectEncoding and val.expectSize panic on mismatch (they are the run-time guards the tables are read from)", "the first []byte parameter of compare/SerializedCompare is the left operand (TupleComparator interface order)"},
		Patterns:    []string{"./store/val", "./store/prolly/tree"},
		Run:         runC15,
	}
}

const (
	c15ValPkg  = "store/val"
	c15TreePkg = "store/prolly/tree"
)

func c15IsValEncoding(t types.Type) bool {
	n, ok := t.(*types.Named)
	return ok && n.Obj().Name() == "Encoding" && n.Obj().Pkg() != nil && strings.HasSuffix(n.Obj().Pkg().Path(), "/"+c15ValPkg)
}

func c15IsByteSlice(t types.Type) bool {
	s, ok := t.Underlying().(*types.Slice)
	if !ok {
		return false
	}
	b, ok := s.Elem().Underlying().(*types.Basic)
	return ok && b.Kind() == types.Uint8
}

// c15EncSwitch returns the (first) switch of fn whose tag has type val.Encoding.
func c15EncSwitch(c *eng.Ctx, fn *ssa.Function) *eng.SwitchTable {
	for _, st := range c.Switches(fn, false) {
		if strings.HasSuffix(st.TagType, c15ValPkg+".Encoding") {
			s := st
			return &s
		}
	}
	return nil
}

func c15InClause(in ssa.Instruction, cc *ast.CaseClause) bool {
	p := in.Pos()
	return p.IsValid() && p >= cc.Pos() && p < cc.End()
}

// c15ClauseConsts lists the constant case values of a clause.
func c15ClauseConsts(c *eng.Ctx, fn *ssa.Function, cc *ast.CaseClause) (vals []string, names []string) {
	pkg := c.PkgOf(fn)
	for _, e := range cc.List {
		if tv, ok := pkg.TypesInfo.Types[e]; ok && tv.Value != nil {
			vals = append(vals, tv.Value.ExactString())
			names = append(names, types.ExprString(e))
		}
	}
	return
}

// c15VariadicConsts extracts the constants of a variadic argument slice built at the call site.
func c15VariadicConsts(v ssa.Value) []constant.Value {
	sl, ok := v.(*ssa.Slice)
	if !ok {
		return nil
	}
	al, ok := sl.X.(*ssa.Alloc)
	if !ok {
		return nil
	}
	var out []constant.Value
	for _, ref := range *al.Referrers() {
		ia, ok := ref.(*ssa.IndexAddr)
		if !ok {
			continue
		}
		for _, r2 := range *ia.Referrers() {
			if st, ok := r2.(*ssa.Store); ok && st.Addr == ssa.Value(ia) {
				if cst, ok := st.Val.(*ssa.Const); ok && cst.Value != nil {
					out = append(out, cst.Value)
				}
			}
		}
	}
	return out
}

// c15Tables holds the codec tables read from store/val.
type c15Tables struct {
	asserted map[*ssa.Function]map[string]bool // accessor -> encodings it asserts (ExpectEncoding constants)
	readers  map[string]map[string]bool        // encoding value -> canonical reader names used by Get* accessors asserting it
	writers  map[string]map[string]bool        // encoding value -> canonical writer names used by Put* methods asserting it
	rawR     map[string]map[*ssa.Function]bool // encoding -> reader functions (not canonicalised)
	rawW     map[string]map[*ssa.Function]bool
}

// c15CodecShape: non-method function of store/val whose first parameter is a []byte.
// reader: exactly one parameter and one result; writer: no result and at least two parameters.
func c15CodecShape(f *ssa.Function) string {
	if f == nil || f.Signature.Recv() != nil || len(f.Blocks) == 0 || eng.Name(f) == c15ValPkg+".expectSize" {
		return ""
	}
	p := eng.FuncPkg(f)
	if p == nil || !strings.HasSuffix(p.Path(), "/"+c15ValPkg) {
		return ""
	}
	ps, rs := f.Signature.Params(), f.Signature.Results()
	if ps.Len() == 0 || !c15IsByteSlice(ps.At(0).Type()) {
		return ""
	}
	if ps.Len() == 1 && rs.Len() == 1 {
		return "r"
	}
	if ps.Len() >= 2 && rs.Len() == 0 {
		return "w"
	}
	return ""
}

// c15WrapperTarget: if f does nothing but (optionally check the size and) hand its first parameter
// to one other codec function of the same shape, return that function.
func c15WrapperTarget(f *ssa.Function) *ssa.Function {
	shape := c15CodecShape(f)
	if shape == "" || len(f.Blocks) != 1 {
		return nil
	}
	var target *ssa.Function
	for _, in := range f.Blocks[0].Instrs {
		switch x := in.(type) {
		case *ssa.Call:
			cal := x.Call.StaticCallee()
			if cal == nil {
				return nil
			}
			if eng.Name(cal) == c15ValPkg+".expectSize" {
				continue
			}
			if c15CodecShape(cal) != shape || len(x.Call.Args) == 0 || x.Call.Args[0] != ssa.Value(f.Params[0]) || target != nil {
				return nil
			}
			if shape == "w" {
				// the value must be forwarded unchanged
				for i := 1; i < len(x.Call.Args); i++ {
					if i >= len(f.Params) || x.Call.Args[i] != ssa.Value(f.Params[i]) {
						return nil
					}
				}
			}
			target = cal
		case *ssa.Return:
			if shape == "r" {
				if len(x.Results) != 1 {
					return nil
				}
				call, ok := x.Results[0].(*ssa.Call)
				if !ok || call.Call.StaticCallee() != target || target == nil {
					return nil
				}
			}
		case *ssa.DebugRef:
		default:
			return nil
		}
	}
	return target
}

func c15CanonicalCodec(f *ssa.Function) *ssa.Function {
	for i := 0; i < 4; i++ {
		t := c15WrapperTarget(f)
		if t == nil {
			return f
		}
		f = t
	}
	return f
}

// c15CodecSize: the constant size a codec function insists on ("" = none/variable).
func c15CodecSize(f *ssa.Function) (string, bool) {
	f = c15CanonicalCodec(f)
	for _, call := range eng.Calls(f, eng.Static(c15ValPkg+".expectSize"), false) {
		a := call.Common().Args
		if len(a) != 2 || a[0] != ssa.Value(f.Params[0]) {
			continue
		}
		if cst, ok := a[1].(*ssa.Const); ok && cst.Value != nil {
			return cst.Value.ExactString(), true
		}
		return "", false
	}
	return "", false
}

func c15BuildTables(k *eng.Check) *c15Tables {
	c := k.C
	t := &c15Tables{asserted: map[*ssa.Function]map[string]bool{}, readers: map[string]map[string]bool{}, writers: map[string]map[string]bool{},
		rawR: map[string]map[*ssa.Function]bool{}, rawW: map[string]map[*ssa.Function]bool{}}
	expect := eng.Static("(*" + c15ValPkg + ".TupleDesc).ExpectEncoding")
	inVal := func(p string) bool { return p == c15ValPkg }
	nGet, nPut := 0, 0
	for _, fn := range c.Funcs(c15ValPkg) {
		if fn.Parent() != nil || fn.Signature.Recv() == nil {
			continue
		}
		rn := c40NamedOf(fn.Signature.Recv().Type())
		if rn == nil || (rn.Obj().Name() != "TupleDesc" && rn.Obj().Name() != "TupleBuilder") {
			continue
		}
		if fn.Name() == "ExpectEncoding" {
			continue
		}
		as := map[string]bool{}
		for _, call := range eng.Calls(fn, expect, false) {
			a := call.Common().Args
			if len(a) != 3 {
				continue
			}
			for _, v := range c15VariadicConsts(a[2]) {
				as[v.ExactString()] = true
			}
		}
		if len(as) == 0 {
			continue
		}
		t.asserted[fn] = as
		k.FuncsSeen[fn] = true
		isPut := rn.Obj().Name() == "TupleBuilder"
		if isPut {
			nPut++
		} else {
			nGet++
		}
		// the codec functions the accessor itself applies to the field bytes: helpers are followed (depth 2), but
		// not the inside of a codec function -- what a reader calls internally (readYear -> readUint8) is not a
		// reader of this encoding
		var scope []*ssa.Function
		seenF := map[*ssa.Function]bool{}
		var visit func(g *ssa.Function, d int)
		visit = func(g *ssa.Function, d int) {
			if g == nil || seenF[g] || len(g.Blocks) == 0 {
				return
			}
			if p := eng.FuncPkg(g); p == nil || !inVal(strings.TrimPrefix(strings.TrimPrefix(p.Path(), "github.com/dolthub/dolt/go"), "/")) {
				return
			}
			seenF[g] = true
			scope = append(scope, g)
			if d <= 0 {
				return
			}
			for _, a := range g.AnonFuncs {
				visit(a, d)
			}
			for _, call := range eng.Calls(g, func(ssa.CallInstruction) bool { return true }, false) {
				cal := call.Common().StaticCallee()
				if cal != nil && c15CodecShape(cal) == "" {
					visit(cal, d-1)
				}
			}
		}
		visit(fn, 2)
		for _, g := range scope {
			for _, call := range eng.Calls(g, func(ssa.CallInstruction) bool { return true }, false) {
				cal := call.Common().StaticCallee()
				sh := c15CodecShape(cal)
				if (isPut && sh != "w") || (!isPut && sh != "r") {
					continue
				}
				for e := range as {
					tab, raw := t.readers, t.rawR
					if isPut {
						tab, raw = t.writers, t.rawW
					}
					if tab[e] == nil {
						tab[e] = map[string]bool{}
						raw[e] = map[*ssa.Function]bool{}
					}
					tab[e][eng.Name(c15CanonicalCodec(cal))] = true
					raw[e][cal] = true
				}
			}
		}
	}
	if nGet < 30 || nPut < 35 {
		k.Unknown("codec-tables", c15ValPkg, "TupleDesc.Get*/TupleBuilder.Put* methods asserting an encoding", fmt.Sprintf("found %d getters / %d putters (confirmed floor 30 / 35)", nGet, nPut))
	}
	return t
}

func runC15(k *eng.Check, tier string) {
	c := k.C
	encs := c.PackageConsts(c15ValPkg, "Encoding", nil)
	if len(encs) < 38 {
		k.Unknown("cmp-total", c15ValPkg+".Encoding", "declared encodings", fmt.Sprintf("found %d constants (confirmed floor 38)", len(encs)))
	}
	encName := map[string]string{}
	for _, e := range encs {
		encName[e.Value] = e.Name
	}
	tabs := c15BuildTables(k)

	// ---- extended encodings
	extended := map[string]bool{}
	if f := k.Fn(c15ValPkg + ".IsExtendedEncoding"); f != nil {
		if sw := c15EncSwitch(c, f); sw != nil {
			for v := range sw.Consts {
				extended[v] = true
			}
		}
	}
	if len(extended) < 3 {
		k.Unknown("extended-dispatch", c15ValPkg+".IsExtendedEncoding", "the set of extended encodings", fmt.Sprintf("found %d (confirmed floor 3)", len(extended)))
	}
	extOK := map[string]bool{}
	for v := range extended {
		extOK[v] = true
	}
	for _, m := range []string{"CompareValues", "Validated"} {
		fn := k.Fn("(*" + c15ValPkg + ".ExtendedTupleComparator)." + m)
		if fn == nil {
			extOK = map[string]bool{}
			continue
		}
		sw := c15EncSwitch(c, fn)
		if sw == nil {
			k.Unknown("extended-dispatch", eng.Name(fn), "switch over the field encoding", "not found")
			extOK = map[string]bool{}
			continue
		}
		for v := range extended {
			_, ok := sw.Consts[v]
			if !k.Require("extended-dispatch", "ExtendedTupleComparator."+m+"#"+encName[v], "an extended encoding is routed to its type handler", ok, c.Pos(sw.Node.Pos()),
				encName[v]+" is an extended encoding (IsExtendedEncoding) but has no case: it reaches val.compare, which panics on it") {
				extOK[v] = false
			}
		}
		for v, n := range sw.Consts {
			k.Require("extended-dispatch", "ExtendedTupleComparator."+m+"#only:"+n, "only extended encodings are routed to a type handler", extended[v], c.Pos(sw.Node.Pos()),
				n+" is routed to the (possibly nil) type handler but is not an extended encoding")
		}
		if m == "CompareValues" {
			k.Require("extended-dispatch", "ExtendedTupleComparator.CompareValues#default", "every other encoding is compared by val.compare", sw.HasDefault && len(eng.Calls(fn, eng.Static(c15ValPkg+".compare"), false)) >= 1,
				c.Pos(sw.Node.Pos()), "no default branch calling val.compare")
		}
	}
	if fn := k.Fn(c15ValPkg + ".NewTupleDescriptorWithArgs"); fn != nil {
		k.OnlyAfter("extended-dispatch", fn, "a tuple descriptor is returned only with a comparator built by ExtendedTupleComparator.Validated", c36AllReturns(fn), 1,
			eng.CallSet(fn, eng.Static("(*"+c15ValPkg+".ExtendedTupleComparator).Validated")))
	}

	// ---- compare
	cmp := k.Fn(c15ValPkg + ".compare")
	if cmp != nil {
		c15Compare(k, cmp, encs, encName, extOK, tabs)
		c15NullFirst(k, cmp, true)
	}
	if fn := k.Fn("(" + c15ValPkg + ".AdaptiveEncodingTypeHandler).SerializedCompare"); fn != nil {
		c15NullFirst(k, fn, false)
	}

	// ---- fixed sizes
	c15Sizes(k, encName, tabs)

	// ---- field dispatchers in store/prolly/tree
	c15FieldDispatch(k, encs, tabs)
	c36DebugObls(k)
}

func c15Compare(k *eng.Check, cmp *ssa.Function, encs []eng.ConstDecl, encName map[string]string, extOK map[string]bool, tabs *c15Tables) {
	c := k.C
	sw := c15EncSwitch(c, cmp)
	if sw == nil {
		k.Unknown("cmp-total", eng.Name(cmp), "switch over typ.Enc", "not found")
		return
	}
	frozen := map[string]string{
		"NullEnc":     "never a field encoding: NewTupleDescriptorWithArgs panics on it; NULL fields are handled before the switch (rule null-first)",
		"sentinel":    "upper bound marker, not an encoding",
		"JSONEnc":     "legacy inline JSON; value-only (JSON columns cannot be index or primary keys, the artifact map uses it for its value tuple); compare panics rather than misorder",
		"GeometryEnc": "legacy inline geometry of old databases; value-only (spatial indexes key on CellEnc); compare panics rather than misorder",
	}
	for _, e := range encs {
		if _, ok := sw.Consts[e.Value]; ok {
			k.Pass("cmp-total", "compare#"+e.Name, "encoding has a case in val.compare", 1)
			continue
		}
		if extOK[e.Value] {
			k.Pass("cmp-total", "compare#"+e.Name, "extended encoding: routed to the type handler by ExtendedTupleComparator (rule extended-dispatch)", 1)
			continue
		}
		if why, ok := frozen[e.Name]; ok {
			k.Pass("cmp-total", "compare#"+e.Name, "frozen exception: "+why, 1)
			continue
		}
		k.Fail("cmp-total", "compare#"+e.Name, "every declared encoding is ordered by val.compare or has a frozen reason", c.Pos(sw.Node.Pos()),
			"val."+e.Name+" has no case in compare: an index over such a field panics with 'unknown encoding'", nil)
	}

	// the two operands
	var L, R *ssa.Parameter
	for _, p := range cmp.Params {
		if c15IsByteSlice(p.Type()) {
			if L == nil {
				L = p
			} else if R == nil {
				R = p
			}
		}
	}
	if L == nil || R == nil {
		k.Unknown("cmp-symmetric", eng.Name(cmp), "the two []byte operands", "not found")
		return
	}
	derives := func(v ssa.Value, p *ssa.Parameter) bool {
		return eng.Slice(v, true, func(x ssa.Value) bool { return x == ssa.Value(p) })
	}
	rets := c36AllReturns(cmp)
	nSym, nAgree := 0, 0
	for _, cc := range sw.Clauses {
		if cc.List == nil {
			continue
		}
		vals, names := c15ClauseConsts(c, cmp, cc)
		if len(vals) == 0 {
			continue
		}
		key := strings.Join(names, ",")
		// comparison call: one argument derives from L only, a later one from R only
		var cmpCall *ssa.Call
		why := "no call in this case receives a value derived from the left field and one derived from the right field"
		li, ri := -1, -1
		for _, in := range eng.Instrs(cmp, func(in ssa.Instruction) bool { _, ok := in.(*ssa.Call); return ok && c15InClause(in, cc) }) {
			call := in.(*ssa.Call)
			l, r := -1, -1
			for i, a := range call.Call.Args {
				dl, dr := derives(a, L), derives(a, R)
				if dl && !dr && l < 0 {
					l = i
				}
				if dr && !dl && r < 0 {
					r = i
				}
			}
			if l >= 0 && r >= 0 {
				cmpCall, li, ri = call, l, r
			}
		}
		pos := c.Pos(cc.Pos())
		if cmpCall == nil {
			k.Fail("cmp-symmetric", "compare#"+key, "the case compares the left field with the right field", pos, why, nil)
			continue
		}
		nSym++
		ok := li < ri
		why = "operands are passed in reversed order (right before left): the order of this encoding is inverted"
		la, ra := cmpCall.Call.Args[li], cmpCall.Call.Args[ri]
		var reader *ssa.Function
		if ok {
			lc, lIsCall := la.(*ssa.Call)
			rc, rIsCall := ra.(*ssa.Call)
			switch {
			case lIsCall && rIsCall:
				lf, rf := lc.Call.StaticCallee(), rc.Call.StaticCallee()
				if lf == nil || rf == nil || c15CanonicalCodec(lf) != c15CanonicalCodec(rf) {
					ok, why = false, "left and right field are decoded by different readers ("+eng.CalleeName(lc)+" vs "+eng.CalleeName(rc)+")"
				} else {
					reader = lf
				}
			case !lIsCall && !rIsCall:
				if c15StripConv(la) != ssa.Value(L) || c15StripConv(ra) != ssa.Value(R) {
					ok, why = false, "operands are neither the raw fields nor results of one reader"
				}
			default:
				ok, why = false, "one operand is decoded and the other is passed raw"
			}
		}
		if ok {
			// the comparison's result is what the case returns
			found := false
			for in := range rets.I {
				if !c15InClause(in, cc) {
					continue
				}
				r0 := in.(*ssa.Return).Results[0]
				if r0 == ssa.Value(cmpCall) {
					found = true
				} else if ex, isE := r0.(*ssa.Extract); isE && ex.Tuple == ssa.Value(cmpCall) && ex.Index == 0 {
					found = true
				} else {
					found = false
					break
				}
			}
			if !found {
				ok, why = false, "the case does not return the result of its comparison call unchanged"
			}
		}
		k.Require("cmp-symmetric", "compare#"+key, "the case returns compareX(read(left), read(right)) with one reader and operands in left-right order", ok, pos, why)
		if !ok || reader == nil || c15CodecShape(reader) != "r" {
			continue
		}
		for i, v := range vals {
			rs := tabs.readers[v]
			if len(rs) == 0 {
				continue
			}
			nAgree++
			got := eng.Name(c15CanonicalCodec(reader))
			var have []string
			for n := range rs {
				have = append(have, n)
			}
			sort.Strings(have)
			k.Require("cmp-read-agrees-with-get", "compare#"+names[i], "the comparator decodes the field with the reader the TupleDesc accessors of this encoding use", rs[got], pos,
				"compare decodes "+names[i]+" with "+eng.Name(reader)+" but the Get* accessors asserting this encoding use "+strings.Join(have, ", ")+": keys sort by a different interpretation than the values read back")
		}
	}
	if nSym < 27 {
		k.Unknown("cmp-symmetric", eng.Name(cmp), "comparison cases", fmt.Sprintf("found %d (confirmed floor 27)", nSym))
	}
	if nAgree < 20 {
		k.Unknown("cmp-read-agrees-with-get", eng.Name(cmp), "cases whose reader can be matched with a Get* accessor", fmt.Sprintf("found %d (confirmed floor 20)", nAgree))
	}
}

// c15StripConv removes value-preserving type changes.
func c15StripConv(v ssa.Value) ssa.Value {
	for {
		switch x := v.(type) {
		case *ssa.ChangeType:
			v = x.X
		case *ssa.Convert:
			v = x.X
		default:
			return v
		}
	}
}

// c15NilTestEdges returns the CFG edges of fn on which parameter p is known nil (isNil) or non-nil.
func c15NilTestEdges(fn *ssa.Function, p *ssa.Parameter, isNil bool) *eng.Set {
	s := eng.NewSet()
	for _, b := range fn.Blocks {
		if len(b.Instrs) == 0 {
			continue
		}
		iff, ok := b.Instrs[len(b.Instrs)-1].(*ssa.If)
		if !ok {
			continue
		}
		bo, ok := iff.Cond.(*ssa.BinOp)
		if !ok || (bo.Op != token.EQL && bo.Op != token.NEQ) {
			continue
		}
		var other ssa.Value
		switch {
		case bo.X == ssa.Value(p):
			other = bo.Y
		case bo.Y == ssa.Value(p):
			other = bo.X
		default:
			continue
		}
		if cst, ok := other.(*ssa.Const); !ok || cst.Value != nil {
			continue
		}
		// EQL: true edge = nil; NEQ: true edge = non-nil
		trueIsNil := bo.Op == token.EQL
		if trueIsNil == isNil {
			s.AddE(eng.Edge{From: b, Succ: 0})
		} else {
			s.AddE(eng.Edge{From: b, Succ: 1})
		}
	}
	return s
}

func c15NullFirst(k *eng.Check, fn *ssa.Function, withDispatch bool) {
	c := k.C
	var L, R *ssa.Parameter
	for _, p := range fn.Params {
		if c15IsByteSlice(p.Type()) {
			if L == nil {
				L = p
			} else if R == nil {
				R = p
			}
		}
	}
	if L == nil || R == nil {
		k.Unknown("null-first", eng.Name(fn), "the two []byte operands", "not found")
		return
	}
	if c15NilTestEdges(fn, L, true).Len() < 1 || c15NilTestEdges(fn, R, true).Len() < 1 {
		k.Unknown("null-first", eng.Name(fn), "nil tests of both operands", "the function does not compare both operands with nil (confirmed: it does)")
		return
	}
	rets := c36AllReturns(fn)
	type state struct {
		name     string
		cuts     *eng.Set
		sign     int // required sign of every constant result (and one result must equal it)
		wantDesc string
	}
	states := []state{
		{"left-NULL", eng.UnionOf(c15NilTestEdges(fn, L, false), c15NilTestEdges(fn, R, true)), -1, "left NULL, right not NULL: result is never positive and -1 is returned"},
		{"right-NULL", eng.UnionOf(c15NilTestEdges(fn, L, true), c15NilTestEdges(fn, R, false)), +1, "right NULL, left not NULL: result is never negative and +1 is returned"},
	}
	for _, st := range states {
		hits := eng.Reach(fn, nil, rets, st.cuts)
		ok, why, pos := true, "", c.Pos(fn.Pos())
		sawExact := false
		if len(hits) == 0 {
			ok, why = false, "no return reachable under this assumption"
		}
		for _, h := range hits {
			r0 := h.Instr.(*ssa.Return).Results[0]
			cst, isC := r0.(*ssa.Const)
			if !isC || cst.Value == nil || cst.Value.Kind() != constant.Int {
				ok, why, pos = false, "a return reachable with a NULL operand yields a computed value ("+eng.Desc(r0, 3)+") instead of the NULL ordering constant", c.InstrPos(h.Instr)
				break
			}
			iv, _ := constant.Int64Val(cst.Value)
			if (st.sign < 0 && iv > 0) || (st.sign > 0 && iv < 0) {
				ok, why, pos = false, fmt.Sprintf("returns %d: NULL would sort after non-NULL values", iv), c.InstrPos(h.Instr)
				break
			}
			if iv == int64(st.sign) {
				sawExact = true
			}
		}
		if ok && !sawExact {
			ok, why = false, fmt.Sprintf("no reachable return yields %d", st.sign)
		}
		k.Require("null-first", eng.Name(fn)+"#"+st.name, st.wantDesc, ok, pos, why)
	}
	if withDispatch {
		// the encoding dispatch needs both operands non-nil
		disp := eng.NewSet()
		for _, b := range fn.Blocks {
			if len(b.Instrs) == 0 {
				continue
			}
			if iff, ok := b.Instrs[len(b.Instrs)-1].(*ssa.If); ok {
				if bo, ok := iff.Cond.(*ssa.BinOp); ok && bo.Op == token.EQL {
					if cst, ok := bo.Y.(*ssa.Const); ok && c15IsValEncoding(cst.Type()) {
						disp.AddI(iff)
					}
				}
			}
		}
		k.OnlyAfter("null-first", fn, "the per-encoding readers are reached only when the left field is not NULL", disp, 20, c15NilTestEdges(fn, L, false))
		k.OnlyAfter("null-first", fn, "the per-encoding readers are reached only when the right field is not NULL", disp, 20, c15NilTestEdges(fn, R, false))
	}
}

func c15Sizes(k *eng.Check, encName map[string]string, tabs *c15Tables) {
	c := k.C
	fn := k.Fn(c15ValPkg + ".sizeFromType")
	if fn == nil || k.Fn(c15ValPkg+".expectSize") == nil { // the size guard the codec sizes are read from
		return
	}
	sw := c15EncSwitch(c, fn)
	if sw == nil {
		k.Unknown("fixed-size-agreement", eng.Name(fn), "switch over t.Enc", "not found")
		return
	}
	rets := c36AllReturns(fn)
	n := 0
	for _, cc := range sw.Clauses {
		if cc.List == nil {
			continue
		}
		vals, names := c15ClauseConsts(c, fn, cc)
		size := ""
		for in := range rets.I {
			if !c15InClause(in, cc) {
				continue
			}
			if cst, ok := in.(*ssa.Return).Results[0].(*ssa.Const); ok && cst.Value != nil {
				size = cst.Value.ExactString()
			} else {
				size = "?"
			}
		}
		for i, v := range vals {
			n++
			key := "sizeFromType#" + names[i]
			if size == "" || size == "?" {
				k.Unknown("fixed-size-agreement", key, "constant size returned for the encoding", "no constant return found in the case")
				continue
			}
			ws, rs := tabs.rawW[v], tabs.rawR[v]
			if len(ws) == 0 {
				k.Unknown("fixed-size-agreement", key, "writer of the encoding", "no TupleBuilder.Put* method asserting this encoding reaches a codec writer")
				continue
			}
			ok, why := true, ""
			check := func(fs map[*ssa.Function]bool, role string) {
				var list []*ssa.Function
				for f := range fs {
					list = append(list, f)
				}
				sort.Slice(list, func(i, j int) bool { return eng.Name(list[i]) < eng.Name(list[j]) })
				for _, f := range list {
					sz, isConst := c15CodecSize(f)
					if !isConst {
						ok, why = false, role+" "+eng.Name(f)+" of this encoding does not check a constant size, but sizeFromType declares the fixed size "+size+" (fixed-offset access would slice at wrong offsets)"
					} else if sz != size {
						ok, why = false, role+" "+eng.Name(f)+" checks size "+sz+" but sizeFromType declares "+size+": fixed-offset field access and the codec disagree"
					}
				}
			}
			check(ws, "writer")
			check(rs, "reader")
			k.Require("fixed-size-agreement", key, "the fixed size used for offset arithmetic equals the size every writer and reader of the encoding insists on", ok, c.Pos(cc.Pos()), why)
		}
	}
	if n < 24 {
		k.Unknown("fixed-size-agreement", eng.Name(fn), "fixed-size encodings", fmt.Sprintf("found %d (confirmed floor 24)", n))
	}
	// a variable-size encoding must not be declared fixed: covered above (writer without constant size fails)
	_ = encName
}

func c15FieldDispatch(k *eng.Check, encs []eng.ConstDecl, tabs *c15Tables) {
	c := k.C
	type disp struct {
		fn     string
		recv   string
		frozen map[string]string
		floor  int
	}
	ds := []disp{
		{c15TreePkg + ".GetField", "TupleDesc", map[string]string{
			"NullEnc":  "never a field encoding (descriptor constructor panics)",
			"sentinel": "upper bound marker, not an encoding",
		}, 36},
		{c15TreePkg + ".PutField", "TupleBuilder", map[string]string{
			"NullEnc":  "never a field encoding (descriptor constructor panics)",
			"sentinel": "upper bound marker, not an encoding",
			"JSONEnc":  "legacy inline JSON is written only by the artifact map through TupleBuilder.PutJSON; SQL JSON columns use JSONAddrEnc / JsonAdaptiveEnc",
		}, 36},
	}
	for _, d := range ds {
		fn := k.Fn(d.fn)
		if fn == nil {
			continue
		}
		sw := c15EncSwitch(c, fn)
		if sw == nil {
			k.Unknown("field-dispatch-total", d.fn, "switch over the field encoding", "not found")
			continue
		}
		for _, e := range encs {
			if _, ok := sw.Consts[e.Value]; ok {
				k.Pass("field-dispatch-total", d.fn+"#"+e.Name, "encoding has a case", 1)
			} else if why, ok := d.frozen[e.Name]; ok {
				k.Pass("field-dispatch-total", d.fn+"#"+e.Name, "frozen exception: "+why, 1)
			} else {
				k.Fail("field-dispatch-total", d.fn+"#"+e.Name, "every declared encoding can be read/written through the generic field dispatcher", c.Pos(sw.Node.Pos()),
					"val."+e.Name+" has no case: a column with this encoding panics with 'unknown encoding'", nil)
			}
		}
		n := 0
		for _, cc := range sw.Clauses {
			if cc.List == nil {
				continue
			}
			vals, names := c15ClauseConsts(c, fn, cc)
			for _, in := range eng.Instrs(fn, func(in ssa.Instruction) bool { _, ok := in.(*ssa.Call); return ok && c15InClause(in, cc) }) {
				call := in.(*ssa.Call)
				cal := call.Call.StaticCallee()
				if cal == nil || cal.Signature.Recv() == nil {
					continue
				}
				rn := c40NamedOf(cal.Signature.Recv().Type())
				if rn == nil || rn.Obj().Name() != d.recv {
					continue
				}
				as := tabs.asserted[cal]
				if len(as) == 0 {
					continue
				}
				for i, v := range vals {
					n++
					key := d.fn + "#" + names[i] + "->" + cal.Name()
					if as[v] {
						k.Pass("field-dispatch-matches-assert", key, "the accessor called for this encoding asserts this encoding", 1)
						continue
					}
					if c15DeadExtendedBranch(k, fn, call) {
						k.Pass("field-dispatch-matches-assert", key, "frozen exception: the call sits on the !IsExactLength() branch of an ExtendedValueWrapper, whose IsExactLength is the constant true (checked), so it is unreachable", 1)
						k.Notes = append(k.Notes, "latent defect: "+c.InstrPos(in)+" calls "+cal.Name()+" (asserts another encoding) for "+names[i]+"; it would panic if ExtendedValueWrapper.IsExactLength ever returned false")
						continue
					}
					var want []string
					for a := range as {
						want = append(want, a)
					}
					k.Fail("field-dispatch-matches-assert", key, "the accessor called in the case for encoding E asserts E", c.InstrPos(in),
						cal.Name()+" panics ('incorrect value encoding') unless the field has one of its asserted encodings, which do not include "+names[i], nil)
				}
			}
		}
		if n < 30 {
			k.Unknown("field-dispatch-matches-assert", d.fn, "accessor calls with an asserted encoding", fmt.Sprintf("found %d (confirmed floor 30)", n))
		}
	}
}

// c15DeadExtendedBranch: call is reachable only through the false edge of a test of
// (ExtendedValueWrapper).IsExactLength(), and that method returns the constant true.
func c15DeadExtendedBranch(k *eng.Check, fn *ssa.Function, call *ssa.Call) bool {
	c := k.C
	iel := c.Func("(" + c15ValPkg + ".ExtendedValueWrapper).IsExactLength")
	if iel == nil {
		return false
	}
	for in := range c36AllReturns(iel).I {
		cst, ok := in.(*ssa.Return).Results[0].(*ssa.Const)
		if !ok || cst.Value == nil || cst.Value.Kind() != constant.Bool || !constant.BoolVal(cst.Value) {
			return false
		}
	}
	cuts := eng.NewSet()
	for _, b := range fn.Blocks {
		if len(b.Instrs) == 0 {
			continue
		}
		iff, ok := b.Instrs[len(b.Instrs)-1].(*ssa.If)
		if !ok {
			continue
		}
		if cc, ok := iff.Cond.(*ssa.Call); ok && cc.Call.StaticCallee() == iel {
			cuts.AddE(eng.Edge{From: b, Succ: 1})
		}
	}
	if cuts.Len() == 0 {
		return false
	}
	return len(eng.Reach(fn, nil, eng.NewSet().AddI(call), cuts)) == 0
}
