package rules

import (
	"fmt"
	"go/token"
	"go/types"
	"sort"
	"strings"

	"dvcheck/internal/eng"

	"golang.org/x/tools/go/ssa"
)

func init() {
	Registry["C24"] = &Rule{
		Explanation: "Decides that no working set is written by a transaction commit without the conflict / constraint-violation gate, that the gate cannot be passed with violations unless dolt_force_transaction_commit is set, and that the merge pipeline runs and records every validator. (1) In the attempt closure of doCommit every write is reachable only after validateWorkingSetForCommit returned nil on the value that is written. (2) In validateWorkingSetForCommit, from the edge on which HasConstraintViolations reported true a nil return is reachable only through the force-commit edge; from the edges on which data or schema conflicts were found a nil return is reachable only through the fast-forward edge and only through the allow-conflicts / force edges; the gate examines the working root of the working set being committed. (3) In the row-merge loop (computeProllyTreePatches) every primary/secondary apply of a diff is reachable from the ThreeWayDiffer.Next that produced it only after each validateDiff method defined in the merge package (unique, NOT NULL, CHECK) returned nil on that diff; the path that bypasses the loop (tree patch merge) is reachable only when the guard proves that no unique index, no CHECK expression and no NOT NULL column requires validation. (4) merge.MergeRoots returns a result only after AddForeignKeyViolations succeeded and Result.Root is its returned root; AddForeignKeyViolations returns the violation writer's root after RegisterForeignKeyViolations succeeded; every StartFK in RegisterForeignKeyViolations is followed by the parent scan, the child scan and EndCurrFK, each error-checked; EndCurrFK flushes, attaches and stores the artifacts before returning nil. (5) Errors of the calls that record a violation or flush the artifact editor are never dropped. It does not decide that the validators are correct, nor SQL-path constraint enforcement in go-mysql-server.",
		RuleText:    "cut-reachability on the SSA CFG (gate edges, validator ok-edges, per-iteration starts), guard analysis of short-circuit conjunction phis, value provenance, error-consumption at recorder call sites",
		Assumptions: []string{
			"dolt_force_transaction_commit=1 and dolt_allow_commit_conflicts=1 are the user's explicit opt-outs named by the property",
			"TableMerger.recordViolations=false (an explicit caller option) is outside the claim",
		},
		Patterns: []string{"./libraries/doltcore/sqle/dsess", "./libraries/doltcore/merge"},
		Run:      runC24,
	}
}

const c24Merge = "libraries/doltcore/merge"

func runC24(k *eng.Check, tier string) {
	// (1) gate in front of every transactional write (shared with C23)
	if doCommit := k.Fn("(*libraries/doltcore/sqle/dsess.DoltTransaction).doCommit"); doCommit != nil {
		c23core(k, doCommit, false)
	}
	c24gate(k)
	c24rowLoop(k)
	c24foreignKeys(k)
	c24recorders(k)
}

// ---------------------------------------------------------------------------
// (2) validateWorkingSetForCommit

func c24sessionVarCmp(k *eng.Check, fn *ssa.Function, constName string) (set, unset *eng.Set, n int) {
	return c24sessionVarsCmp(k, fn, constName)
}

// c24sessionVarsCmp: the edges on which one of the named session variables is known to be 1 (set) / on which all
// the tested ones are known not to be 1 (unset), and the number of `var == 1` tests found.  A test may be an If
// condition or an operand of a boolean `a || b` value that is branched on later (a named boolean).
func c24sessionVarsCmp(k *eng.Check, fn *ssa.Function, constNames ...string) (set, unset *eng.Set, n int) {
	set, unset = eng.NewSet(), eng.NewSet()
	want := map[string]bool{}
	for _, cd := range k.C.PackageConsts(c23Dsess, "", func(n string) bool {
		for _, c := range constNames {
			if n == c {
				return true
			}
		}
		return false
	}) {
		want[cd.Value] = true
	}
	if len(want) == 0 {
		return
	}
	isVar := func(v ssa.Value) bool {
		return eng.Slice(v, false, func(x ssa.Value) bool {
			call, ok := x.(*ssa.Call)
			if !ok || !strings.HasSuffix(eng.CalleeName(call), ".GetSessionVariable") {
				return false
			}
			for _, a := range call.Call.Args {
				if cst, ok := c23strip(a).(*ssa.Const); ok && cst.Value != nil && want[cst.Value.ExactString()] {
					return true
				}
			}
			return false
		})
	}
	// isTest: v is `var == 1` (eq) or `var != 1` (!eq)
	isTest := func(v ssa.Value) (eq, ok bool) {
		bo, isB := c23strip(v).(*ssa.BinOp)
		if !isB || (bo.Op != token.EQL && bo.Op != token.NEQ) {
			return false, false
		}
		x, y := bo.X, bo.Y
		if _, isC := c23strip(x).(*ssa.Const); isC {
			x, y = y, x
		}
		cst, isC := c23strip(y).(*ssa.Const)
		if !isC || cst.Value == nil || cst.Value.ExactString() != "1" || !isVar(x) {
			return false, false
		}
		return bo.Op == token.EQL, true
	}
	for _, iff := range c23ifs(fn) {
		if eq, ok := isTest(iff.Cond); ok {
			n++
			set.AddE(c23edge(iff, eq))
			unset.AddE(c23edge(iff, !eq))
			continue
		}
		// `named := a == 1 || b == 1; if named`: a boolean phi whose operands are constants contributed by
		// short-circuit edges of such tests, or such tests themselves
		phi, isPhi := c23strip(iff.Cond).(*ssa.Phi)
		if !isPhi {
			continue
		}
		okAll, tests := true, 0
		for i, e := range phi.Edges {
			pred := phi.Block().Preds[i]
			if cst, isC := e.(*ssa.Const); isC && cst.Value != nil {
				if cst.Value.ExactString() == "false" {
					continue
				}
				// constant true must come from the "is 1" edge of a test in the predecessor
				if pif, isIf := pred.Instrs[len(pred.Instrs)-1].(*ssa.If); isIf {
					if eq, isT := isTest(pif.Cond); isT && c23edge(pif, eq).To() == phi.Block() {
						tests++
						continue
					}
				}
				okAll = false
				continue
			}
			if eq, isT := isTest(e); isT && eq {
				tests++
				continue
			}
			okAll = false
		}
		// tests of the wanted variables are counted even when the boolean also depends on something else;
		// its edges are used only when it depends on nothing else
		n += tests
		if !okAll {
			continue
		}
		if tests > 0 {
			set.AddE(c23edge(iff, true))
			unset.AddE(c23edge(iff, false))
		}
	}
	return
}

func c24gate(k *eng.Check) {
	c := k.C
	fn := k.Fn("(*libraries/doltcore/sqle/dsess.DoltTransaction).validateWorkingSetForCommit")
	if fn == nil {
		return
	}
	var wsParam, ffParam *ssa.Parameter
	nWs, nBool := 0, 0
	for _, p := range fn.Params {
		if eng.ShortType(p.Type()) == c23WsPtr {
			wsParam = p
			nWs++
		}
		if b, ok := p.Type().Underlying().(*types.Basic); ok && b.Kind() == types.Bool {
			ffParam = p
			nBool++
		}
	}
	if nWs != 1 || nBool != 1 {
		k.Unknown("anchor", eng.Name(fn), "the gate takes one working set and one fast-forward flag", fmt.Sprintf("found %d/%d", nWs, nBool))
		return
	}
	rootOfWs := func(v ssa.Value) bool {
		kd, recv := c23rootAccessor(v)
		return kd == "Working" && c23isParam(recv, wsParam)
	}
	mHasCV := eng.Static(c23Doltdb + ".HasConstraintViolations")
	mHasConf := eng.Static(c23Doltdb + ".HasConflicts")
	mSchemaConf := eng.Static("(" + c23Doltdb + ".MergeState).HasSchemaConflicts")
	for _, m := range []eng.CallM{mHasCV, mHasConf} {
		calls := eng.Calls(fn, m, false)
		if len(calls) < 1 {
			k.Unknown("gate-examines-written-root", eng.Name(fn), "the gate asks doltdb for conflicts and constraint violations", "call not found")
			continue
		}
		for _, call := range calls {
			ok := false
			for _, a := range call.Common().Args {
				if rootOfWs(a) {
					ok = true
				}
			}
			k.Require("gate-examines-written-root", eng.Name(fn)+"#"+eng.CalleeName(call), "the gate examines the working root of the working set that is being committed", ok, c.InstrPos(call.(ssa.Instruction)), "argument is not WorkingRoot() of the working-set parameter")
		}
	}
	cvTrue, confTrue := eng.NewSet(), eng.NewSet()
	nData, nSchema := 0, 0
	ffTrue := eng.NewSet()
	for _, iff := range c23ifs(fn) {
		cond := c23strip(iff.Cond)
		if c23callResult(cond, mHasCV, 0) != nil {
			cvTrue.AddE(c23edge(iff, true))
		}
		if c23callResult(cond, mHasConf, 0) != nil {
			confTrue.AddE(c23edge(iff, true))
			nData++
		}
		if c23anyOrigin(cond, func(o ssa.Value) bool { return c23callResult(o, mSchemaConf, -1) != nil }) &&
			c23allOrigins(cond, func(o ssa.Value) bool {
				if c23callResult(o, mSchemaConf, -1) != nil {
					return true
				}
				cst, ok := o.(*ssa.Const)
				return ok && cst.Value != nil && cst.Value.ExactString() == "false"
			}) {
			confTrue.AddE(c23edge(iff, true))
			nSchema++
		}
		if c23isParam(cond, ffParam) {
			ffTrue.AddE(c23edge(iff, true))
		}
	}
	forceSet, _, nForce := c24sessionVarCmp(k, fn, "ForceTransactionCommit")
	_, _, nAllow := c24sessionVarCmp(k, fn, "AllowCommitConflicts")
	allowOrForce, _, _ := c24sessionVarsCmp(k, fn, "AllowCommitConflicts", "ForceTransactionCommit")
	if cvTrue.Len() < 1 || nData < 1 || nSchema < 1 || nForce < 2 || nAllow < 1 || ffTrue.Len() < 1 {
		k.Unknown("gate-shape", eng.Name(fn), "branches on the constraint-violation verdict, the data and schema conflict verdicts, the fast-forward flag, and the force (2) / allow (1) session variables",
			fmt.Sprintf("found cv=%d data=%d schema=%d force=%d allow=%d ff=%d", cvTrue.Len(), nData, nSchema, nForce, nAllow, ffTrue.Len()))
		return
	}
	exits := eng.C23SuccessExits(fn)
	k.OnlyAfter("violations-need-force", fn, "once constraint violations were found, nil is returned only through the dolt_force_transaction_commit=1 edge", exits, 1, forceSet, c23starts(cvTrue)...)
	k.OnlyAfter("conflicts-need-ff", fn, "once data or schema conflicts were found, nil is returned only on the fast-forward edge (conflicts produced by the transaction merge always roll back)", exits, 1, ffTrue, c23starts(confTrue)...)
	k.OnlyAfter("conflicts-need-allow", fn, "once data or schema conflicts were found, nil is returned only through dolt_allow_commit_conflicts=1 or dolt_force_transaction_commit=1", exits, 1, allowOrForce, c23starts(confTrue)...)
	// the verdict calls themselves are error-checked before the nil return
	k.OnlyAfter("gate-verdicts-checked", fn, "nil is returned only after HasConstraintViolations succeeded", exits, 1, k.OkCalls(fn, "hascv", mHasCV))
	k.OnlyAfter("gate-verdicts-checked", fn, "nil is returned only after HasConflicts succeeded", exits, 1, k.OkCalls(fn, "hasconf", mHasConf))
}

// ---------------------------------------------------------------------------
// (3) row-merge loop

func c24methodsNamed(c *eng.Ctx, pkg, name string) []*ssa.Function {
	var out []*ssa.Function
	seen := map[string]bool{}
	for _, fn := range c.Funcs(pkg) {
		if fn.Parent() == nil && fn.Signature.Recv() != nil && fn.Name() == name && !seen[eng.Name(fn)] {
			seen[eng.Name(fn)] = true
			out = append(out, fn)
		}
	}
	sort.Slice(out, func(i, j int) bool { return eng.Name(out[i]) < eng.Name(out[j]) })
	return out
}

func c24lenGT0OfField(v ssa.Value, field string) bool {
	bo, ok := c23strip(v).(*ssa.BinOp)
	if !ok {
		return false
	}
	x, y := bo.X, bo.Y
	switch bo.Op {
	case token.GTR, token.NEQ:
	case token.LSS:
		x, y = y, x
	default:
		return false
	}
	cst, isC := y.(*ssa.Const)
	if !isC || cst.Value == nil || cst.Value.ExactString() != "0" {
		return false
	}
	call, ok := x.(*ssa.Call)
	if !ok || eng.CalleeName(call) != "builtin:len" || len(call.Call.Args) != 1 {
		return false
	}
	return eng.FromField(call.Call.Args[0], field)
}

// c24nonNullableFlag: v says "some non-PK column is NOT NULL": it is computed from
// (schema.Column).IsNullable, either by data flow or as a flag set to true under the
// not-nullable edge of a branch on IsNullable.
func c24nonNullableFlag(fn *ssa.Function, v ssa.Value) bool {
	mNullable := eng.Static("(libraries/doltcore/schema.Column).IsNullable")
	if eng.Slice(v, false, func(x ssa.Value) bool {
		call, ok := x.(*ssa.Call)
		return ok && mNullable(call)
	}) {
		return true
	}
	// control form: phi of bool constants, `true` only under the not-nullable edge
	var notNullBlocks []*ssa.BasicBlock
	for _, iff := range c23ifs(fn) {
		if call, ok := c23strip(iff.Cond).(*ssa.Call); ok && mNullable(call) {
			notNullBlocks = append(notNullBlocks, iff.Block().Succs[1])
		}
	}
	seen := map[*ssa.Phi]bool{}
	anyTrue := false
	var walk func(x ssa.Value) bool
	walk = func(x ssa.Value) bool {
		switch p := x.(type) {
		case *ssa.Const:
			return p.Value != nil && p.Value.ExactString() == "false"
		case *ssa.Phi:
			if seen[p] {
				return true
			}
			seen[p] = true
			for i, e := range p.Edges {
				if cst, ok := e.(*ssa.Const); ok && cst.Value != nil && cst.Value.ExactString() == "true" {
					pred := p.Block().Preds[i]
					under := false
					for _, nb := range notNullBlocks {
						if len(nb.Preds) == 1 && nb.Dominates(pred) {
							under = true
						}
					}
					if !under {
						return false
					}
					anyTrue = true
					continue
				}
				if !walk(e) {
					return false
				}
			}
			return true
		}
		return false
	}
	return walk(c23strip(v)) && anyTrue
}

// c24guardOf finds the If whose true edge is the only way into the region containing instr:
// walking up the dominator tree from instr's block, the first block that is the true successor
// of its single predecessor's If.
func c24guardOf(in ssa.Instruction) *ssa.If {
	for b := in.Block(); b != nil; b = b.Idom() {
		if len(b.Preds) != 1 {
			continue
		}
		p := b.Preds[0]
		if len(p.Instrs) == 0 {
			continue
		}
		iff, ok := p.Instrs[len(p.Instrs)-1].(*ssa.If)
		if ok && p.Succs[0] == b && p.Succs[1] != b {
			return iff
		}
	}
	return nil
}

// c24impliesFalse: whenever the guard condition g is true, the indicator matched by isN was
// evaluated false.  g is either a short-circuit conjunction phi (every incoming value but the
// carrier is the constant false; the indicator's branch sends its true edge straight into the
// phi and dominates the carrier), or the carrier value itself is the negated indicator.
func c24impliesFalse(g ssa.Value, isN func(ssa.Value) bool) bool {
	g = c23strip(g)
	if u, ok := g.(*ssa.UnOp); ok && u.Op == token.NOT && isN(u.X) {
		return true
	}
	phi, ok := g.(*ssa.Phi)
	if !ok {
		return false
	}
	var carriers []int
	for i, e := range phi.Edges {
		if cst, ok := e.(*ssa.Const); ok && cst.Value != nil && cst.Value.ExactString() == "false" {
			continue
		}
		carriers = append(carriers, i)
	}
	if len(carriers) != 1 {
		return false
	}
	ci := carriers[0]
	carrierPred := phi.Block().Preds[ci]
	if c24impliesFalse(phi.Edges[ci], isN) {
		return true
	}
	for i := range phi.Edges {
		if i == ci {
			continue
		}
		p := phi.Block().Preds[i]
		if len(p.Instrs) == 0 {
			continue
		}
		iff, ok := p.Instrs[len(p.Instrs)-1].(*ssa.If)
		if !ok || p.Succs[0] != phi.Block() || p.Succs[1] == phi.Block() {
			continue
		}
		if isN(iff.Cond) && p.Dominates(carrierPred) {
			return true
		}
	}
	return false
}

func c24rowLoop(k *eng.Check) {
	c := k.C
	validators := c24methodsNamed(c, c24Merge, "validateDiff")
	if len(validators) < 3 {
		k.Unknown("validators", c24Merge, "validateDiff methods defined in the merge package", fmt.Sprintf("found %d, confirmed floor 3 (unique, NOT NULL, CHECK)", len(validators)))
	}
	var valNames []string
	for _, v := range validators {
		valNames = append(valNames, eng.Name(v))
	}
	// anchor: the merge functions that call a validateDiff
	var loops []*ssa.Function
	for _, fn := range c.Funcs(c24Merge) {
		if len(eng.Calls(fn, eng.Static(valNames...), true)) > 0 {
			loops = append(loops, fn)
		}
	}
	if len(loops) != 1 {
		k.Unknown("anchor", c24Merge, "exactly one function (the row-merge loop) invokes the validators", fmt.Sprintf("found %d", len(loops)))
		return
	}
	fn := loops[0]
	k.FuncsSeen[fn] = true
	mNext := eng.Static("(*store/prolly/tree.ThreeWayDiffer).Next")
	nexts := eng.Calls(fn, mNext, false)
	if len(nexts) != 1 {
		k.Unknown("anchor", eng.Name(fn), "one ThreeWayDiffer.Next call drives the loop", fmt.Sprintf("found %d", len(nexts)))
		return
	}
	next := nexts[0].(*ssa.Call)
	isDiff := func(v ssa.Value) bool {
		return c23allOrigins(v, func(o ssa.Value) bool {
			return c23callResult(o, func(q ssa.CallInstruction) bool { return q == ssa.CallInstruction(next) }, 0) != nil
		})
	}
	diffArg := func(call ssa.CallInstruction) ssa.Value {
		for _, a := range call.Common().Args {
			if eng.ShortType(a.Type()) == "store/prolly/tree.ThreeWayDiff" {
				return a
			}
		}
		return nil
	}
	mApply := eng.Static("(*"+c24Merge+".primaryMerger).merge", "(*"+c24Merge+".secondaryMerger).merge")
	applies := eng.CallSet(fn, mApply)
	start := eng.After(next)
	for _, v := range validators {
		m := eng.Static(eng.Name(v))
		short := strings.Replace(strings.TrimPrefix(eng.Name(v), "("+c24Merge+"."), ")", "", 1)
		k.OnlyAfter("validators-before-apply", fn, "a diff produced by ThreeWayDiffer.Next is applied to the primary/secondary indexes only after "+short+" returned nil", applies, 10, k.OkCalls(fn, "val:"+short, m), start)
		for _, call := range eng.Calls(fn, m, false) {
			a := diffArg(call)
			k.Require("validators-see-the-diff", eng.Name(fn)+"#"+short, "the validator is handed the diff that Next produced in this iteration", a != nil && isDiff(a), c.InstrPos(call.(ssa.Instruction)), "diff argument does not come from Next")
		}
	}
	nApply := 0
	okApply := true
	for in := range applies.I {
		nApply++
		a := diffArg(in.(ssa.CallInstruction))
		if a == nil || !isDiff(a) {
			okApply = false
		}
	}
	k.Require("validators-see-the-diff", eng.Name(fn)+"#apply", "the appliers are handed the validated diff", okApply && nApply >= 10, c.Pos(fn.Pos()), fmt.Sprintf("%d apply sites, some with a diff that does not come from Next", nApply))

	// the path that bypasses the loop
	exits := eng.C23SuccessExits(fn)
	bypass := eng.Reach(fn, nil, exits, eng.NewSet().AddI(next))
	if len(bypass) == 0 {
		k.Pass("fast-path-guard", eng.Name(fn), "no success exit bypasses the validating loop", 1)
		return
	}
	indicators := []struct {
		name string
		is   func(ssa.Value) bool
	}{
		{"unique indexes present", func(v ssa.Value) bool { return c24lenGT0OfField(v, c24Merge+".uniqValidator.indexes") }},
		{"CHECK expressions present", func(v ssa.Value) bool { return c24lenGT0OfField(v, c24Merge+".checkValidator.checkExpressions") }},
		{"NOT NULL columns present", func(v ssa.Value) bool { return c24nonNullableFlag(fn, v) }},
	}
	guards := map[*ssa.If]bool{}
	for _, h := range bypass {
		var in ssa.Instruction = h.Instr
		if in == nil && h.Edge != nil {
			in = h.Edge.From.Instrs[len(h.Edge.From.Instrs)-1]
		}
		g := c24guardOf(in)
		if g == nil {
			k.Fail("fast-path-guard", eng.Name(fn)+"#bypass", "a success exit that bypasses the validating loop is guarded", c.InstrPos(in), "no guarding branch dominates the exit", nil)
			continue
		}
		guards[g] = true
	}
	for g := range guards {
		// the guard really separates: with its true edge and the loop removed no success exit remains
		k.OnlyAfter("fast-path-guard", fn, "success without the validating loop is reachable only through the fast-merge guard", exits, 1, eng.NewSet().AddI(next).AddE(c23edge(g, true)))
		for _, ind := range indicators {
			k.Require("fast-path-guard", eng.Name(fn)+"#"+ind.name, "the fast tree-merge path (which runs no validator) is taken only when the guard proves: not ("+ind.name+")", c24impliesFalse(g.Cond, ind.is), c.InstrPos(g), "guard "+eng.Desc(g.Cond, 3)+" does not imply it")
		}
	}
}

// ---------------------------------------------------------------------------
// (4) foreign-key violations are recorded

func c24foreignKeys(k *eng.Check) {
	c := k.C
	mAddFK := eng.Static(c24Merge + ".AddForeignKeyViolations")
	mRegister := eng.Static(c24Merge + ".RegisterForeignKeyViolations")
	if fn := k.Fn(c24Merge + ".MergeRoots"); fn != nil {
		exits := eng.C23SuccessExits(fn)
		k.OnlyAfter("fk-violations-recorded", fn, "MergeRoots returns a result only after AddForeignKeyViolations succeeded", exits, 1, k.OkCalls(fn, "addfk", mAddFK))
		n := 0
		for _, in := range eng.FieldStores(fn, `merge\.Result$`, "Root") {
			n++
			st := in.(*ssa.Store)
			k.Require("fk-violations-recorded", eng.Name(fn)+"#Result.Root", "Result.Root is the root returned by AddForeignKeyViolations (the one that carries the violation artifacts)", c23allOrigins(st.Val, func(o ssa.Value) bool { return c23callResult(o, mAddFK, 0) != nil }), c.InstrPos(st), "Result.Root is "+eng.Desc(st.Val, 3))
		}
		if n < 1 {
			k.Unknown("fk-violations-recorded", eng.Name(fn)+"#Result.Root", "the store of Result.Root", "not found")
		}
	}
	if fn := k.Fn(c24Merge + ".AddForeignKeyViolations"); fn != nil {
		exits := eng.C23SuccessExits(fn)
		k.OnlyAfter("fk-violations-recorded", fn, "AddForeignKeyViolations returns a root only after RegisterForeignKeyViolations succeeded", exits, 1, k.OkCalls(fn, "register", mRegister))
		for _, call := range eng.Calls(fn, mRegister, false) {
			recvOK := false
			for _, a := range call.Common().Args {
				if strings.HasSuffix(eng.ShortType(c23strip(a).Type()), c24Merge+".foreignKeyViolationWriter") {
					recvOK = true
				}
			}
			k.Require("fk-violations-recorded", eng.Name(fn)+"#receiver", "the receiver handed to RegisterForeignKeyViolations is the artifact-writing foreignKeyViolationWriter", recvOK, c.InstrPos(call.(ssa.Instruction)), "another receiver type")
		}
		for in := range exits.I {
			ret := in.(*ssa.Return)
			k.Require("fk-violations-recorded", eng.Name(fn)+"#returned-root", "the returned root is the violation writer's root (read after registration), not the input root", eng.FromField(ret.Results[0], c24Merge+".foreignKeyViolationWriter.rootValue"), c.InstrPos(ret), "returns "+eng.Desc(ret.Results[0], 3))
		}
	}
	if fn := k.Fn(c24Merge + ".RegisterForeignKeyViolations"); fn != nil {
		mStart := eng.Method(`merge\.FKViolationReceiver$`, "StartFK")
		mEnd := eng.Method(`merge\.FKViolationReceiver$`, "EndCurrFK")
		starts := eng.NewSet()
		for _, call := range eng.Calls(fn, mStart, false) {
			starts.Union(eng.OkCut(call))
		}
		if starts.Len() < 1 {
			k.Unknown("fk-scan-complete", eng.Name(fn), "receiver.StartFK call", "not found or unchecked")
		} else {
			exits := eng.C23SuccessExits(fn)
			st := c23starts(starts)
			k.OnlyAfter("fk-scan-complete", fn, "after StartFK, success is reachable only after parentFkConstraintViolations returned nil", exits, 1, k.OkCalls(fn, "parent", eng.Static(c24Merge+".parentFkConstraintViolations")), st...)
			k.OnlyAfter("fk-scan-complete", fn, "after StartFK, success is reachable only after childFkConstraintViolations returned nil", exits, 1, k.OkCalls(fn, "child", eng.Static(c24Merge+".childFkConstraintViolations")), st...)
			k.OnlyAfter("fk-scan-complete", fn, "after StartFK, success is reachable only after EndCurrFK returned nil", exits, 1, k.OkCalls(fn, "end", mEnd), st...)
		}
	}
	if fn := k.Fn("(*" + c24Merge + ".foreignKeyViolationWriter).EndCurrFK"); fn != nil {
		exits := eng.C23SuccessExits(fn)
		mFlush := eng.Static("(*store/prolly.ArtifactsEditor).Flush")
		mSetArt := eng.Static("(*" + c23Doltdb + ".Table).SetArtifacts")
		mPut := eng.Method(`doltdb\.RootValue$`, "PutTable")
		k.OnlyAfter("fk-artifacts-stored", fn, "EndCurrFK returns nil only after the artifact editor was flushed", exits, 1, k.OkCalls(fn, "flush", mFlush))
		k.OnlyAfter("fk-artifacts-stored", fn, "EndCurrFK returns nil only after the artifacts were attached to the table", exits, 1, k.OkCalls(fn, "setart", mSetArt))
		k.OnlyAfter("fk-artifacts-stored", fn, "EndCurrFK returns nil only after the table was put into the root", exits, 1, k.OkCalls(fn, "put", mPut))
		n := 0
		for _, in := range eng.FieldStores(fn, `merge\.foreignKeyViolationWriter$`, "rootValue") {
			n++
			st := in.(*ssa.Store)
			k.Require("fk-artifacts-stored", eng.Name(fn)+"#rootValue", "the writer's root is replaced by the PutTable result", c23callResult(st.Val, mPut, 0) != nil, c.InstrPos(st), "stores "+eng.Desc(st.Val, 3))
		}
		if n < 1 {
			k.Unknown("fk-artifacts-stored", eng.Name(fn)+"#rootValue", "store of the writer's root", "not found")
		}
		// data chain Flush -> SetArtifacts -> PutTable
		for _, call := range eng.Calls(fn, mSetArt, false) {
			k.Require("fk-artifacts-stored", eng.Name(fn)+"#SetArtifacts", "the attached artifacts are the flushed editor contents", eng.Slice(call.Common().Args[len(call.Common().Args)-1], true, func(x ssa.Value) bool { return c23callResult(x, mFlush, 0) != nil }), c.InstrPos(call.(ssa.Instruction)), "argument does not derive from Flush")
		}
		for _, call := range eng.Calls(fn, mPut, false) {
			a := call.Common().Args
			k.Require("fk-artifacts-stored", eng.Name(fn)+"#PutTable", "the table put into the root is the one carrying the artifacts", len(a) > 0 && c23callResult(a[len(a)-1], mSetArt, 0) != nil, c.InstrPos(call.(ssa.Instruction)), "argument is not the SetArtifacts result")
		}
	}
}

// ---------------------------------------------------------------------------
// (5) recorder verdicts are consumed

func c24recorders(k *eng.Check) {
	c := k.C
	mReplace := eng.Static("(*store/prolly.ArtifactsEditor).ReplaceConstraintViolation")
	mFlush := eng.Static("(*store/prolly.ArtifactsEditor).Flush")
	fns := c.Funcs(c24Merge)
	isRecorder := func(ci ssa.CallInstruction) bool {
		if mReplace(ci) {
			return true
		}
		f := ci.Common().StaticCallee()
		return f != nil && len(f.Blocks) > 0 && eng.ReturnsError(ci) && c.MustPass(f, "c24replace", mReplace, 2)
	}
	isFlusher := func(ci ssa.CallInstruction) bool {
		if mFlush(ci) {
			return true
		}
		f := ci.Common().StaticCallee()
		return f != nil && len(f.Blocks) > 0 && eng.ReturnsError(ci) && c.MustPass(f, "c24flush", mFlush, 2)
	}
	nR, nF := 0, 0
	seen := map[string]int{}
	for _, fn := range fns {
		for _, call := range eng.Calls(fn, func(ci ssa.CallInstruction) bool { return isRecorder(ci) || isFlusher(ci) }, true) {
			rule, what := "violation-record-checked", "the error of a call that records a constraint violation is tested or propagated (a failed record is never ignored)"
			if isFlusher(call) {
				rule, what = "artifact-flush-checked", "the error of a call that flushes the artifact editor (conflicts and constraint violations of the merged table) is tested or propagated before the table is used"
				nF++
			} else {
				nR++
			}
			key := eng.Name(fn) + "#" + eng.CalleeName(call)
			seen[key]++
			if seen[key] > 1 {
				key = fmt.Sprintf("%s#%d", key, seen[key])
			}
			ok := eng.ErrConsumed(call)
			if _, isCall := call.(*ssa.Call); !isCall {
				ok = false
			}
			k.Require(rule, key, what, ok, c.InstrPos(call.(ssa.Instruction)), "error result dropped (overwritten before it is read)")
		}
	}
	if nR < 6 || nF < 3 {
		k.Unknown("violation-record-checked", c24Merge, "recorder / flusher call sites", fmt.Sprintf("found %d recorder and %d flusher sites; confirmed floors 6 and 3", nR, nF))
	}
}
