package rules

// Rules added after independent seeded changes showed a shape the first rule sets of C35/C39/C45 did not cover:
// "the effect must have succeeded before success is reported" (ack-after-effect), accounting under the lock, and
// raw (un-normalised) comparison of a sealed path.  They wrap the Run functions registered by c35.go/c39.go/c45.go
// (this file sorts after them, so their init functions have run).

import (
	"fmt"
	"go/token"
	"go/types"
	"strings"

	"dvcheck/internal/eng"

	"golang.org/x/tools/go/ssa"
)

func init() {
	wrap := func(id string, extra func(k *eng.Check)) {
		r := Registry[id]
		if r == nil {
			panic("c99_ack_extensions: " + id + " not registered yet")
		}
		old := r.Run
		r.Run = func(k *eng.Check, tier string) { old(k, tier); extra(k) }
	}
	wrap("C35", c35AckRules)
	wrap("C45", c45AckRules)
	wrap("C39", c39RawCompareRule)
	wrap("C24", c24CommitGate)
	wrap("C37", c37PkBeforeIndexes)
	wrap("C42", c42LockHandedOutOnlyIfHeld)
	wrap("C15", c15BuilderResetComplete)
	wrap("C08", c08GenerationalOrder)
	wrap("C08", c08WriteOfferedToKeeper)
	wrap("C20", c20CasTokenForwarded)
	wrap("C03", c03RootNotPublishedEarly)
	wrap("C22", c22AsOfTimeAtTxRoot)
	wrap("C22", c22SnapshotScope)
	Registry["C22"].Patterns = append(Registry["C22"].Patterns, "./libraries/doltcore/doltdb")
	wrap("C33", c33NamedDatabaseAndCommitIndex)
	Registry["C20"].Patterns = append(Registry["C20"].Patterns, "./libraries/doltcore/doltdb")
	Registry["C24"].Patterns = append(Registry["C24"].Patterns, "./libraries/doltcore/env/actions")
}

// c24CommitGate: a Dolt commit (CALL dolt_commit / dolt commit) without --force succeeds only when NO table of the
// working set has data conflicts or constraint violations: the verdicts of TablesWithDataConflicts and
// TablesWithConstraintViolations over the *working root* are tested unfiltered (their lists are not narrowed, e.g. to
// the staged tables) and a non-empty list is an error.
func c24CommitGate(k *eng.Check) {
	c := k.C
	fn := k.Fn("libraries/doltcore/env/actions.GetCommitStaged")
	if fn == nil {
		return
	}
	// exits that hand out a pending commit (result 0 non-nil); `return nil, nil` means "nothing to commit"
	commits := eng.ResultPoints(fn, 0, func(v ssa.Value) bool { return !isNil(v) })
	if commits.Len() < 1 {
		k.Unknown("commit-gate", eng.Name(fn), "exits returning a pending commit", "none found")
		return
	}
	forceEdge := eng.CondEdgesP(fn, func(v ssa.Value) bool {
		return eng.Mentions(v, eng.IsField("libraries/doltcore/env/actions.CommitStagedProps.Force"))
	}, true)
	// `if !props.Force {gate}`: the condition may be compiled as `if props.Force` (true edge skips the gate) or `if !props.Force`
	forceEdge.Union(eng.CondEdgesP(fn, func(v ssa.Value) bool {
		u, ok := v.(*ssa.UnOp)
		return ok && u.Op == token.NOT && eng.Mentions(u.X, eng.IsField("libraries/doltcore/env/actions.CommitStagedProps.Force"))
	}, false))
	// remove double counting: keep only edges on which Force is true
	for _, g := range []struct{ callee, what string }{
		{"libraries/doltcore/doltdb.TablesWithDataConflicts", "data conflicts"},
		{"libraries/doltcore/doltdb.TablesWithConstraintViolations", "constraint violations"},
	} {
		m := eng.Static(g.callee)
		calls := eng.Calls(fn, m, false)
		if len(calls) < 1 {
			k.Unknown("commit-gate", eng.Name(fn)+"#"+g.what, "call to "+g.callee, "not found")
			continue
		}
		for _, call := range calls {
			a := call.Common().Args
			onWorking := len(a) >= 2 && eng.Mentions(a[len(a)-1], eng.IsField("libraries/doltcore/doltdb.Roots.Working"))
			k.Require("commit-gate", eng.Name(fn)+"#"+g.what+"-of-working-root", "the "+g.what+" verdict is computed over the working root", onWorking, c.InstrPos(call.(ssa.Instruction)), "argument is not roots.Working")
		}
		empty := eng.CondEdgesP(fn, func(v ssa.Value) bool {
			b, ok := eng.IsCompare(v, token.GTR)
			if !ok || !isConstInt(b.Y, 0) {
				return false
			}
			ln, ok := b.X.(*ssa.Call)
			if !ok || eng.CalleeName(ln) != "builtin:len" || len(ln.Call.Args) != 1 {
				return false
			}
			// the list whose length is tested is the call's own result, not a narrowed copy
			return eng.Mentions(ln.Call.Args[0], eng.IsCall(m))
		}, false)
		k.OnlyAfter("commit-gate", fn, "without --force, a pending commit is produced only on the edge where the unfiltered list of tables with "+g.what+" is empty", commits, 1, eng.UnionOf(empty, forceEdge))
		k.OnlyAfter("commit-gate", fn, "without --force, a pending commit is produced only after "+g.callee+" returned without error", commits, 1, eng.UnionOf(k.OkCalls(fn, g.what, m), forceEdge))
	}
}

// ackAfter: from just after each call matching m in fn, a success exit is reachable only through that call's nil-error edge.
func ackAfter(k *eng.Check, rule string, fn *ssa.Function, m eng.CallM, what string, floor int) {
	calls := eng.Calls(fn, m, false)
	if len(calls) < floor {
		k.Unknown(rule, eng.Name(fn)+"#"+what, what, fmt.Sprintf("%d call(s) found (floor %d)", len(calls), floor))
		return
	}
	for _, call := range calls {
		k.OnlyAfter(rule, fn, "after "+eng.CalleeName(call)+", success is reported only if it returned nil ("+what+")", eng.SuccessExits(fn), 1, eng.OkCut(call), eng.After(call.(ssa.Instruction)))
	}
}

func c35AckRules(k *eng.Check) {
	if fn := k.Fn(c35actions + ".Push"); fn != nil {
		movers := eng.Static(c35DoltDB+"FastForwardWithWorkspaceCheck", c35DoltDB+"SetHeadAndWorkingSetToCommit", c35DoltDB+"FastForward", c35DoltDB+"SetHead")
		// only moves of the *destination* database: receiver derives from the destDB parameter (5th *DoltDB-typed parameter by role: the one PullChunks is called on)
		var dest ssa.Value
		for _, pc := range eng.Calls(fn, eng.Static(c35DoltDB+"PullChunks"), false) {
			dest = pc.Common().Args[0]
		}
		destMovers := func(ci ssa.CallInstruction) bool {
			return movers(ci) && dest != nil && len(ci.Common().Args) > 0 && ci.Common().Args[0] == dest
		}
		ackAfter(k, "push-ack-after-ref-move", fn, destMovers, "the destination branch move of a push", 2)
	}
}

func c45AckRules(k *eng.Check) {
	c := k.C
	if fn := k.Fn(c45sqle + ".pushDataset"); fn != nil {
		effect := eng.AnyOf(eng.Static(c35DoltDB+"SetHead"), eng.Named(`^iface:store/datas\.Database\.Delete$`))
		k.OnlyAfter("push-hook-ack-after-ref-move", fn, "the push-on-write hook reports success only after the remote ref was set (or the deleted dataset removed)", eng.SuccessExits(fn), 1, k.OkCalls(fn, "sethead-or-delete", effect))
	}
	if fn := k.Fn("(*" + c45cluster + ".commithook).attemptReplicate"); fn != nil {
		// the attempt is opened (BeginAttempt) in the same critical section in which the head to push was read:
		// before the first Unlock of h.mu.  Otherwise a commit arriving in between is accounted to an attempt that
		// pushes an older root, and its acknowledgement wait is released although the standby lacks it.
		unlocks := eng.CallSet(fn, eng.MutexOn(c45cluster+".commithook.mu", "Unlock"))
		begin := eng.CallSet(fn, eng.Static("(*"+c45cluster+".ProgressNotifier).BeginAttempt"))
		if begin.Len() < 1 {
			k.Unknown("attempt-opened-under-lock", eng.Name(fn), "call to ProgressNotifier.BeginAttempt", "not found")
		} else {
			k.OnlyAfter("attempt-opened-under-lock", fn, "h.mu is released only after the replication attempt was opened (BeginAttempt) for the head that was just read", unlocks, 1, begin)
		}
		// and the head to push is read before that unlock as well
		readHead := false
		for _, b := range fn.Blocks {
			for _, in := range b.Instrs {
				if v, ok := in.(ssa.Value); ok && eng.FieldName(v) == c45cluster+".commithook.nextHead" {
					if len(eng.Reach(fn, nil, eng.NewSet().AddI(in), unlocks)) > 0 {
						readHead = true
					}
				}
			}
		}
		k.Require("attempt-opened-under-lock", eng.Name(fn)+"#head-read-under-lock", "the head to push is read before h.mu is first released", readHead, c.Pos(fn.Pos()), "nextHead is only read after an Unlock")
	}
}

func c39RawCompareRule(k *eng.Check) {
	c := k.C
	fn := k.Fn("(" + c39pkg + ".singleSymmetricKeySealer).Unseal")
	if fn == nil {
		return
	}
	allowed := map[string]string{
		"strings.TrimPrefix":        "strips the constant seal prefix from the outer path",
		"(*net/url.URL).EscapedPath": "the encoded form the sealer published",
		"net/url.Parse":              "parses the decrypted request URI",
		"builtin:string":             "conversion",
	}
	n := 0
	for _, b := range fn.Blocks {
		if len(b.Instrs) == 0 {
			continue
		}
		iff, ok := b.Instrs[len(b.Instrs)-1].(*ssa.If)
		if !ok {
			continue
		}
		bo, ok := eng.IsCompare(iff.Cond, token.NEQ, token.EQL)
		if !ok {
			continue
		}
		// the path comparison: one side derives from the decrypted URL (url.Parse result), the other from the request URL's Path
		fromParsed := func(v ssa.Value) bool { return eng.MentionsDeep(v, eng.IsCall(eng.Static("net/url.Parse"))) }
		fromOuter := func(v ssa.Value) bool {
			return eng.MentionsDeep(v, eng.IsField("net/url.URL.Path")) && !fromParsed(v)
		}
		if !((fromParsed(bo.X) && fromOuter(bo.Y)) || (fromParsed(bo.Y) && fromOuter(bo.X))) {
			continue
		}
		n++
		bad := ""
		for _, side := range []ssa.Value{bo.X, bo.Y} {
			eng.Slice(side, true, func(x ssa.Value) bool {
				cc, ok := x.(*ssa.Call)
				if !ok {
					return false
				}
				name := eng.CalleeName(cc)
				if _, ok := allowed[name]; !ok && !strings.HasPrefix(name, "(*crypto/") && !strings.Contains(name, "cipher.AEAD") && !strings.Contains(name, "base64") && !strings.Contains(name, "Values).Get") && !strings.Contains(name, "URL).Query") && !strings.Contains(name, "aes.") && !strings.Contains(name, "cipher.NewGCM") {
					bad = name
				}
				return false
			})
		}
		k.Require("unseal-path-compared-raw", eng.Name(fn), "the outer request path and the decrypted path are compared as published (no normalising call such as path.Clean on either side)", bad == "", c.InstrPos(iff),
			"the path comparison goes through "+bad+": distinct request paths that normalise to the sealed one would unseal")
	}
	if n < 1 {
		k.Unknown("unseal-path-compared-raw", eng.Name(fn), "comparison of the outer path with the decrypted path", "not found")
	}
}

// c37PkBeforeIndexes: when a schema is deserialized, the primary-key ordinals are applied before any secondary
// index is added: an index captures the primary-key tag order at the moment it is created (its key suffix), and
// SetPkOrdinals does not update indexes that already exist.  Reading the indexes first reloads every secondary
// index with its primary-key suffix in column-declaration order.
func c37PkBeforeIndexes(k *eng.Check) {
	c := k.C
	top := k.Fn("libraries/doltcore/schema/encoding.deserializeSchemaFromFlatbuffer")
	if top == nil {
		return
	}
	mAdd := eng.Named(`AddIndexByColTags$`)
	// SetPkOrdinals applied to the ordinals read from the serialized clustered index (not the default ordinals
	// schema.NewSchema installs)
	mSetPk := func(ci ssa.CallInstruction) bool {
		if !eng.Named(`SetPkOrdinals$`)(ci) {
			return false
		}
		for _, a := range ci.Common().Args {
			if eng.MentionsDeep(a, eng.IsCall(eng.Static("libraries/doltcore/schema/encoding.deserializeClusteredIndex"))) {
				return true
			}
		}
		return false
	}
	inPkg := func(p string) bool { return p == "libraries/doltcore/schema/encoding" }
	cl := c.StaticClosure([]*ssa.Function{top}, inPkg, 3)
	reaches := map[*ssa.Function]bool{}
	for changed := true; changed; {
		changed = false
		for _, f := range cl {
			if reaches[f] {
				continue
			}
			for _, call := range eng.Calls(f, func(ssa.CallInstruction) bool { return true }, false) {
				if mAdd(call) || (call.Common().StaticCallee() != nil && reaches[call.Common().StaticCallee()]) {
					reaches[f] = true
					changed = true
				}
			}
		}
	}
	if !reaches[top] {
		k.Unknown("pk-ordinals-before-indexes", eng.Name(top), "a path from the schema deserializer to AddIndexByColTags", "not found")
		return
	}
	var okIn func(f *ssa.Function, depth int) (bool, string)
	okIn = func(f *ssa.Function, depth int) (bool, string) {
		cuts := c.PassCuts(f, "setpk-dci", mSetPk, 3)
		for _, call := range eng.Calls(f, func(ssa.CallInstruction) bool { return true }, false) {
			callee := call.Common().StaticCallee()
			isTarget := mAdd(call) || (callee != nil && reaches[callee])
			if !isTarget {
				continue
			}
			tg := eng.NewSet().AddI(call.(ssa.Instruction))
			if len(eng.Reach(f, nil, tg, cuts)) == 0 {
				continue // preceded by a successful SetPkOrdinals in this function
			}
			if callee != nil && reaches[callee] && !mAdd(call) && depth > 0 {
				if ok, _ := okIn(callee, depth-1); ok {
					continue // the callee orders the two steps itself
				}
			}
			return false, c.InstrPos(call.(ssa.Instruction))
		}
		return true, ""
	}
	ok, pos := okIn(top, 3)
	k.Require("pk-ordinals-before-indexes", eng.Name(top), "secondary indexes are added to a deserialized schema only after its primary-key ordinals were applied", ok, pos,
		"an index is created before SetPkOrdinals: it captures the primary-key columns in declaration order and is not updated afterwards")
}

// c42LockHandedOutOnlyIfHeld: the helper that takes the local blobstore's manifest lock returns a lock (and no error)
// only on the edge where the acquisition returned nil: a timeout or any other failure of Lock must not be turned
// into "proceed without the lock", because the version comparison and the write of CheckAndPutManifest are only
// atomic under it.
func c42LockHandedOutOnlyIfHeld(k *eng.Check) {
	fn := k.Fn("store/blobstore.fLock")
	if fn == nil {
		return
	}
	acquire := eng.Static("(*github.com/dolthub/fslock.Lock).Lock", "(*github.com/dolthub/fslock.Lock).LockWithTimeout", "(*github.com/dolthub/fslock.Lock).TryLock")
	if len(eng.Calls(fn, acquire, false)) < 1 {
		k.Unknown("lock-handed-out-only-if-held", eng.Name(fn), "call that acquires the file lock", "not found")
		return
	}
	k.OnlyAfter("lock-handed-out-only-if-held", fn, "fLock succeeds only on the edge where the lock acquisition returned nil", eng.SuccessExits(fn), 1, k.OkCalls(fn, "acquire", acquire))
}

// c15BuilderResetComplete: a TupleBuilder is reused for many tuples; "tuples built from the same values are
// byte-identical no matter how they were built" needs every Build* method (except the one documented not to) to
// leave the builder fully reset, and the reset to cover every piece of state the Put* methods write.
func c15BuilderResetComplete(k *eng.Check) {
	c := k.C
	recycle := k.Fn("(*store/val.TupleBuilder).Recycle")
	if recycle == nil {
		return
	}
	mRecycle := eng.Static("(*store/val.TupleBuilder).Recycle")
	n := 0
	for _, fn := range c.Funcs("store/val") {
		if fn.Parent() != nil || fn.Signature.Recv() == nil || !strings.HasPrefix(fn.Name(), "Build") {
			continue
		}
		if strings.TrimPrefix(eng.ShortType(fn.Signature.Recv().Type()), "*") != "store/val.TupleBuilder" {
			continue
		}
		if strings.Contains(fn.Name(), "NoRecycle") {
			continue // documented: the caller recycles
		}
		n++
		k.Require("builder-reset-complete", eng.Name(fn)+"#recycles", "a Build* method returns only after the builder was fully recycled", c.MustPass(fn, "recycle", mRecycle, 3), c.Pos(fn.Pos()),
			"a success path of this Build method does not pass TupleBuilder.Recycle: fields written earlier can leak into the next tuple")
	}
	if n < 3 {
		k.Unknown("builder-reset-complete", "store/val.TupleBuilder", "Build* methods", fmt.Sprintf("%d found (floor 3)", n))
	}
	// state written by Put*/ensureCapacity/addSize must be reset by Recycle
	reset := map[string]bool{}
	for _, b := range recycle.Blocks {
		for _, in := range b.Instrs {
			if st, ok := in.(*ssa.Store); ok {
				if f := eng.FieldName(st.Addr); strings.HasPrefix(f, "store/val.TupleBuilder.") {
					reset[strings.TrimPrefix(f, "store/val.TupleBuilder.")] = true
				}
				// fields[i] = nil
				if ia, ok := st.Addr.(*ssa.IndexAddr); ok && eng.Mentions(ia.X, eng.IsField("store/val.TupleBuilder.fields")) && isNil(st.Val) {
					reset["fields"] = true
				}
			}
		}
	}
	written := map[string]string{}
	for _, fn := range c.Funcs("store/val") {
		if fn.Signature.Recv() == nil || strings.TrimPrefix(eng.ShortType(fn.Signature.Recv().Type()), "*") != "store/val.TupleBuilder" {
			continue
		}
		if !(strings.HasPrefix(fn.Name(), "Put") || fn.Name() == "addSize") {
			continue
		}
		for _, b := range fn.Blocks {
			for _, in := range b.Instrs {
				if st, ok := in.(*ssa.Store); ok {
					if f := eng.FieldName(st.Addr); strings.HasPrefix(f, "store/val.TupleBuilder.") {
						written[strings.TrimPrefix(f, "store/val.TupleBuilder.")] = c.InstrPos(in)
					}
					if ia, ok := st.Addr.(*ssa.IndexAddr); ok && eng.Mentions(ia.X, eng.IsField("store/val.TupleBuilder.fields")) {
						written["fields"] = c.InstrPos(in)
					}
				}
			}
		}
	}
	if len(written) < 3 {
		k.Unknown("builder-reset-complete", "store/val.TupleBuilder", "builder state written by Put* methods", fmt.Sprintf("%d fields found (floor 3)", len(written)))
	}
	for f, pos := range written {
		k.Require("builder-reset-complete", "Recycle#"+f, "TupleBuilder."+f+" (written while a tuple is being built) is reset by Recycle", reset[f], pos, "state survives Recycle and leaks into the next tuple")
	}
	// the field-clearing loop covers the whole descriptor, not a prefix
	full := false
	for _, l := range eng.Loops(recycle) {
		if iff, ok := l.Header.Instrs[len(l.Header.Instrs)-1].(*ssa.If); ok {
			if eng.MentionsDeep(iff.Cond, func(x ssa.Value) bool {
				cc, ok := x.(*ssa.Call)
				return ok && (strings.HasSuffix(eng.CalleeName(cc), "TupleDesc).Count") || eng.CalleeName(cc) == "builtin:len")
			}) {
				full = true
			}
		}
	}
	k.Require("builder-reset-complete", "Recycle#all-fields", "Recycle clears every field of the descriptor (loop bound is the descriptor's field count)", full, c.Pos(recycle.Pos()), "the clearing loop is not bounded by Desc.Count()/len(fields)")
}

// c08GenerationalOrder: in the generational collection (old generation first, then new generation)
//   - the filter that decides which chunks the new-generation pass may skip can come from the file the
//     old-generation pass just built (AddChunksToStore's result): in a full collection the rest of the old
//     generation is about to be dropped, so filtering by "the old generation has it" alone loses chunks;
//   - the old generation's tables are swapped only after the new generation's swap succeeded: a fault between
//     the two swaps must not leave chunks that only the old files held in no manifest.
func c08GenerationalOrder(k *eng.Check) {
	c := k.C
	top := k.Fn("(*store/types.ValueStore).GC")
	if top == nil {
		return
	}
	mGc := eng.Static("(*store/types.ValueStore).gc")
	var f *ssa.Function
	for _, g := range c08GCBodyCandidates(top) {
		if len(eng.Calls(g, mGc, false)) == 2 {
			f = g
		}
	}
	if f == nil {
		k.Unknown("generational-order", eng.Name(top), "the function that runs the old-generation and the new-generation pass", "no function with exactly two ValueStore.gc calls")
		return
	}
	k.FuncsSeen[f] = true
	var oldCall, newCall *ssa.Call
	for _, ci := range eng.Calls(f, mGc, false) {
		call := ci.(*ssa.Call)
		for _, a := range call.Call.Args {
			if strings.HasSuffix(eng.ShortType(a.Type()), "GCSafepointController") {
				if isNil(a) {
					oldCall = call
				} else {
					newCall = call
				}
			}
		}
	}
	if oldCall == nil || newCall == nil {
		k.Unknown("generational-order", eng.Name(f), "old-generation pass (nil safepoint controller) and new-generation pass", "could not tell the two gc calls apart")
		return
	}
	mAdd := eng.Named(`GCFinalizer\.AddChunksToStore$`)
	okFilter := false
	for _, a := range newCall.Call.Args {
		if strings.HasSuffix(eng.ShortType(a.Type()), "chunks.HasManyFunc") && eng.MentionsDeep(a, eng.IsCall(mAdd)) {
			okFilter = true
		}
	}
	k.Require("generational-order", eng.Name(f)+"#newgen-filter", "the new-generation pass can be filtered by the file the old-generation pass just built (needed in full mode)", okFilter, c.InstrPos(newCall),
		"the filter of the new-generation pass never derives from AddChunksToStore's result: in a full collection chunks held only by the old old-generation files are skipped and then dropped")
	mSwap := eng.Named(`GCFinalizer\.SwapChunksInStore$`)
	swapOld, swapNewOK := eng.NewSet(), eng.NewSet()
	for _, ci := range eng.Calls(f, mSwap, false) {
		recv := ci.Common().Value
		if eng.MentionsDeep(recv, func(v ssa.Value) bool { return v == ssa.Value(newCall) }) {
			swapNewOK.Union(eng.OkCut(ci))
		} else if eng.MentionsDeep(recv, func(v ssa.Value) bool { return v == ssa.Value(oldCall) }) {
			swapOld.AddI(ci.(ssa.Instruction))
		}
	}
	if swapOld.Len() < 1 || swapNewOK.Len() < 1 {
		k.Unknown("generational-order", eng.Name(f)+"#swaps", "the swap calls of the two finalizers", fmt.Sprintf("old: %d, new(ok cut): %d", swapOld.Len(), swapNewOK.Len()))
		return
	}
	k.OnlyAfter("generational-order", f, "the old generation's tables are swapped only after the new generation's swap succeeded", swapOld, 1, swapNewOK)
}

// c08WriteOfferedToKeeper: a chunk write is acknowledged (the function that put it into the memtable returns
// without error and — when it reports success as a boolean — with a result that may be true) only after the
// installed keeper was consulted about that chunk, or on the edge where no keeper is installed.  A memtable hit
// (chunkExists) counts as a write for this purpose: the collection may have started after the first write.
func c08WriteOfferedToKeeper(k *eng.Check) {
	c := k.C
	mMem := eng.Static("(*store/nbs.memTable).addChunk")
	n := 0
	for _, fn := range c.Funcs("store/nbs") {
		if c.IsTestFile(fn.Pos()) {
			continue
		}
		var writes []ssa.CallInstruction
		for _, w := range eng.Calls(fn, mMem, false) {
			// the store's own memtable (not a private one built to serialise a chunk set)
			if len(w.Common().Args) > 0 && eng.Mentions(w.Common().Args[0], eng.IsField("store/nbs.NomsBlockStore.memtable")) {
				writes = append(writes, w)
			}
		}
		if len(writes) == 0 {
			continue
		}
		n++
		k.FuncsSeen[fn] = true
		cuts := eng.NewSet()
		for _, b := range fn.Blocks {
			for _, in := range b.Instrs {
				if ci, ok := in.(ssa.CallInstruction); ok && ci.Common().StaticCallee() == nil && !ci.Common().IsInvoke() && fromKeeperField(ci.Common().Value) {
					cuts.AddI(in)
				}
			}
			if len(b.Instrs) == 0 {
				continue
			}
			if iff, ok := b.Instrs[len(b.Instrs)-1].(*ssa.If); ok {
				if bo, ok := iff.Cond.(*ssa.BinOp); ok && (bo.Op == token.NEQ || bo.Op == token.EQL) {
					x, y := bo.X, bo.Y
					if isNil(x) {
						x, y = y, x
					}
					if isNil(y) && fromKeeperField(x) {
						if bo.Op == token.NEQ {
							cuts.AddE(eng.Edge{From: b, Succ: 1})
						} else {
							cuts.AddE(eng.Edge{From: b, Succ: 0})
						}
					}
				}
			}
		}
		var starts []eng.Point
		for _, w := range writes {
			starts = append(starts, eng.After(w.(ssa.Instruction)))
		}
		accept := func(in ssa.Instruction, q eng.FactQuery) bool {
			ret, ok := in.(*ssa.Return)
			if !ok {
				return true
			}
			for i := range ret.Results {
				r := eng.Unspill(ret, i)
				if b, ok := r.Type().Underlying().(*types.Basic); ok && b.Kind() == types.Bool {
					if val, known := q(r); known && !val {
						return false // reports "not written"
					}
				}
			}
			return true
		}
		k.OnlyAfterF("write-offered-to-keeper", fn, "a chunk put into (or found in) the memtable is acknowledged only after the installed keeper was consulted", eng.SuccessExits(fn), 1, cuts, accept, starts...)
	}
	if n < 1 {
		k.Unknown("write-offered-to-keeper", "store/nbs", "functions that put chunks into the memtable", "none found")
	}
}

// c20CasTokenForwarded: the layers between a session and store/datas hand the caller's compare-and-set token (the
// expected previous working-set hash, a hash.Hash parameter) down unchanged and exactly once: a layer that re-reads
// the current value and retries with it turns the conditional write into last-writer-wins.
func c20CasTokenForwarded(k *eng.Check) {
	c := k.C
	layers := []string{
		"(*libraries/doltcore/doltdb.DoltDB).UpdateWorkingSet",
		"(*libraries/doltcore/doltdb.DoltDB).CommitWithWorkingSet",
		"(libraries/doltcore/doltdb.hooksDatabase).UpdateWorkingSet",
		"(libraries/doltcore/doltdb.hooksDatabase).CommitWithWorkingSet",
	}
	isLower := func(ci ssa.CallInstruction) bool {
		n := eng.CalleeName(ci)
		return strings.HasSuffix(n, ".UpdateWorkingSet") || strings.HasSuffix(n, ".CommitWithWorkingSet")
	}
	for _, ln := range layers {
		fn := k.Fn(ln)
		if fn == nil {
			continue
		}
		calls := eng.Calls(fn, isLower, false)
		if len(calls) < 1 {
			k.Unknown("cas-token-forwarded", eng.Name(fn), "the lower-level conditional write", "no UpdateWorkingSet/CommitWithWorkingSet call found")
			continue
		}
		n := 0
		for _, call := range calls {
			inLoop := false
			for _, l := range eng.Loops(fn) {
				if l.Body[call.(ssa.Instruction).Block()] {
					inLoop = true
				}
			}
			k.Require("cas-token-forwarded", eng.Name(fn)+"#not-retried", "the conditional write is not inside a retry loop of this layer", !inLoop, c.InstrPos(call.(ssa.Instruction)), "the conditional write sits in a loop")
			for _, a := range call.Common().Args {
				if eng.ShortType(a.Type()) != "store/hash.Hash" {
					continue
				}
				n++
				p, isP := eng.Origin(a).(*ssa.Parameter)
				ok := isP && eng.ShortType(p.Type()) == "store/hash.Hash"
				k.Require("cas-token-forwarded", eng.Name(fn)+"#token", "the expected previous hash handed down is this layer's own hash parameter", ok, c.InstrPos(call.(ssa.Instruction)), "the token is "+eng.Desc(a, 4))
			}
		}
		if n < 1 {
			k.Unknown("cas-token-forwarded", eng.Name(fn)+"#token", "a hash.Hash argument of the conditional write", "none found")
		}
	}
}

// c03RootNotPublishedEarly: the journal is the source of truth for the root.  When ChunkJournal flushes a changed
// table-file set to the backing manifest (which happens BEFORE the root record is written and synced), the contents it
// writes must carry the journal's current root, not the proposed one: bootstrap falls back to the manifest's root
// when the journal has no root record yet, so a proposed root published early survives a crash that loses its chunks.
func c03RootNotPublishedEarly(k *eng.Check) {
	c := k.C
	// crash consistency of a commit that changes both the table-file set and the root: the root record is written
	// only after the changed table-file set reached the backing manifest (same obligation as C02's, which states it
	// as a commit-ordering clause; here it is the crash-point clause: a root record must never name table files the
	// manifest does not list)
	if up := k.Fn("(*store/nbs.ChunkJournal).Update"); up != nil {
		cr := eng.CallSet(up, eng.Static("(*store/nbs.journalWriter).commitRootHash"))
		flush := k.OkCalls(up, "flush", eng.Static("(*store/nbs.ChunkJournal).flushToBackingManifest"))
		sameSpecs := eng.CondEdgesP(up, func(v ssa.Value) bool { return eng.Mentions(v, eng.IsCall(eng.Static("store/nbs.equalSpecs"))) }, true)
		k.OnlyAfter("journal-specs-first", up, "the journal root record is written only after a changed table-file set was flushed to the backing manifest", cr, 1, eng.UnionOf(flush, sameSpecs))
	}
	fn := k.Fn("(*store/nbs.ChunkJournal).flushToBackingManifest")
	if fn == nil {
		return
	}
	ups := eng.Calls(fn, eng.Static("(*store/nbs.journalManifest).Update"), false)
	if len(ups) < 1 {
		k.Unknown("root-not-published-early", eng.Name(fn), "the backing manifest update", "no journalManifest.Update call found")
		return
	}
	for _, u := range ups {
		var mc ssa.Value
		for _, a := range u.Common().Args {
			if eng.ShortType(a.Type()) == "store/nbs.manifestContents" {
				mc = a
			}
		}
		if mc == nil {
			k.Unknown("root-not-published-early", eng.Name(fn)+"#contents", "the manifestContents argument", "not found")
			continue
		}
		// the argument is a load of a local copy whose root field is overwritten from j.contents.root
		ok := false
		if ld, isLd := mc.(*ssa.UnOp); isLd && ld.Op == token.MUL {
			if a, isA := ld.X.(*ssa.Alloc); isA {
				for _, ref := range *a.Referrers() {
					fa, isFA := ref.(*ssa.FieldAddr)
					if !isFA || eng.FieldName(fa) != "store/nbs.manifestContents.root" || fa.Referrers() == nil {
						continue
					}
					for _, r2 := range *fa.Referrers() {
						if st, isSt := r2.(*ssa.Store); isSt && st.Addr == ssa.Value(fa) &&
							eng.FromField(st.Val, "store/nbs.ChunkJournal.contents") && st.Block().Dominates(u.(ssa.Instruction).Block()) {
							ok = true
						}
					}
				}
			}
		}
		k.Require("root-not-published-early", eng.Name(fn)+"#root", "the contents flushed to the backing manifest ahead of the root record carry the journal's current root (j.contents.root), not the proposed root", ok, c.InstrPos(u.(ssa.Instruction)), "the proposed root reaches the manifest before its chunk records are durable")
	}
}

// c22AsOfTimeAtTxRoot: an AS OF <timestamp> read inside a transaction starts its commit walk from the branch head as
// of the transaction's root (like AS OF '<ref>'), not from the live head.
func c22AsOfTimeAtTxRoot(k *eng.Check) {
	c := k.C
	fn := k.Fn("libraries/doltcore/sqle.resolveAsOfTime")
	if fn == nil {
		return
	}
	live := eng.Calls(fn, eng.Static("(*libraries/doltcore/doltdb.DoltDB).Resolve"), false)
	k.Require("asof-time-at-tx-root", eng.Name(fn)+"#no-live-resolve", "resolveAsOfTime does not resolve HEAD against the live datasets", len(live) == 0, c.Pos(fn.Pos()), "DoltDB.Resolve reads the current branch head: the read follows other sessions' commits within one transaction")
	at := eng.Calls(fn, eng.Static("(*libraries/doltcore/doltdb.DoltDB).ResolveByNomsRoot"), false)
	if len(at) < 1 {
		k.Unknown("asof-time-at-tx-root", eng.Name(fn)+"#at-root", "a ResolveByNomsRoot call", "none found")
		return
	}
	mTx := eng.Static("libraries/doltcore/sqle/dsess.TransactionRoot")
	for _, call := range at {
		a := call.Common().Args
		ok := len(a) > 0 && eng.Mentions(a[len(a)-1], eng.IsCall(mTx))
		k.Require("asof-time-at-tx-root", eng.Name(fn)+"#root-arg", "the noms root HEAD is resolved at is dsess.TransactionRoot of this database", ok, c.InstrPos(call.(ssa.Instruction)), "the root argument does not derive from TransactionRoot")
		k.OnlyAfter("asof-time-at-tx-root", fn, "HEAD is resolved only after TransactionRoot returned nil", eng.NewSet().AddI(call.(ssa.Instruction)), 1, k.OkCalls(fn, "txroot", mTx))
	}
}

// c33AsOfOfNamedDatabase: AS OF 'WORKING' / 'STAGED' on a table of database D reads D's roots: resolveAsOfCommitRef asks
// the session about the database it was called on (not the session's current database), and ResolveRootForRef uses the
// name it was given.  c33HistoryIndexAtCommit: the history table reads each commit with that commit's own index.
func c33NamedDatabaseAndCommitIndex(k *eng.Check) {
	c := k.C
	mCur := func(ci ssa.CallInstruction) bool { return strings.HasSuffix(eng.CalleeName(ci), ".GetCurrentDatabase") }
	if fn := k.Fn("libraries/doltcore/sqle.resolveAsOfCommitRef"); fn != nil {
		calls := eng.Calls(fn, eng.Static("(*libraries/doltcore/sqle/dsess.DoltSession).ResolveRootForRef"), false)
		if len(calls) < 1 {
			k.Unknown("asof-working-of-named-db", eng.Name(fn), "the ResolveRootForRef call", "not found")
		}
		for _, call := range calls {
			a := eng.PathArgs(call)
			var name ssa.Value
			for _, x := range a {
				if eng.ShortType(x.Type()) == "string" && name == nil {
					name = x
				}
			}
			ok := name != nil && !eng.MentionsDeep(name, eng.IsCall(mCur)) && eng.MentionsDeep(name, eng.IsParamOfType("libraries/doltcore/sqle.Database"))
			k.Require("asof-working-of-named-db", eng.Name(fn)+"#db-name", "the session is asked for the roots of the database the AS OF read is addressed to", ok, c.InstrPos(call.(ssa.Instruction)), "the database name handed to ResolveRootForRef is the session's current database (or does not derive from the Database being read)")
		}
	}
	if fn := k.Fn("(*libraries/doltcore/sqle/dsess.DoltSession).ResolveRootForRef"); fn != nil {
		var nameP *ssa.Parameter
		for _, p := range fn.Params {
			if eng.ShortType(p.Type()) == "string" && nameP == nil {
				nameP = p
			}
		}
		n := 0
		for _, call := range eng.Calls(fn, eng.Static("(*libraries/doltcore/sqle/dsess.DoltSession).GetRoots"), false) {
			n++
			a := eng.PathArgs(call)
			ok := false
			for _, x := range a {
				if eng.ShortType(x.Type()) == "string" {
					ok = nameP != nil && eng.Origin(x) == ssa.Value(nameP)
				}
			}
			k.Require("asof-working-of-named-db", eng.Name(fn)+"#uses-db-name", "ResolveRootForRef reads the roots of the database named by its argument", ok, c.InstrPos(call.(ssa.Instruction)), "GetRoots is not given the dbName parameter")
		}
		if n < 1 {
			k.Unknown("asof-working-of-named-db", eng.Name(fn), "the GetRoots call", "not found")
		}
	}
	if fn := k.Fn("(*libraries/doltcore/sqle.HistoryTable).newRowItrForTableAtCommit"); fn != nil {
		n := 0
		for _, call := range eng.Calls(fn, func(ci ssa.CallInstruction) bool { return strings.HasSuffix(eng.CalleeName(ci), ".IndexedAccess") }, false) {
			n++
			a := call.Common().Args
			last := a[len(a)-1]
			_, isParam := eng.Origin(last).(*ssa.Parameter)
			if ld, isLd := last.(*ssa.UnOp); isLd && ld.Op == token.MUL {
				// a struct parameter whose fields are read lives in a local cell
				if cell, isA := ld.X.(*ssa.Alloc); isA {
					sts := eng.StoresTo(cell)
					if len(sts) == 1 {
						_, isParam = sts[0].Val.(*ssa.Parameter)
					}
				}
			}
			k.Require("history-index-at-commit", eng.Name(fn)+"#IndexedAccess", "the table at a commit is accessed with a lookup built on that commit's own index, not with the lookup built for the current schema", !isParam, c.InstrPos(call.(ssa.Instruction)), "IndexedAccess is given the caller's lookup (current schema's index)")
		}
		if n < 1 {
			k.Unknown("history-index-at-commit", eng.Name(fn), "the IndexedAccess call", "not found")
		}
	}
}

// c22SnapshotScope: (a) the transaction snapshots every database under management: the databases handed to
// NewDoltTransaction are collected by ranging over the provider's DoltDatabases() (possibly through one helper that
// returns that list unfiltered); a database added lazily gets the root of the moment it is first referenced.
// (b) a commit spec resolved "at a noms root" never falls back to the live datasets: in getHashFromCommitSpec the live
// resolver is reachable only where the given root is empty.
func c22SnapshotScope(k *eng.Check) {
	c := k.C
	isAllDbs := func(v ssa.Value, depth int) bool { return false }
	isAllDbs = func(v ssa.Value, depth int) bool {
		call, ok := eng.Origin(v).(*ssa.Call)
		if !ok {
			return false
		}
		if strings.HasSuffix(eng.CalleeName(call), ".DoltDatabases") {
			return true
		}
		// one helper level: every value it returns is itself the provider's list
		if h := call.Call.StaticCallee(); h != nil && depth < 1 && len(h.Blocks) > 0 {
			n := 0
			for _, b := range h.Blocks {
				for _, in := range b.Instrs {
					if ret, isRet := in.(*ssa.Return); isRet && len(ret.Results) > 0 {
						if !isAllDbs(ret.Results[0], depth+1) {
							return false
						}
						n++
					}
				}
			}
			return n > 0
		}
		return false
	}
	if fn := k.Fn("(*libraries/doltcore/sqle/dsess.DoltSession).StartTransaction"); fn != nil {
		n := 0
		for _, call := range eng.Calls(fn, eng.Static("libraries/doltcore/sqle/dsess.NewDoltTransaction"), false) {
			for _, a := range call.Common().Args {
				if !strings.HasSuffix(eng.ShortType(a.Type()), "[]libraries/doltcore/sqle/dsess.SqlDatabase") {
					continue
				}
				n++
				// the slice is filled by appends of the element of a range over the provider's list
				ok, seen := true, 0
				eng.Slice(a, true, func(x ssa.Value) bool {
					if nx, isNext := x.(*ssa.Next); isNext {
						if rg, isR := nx.Iter.(*ssa.Range); isR {
							seen++
							if !isAllDbs(rg.X, 0) {
								ok = false
							}
						}
					}
					if ix, isIdx := x.(*ssa.IndexAddr); isIdx {
						if _, isConstIdx := ix.Index.(*ssa.Const); !isConstIdx && eng.ShortType(ix.X.Type()) == eng.ShortType(a.Type()) {
							seen++
							if !isAllDbs(ix.X, 0) {
								ok = false
							}
						}
					}
					return false
				})
				k.Require("tx-snapshot-covers-all-dbs", eng.Name(fn)+"#databases", "the databases given a start point are collected from the provider's full DoltDatabases() list", ok && seen > 0, c.InstrPos(call.(ssa.Instruction)), "the list of snapshotted databases is not (only) drawn from DoltDatabases(): a database left out is pinned at its first reference, not at transaction start")
			}
		}
		if n < 1 {
			k.Unknown("tx-snapshot-covers-all-dbs", eng.Name(fn), "the database list handed to NewDoltTransaction", "not found")
		}
	}
	if fn := k.Fn("(*libraries/doltcore/doltdb.DoltDB).getHashFromCommitSpec"); fn != nil {
		mLive := eng.Static("(*libraries/doltcore/doltdb.DoltDB).GetHashForRefStr")
		n := 0
		for _, g := range eng.WithAnons(fn) {
			live := eng.CallSet(g, mLive)
			if live.Len() == 0 {
				continue
			}
			n += live.Len()
			k.FuncsSeen[g] = true
			empty := eng.CondEdgesP(g, func(v ssa.Value) bool {
				call, ok := v.(*ssa.Call)
				return ok && eng.CalleeName(call) == "(store/hash.Hash).IsEmpty"
			}, true)
			k.OnlyAfter("resolve-at-root-never-live", g, "the live ref resolver is reached only where no noms root was given (root.IsEmpty())", live, 1, empty)
		}
		if n < 1 {
			k.Unknown("resolve-at-root-never-live", eng.Name(fn), "live GetHashForRefStr calls", "none found (floor 1)")
		}
	}
}
