package rules

import (
	"fmt"
	"go/token"
	"strings"

	"dvcheck/internal/eng"

	"golang.org/x/tools/go/ssa"
)

func init() {
	Registry["C04"] = &Rule{
		Explanation: "Decides that the journal index is only ever used after validation against the journal and that any problem with it falls back to a full replay: (1) in the batch callback of readJournalIndex a batch of lookups is handed to the range map, and the indexed high-water mark advanced, only past the checksum comparison, the contiguity comparison, and a root-hash record read from the journal at the batch end (error-checked) that equals the recorded root; the hash is read from the journal handle at the batch's own end offset; (2) every error of readJournalIndex leads, before loadJournalIndex can succeed, through corruptIndexRecovery, which resets the replay offset, the indexed mark, the size counter and the range map; the only error loadJournalIndex returns for index problems is from obtaining a writable handle or from that recovery; (3) the replay that follows starts at the indexed mark (so a reset mark means a full replay); (4) no index mutation when opened read-only (shared guard rules of C41). Does not decide equality of the recovered chunk set with an index-free replay (value level).",
		RuleText:    "CFG cut-reachability on the callback literal (three validation cuts before use), error-edge must-pass to the recovery routine, reset-completeness by field-store sets, shared guard rules",
		Assumptions: []string{"CRC32 over the batch addresses detects a damaged batch"},
		Patterns:    []string{"./store/nbs", "./libraries/utils/errors"},
		Run:         runC04,
	}
}

func runC04(k *eng.Check, tier string) {
	c := k.C
	// ---- (1) the batch callback
	var cb *ssa.Function
	if top := k.Fn("(*store/nbs.journalWriter).readJournalIndex"); top != nil {
		for _, f := range eng.WithAnons(top) {
			if len(eng.Calls(f, eng.Static("store/nbs.peekRootHashAt"), false)) > 0 {
				cb = f
			}
		}
		if cb == nil {
			k.Unknown("index-batch-validated", eng.Name(top), "the batch callback (calls peekRootHashAt)", "not found")
		}
	}
	if cb != nil {
		k.FuncsSeen[cb] = true
		uses := eng.NewSet()
		// use 1: sending the batch to the consumer (a select/send whose value is the batch parameter)
		for _, b := range cb.Blocks {
			for _, in := range b.Instrs {
				switch x := in.(type) {
				case *ssa.Select:
					for _, st := range x.States {
						if st.Dir == 1 && st.Send != nil { // types.SendOnly
							uses.AddI(x)
						}
					}
				case *ssa.Send:
					uses.AddI(x)
				}
			}
		}
		// use 2: advancing the indexed mark
		uses.AddI(eng.FieldStores(cb, `store/nbs\.journalWriter$`, "indexed")...)
		if uses.Len() < 2 {
			k.Unknown("index-batch-validated", eng.Name(cb), "uses of a batch (send to the range map, advance of wr.indexed)", fmt.Sprintf("%d found (floor 2)", uses.Len()))
		}
		crcOK := eng.CondEdgesP(cb, func(v ssa.Value) bool {
			b, ok := eng.IsCompare(v, token.NEQ)
			return ok && eng.Mentions(b.X, eng.IsField("store/nbs.lookupMeta.checkSum")) != eng.Mentions(b.Y, eng.IsField("store/nbs.lookupMeta.checkSum"))
		}, false)
		contig := eng.CondEdgesP(cb, func(v ssa.Value) bool {
			b, ok := eng.IsCompare(v, token.NEQ)
			return ok && (eng.Mentions(b.X, eng.IsField("store/nbs.lookupMeta.batchStart")) || eng.Mentions(b.Y, eng.IsField("store/nbs.lookupMeta.batchStart")))
		}, false)
		peekOK := k.OkCalls(cb, "peek", eng.Static("store/nbs.peekRootHashAt"))
		hashOK := eng.CondEdgesP(cb, func(v ssa.Value) bool {
			b, ok := eng.IsCompare(v, token.NEQ)
			if !ok {
				return false
			}
			p := eng.IsCall(eng.Static("store/nbs.peekRootHashAt"))
			f := eng.IsField("store/nbs.lookupMeta.latestHash")
			return (eng.Mentions(b.X, p) && eng.Mentions(b.Y, f)) || (eng.Mentions(b.Y, p) && eng.Mentions(b.X, f))
		}, false)
		k.OnlyAfter("index-batch-validated", cb, "a batch is used only past the checksum comparison", uses, 2, crcOK)
		k.OnlyAfter("index-batch-validated", cb, "a batch is used only past the contiguity comparison (batchStart == previous batchEnd)", uses, 2, contig)
		k.OnlyAfter("index-batch-validated", cb, "a batch is used only after the root-hash record at its end offset was read from the journal without error", uses, 2, peekOK)
		k.OnlyAfter("index-batch-validated", cb, "a batch is used only when that journal record holds the root recorded in the index", uses, 2, hashOK)
		for _, call := range eng.Calls(cb, eng.Static("store/nbs.peekRootHashAt"), false) {
			a := call.Common().Args
			ok := len(a) == 2 && eng.MentionsDeep(a[0], eng.IsField("store/nbs.journalWriter.journal")) && eng.MentionsDeep(a[1], eng.IsField("store/nbs.lookupMeta.batchEnd"))
			k.Require("index-batch-validated", eng.Name(cb)+"#peek-args", "the root record is read from the journal file at the batch's own end offset", ok, c.InstrPos(call.(ssa.Instruction)), "peekRootHashAt arguments are not (wr.journal, m.batchEnd)")
		}
		// contiguity state advances with every accepted batch
		prevStore := false
		for _, b := range cb.Blocks {
			for _, in := range b.Instrs {
				if st, ok := in.(*ssa.Store); ok {
					if _, isFV := st.Addr.(*ssa.FreeVar); isFV && eng.Mentions(st.Val, eng.IsField("store/nbs.lookupMeta.batchEnd")) {
						prevStore = true
					}
				}
			}
		}
		k.Require("index-batch-validated", eng.Name(cb)+"#prev-advances", "the contiguity cursor advances to the batch end", prevStore, c.Pos(cb.Pos()), "no store of m.batchEnd into the captured cursor")
	}

	// ---- (2) fallback on any error
	mRead := eng.Static("(*store/nbs.journalWriter).readJournalIndex")
	mRecover := eng.Static("(*store/nbs.journalWriter).corruptIndexRecovery")
	if fn := k.Fn("(*store/nbs.journalWriter).loadJournalIndex"); fn != nil {
		for _, call := range eng.Calls(fn, mRead, false) {
			ok := eng.OkCut(call)
			errEdges := eng.NewSet()
			for e := range ok.E {
				errEdges.AddE(eng.Edge{From: e.From, Succ: 1 - e.Succ})
			}
			if errEdges.Len() == 0 {
				k.Fail("index-error-falls-back", eng.Name(fn)+"#read-error", "the error of readJournalIndex is tested", c.InstrPos(call.(ssa.Instruction)), "error not tested", nil)
				continue
			}
			k.OnlyAfter("index-error-falls-back", fn, "after readJournalIndex failed, loadJournalIndex succeeds only after corruptIndexRecovery returned nil", eng.SuccessExits(fn), 1, k.OkCalls(fn, "recover", mRecover), eng.EdgeTargets(errEdges)...)
			// and the read error itself is never returned to the caller
			vals, unknown := eng.ResultValuesFromEdges(fn, errEdges, 0)
			bad := unknown
			for _, v := range vals {
				if eng.Mentions(v, eng.IsCall(mRead)) && !eng.MentionsDeep(v, eng.IsCall(mRecover)) {
					// returned value derives from the read error directly (not wrapped recovery error)
					if cc, isCall := v.(*ssa.Call); !isCall || !strings.Contains(eng.CalleeName(cc), "Errorf") {
						bad = true
					}
				}
			}
			k.Require("index-error-falls-back", eng.Name(fn)+"#read-error-not-returned", "a failure to read or validate the index is never returned to the caller (the index is an accelerator)", !bad, c.InstrPos(call.(ssa.Instruction)), "the read error can reach the caller")
		}
	}
	if fn := k.Fn("(*store/nbs.journalWriter).corruptIndexRecovery"); fn != nil {
		// the recovery routine and the helpers it calls
		recClosure := c.StaticClosure([]*ssa.Function{fn}, func(p string) bool { return p == "store/nbs" }, 2)
		for _, f := range []string{"off", "indexed", "uncmpSz", "ranges"} {
			var st []ssa.Instruction
			for _, g := range recClosure {
				st = append(st, eng.FieldStores(g, `store/nbs\.journalWriter$`, f)...)
			}
			k.Require("index-reset-complete", eng.Name(fn)+"#"+f, "index recovery resets journalWriter."+f+" (state populated while loading the index)", len(st) >= 1, c.Pos(fn.Pos()), "field not reset: stale index state would survive the fallback")
		}
		// fields written by the index loader must be a subset of what recovery resets
		reset := map[string]bool{"off": true, "indexed": true, "uncmpSz": true, "ranges": true}
		if rd := c.Func("(*store/nbs.journalWriter).readJournalIndex"); rd != nil {
			for _, f := range eng.WithAnons(rd) {
				for _, b := range f.Blocks {
					for _, in := range b.Instrs {
						if st, ok := in.(*ssa.Store); ok {
							fnm := eng.FieldName(st.Addr)
							if strings.HasPrefix(fnm, "store/nbs.journalWriter.") {
								fld := strings.TrimPrefix(fnm, "store/nbs.journalWriter.")
								k.Require("index-reset-complete", "readJournalIndex-writes#"+fld, "every journalWriter field the index loader writes is reset by corruptIndexRecovery", reset[fld], c.InstrPos(in), "index loader writes journalWriter."+fld+" which the recovery does not reset")
							}
						}
					}
				}
			}
		}
	}
	// ---- (3) the replay starts at the indexed mark
	if fn := k.Fn("(*store/nbs.journalWriter).bootstrapJournal"); fn != nil {
		for _, call := range eng.Calls(fn, eng.Static("store/nbs.processJournalRecords"), false) {
			a := call.Common().Args
			ok := len(a) >= 5 && eng.Mentions(a[4], eng.IsField("store/nbs.journalWriter.indexed"))
			k.Require("replay-from-indexed-mark", eng.Name(fn), "the journal replay starts at journalWriter.indexed", ok, c.InstrPos(call.(ssa.Instruction)), "replay offset is not wr.indexed")
		}
		k.OnlyAfter("replay-from-indexed-mark", fn, "the replay runs only after the index was loaded (or discarded)", eng.CallSet(fn, eng.Static("store/nbs.processJournalRecords")), 1, k.OkCalls(fn, "load", eng.Static("(*store/nbs.journalWriter).loadJournalIndex")))
	}
	// ---- (4) shared read-only guards
	checkCanWriteGuards(k)
}
