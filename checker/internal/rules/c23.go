package rules

import (
	"fmt"
	"go/token"
	"go/types"
	"strings"

	"dvcheck/internal/eng"

	"golang.org/x/tools/go/ssa"
)

func init() {
	Registry["C23"] = &Rule{
		Explanation: "Decides the shape of the transaction commit in sqle/dsess. In the per-attempt closure of DoltTransaction.doCommit: every call of the write function is reachable only after the per-working-set commit lock was taken (released only by defer, never before a write), after the persisted working set was read inside the lock, and after validateAmendedHead and validateWorkingSetForCommit succeeded on the very working set that is written; the compare-and-swap token passed to the write function is HashOf() of that same in-lock read; a working set that is not the merge result of (start state, in-lock read, transaction working set) is written only on the fast-forward edges (in-lock read equals the start state, or no working set existed); an optimistic-lock failure of the write yields a nil working set (another loop iteration) and any other error is propagated; doCommit reports success only with a non-nil working set returned by an attempt. In mergeRoots: each three-way merge takes ours from the in-lock read, theirs from the transaction's working set, and the ancestor from the start state, all through the same root accessor, its result is installed with the matching With*Root on the returned working set, and it is skipped only when the two roots are equal. In the write functions (txCommit, doltCommit): the working set and the CAS token handed to the store are the function's parameters, the store's error is propagated; doltCommit takes the staged root from the merged working set, and when the branch head moved it merges (ours=staged, theirs=current head root, ancestor=transaction head) before the store call and commits the merged root. Cell-wise merge semantics and final-state equality are not decided.",
		RuleText:    "cut-reachability on the SSA CFG of the attempt closure, mergeRoots and the write functions; argument provenance through captured variables, phis and WorkingSet With*/ClearMerge receiver chains; role agreement of merge arguments",
		Assumptions: []string{
			"the three consecutive doltdb.RootValue parameters of merge.MergeRoots are (ours, theirs, ancestor) in that order",
			"DoltDB.UpdateWorkingSet / CommitWithWorkingSet fail with ErrOptimisticLockFailed when the stored working set hash differs from the hash argument (that is C02/C20)",
		},
		Patterns: []string{"./libraries/doltcore/sqle/dsess"},
		Run:      runC23,
	}
}

const (
	c23Dsess  = "libraries/doltcore/sqle/dsess"
	c23Doltdb = "libraries/doltcore/doltdb"
	c23WsPtr  = "*libraries/doltcore/doltdb.WorkingSet"
)

var (
	c23mLock        = eng.Method(`^libraries/utils/keymutex\.Keymutex$`, "Lock")
	c23mUnlock      = eng.Method(`^libraries/utils/keymutex\.Keymutex$`, "Unlock")
	c23mResolveWS   = eng.Static("(*libraries/doltcore/doltdb.DoltDB).ResolveWorkingSet")
	c23mResolveRoot = eng.Static("(*libraries/doltcore/doltdb.DoltDB).ResolveWorkingSetAtRoot")
	c23mEmptyWS     = eng.Static("libraries/doltcore/doltdb.EmptyWorkingSet")
	c23mValidateWS  = eng.Static("(*libraries/doltcore/sqle/dsess.DoltTransaction).validateWorkingSetForCommit")
	c23mValidateAm  = eng.Static("(*libraries/doltcore/sqle/dsess.DoltTransaction).validateAmendedHead")
	c23mMergeRoots  = eng.Static("libraries/doltcore/merge.MergeRoots")
	c23mTxMerge     = eng.Static("(*libraries/doltcore/sqle/dsess.DoltTransaction).mergeRoots")
	c23mStoreOps    = eng.Static("(*libraries/doltcore/doltdb.DoltDB).UpdateWorkingSet", "(*libraries/doltcore/doltdb.DoltDB).CommitWithWorkingSet")
)

// ---------------------------------------------------------------------------
// value provenance helpers (shared by C23, C24, C28)

func c23strip(v ssa.Value) ssa.Value {
	for {
		switch x := v.(type) {
		case *ssa.MakeInterface:
			v = x.X
		case *ssa.ChangeInterface:
			v = x.X
		case *ssa.ChangeType:
			v = x.X
		default:
			return v
		}
	}
}

// c23closureSites finds the MakeClosure instructions that create fn.
func c23closureSites(fn *ssa.Function) []*ssa.MakeClosure {
	var out []*ssa.MakeClosure
	p := fn.Parent()
	if p == nil {
		return nil
	}
	for _, f := range eng.WithAnons(p) {
		for _, b := range f.Blocks {
			for _, in := range b.Instrs {
				if mc, ok := in.(*ssa.MakeClosure); ok && mc.Fn == ssa.Value(fn) {
					out = append(out, mc)
				}
			}
		}
	}
	return out
}

// c23cellStores lists every value stored into the variable cell (an Alloc, or a FreeVar bound to
// one), in the defining function and in every closure that captures it.
func c23cellStores(cell ssa.Value, seen map[ssa.Value]bool) []ssa.Value {
	if cell == nil || seen[cell] {
		return nil
	}
	seen[cell] = true
	var out []ssa.Value
	refs := cell.Referrers()
	if refs != nil {
		for _, ref := range *refs {
			switch r := ref.(type) {
			case *ssa.Store:
				if r.Addr == cell {
					out = append(out, r.Val)
				}
			case *ssa.MakeClosure:
				f, ok := r.Fn.(*ssa.Function)
				if !ok {
					continue
				}
				for i, bnd := range r.Bindings {
					if bnd == cell && i < len(f.FreeVars) {
						out = append(out, c23cellStores(f.FreeVars[i], seen)...)
					}
				}
			}
		}
	}
	if fv, ok := cell.(*ssa.FreeVar); ok {
		fn := fv.Parent()
		idx := -1
		for i, x := range fn.FreeVars {
			if x == fv {
				idx = i
			}
		}
		for _, mc := range c23closureSites(fn) {
			if idx >= 0 && idx < len(mc.Bindings) {
				out = append(out, c23cellStores(mc.Bindings[idx], seen)...)
			}
		}
	}
	return out
}

// c23origins returns the values that may define v: interface/type conversions are stripped,
// phis are expanded, loads of local or captured variables are replaced by everything stored
// into the variable (flow-insensitive, across the closures that share it).
func c23origins(v ssa.Value) []ssa.Value {
	var out []ssa.Value
	seen := map[ssa.Value]bool{}
	cells := map[ssa.Value]bool{}
	var walk func(v ssa.Value)
	walk = func(v ssa.Value) {
		v = c23strip(v)
		if v == nil || seen[v] {
			return
		}
		seen[v] = true
		switch x := v.(type) {
		case *ssa.Phi:
			for _, e := range x.Edges {
				walk(e)
			}
			return
		case *ssa.UnOp:
			if x.Op == token.MUL {
				switch a := x.X.(type) {
				case *ssa.Alloc, *ssa.FreeVar:
					vals := c23cellStores(a, cells)
					for _, s := range vals {
						walk(s)
					}
					if _, isFV := a.(*ssa.FreeVar); !isFV && len(vals) == 0 {
						out = append(out, v)
					}
					return
				}
			}
		}
		out = append(out, v)
	}
	walk(v)
	return out
}

// c23callResult: v is result #idx of a call matching m (idx < 0: the single result).
func c23callResult(v ssa.Value, m eng.CallM, idx int) *ssa.Call {
	v = c23strip(v)
	if ex, ok := v.(*ssa.Extract); ok {
		if idx >= 0 && ex.Index != idx {
			return nil
		}
		if c, ok := ex.Tuple.(*ssa.Call); ok && m(c) {
			return c
		}
		return nil
	}
	if c, ok := v.(*ssa.Call); ok && m(c) {
		if idx > 0 {
			return nil
		}
		return c
	}
	return nil
}

func c23allOrigins(v ssa.Value, pred func(ssa.Value) bool) bool {
	os := c23origins(v)
	if len(os) == 0 {
		return false
	}
	for _, o := range os {
		if !pred(o) {
			return false
		}
	}
	return true
}

func c23anyOrigin(v ssa.Value, pred func(ssa.Value) bool) bool {
	for _, o := range c23origins(v) {
		if pred(o) {
			return true
		}
	}
	return false
}

// c23sameValue: a and b denote the same value when b is evaluated: identical SSA values, or two
// loads of the same variable with no store to it that can execute after a and before b.
func c23sameValue(a, b ssa.Value) bool {
	a, b = c23strip(a), c23strip(b)
	if a == b {
		return true
	}
	la, ok1 := a.(*ssa.UnOp)
	lb, ok2 := b.(*ssa.UnOp)
	if !ok1 || !ok2 || la.Op != token.MUL || lb.Op != token.MUL || la.X != lb.X {
		return false
	}
	if la.Parent() != lb.Parent() {
		return false
	}
	stores := eng.NewSet()
	if refs := la.X.Referrers(); refs != nil {
		for _, ref := range *refs {
			if st, ok := ref.(*ssa.Store); ok && st.Addr == la.X {
				stores.AddI(st)
			}
		}
	}
	if stores.Len() == 0 {
		return true
	}
	return len(eng.Reach(la.Parent(), []eng.Point{eng.After(la)}, stores, eng.NewSet().AddI(lb))) == 0
}

func c23typeIs(v ssa.Value, short string) bool {
	return v != nil && eng.ShortType(v.Type()) == short
}

// c23argsOfType returns the indices of the call arguments whose static type is short.
func c23argsOfType(c ssa.CallInstruction, short string) []int {
	var out []int
	for i, a := range c.Common().Args {
		if c23typeIs(a, short) {
			out = append(out, i)
		}
	}
	return out
}

// c23wsChain follows a *WorkingSet / WorkingSet value backwards through loads, phis, variable
// cells and the receiver position of WorkingSet methods that return a WorkingSet
// (WithWorkingRoot, WithStagedRoot, ClearMerge, ...).  It returns the leaves and the
// WorkingSet-returning method calls traversed.
func c23wsChain(v ssa.Value) (leaves []ssa.Value, via []*ssa.Call) {
	seen := map[ssa.Value]bool{}
	var walk func(v ssa.Value)
	walk = func(v ssa.Value) {
		for _, o := range c23origins(v) {
			if seen[o] {
				continue
			}
			seen[o] = true
			switch x := o.(type) {
			case *ssa.UnOp:
				if x.Op == token.MUL { // *ws (value copy of a pointer)
					walk(x.X)
					continue
				}
			case *ssa.Call:
				f := x.Call.StaticCallee()
				if f != nil && f.Signature.Recv() != nil && strings.HasSuffix(strings.TrimPrefix(eng.ShortType(f.Signature.Recv().Type()), "*"), c23Doltdb+".WorkingSet") &&
					strings.HasSuffix(eng.ShortType(x.Type()), c23Doltdb+".WorkingSet") && len(x.Call.Args) > 0 {
					via = append(via, x)
					walk(x.Call.Args[0])
					continue
				}
			}
			leaves = append(leaves, o)
		}
	}
	walk(v)
	return
}

func c23isParam(v ssa.Value, p *ssa.Parameter) bool { return p != nil && c23strip(v) == ssa.Value(p) }

func c23paramIndex(fn *ssa.Function, v ssa.Value) int {
	for i, p := range fn.Params {
		if ssa.Value(p) == c23strip(v) {
			return i
		}
	}
	return -1
}

// c23condIfs lists the If instructions of fn together with their conditions.
func c23ifs(fn *ssa.Function) []*ssa.If {
	var out []*ssa.If
	for _, b := range fn.Blocks {
		if len(b.Instrs) == 0 {
			continue
		}
		if iff, ok := b.Instrs[len(b.Instrs)-1].(*ssa.If); ok {
			out = append(out, iff)
		}
	}
	return out
}

func c23edge(iff *ssa.If, branch bool) eng.Edge {
	if branch {
		return eng.Edge{From: iff.Block(), Succ: 0}
	}
	return eng.Edge{From: iff.Block(), Succ: 1}
}

func c23starts(edges *eng.Set) []eng.Point {
	var out []eng.Point
	for e := range edges.E {
		out = append(out, eng.Point{B: e.To(), I: 0})
	}
	return out
}

func c23isNil(v ssa.Value) bool {
	c, ok := c23strip(v).(*ssa.Const)
	return ok && c.Value == nil
}

func c23globalLoad(v ssa.Value, suffix string) bool {
	u, ok := c23strip(v).(*ssa.UnOp)
	if !ok || u.Op != token.MUL {
		return false
	}
	g, ok := u.X.(*ssa.Global)
	return ok && strings.HasSuffix(g.String(), suffix)
}

// ---------------------------------------------------------------------------

type c23site struct {
	call    *ssa.Call
	ws      ssa.Value // working-set argument
	hash    ssa.Value // CAS token argument
	existWs ssa.Value // receiver of the HashOf call the token comes from
	merge   *ssa.Call // tx.mergeRoots call the working set comes from (nil: fast-forward site)
}

// c23writeImpls resolves the write functions handed to doCommit and the positions of the
// working-set and hash parameters, derived from what the implementations pass to the store.
type c23impls struct {
	fns     []*ssa.Function
	wsIdx   int
	hashIdx int
}

func c23findImpls(k *eng.Check, doCommit *ssa.Function, writeParamIdx int) *c23impls {
	c := k.C
	r := &c23impls{wsIdx: -1, hashIdx: -1}
	seen := map[*ssa.Function]bool{}
	for _, fn := range c.Funcs(c23Dsess) {
		for _, call := range eng.Calls(fn, eng.Static(eng.Name(doCommit)), true) {
			args := call.Common().Args
			if writeParamIdx >= len(args) {
				continue
			}
			switch f := c23strip(args[writeParamIdx]).(type) {
			case *ssa.Function:
				if !seen[f] {
					seen[f] = true
					r.fns = append(r.fns, f)
				}
			default:
				k.Unknown("write-impls", eng.Name(fn)+"#doCommit", "the write function handed to doCommit is a named function", "argument is "+eng.Desc(args[writeParamIdx], 3))
			}
		}
	}
	if len(r.fns) < 2 {
		k.Unknown("write-impls", eng.Name(doCommit), "write functions handed to doCommit", fmt.Sprintf("found %d, confirmed floor 2 (txCommit, doltCommit)", len(r.fns)))
	}
	for _, f := range r.fns {
		k.FuncsSeen[f] = true
		stores := eng.Calls(f, c23mStoreOps, false)
		if len(stores) != 1 {
			k.Unknown("write-impl-store", eng.Name(f), "a write function performs exactly one store call (UpdateWorkingSet / CommitWithWorkingSet)", fmt.Sprintf("found %d", len(stores)))
			continue
		}
		st := stores[0].(*ssa.Call)
		hs := c23argsOfType(st, "store/hash.Hash")
		ws := c23argsOfType(st, c23WsPtr)
		if len(hs) != 1 || len(ws) != 1 {
			k.Unknown("write-impl-store", eng.Name(f), "the store call takes one working set and one hash", fmt.Sprintf("found %d/%d", len(ws), len(hs)))
			continue
		}
		// CAS token: the parameter itself
		hi := c23paramIndex(f, st.Call.Args[hs[0]])
		k.Require("write-impl-token", eng.Name(f)+"#"+eng.CalleeName(st), "the hash handed to the store as compare-and-swap token is the write function's own hash parameter (never recomputed or re-read)", hi >= 0, c.InstrPos(st), "token argument is "+eng.Desc(st.Call.Args[hs[0]], 4))
		// working set: receiver chain of With*/ClearMerge ends in exactly one parameter
		leaves, _ := c23wsChain(st.Call.Args[ws[0]])
		wi := -1
		okLeaves := len(leaves) > 0
		for _, l := range leaves {
			pi := c23paramIndex(f, l)
			if pi < 0 || (wi >= 0 && pi != wi) {
				okLeaves = false
			}
			if pi >= 0 {
				wi = pi
			}
		}
		k.Require("write-impl-ws", eng.Name(f)+"#"+eng.CalleeName(st), "the working set handed to the store derives (through With*/ClearMerge) from exactly one working-set parameter of the write function", okLeaves && wi >= 0, c.InstrPos(st), "working-set argument is "+eng.Desc(st.Call.Args[ws[0]], 4))
		if hi >= 0 {
			if r.hashIdx >= 0 && r.hashIdx != hi {
				k.Unknown("write-impls", eng.Name(f), "all write functions agree on the hash parameter position", fmt.Sprintf("%d vs %d", r.hashIdx, hi))
			}
			r.hashIdx = hi
		}
		if okLeaves && wi >= 0 {
			if r.wsIdx >= 0 && r.wsIdx != wi {
				k.Unknown("write-impls", eng.Name(f), "all write functions agree on the working-set parameter position", fmt.Sprintf("%d vs %d", r.wsIdx, wi))
			}
			r.wsIdx = wi
		}
		// the store's own working-set ref argument belongs to the same working set
		// error propagation
		c23errPropagated(k, "write-impl-error", f, st)
		// success exits only after the store call
		k.OnlyAfter("write-impl-stores", f, "a write function reports success only after its store call", eng.C23SuccessExits(f), 1, eng.NewSet().AddI(st))
	}
	return r
}

// c23errPropagated: every return reachable after call either returns call's own error value,
// lies on the error path of that value, or is provably an error exit.
func c23errPropagated(k *eng.Check, rule string, fn *ssa.Function, call *ssa.Call) {
	evs := eng.ErrValues(call)
	if len(evs) != 1 {
		k.Unknown(rule, eng.Name(fn)+"#"+eng.CalleeName(call), "the store call's error is propagated", "no error result extracted (dropped)")
		return
	}
	ev := evs[0]
	var nonNilBlocks []*ssa.BasicBlock
	if refs := ev.Referrers(); refs != nil {
		for _, ref := range *refs {
			bo, ok := ref.(*ssa.BinOp)
			if !ok || (bo.Op != token.NEQ && bo.Op != token.EQL) || bo.Referrers() == nil {
				continue
			}
			other := bo.Y
			if bo.X != ev {
				other = bo.X
			}
			if !c23isNil(other) {
				continue
			}
			for _, rr := range *bo.Referrers() {
				if iff, ok := rr.(*ssa.If); ok {
					nn := iff.Block().Succs[0]
					if bo.Op == token.EQL {
						nn = iff.Block().Succs[1]
					}
					if len(nn.Preds) == 1 {
						nonNilBlocks = append(nonNilBlocks, nn)
					}
				}
			}
		}
	}
	rets := eng.NewSet()
	for _, b := range fn.Blocks {
		if len(b.Instrs) > 0 {
			if r, ok := b.Instrs[len(b.Instrs)-1].(*ssa.Return); ok {
				rets.AddI(r)
			}
		}
	}
	succ := eng.C23SuccessExits(fn)
	n := 0
	for _, h := range eng.Reach(fn, []eng.Point{eng.After(call)}, rets, nil) {
		ret := h.Instr.(*ssa.Return)
		n++
		errOp := ret.Results[len(ret.Results)-1]
		ok := c23strip(errOp) == ev || !succ.I[ret]
		if !ok {
			for _, nb := range nonNilBlocks {
				if nb.Dominates(ret.Block()) {
					ok = true
				}
			}
		}
		k.Require(rule, fmt.Sprintf("%s#%s#ret%d", eng.Name(fn), eng.CalleeName(call), n), "after the store call, every exit returns the store's own error, lies on its error path, or is an error exit (a failed write is never acknowledged)", ok, k.C.InstrPos(ret), "returns "+eng.Desc(errOp, 3))
	}
	if n == 0 {
		k.Unknown(rule, eng.Name(fn)+"#"+eng.CalleeName(call), "exits after the store call", "none reachable")
	}
}

func runC23(k *eng.Check, tier string) {
	doCommit := k.Fn("(*libraries/doltcore/sqle/dsess.DoltTransaction).doCommit")
	if doCommit == nil {
		return
	}
	c23core(k, doCommit, true)
}

// c23core runs the doCommit analysis; full=false restricts it to the obligations C24 re-uses
// (the validation gate in front of every write).
func c23core(k *eng.Check, doCommit *ssa.Function, full bool) {
	c := k.C
	// the write-function parameter: the unique parameter of function type
	var writeParam *ssa.Parameter
	writeIdx := -1
	for i, p := range doCommit.Params {
		if _, ok := p.Type().Underlying().(*types.Signature); ok {
			if writeParam != nil {
				k.Unknown("anchor", eng.Name(doCommit), "doCommit has exactly one function-typed parameter (the write function)", "several found")
				return
			}
			writeParam, writeIdx = p, i
		}
	}
	var txWs *ssa.Parameter
	for _, p := range doCommit.Params {
		if eng.ShortType(p.Type()) == c23WsPtr {
			if txWs != nil {
				k.Unknown("anchor", eng.Name(doCommit), "doCommit has exactly one *WorkingSet parameter", "several found")
				return
			}
			txWs = p
		}
	}
	if writeParam == nil || txWs == nil {
		k.Unknown("anchor", eng.Name(doCommit), "doCommit takes the transaction's working set and a write function", "parameters not found")
		return
	}
	isWrite := func(ci ssa.CallInstruction) bool {
		cc := ci.Common()
		if cc.IsInvoke() || cc.StaticCallee() != nil {
			return false
		}
		return c23allOrigins(cc.Value, func(o ssa.Value) bool { return o == ssa.Value(writeParam) })
	}
	var attempts []*ssa.Function
	for _, f := range eng.WithAnons(doCommit) {
		if len(eng.Calls(f, isWrite, true)) > 0 {
			attempts = append(attempts, f)
		}
	}
	if len(attempts) != 1 || attempts[0] == doCommit {
		k.Unknown("anchor", eng.Name(doCommit), "exactly one function literal of doCommit (the per-attempt closure) invokes the write function", fmt.Sprintf("found %d invoking functions", len(attempts)))
		return
	}
	L := attempts[0]
	k.FuncsSeen[L] = true

	var impls *c23impls
	if full {
		impls = c23findImpls(k, doCommit, writeIdx)
	} else {
		impls = c23findImplsQuiet(k, doCommit, writeIdx)
	}
	if impls.wsIdx < 0 || impls.hashIdx < 0 {
		k.Unknown("write-impls", eng.Name(doCommit), "positions of the working-set and hash parameters of the write function", "could not be derived from the implementations")
		return
	}

	writes := eng.NewSet()
	var sites []*c23site
	for _, ci := range eng.Calls(L, isWrite, true) {
		call, ok := ci.(*ssa.Call)
		if !ok {
			k.Fail("write-sites", eng.Name(L)+"#write", "the write function is called synchronously", c.InstrPos(ci.(ssa.Instruction)), "deferred or go call of the write function", nil)
			continue
		}
		writes.AddI(call)
		args := call.Call.Args
		if impls.wsIdx >= len(args) || impls.hashIdx >= len(args) {
			k.Unknown("write-sites", eng.Name(L)+"#write", "write call arity", "fewer arguments than the implementations take")
			continue
		}
		sites = append(sites, &c23site{call: call, ws: args[impls.wsIdx], hash: args[impls.hashIdx]})
	}
	if len(sites) < 2 {
		k.Unknown("write-sites", eng.Name(L), "calls of the write function in the attempt closure", fmt.Sprintf("found %d, confirmed floor 2 (fast-forward and merged)", len(sites)))
		return
	}

	// ---- validation gate (also C24)
	valOK := k.OkCalls(L, "validateWS", c23mValidateWS)
	k.OnlyAfter("validate-before-write", L, "the write function is reached only after validateWorkingSetForCommit returned nil", writes, 2, valOK)
	for i, s := range sites {
		// the validated working set is the one written: some validate call whose ok-edge cuts this
		// site takes the same value
		same := false
		for _, vc := range eng.Calls(L, c23mValidateWS, false) {
			ws := c23argsOfType(vc, c23WsPtr)
			if len(ws) != 1 {
				continue
			}
			if !c23sameValue(vc.Common().Args[ws[0]], s.ws) {
				continue
			}
			if len(eng.Reach(L, nil, eng.NewSet().AddI(s.call), eng.OkCut(vc))) == 0 {
				same = true
			}
		}
		k.Require("validated-is-written", fmt.Sprintf("%s#write%d", eng.Name(L), i+1), "the working set handed to the write function is the value that validateWorkingSetForCommit accepted on every path to the call", same, c.InstrPos(s.call), "no dominating validation of "+eng.Desc(s.ws, 3))
	}
	if !full {
		return
	}
	k.OnlyAfter("amend-check-before-write", L, "the write function is reached only after validateAmendedHead returned nil", writes, 2, k.OkCalls(L, "validateAmend", c23mValidateAm))

	// ---- lock
	isTxLock := func(m eng.CallM) eng.CallM {
		return func(ci ssa.CallInstruction) bool {
			if !m(ci) {
				return false
			}
			cc := ci.Common()
			var recv ssa.Value
			if cc.IsInvoke() {
				recv = cc.Value
			} else if len(cc.Args) > 0 {
				recv = cc.Args[0]
			}
			return c23fromTxLocks(recv, 0)
		}
	}
	lockOK := k.OkCalls(L, "txlock", isTxLock(c23mLock))
	k.OnlyAfter("lock-before-write", L, "the write function is reached only after the commit lock (TxLocks().Lock) was acquired", writes, 2, lockOK)
	reads := eng.CallSet(L, c23mResolveWS)
	k.OnlyAfter("read-inside-lock", L, "the persisted working set is read only after the commit lock was acquired", reads, 1, lockOK)
	unlocks := eng.Calls(L, isTxLock(c23mUnlock), true)
	// an Unlock inside a literal that L only defers is a deferred Unlock of L
	inDeferredLit := map[ssa.CallInstruction]bool{}
	for _, b := range L.Blocks {
		for _, in := range b.Instrs {
			mc, ok := in.(*ssa.MakeClosure)
			if !ok || mc.Referrers() == nil || len(*mc.Referrers()) == 0 {
				continue
			}
			onlyDeferred := true
			for _, r := range *mc.Referrers() {
				if _, isD := r.(*ssa.Defer); !isD {
					onlyDeferred = false
				}
			}
			if lit, isF := mc.Fn.(*ssa.Function); isF && onlyDeferred {
				for _, u := range eng.Calls(lit, isTxLock(c23mUnlock), true) {
					unlocks = append(unlocks, u)
					inDeferredLit[u] = true
				}
			}
		}
	}
	if len(unlocks) < 1 {
		k.Fail("unlock-after-write", eng.Name(L)+"#Unlock", "the commit lock is released", c.Pos(L.Pos()), "no TxLocks().Unlock in the attempt closure", nil)
	}
	var lockKeys []ssa.Value
	for _, lc := range eng.Calls(L, isTxLock(c23mLock), false) {
		a := lc.Common().Args
		if len(a) > 0 {
			lockKeys = append(lockKeys, a[len(a)-1])
		}
	}
	for i, u := range unlocks {
		key := fmt.Sprintf("%s#Unlock%d", eng.Name(L), i+1)
		if _, isDefer := u.(*ssa.Defer); !isDefer && !inDeferredLit[u] {
			hits := eng.Reach(L, []eng.Point{eng.After(u.(ssa.Instruction))}, eng.UnionOf(writes, reads), nil)
			k.Require("unlock-after-write", key, "a direct (non-deferred) Unlock is never followed by the in-lock read or a write", len(hits) == 0, c.InstrPos(u.(ssa.Instruction)), "the lock is released before the working set is read/written")
		} else {
			k.Pass("unlock-after-write", key, "Unlock is deferred: the lock is held until the attempt returns", 1)
		}
		a := u.Common().Args
		same := len(a) > 0 && len(lockKeys) > 0
		for _, lk := range lockKeys {
			if len(a) == 0 || !c23sameCell(c23outerCell(lk), c23outerCell(a[len(a)-1])) {
				same = false
			}
		}
		k.Require("lock-key", key, "Unlock releases the key that Lock acquired", same, c.InstrPos(u.(ssa.Instruction)), "different key expressions")
	}

	// ---- CAS token and merged working set
	isResolveWS := func(o ssa.Value) bool {
		rc := c23callResult(o, c23mResolveWS, 0)
		return rc != nil && rc.Parent() == L
	}
	isEmptyWS := func(o ssa.Value) bool { return c23callResult(o, c23mEmptyWS, -1) != nil }
	isStart := func(v ssa.Value) bool {
		return c23allOrigins(v, func(o ssa.Value) bool { return c23callResult(o, c23mResolveRoot, 0) != nil })
	}
	isTx := func(v ssa.Value) bool {
		return c23anyOrigin(v, func(o ssa.Value) bool { return o == ssa.Value(txWs) })
	}
	mHashOf := eng.Static("(*libraries/doltcore/doltdb.WorkingSet).HashOf")
	nMerged, nFF := 0, 0
	var mergeCalls []*ssa.Call
	for i, s := range sites {
		key := fmt.Sprintf("%s#write%d", eng.Name(L), i+1)
		hc := c23callResult(s.hash, mHashOf, 0)
		okTok := hc != nil && len(hc.Call.Args) == 1
		if okTok {
			s.existWs = hc.Call.Args[0]
			okTok = c23allOrigins(s.existWs, func(o ssa.Value) bool { return isResolveWS(o) || isEmptyWS(o) })
		}
		k.Require("token-from-inlock-read", key, "the compare-and-swap token is HashOf() of the working set read inside the lock in this attempt (or of the empty working set when none exists)", okTok, c.InstrPos(s.call), "token is "+eng.Desc(s.hash, 4))
		if !okTok {
			continue
		}
		// merged or fast-forward?
		var mc *ssa.Call
		merged := c23anyOrigin(s.ws, func(o ssa.Value) bool { return c23callResult(o, c23mTxMerge, 0) != nil })
		if merged {
			all := c23allOrigins(s.ws, func(o ssa.Value) bool {
				x := c23callResult(o, c23mTxMerge, 0)
				if x == nil || (mc != nil && mc != x) {
					return false
				}
				mc = x
				return true
			})
			if !all || mc == nil || mc.Parent() != L {
				k.Fail("merged-is-written", key, "the written working set is the result of one mergeRoots call of this attempt", c.InstrPos(s.call), "working-set argument mixes a merge result with other values: "+eng.Desc(s.ws, 4), nil)
				continue
			}
			s.merge = mc
			nMerged++
			mergeCalls = append(mergeCalls, mc)
			// roles at the call site: (start, existing, tx)
			wsArgs := c23argsOfType(mc, c23WsPtr)
			nStart, nExist, nTx := 0, 0, 0
			for _, ai := range wsArgs {
				a := mc.Call.Args[ai]
				switch {
				case c23sameValue(a, s.existWs):
					nExist++
				case isStart(a):
					nStart++
				case isTx(a):
					nTx++
				}
			}
			k.Require("merge-inputs", key, "mergeRoots receives the start state (ResolveWorkingSetAtRoot at the transaction's root), the very working set whose hash is the CAS token, and the transaction's working set", len(wsArgs) == 3 && nStart == 1 && nExist == 1 && nTx == 1, c.InstrPos(mc), fmt.Sprintf("start=%d existing=%d tx=%d of %d working-set arguments", nStart, nExist, nTx, len(wsArgs)))
			k.OnlyAfter("merge-inside-lock", L, "mergeRoots runs only after the commit lock was acquired", eng.NewSet().AddI(mc), 1, lockOK)
		} else {
			nFF++
			// fast-forward edges: workingAndStagedEqual(existing, start) true, or the "no working set existed" flag
			ff := c23ffEdges(L, s.existWs, isStart)
			k.OnlyAfter("unmerged-only-when-ff", L, fmt.Sprintf("write%d hands on a working set that is not a merge result, so it is reachable only on the fast-forward edges (in-lock read equals the start state, or no working set existed)", i+1), eng.NewSet().AddI(s.call), 1, ff)
			k.Require("ff-writes-tx-ws", key, "the fast-forward write hands on the transaction's own working set", isTx(s.ws), c.InstrPos(s.call), "working-set argument is "+eng.Desc(s.ws, 4))
		}
	}
	if nMerged < 1 || nFF < 1 {
		k.Unknown("write-sites", eng.Name(L), "one merged and one fast-forward write site", fmt.Sprintf("merged=%d ff=%d", nMerged, nFF))
	}

	// ---- retry mapping
	c23retry(k, doCommit, L, sites)

	// ---- mergeRoots roles
	if len(mergeCalls) > 0 {
		c23mergeRoots(k, mergeCalls[0], sites)
	}

	// ---- doltCommit head merge
	for _, f := range impls.fns {
		if len(eng.Calls(f, c23mMergeRoots, false)) > 0 {
			c23headMerge(k, f, impls)
		}
	}
}

// c23findImplsQuiet resolves the parameter positions without recording obligations (used by C24).
func c23findImplsQuiet(k *eng.Check, doCommit *ssa.Function, writeParamIdx int) *c23impls {
	sub := eng.NewCheck(k.ID, k.C)
	return c23findImpls(sub, doCommit, writeParamIdx)
}

// c23sameCell: two key expressions read the same variable / are the same value.
func c23sameCell(a, b ssa.Value) bool {
	a, b = c23strip(a), c23strip(b)
	if a == b {
		return true
	}
	la, ok1 := a.(*ssa.UnOp)
	lb, ok2 := b.(*ssa.UnOp)
	return ok1 && ok2 && la.Op == token.MUL && lb.Op == token.MUL && la.X == lb.X
}

// c23ffEdges: the CFG edges of L on which the attempt may write the transaction's working set
// unmerged: (a) true edge of `workingAndStagedEqual(existing, start)`-like pure comparison helper
// over exactly {existing, start}; (b) true edge of a boolean flag that is true only where the
// existing working set was replaced by EmptyWorkingSet (ErrWorkingSetNotFound).
func c23ffEdges(L *ssa.Function, existing ssa.Value, isStart func(ssa.Value) bool) *eng.Set {
	s := eng.NewSet()
	for _, iff := range c23ifs(L) {
		switch x := c23strip(iff.Cond).(type) {
		case *ssa.Call:
			f := x.Call.StaticCallee()
			if f == nil || eng.Name(f) != c23Dsess+".workingAndStagedEqual" || len(x.Call.Args) != 2 {
				continue
			}
			a0, a1 := x.Call.Args[0], x.Call.Args[1]
			if (c23sameValue(a0, existing) && isStart(a1)) || (c23sameValue(a1, existing) && isStart(a0)) {
				s.AddE(c23edge(iff, true))
			}
		case *ssa.Phi:
			// flag: every incoming value is a bool constant, and every `true` comes from a block
			// in which (or under which) EmptyWorkingSet is called
			ok, anyTrue := true, false
			empties := eng.Calls(L, c23mEmptyWS, false)
			for i, e := range x.Edges {
				cst, isC := e.(*ssa.Const)
				if !isC || cst.Value == nil {
					ok = false
					break
				}
				if cst.Value.ExactString() == "true" {
					anyTrue = true
					pred := x.Block().Preds[i]
					found := false
					for _, ec := range empties {
						if ec.Block().Dominates(pred) {
							found = true
						}
					}
					if !found {
						ok = false
					}
				}
			}
			if ok && anyTrue && x.Block().Dominates(iff.Block()) {
				s.AddE(c23edge(iff, true))
			}
		}
	}
	return s
}

// c23retry: optimistic-lock failures map to "try again", other errors are propagated, and
// doCommit acknowledges only a non-nil working set produced by an attempt.
func c23retry(k *eng.Check, doCommit, L *ssa.Function, sites []*c23site) {
	c := k.C
	rets := eng.NewSet()
	for _, b := range L.Blocks {
		if len(b.Instrs) > 0 {
			if r, ok := b.Instrs[len(b.Instrs)-1].(*ssa.Return); ok {
				rets.AddI(r)
			}
		}
	}
	accepted := eng.NewSet()
	for i, s := range sites {
		key := fmt.Sprintf("%s#write%d", eng.Name(L), i+1)
		evs := eng.ErrValues(s.call)
		if len(evs) != 1 {
			k.Fail("write-error-handled", key, "the write function's error is examined", c.InstrPos(s.call), "error result dropped", nil)
			continue
		}
		accepted.Union(eng.OkCut(s.call))
		// optimistic edges
		opt := eng.NewSet()
		if refs := evs[0].Referrers(); refs != nil {
			for _, ref := range *refs {
				bo, ok := ref.(*ssa.BinOp)
				if !ok || (bo.Op != token.EQL && bo.Op != token.NEQ) || bo.Referrers() == nil {
					continue
				}
				other := bo.Y
				if bo.X != evs[0] {
					other = bo.X
				}
				if !c23globalLoad(other, "store/datas.ErrOptimisticLockFailed") {
					continue
				}
				for _, rr := range *bo.Referrers() {
					if iff, ok := rr.(*ssa.If); ok {
						opt.AddE(c23edge(iff, bo.Op == token.EQL))
					}
				}
			}
		}
		if opt.Len() == 0 {
			k.Unknown("optimistic-retry", key, "the write error is compared with ErrOptimisticLockFailed", "no such comparison found")
			continue
		}
		accepted.Union(opt)
		n := 0
		for _, h := range eng.Reach(L, c23starts(opt), rets, nil) {
			ret := h.Instr.(*ssa.Return)
			n++
			k.Require("optimistic-retry", fmt.Sprintf("%s#ret%d", key, n), "after an optimistic-lock failure the attempt returns a nil working set (doCommit then loops; it never acknowledges)", c23provablyNil(ret.Results[0]), c.InstrPos(ret), "returns "+eng.Desc(ret.Results[0], 3))
		}
		if n == 0 {
			k.Unknown("optimistic-retry", key, "exits after an optimistic-lock failure", "none reachable")
		}
	}
	k.OnlyAfter("write-error-handled", L, "an attempt returns without error only after the write function succeeded or failed optimistically", eng.C23SuccessExits(L), 2, accepted)

	// doCommit: success only with the attempt's non-nil working set
	var attemptCall *ssa.Call
	for _, ci := range eng.Calls(doCommit, func(ci ssa.CallInstruction) bool {
		mc, ok := ci.Common().Value.(*ssa.MakeClosure)
		return ok && mc.Fn == ssa.Value(L)
	}, false) {
		attemptCall, _ = ci.(*ssa.Call)
	}
	if attemptCall == nil {
		k.Unknown("ack-needs-written-ws", eng.Name(doCommit), "doCommit invokes the attempt closure in place", "call not found")
		return
	}
	nonNil := eng.NewSet()
	var wsRes ssa.Value
	if refs := attemptCall.Referrers(); refs != nil {
		for _, ref := range *refs {
			if ex, ok := ref.(*ssa.Extract); ok && ex.Index == 0 {
				wsRes = ex
			}
		}
	}
	if wsRes != nil && wsRes.Referrers() != nil {
		for _, ref := range *wsRes.Referrers() {
			bo, ok := ref.(*ssa.BinOp)
			if !ok || (bo.Op != token.EQL && bo.Op != token.NEQ) || bo.Referrers() == nil {
				continue
			}
			other := bo.Y
			if bo.X != wsRes {
				other = bo.X
			}
			if !c23isNil(other) {
				continue
			}
			for _, rr := range *bo.Referrers() {
				if iff, ok := rr.(*ssa.If); ok {
					nonNil.AddE(c23edge(iff, bo.Op == token.NEQ))
				}
			}
		}
	}
	exits := eng.C23SuccessExits(doCommit)
	k.OnlyAfter("ack-needs-written-ws", doCommit, "doCommit reports success only on the edge where the attempt returned a non-nil working set", exits, 1, nonNil)
	k.OnlyAfter("ack-needs-written-ws", doCommit, "doCommit reports success only after the attempt returned without error", exits, 1, eng.OkCut(attemptCall))
	for in := range exits.I {
		ret := in.(*ssa.Return)
		k.Require("ack-needs-written-ws", eng.Name(doCommit)+"#result", "the working set doCommit returns is the one the attempt wrote", wsRes != nil && c23strip(ret.Results[0]) == wsRes, c.InstrPos(ret), "returns "+eng.Desc(ret.Results[0], 3))
	}
}

// c23provablyNil: v is the nil constant on every definition that reaches the use.
func c23provablyNil(v ssa.Value) bool {
	v = c23strip(v)
	if c23isNil(v) {
		return true
	}
	switch x := v.(type) {
	case *ssa.Phi:
		for _, e := range x.Edges {
			if !c23provablyNil(e) {
				return false
			}
		}
		return len(x.Edges) > 0
	case *ssa.UnOp:
		if x.Op != token.MUL {
			return false
		}
		stores, unknown := eng.C23ReachingStores(x)
		if unknown || len(stores) == 0 {
			return false
		}
		for _, st := range stores {
			if !c23provablyNil(st.Val) {
				return false
			}
		}
		return true
	}
	return false
}

// c23rootAccessor: v is `<ws>.WorkingRoot()` / `<ws>.StagedRoot()`; returns the accessor name and receiver.
func c23rootAccessor(v ssa.Value) (string, ssa.Value) {
	call, ok := c23strip(v).(*ssa.Call)
	if !ok {
		return "", nil
	}
	f := call.Call.StaticCallee()
	if f == nil || len(call.Call.Args) != 1 {
		return "", nil
	}
	switch eng.Name(f) {
	case "(*" + c23Doltdb + ".WorkingSet).WorkingRoot":
		return "Working", call.Call.Args[0]
	case "(*" + c23Doltdb + ".WorkingSet).StagedRoot":
		return "Staged", call.Call.Args[0]
	}
	return "", nil
}

// c23rootArgs: the indices of the three consecutive RootValue arguments (ours, theirs, ancestor) of merge.MergeRoots.
func c23rootArgs(m ssa.CallInstruction) []int {
	return c23argsOfType(m, c23Doltdb+".RootValue")
}

func c23mergeRoots(k *eng.Check, siteCall *ssa.Call, sites []*c23site) {
	_ = k.C
	fn := siteCall.Call.StaticCallee()
	if fn == nil || len(fn.Blocks) == 0 {
		k.Unknown("anchor", "mergeRoots", "the transaction merge function has a body", "not found")
		return
	}
	k.FuncsSeen[fn] = true
	// parameter roles from the call site
	var existWs ssa.Value
	for _, s := range sites {
		if s.merge == siteCall {
			existWs = s.existWs
		}
	}
	role := map[int]string{}
	for _, ai := range c23argsOfType(siteCall, c23WsPtr) {
		a := siteCall.Call.Args[ai]
		switch {
		case existWs != nil && c23sameValue(a, existWs):
			role[ai] = "existing"
		case c23allOrigins(a, func(o ssa.Value) bool { return c23callResult(o, c23mResolveRoot, 0) != nil }):
			role[ai] = "start"
		default:
			role[ai] = "tx"
		}
	}
	kinds := map[string]bool{}
	nMerges := c23mergeRootsIn(k, fn, role, kinds)
	if nMerges < 2 {
		// the two merges may have been moved into helper functions (phase split): follow one level of same-package
		// helpers, mapping the roles of the working-set arguments through the call
		isPhase := func(h *ssa.Function) bool {
			return h != nil && len(h.Blocks) > 0 && eng.FuncPkg(h) == eng.FuncPkg(fn) && len(eng.Calls(h, c23mMergeRoots, false)) > 0
		}
		var paramRoleTop func(v ssa.Value, depth int) string
		paramRoleTop = func(v ssa.Value, depth int) string {
			leaves, _ := c23wsChain(v)
			r := ""
			join := func(x string) bool {
				if x == "" || x == "?" || (r != "" && r != x) {
					return false
				}
				r = x
				return true
			}
			for _, l := range leaves {
				if pi := c23paramIndex(fn, l); pi >= 0 {
					if !join(role[pi]) {
						return "?"
					}
					continue
				}
				// the working set handed on by an earlier phase helper: it carries the role of the helper
				// parameter(s) every working set the helper returns is built on
				ex, ok := l.(*ssa.Extract)
				if !ok || ex.Index != 0 || depth > 2 {
					return "?"
				}
				hc, ok := ex.Tuple.(*ssa.Call)
				if !ok || !isPhase(hc.Call.StaticCallee()) {
					return "?"
				}
				h := hc.Call.StaticCallee()
				n := 0
				for in := range eng.C23SuccessExits(h).I {
					ret, ok := in.(*ssa.Return)
					if !ok || len(ret.Results) == 0 {
						return "?"
					}
					hl, _ := c23wsChain(ret.Results[0])
					for _, x := range hl {
						pi := c23paramIndex(h, x)
						if pi < 0 || pi >= len(hc.Call.Args) || !join(paramRoleTop(hc.Call.Args[pi], depth+1)) {
							return "?"
						}
						n++
					}
				}
				if n == 0 {
					return "?"
				}
			}
			return r
		}
		phaseCalls := eng.Calls(fn, func(q ssa.CallInstruction) bool { return isPhase(q.Common().StaticCallee()) }, false)
		// every phase's working set reaches the working set the merge function returns: directly, or as the
		// transaction working set handed to a later phase whose result does
		leafCalls := func(v ssa.Value) []ssa.CallInstruction {
			var out []ssa.CallInstruction
			leaves, _ := c23wsChain(v)
			for _, l := range leaves {
				if ex, ok := l.(*ssa.Extract); ok && ex.Index == 0 {
					for _, pc := range phaseCalls {
						if ssa.Value(pc.(*ssa.Call)) == ex.Tuple {
							out = append(out, pc)
						}
					}
				}
			}
			return out
		}
		reached := map[ssa.CallInstruction]bool{}
		var work []ssa.CallInstruction
		for in := range eng.C23SuccessExits(fn).I {
			if ret, ok := in.(*ssa.Return); ok && len(ret.Results) > 0 {
				work = append(work, leafCalls(ret.Results[0])...)
			}
		}
		for len(work) > 0 {
			pc := work[len(work)-1]
			work = work[:len(work)-1]
			if reached[pc] {
				continue
			}
			reached[pc] = true
			for _, ai := range c23argsOfType(pc, c23WsPtr) {
				if paramRoleTop(pc.Common().Args[ai], 0) == "tx" {
					work = append(work, leafCalls(pc.Common().Args[ai])...)
				}
			}
		}
		for _, pc := range phaseCalls {
			h := pc.Common().StaticCallee()
			k.Require("merge-result-installed", eng.Name(fn)+"#"+eng.Name(h)+"#result-kept", "the working set produced by a merge phase reaches the working set the merge function returns", reached[pc], k.C.InstrPos(pc.(ssa.Instruction)), "the phase's result is discarded: its merged root is lost")
		}
		for _, ci := range phaseCalls {
			h := ci.Common().StaticCallee()
			hrole := map[int]string{}
			for _, ai := range c23argsOfType(ci, c23WsPtr) {
				hrole[ai] = paramRoleTop(ci.Common().Args[ai], 0)
			}
			k.FuncsSeen[h] = true
			nMerges += c23mergeRootsIn(k, h, hrole, kinds)
			// the helper's verdict is consumed: success of the merge function only after the helper returned nil
			k.OnlyAfter("merge-result-installed", fn, "the merge function succeeds only after its phase helper "+eng.Name(h)+" returned nil", eng.C23SuccessExits(fn), 1, eng.OkCut(ci))
		}
	}
	if nMerges < 2 {
		k.Unknown("merge-roles", eng.Name(fn), "merge.MergeRoots calls (working and staged)", fmt.Sprintf("found %d, confirmed floor 2", nMerges))
	}
	if !kinds["Working"] || !kinds["Staged"] {
		k.Unknown("merge-roles", eng.Name(fn), "both the working and the staged roots are merged", fmt.Sprintf("kinds found: %v", kinds))
	}
}

// c23mergeRootsIn applies the per-merge role / install / skip rules inside fn, whose working-set parameters carry
// the given roles ("existing", "start", "tx"); it returns the number of merge.MergeRoots calls it found.
func c23mergeRootsIn(k *eng.Check, fn *ssa.Function, role map[int]string, kinds map[string]bool) int {
	c := k.C
	paramRole := func(v ssa.Value) string {
		leaves, _ := c23wsChain(v)
		r := ""
		for _, l := range leaves {
			pi := c23paramIndex(fn, l)
			if pi < 0 {
				return "?"
			}
			if r != "" && r != role[pi] {
				return "?"
			}
			r = role[pi]
		}
		return r
	}
	merges := eng.Calls(fn, c23mMergeRoots, false)
	exits := eng.C23SuccessExits(fn)
	for _, mi := range merges {
		m := mi.(*ssa.Call)
		ra := c23rootArgs(m)
		if len(ra) != 3 {
			k.Unknown("merge-roles", eng.Name(fn)+"#MergeRoots", "merge.MergeRoots takes three roots", fmt.Sprintf("found %d RootValue arguments", len(ra)))
			continue
		}
		var kinds3, roles3 [3]string
		for j, ai := range ra {
			kd, recv := c23rootAccessor(m.Call.Args[ai])
			kinds3[j] = kd
			if recv != nil {
				roles3[j] = paramRole(recv)
			}
		}
		kind := kinds3[0]
		key := eng.Name(fn) + "#MergeRoots(" + kind + ")"
		kinds[kind] = true
		k.Require("merge-roles", key, "the three roots of a transaction merge are read with the same accessor (all working or all staged)", kind != "" && kinds3[1] == kind && kinds3[2] == kind, c.InstrPos(m), fmt.Sprintf("accessors %v", kinds3))
		k.Require("merge-roles", key+"#ancestor", "the merge ancestor is the root of the transaction's start state (otherwise concurrently committed changes look like our own and are overwritten or dropped)", roles3[2] == "start", c.InstrPos(m), "ancestor comes from the "+roles3[2]+" working set")
		k.Require("merge-roles", key+"#ours", "ours is the root of the working set read inside the lock", roles3[0] == "existing", c.InstrPos(m), "ours comes from the "+roles3[0]+" working set")
		k.Require("merge-roles", key+"#theirs", "theirs is the root of the transaction's working set", roles3[1] == "tx", c.InstrPos(m), "theirs comes from the "+roles3[1]+" working set")

		// the result is installed with the matching setter on the tx working set, before any success exit
		setter := "(" + c23Doltdb + ".WorkingSet).With" + kind + "Root"
		installs := eng.NewSet()
		var installCalls []*ssa.Call
		for _, ci := range eng.Calls(fn, eng.Static(setter), false) {
			w := ci.(*ssa.Call)
			if len(w.Call.Args) != 2 {
				continue
			}
			fromM := eng.Slice(w.Call.Args[1], false, func(x ssa.Value) bool {
				return c23callResult(x, func(q ssa.CallInstruction) bool { return q == ssa.CallInstruction(m) }, 0) != nil
			})
			if fromM && paramRole(w.Call.Args[0]) == "tx" {
				installs.AddI(w)
				installCalls = append(installCalls, w)
			}
		}
		if installs.Len() == 0 {
			k.Fail("merge-result-installed", key, "the merged root is installed on the transaction's working set with the matching With"+kind+"Root", c.InstrPos(m), "no With"+kind+"Root call takes Result.Root of this merge", nil)
			continue
		}
		k.OnlyAfter("merge-result-installed", fn, "after the "+kind+" merge succeeded, success is returned only after With"+kind+"Root(result.Root)", exits, 1, installs, c23starts(eng.OkCut(m))...)
		// and the returned working set is built on it
		retOK := false
		for in := range exits.I {
			_, via := c23wsChain(in.(*ssa.Return).Results[0])
			for _, v := range via {
				for _, w := range installCalls {
					if v == w {
						retOK = true
					}
				}
			}
		}
		k.Require("merge-result-installed", key+"#returned", "the working set returned by the merge function is built on the With"+kind+"Root result", retOK, c.InstrPos(m), "the setter's result does not reach the return value")

		// the merge is skipped only when the two roots are equal
		eq := eng.NewSet()
		for _, iff := range c23ifs(fn) {
			call, ok := c23strip(iff.Cond).(*ssa.Call)
			if !ok || call.Call.StaticCallee() == nil || eng.Name(call.Call.StaticCallee()) != c23Dsess+".rootsEqual" || len(call.Call.Args) != 2 {
				continue
			}
			k0, r0 := c23rootAccessor(call.Call.Args[0])
			k1, r1 := c23rootAccessor(call.Call.Args[1])
			if k0 != kind || k1 != kind || r0 == nil || r1 == nil {
				continue
			}
			ro0, ro1 := paramRole(r0), paramRole(r1)
			if (ro0 == "existing" && ro1 == "tx") || (ro0 == "tx" && ro1 == "existing") {
				eq.AddE(c23edge(iff, true))
			}
		}
		k.OnlyAfter("merge-skipped-only-if-equal", fn, "success without the "+kind+" merge is possible only when the existing and the transaction's "+kind+" roots are equal", exits, 1, eng.UnionOf(eng.OkCut(m), eq))
	}
	return len(merges)
}

// c23headMerge: doltCommit merges the moved branch head into the staged root before the store call.
func c23headMerge(k *eng.Check, fn *ssa.Function, impls *c23impls) {
	c := k.C
	stores := eng.Calls(fn, c23mStoreOps, false)
	merges := eng.Calls(fn, c23mMergeRoots, false)
	if len(stores) != 1 || len(merges) != 1 {
		k.Unknown("head-merge", eng.Name(fn), "one store call and one head merge", fmt.Sprintf("%d/%d", len(stores), len(merges)))
		return
	}
	st, m := stores[0].(*ssa.Call), merges[0].(*ssa.Call)
	stSet := eng.NewSet().AddI(st)
	wsParam := fn.Params[impls.wsIdx]
	fromWsParam := func(v ssa.Value) bool {
		leaves, _ := c23wsChain(v)
		if len(leaves) == 0 {
			return false
		}
		for _, l := range leaves {
			if !c23isParam(l, wsParam) {
				return false
			}
		}
		return true
	}
	stagedField := c23Doltdb + ".Roots.Staged"
	headField := c23Doltdb + ".Roots.Head"
	mResolveRootVal := eng.Static("(*" + c23Doltdb + ".Commit).ResolveRootValue")

	// the pending commit handed to the store
	var pending ssa.Value
	for _, a := range st.Call.Args {
		if eng.ShortType(a.Type()) == "*"+c23Doltdb+".PendingCommit" {
			pending = c23strip(a)
		}
	}
	samePending := func(fa ssa.Value) bool {
		// &(&pending.Roots).Staged
		x, ok := fa.(*ssa.FieldAddr)
		if !ok {
			return false
		}
		y, ok := x.X.(*ssa.FieldAddr)
		return ok && pending != nil && y.X == pending
	}
	// (1) the staged root of the commit is the staged root of the (merged) working set parameter
	stagedFromWs, stagedFromMerge := eng.NewSet(), eng.NewSet()
	for _, in := range eng.FieldStores(fn, `doltdb\.Roots$`, "Staged") {
		s := in.(*ssa.Store)
		if !samePending(s.Addr) {
			continue
		}
		if kd, recv := c23rootAccessor(s.Val); kd == "Staged" && fromWsParam(recv) {
			stagedFromWs.AddI(s)
		}
		if eng.Slice(s.Val, false, func(x ssa.Value) bool {
			return c23callResult(x, func(q ssa.CallInstruction) bool { return q == ssa.CallInstruction(m) }, 0) != nil
		}) {
			stagedFromMerge.AddI(s)
		}
	}
	k.OnlyAfter("commit-uses-merged-staged", fn, "the store call is reached only after the pending commit's staged root was replaced by StagedRoot() of the working set that doCommit merged", stSet, 1, stagedFromWs)

	// (2) head moved => merge before the store
	moved := eng.NewSet() // edges on which the head is known unmoved / absent
	nCmp := 0
	for _, iff := range c23ifs(fn) {
		bo, ok := c23strip(iff.Cond).(*ssa.BinOp)
		if !ok || (bo.Op != token.NEQ && bo.Op != token.EQL) {
			continue
		}
		if c23isNil(bo.Y) && eng.ShortType(bo.X.Type()) == "*"+c23Doltdb+".Commit" {
			// `if curHead != nil`: nothing to merge with on the nil edge
			moved.AddE(c23edge(iff, bo.Op == token.EQL))
			continue
		}
		hx := c23callResult(bo.X, eng.Named(`doltdb\.RootValue\)?\.HashOf$`), 0)
		hy := c23callResult(bo.Y, eng.Named(`doltdb\.RootValue\)?\.HashOf$`), 0)
		if hx == nil || hy == nil {
			continue
		}
		recvOf := func(h *ssa.Call) ssa.Value {
			if h.Call.IsInvoke() {
				return h.Call.Value
			}
			return h.Call.Args[0]
		}
		isCur := func(v ssa.Value) bool {
			return c23allOrigins(v, func(o ssa.Value) bool { return c23callResult(o, mResolveRootVal, 0) != nil })
		}
		isTxHead := func(v ssa.Value) bool { return eng.FromField(v, headField) }
		rx, ry := recvOf(hx), recvOf(hy)
		if (isCur(rx) && isTxHead(ry)) || (isCur(ry) && isTxHead(rx)) {
			nCmp++
			moved.AddE(c23edge(iff, bo.Op == token.EQL))
		}
	}
	if nCmp < 1 {
		k.Unknown("head-merge", eng.Name(fn), "comparison of the current head root hash with the transaction's head root hash", "not found")
		return
	}
	k.OnlyAfter("head-merge", fn, "when the branch head moved since the transaction began, the store call is reached only after merge.MergeRoots succeeded", stSet, 1, eng.UnionOf(moved, eng.OkCut(m)))
	ra := c23rootArgs(m)
	if len(ra) == 3 {
		ours, theirs, anc := m.Call.Args[ra[0]], m.Call.Args[ra[1]], m.Call.Args[ra[2]]
		k.Require("head-merge-roles", eng.Name(fn)+"#ancestor", "the ancestor of the head merge is the head root the transaction started from (pending.Roots.Head)", eng.FromField(anc, headField), c.InstrPos(m), "ancestor is "+eng.Desc(anc, 3))
		k.Require("head-merge-roles", eng.Name(fn)+"#ours", "ours of the head merge is the pending commit's staged root", eng.FromField(ours, stagedField), c.InstrPos(m), "ours is "+eng.Desc(ours, 3))
		k.Require("head-merge-roles", eng.Name(fn)+"#theirs", "theirs of the head merge is the root of the current branch head", c23allOrigins(theirs, func(o ssa.Value) bool { return c23callResult(o, mResolveRootVal, 0) != nil }), c.InstrPos(m), "theirs is "+eng.Desc(theirs, 3))
	} else {
		k.Unknown("head-merge-roles", eng.Name(fn), "merge.MergeRoots takes three roots", fmt.Sprintf("found %d", len(ra)))
	}
	// (3) after the merge, the merged root is committed and put into the working set
	k.OnlyAfter("head-merge-result-committed", fn, "after the head merge succeeded, the store call is reached only after pending.Roots.Staged = result.Root", stSet, 1, stagedFromMerge, c23starts(eng.OkCut(m))...)
	withStaged := eng.NewSet()
	wsArg := st.Call.Args[c23argsOfType(st, c23WsPtr)[0]]
	_, via := c23wsChain(wsArg)
	for _, ci := range eng.Calls(fn, eng.Static("("+c23Doltdb+".WorkingSet).WithStagedRoot"), false) {
		w := ci.(*ssa.Call)
		inChain := false
		for _, v := range via {
			if v == w {
				inChain = true
			}
		}
		if inChain && len(w.Call.Args) == 2 && (eng.FromField(w.Call.Args[1], stagedField) || eng.FromField(w.Call.Args[1], "libraries/doltcore/merge.Result.Root")) {
			withStaged.AddI(w)
		}
	}
	k.OnlyAfter("head-merge-result-committed", fn, "after the head merge succeeded, the working set handed to the store carries the merged staged root (WithStagedRoot)", stSet, 1, withStaged, c23starts(eng.OkCut(m))...)
}

// c23fromTxLocks: v is the result of a TxLocks() call, possibly kept in a local and captured by a literal.
func c23fromTxLocks(v ssa.Value, depth int) bool {
	if depth > 3 || v == nil {
		return false
	}
	return eng.Slice(v, false, func(x ssa.Value) bool {
		if rc, ok := x.(*ssa.Call); ok && strings.HasSuffix(eng.CalleeName(rc), ".TxLocks") {
			return true
		}
		if fv, ok := x.(*ssa.FreeVar); ok {
			if o := eng.ClosureOrigin(fv); o != nil && o != ssa.Value(fv) {
				// the captured cell: look at what the enclosing function stores into it
				if a, isA := o.(*ssa.Alloc); isA {
					for _, st := range eng.StoresTo(a) {
						if c23fromTxLocks(st.Val, depth+1) {
							return true
						}
					}
					return false
				}
				return c23fromTxLocks(o, depth+1)
			}
		}
		return false
	})
}

// c23outerCell: a load of a captured variable inside a literal is rewritten as the load's cell in the enclosing
// function, so that it can be compared with uses of the same variable there.
func c23outerCell(v ssa.Value) ssa.Value {
	if ld, ok := c23strip(v).(*ssa.UnOp); ok && ld.Op == token.MUL {
		if fv, isFV := ld.X.(*ssa.FreeVar); isFV {
			if o := eng.ClosureOrigin(fv); o != nil {
				return &ssa.UnOp{Op: token.MUL, X: o}
			}
		}
	}
	return v
}
