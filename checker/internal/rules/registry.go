// Package rules holds the per-property rule tables.
package rules

import (
	"sort"

	"dvcheck/internal/eng"
)

type Rule struct {
	Explanation string
	RuleText    string
	Assumptions []string
	// Patterns are the package patterns (relative to /repo/go) whose source the rules read;
	// empty means the whole module.  Dependencies are type-checked from export data.
	Patterns []string
	Run         func(k *eng.Check, tier string)
}

var Registry = map[string]*Rule{}

func IDs() []string {
	var ids []string
	for id := range Registry {
		ids = append(ids, id)
	}
	sort.Strings(ids)
	return ids
}
