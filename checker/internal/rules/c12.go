package rules

import (
	"fmt"
	"go/types"
	"os"
	"sort"
	"strings"

	"dvcheck/internal/eng"

	"golang.org/x/tools/go/ssa"
)

func init() {
	Registry["C12"] = &Rule{
		Explanation: "Decides that nothing but content can influence a chunk-boundary decision or the serialized node bytes of a prolly tree, and that splitter state does not leak across chunks: (1) no-nondeterminism: a data-flow taint over all functions of store/prolly/tree and store/prolly/message (sources: clock, unseeded/global random numbers, crypto/rand, process/host identity, runtime introspection, pointer->integer conversion, %p, map iteration order unless sorted, multi-way select) reaches none of the sinks: any field of a type implementing nodeSplitter, the result of any function of the boundary kernel (splitter methods and constructors, weibullCheck, xxHash32, saltFromLevel, rollingHashPattern ...), any argument or result of a message Serializer's Serialize, any argument of hash.Of inside the scope; (2) globals-immutable: every package-level variable read by the boundary kernel, the chunkers and the node builder (levelSalt, defaultSplitterFactory, ...) is written only by the package initializer; (3) reset-complete: every field a splitter's Append path assigns, and every pointer field whose target it mutates through a method call, is re-assigned by the splitter's Reset; chunker.handleChunkBoundary returns success only after splitter.Reset(); (4) every-item-hashed: chunker.append returns success only after the pair given to the node builder was also given to splitter.Append (error-checked), and reports a split only after handleChunkBoundary succeeded. It does not decide advanceTo resynchronisation or canonical-root collapsing (history independence proper), nor implicit flows through control dependence.",
		RuleText:    "forward data-flow taint over SSA (fields, globals, parameters/results, closures, interface calls resolved inside the scope) with zero tainted sinks expected; who-may-write scan for globals; field-store set inclusion; cut-reachability",
		Assumptions: []string{"xxh3, buzhash, sha512 and flatbuffers are deterministic functions of their inputs", "sync.Pool buffers are truncated before reuse (getItemSlices/getSubtreeSlice return sl[:0])", "test-only writers of the package-level variables are out of scope (Tests=false)"},
		Patterns:    []string{"./store/prolly/tree", "./store/prolly/message"},
		Run:         runC12,
	}
}

const c12MessagePkg = "store/prolly/message"

func c12SeedDesc(c *eng.Ctx, s *eng.TaintSeed) string {
	if s == nil {
		return "unknown source"
	}
	return s.What + " at " + c.InstrPos(s.Instr)
}

// c12IfaceOf looks up a named interface type of a loaded package.
func c12IfaceOf(c *eng.Ctx, pkgShort, name string) *types.Interface {
	p := c.Package(pkgShort)
	if p == nil || p.Types == nil {
		return nil
	}
	o := p.Types.Scope().Lookup(name)
	if o == nil {
		return nil
	}
	i, _ := o.Type().Underlying().(*types.Interface)
	return i
}

// c12Implementers lists the named struct types of pkg whose pointer (or value) implements iface.
func c12Implementers(c *eng.Ctx, pkgShort string, iface *types.Interface) []*types.Named {
	var out []*types.Named
	p := c.Package(pkgShort)
	if p == nil || iface == nil {
		return nil
	}
	sc := p.Types.Scope()
	for _, n := range sc.Names() {
		tn, ok := sc.Lookup(n).(*types.TypeName)
		if !ok || tn.IsAlias() {
			continue
		}
		nt, ok := tn.Type().(*types.Named)
		if !ok || nt.TypeParams().Len() > 0 {
			continue
		}
		if _, isStruct := nt.Underlying().(*types.Struct); !isStruct {
			continue
		}
		if types.Implements(nt, iface) || types.Implements(types.NewPointer(nt), iface) {
			out = append(out, nt)
		}
	}
	return out
}

func c12RecvNamed(fn *ssa.Function) *types.Named {
	if fn == nil || fn.Signature.Recv() == nil {
		return nil
	}
	return c40NamedOf(fn.Signature.Recv().Type())
}

// c12SameNamed compares named types by object (instances of generics compare by origin).
func c12SameNamed(a, b *types.Named) bool {
	if a == nil || b == nil {
		return false
	}
	return a.Origin().Obj() == b.Origin().Obj()
}

// c12AddrRootGlobal follows FieldAddr/IndexAddr chains to a global.
func c12AddrRootGlobal(v ssa.Value) *ssa.Global {
	for i := 0; i < 8; i++ {
		switch x := v.(type) {
		case *ssa.Global:
			return x
		case *ssa.FieldAddr:
			v = x.X
		case *ssa.IndexAddr:
			v = x.X
		default:
			return nil
		}
	}
	return nil
}

func runC12(k *eng.Check, tier string) {
	c := k.C
	scope := c.Funcs(c15TreePkg, c12MessagePkg)
	for _, p := range []string{c15TreePkg, c12MessagePkg} {
		// initialisers of package-level variables (levelSalt = saltFromLevel(..)) run in the package initializer
		if f := c.PkgInit(p); f != nil {
			scope = append(scope, f)
		} else {
			k.Unknown("no-nondeterminism", p+".init", "the package initializer", "not found")
		}
	}
	if len(scope) < 600 {
		k.Unknown("no-nondeterminism", c15TreePkg, "functions of the prolly tree and message packages", fmt.Sprintf("only %d functions loaded (confirmed floor 600)", len(scope)))
	}
	splitIface := c12IfaceOf(c, c15TreePkg, "nodeSplitter")
	if splitIface == nil {
		k.Unknown("anchor", c15TreePkg+".nodeSplitter", "the splitter interface", "not found")
		return
	}
	splitters := c12Implementers(c, c15TreePkg, splitIface)
	if len(splitters) < 2 {
		k.Unknown("anchor", c15TreePkg+".nodeSplitter", "types implementing nodeSplitter", fmt.Sprintf("found %d (confirmed floor 2: keySplitter, rollingHashSplitter)", len(splitters)))
	}
	isSplitter := func(n *types.Named) bool {
		for _, s := range splitters {
			if c12SameNamed(s, n) {
				return true
			}
		}
		return false
	}

	// boundary kernel: splitter methods, functions returning a nodeSplitter, and what they call inside the package
	var kroots []*ssa.Function
	for _, fn := range c.Funcs(c15TreePkg) {
		if fn.Parent() != nil {
			continue
		}
		if rn := c12RecvNamed(fn); rn != nil && isSplitter(rn) {
			kroots = append(kroots, fn)
			continue
		}
		res := fn.Signature.Results()
		if fn.Signature.Recv() == nil && res.Len() == 1 {
			if nt, ok := res.At(0).Type().(*types.Named); ok && nt.Obj().Name() == "nodeSplitter" {
				kroots = append(kroots, fn)
			}
		}
	}
	for _, n := range []string{"saltFromLevel", "weibullCheck", "xxHash32"} {
		if f := k.Fn(c15TreePkg + "." + n); f != nil {
			kroots = append(kroots, f)
		}
	}
	kernel := c.StaticClosure(kroots, func(p string) bool { return p == c15TreePkg }, 3)
	if len(kernel) < 12 {
		k.Unknown("no-nondeterminism", c15TreePkg, "boundary kernel functions", fmt.Sprintf("found %d (confirmed floor 12)", len(kernel)))
	}
	inKernel := map[*ssa.Function]bool{}
	for _, f := range kernel {
		inKernel[f] = true
		k.FuncsSeen[f] = true
	}

	// ---- (1) taint
	t := eng.RunTaint(scope)
	if os.Getenv("DVCHECK_DEBUG") != "" {
		fmt.Printf("  taint: %d functions, %d seeds\n", len(scope), len(t.Seeds))
		for _, s := range t.Seeds {
			fmt.Printf("    seed %s %s in %s\n", s.Kind, c12SeedDesc(c, s), eng.Name(s.Instr.Parent()))
		}
	}
	// S1 splitter fields
	nf := 0
	for _, s := range splitters {
		st := s.Underlying().(*types.Struct)
		for i := 0; i < st.NumFields(); i++ {
			fv := st.Field(i)
			nf++
			kind, seed := t.OfField(fv)
			k.Require("no-nondeterminism", "field "+s.Obj().Name()+"."+fv.Name(), "splitter state is computed from content only", kind == 0, c.Pos(fv.Pos()),
				kind.String()+" from "+c12SeedDesc(c, seed)+" is stored into splitter state: chunk boundaries differ between runs or machines")
		}
	}
	if nf < 9 {
		k.Unknown("no-nondeterminism", c15TreePkg, "splitter state fields", fmt.Sprintf("found %d (confirmed floor 9)", nf))
	}
	// S2 kernel results
	for _, f := range kernel {
		if f.Signature.Results().Len() == 0 {
			continue
		}
		kind, seed := t.OfResult(f)
		k.Require("no-nondeterminism", "result "+eng.Name(f), "a boundary-kernel function returns a function of its arguments only", kind == 0, c.Pos(f.Pos()),
			kind.String()+" from "+c12SeedDesc(c, seed)+" reaches the result")
	}
	// S3 serializer inputs/outputs, S4 hash inputs
	serIface := c12IfaceOf(c, c12MessagePkg, "Serializer")
	nSer, nSerFn, nHash := 0, 0, 0
	type agg struct {
		n    int
		bad  string
		pos  string
		seen bool
	}
	serSites := map[string]*agg{}
	for _, fn := range scope {
		for _, call := range eng.Calls(fn, func(ssa.CallInstruction) bool { return true }, true) {
			cc := call.Common()
			isSer := false
			if cc.IsInvoke() {
				isSer = cc.Method.Name() == "Serialize"
			} else if cal := cc.StaticCallee(); cal != nil && cal.Name() == "Serialize" && cal.Signature.Recv() != nil {
				if p := eng.FuncPkg(cal); p != nil && strings.HasSuffix(p.Path(), "/"+c12MessagePkg) {
					isSer = true
				}
			}
			if isSer {
				nSer++
				key := eng.Name(eng.Outermost(fn))
				a := serSites[key]
				if a == nil {
					a = &agg{}
					serSites[key] = a
				}
				a.n++
				vals := append([]ssa.Value{}, cc.Args...)
				if cc.IsInvoke() {
					vals = append(vals, cc.Value)
				}
				for _, v := range vals {
					if kind, seed := t.Of(v); kind != 0 && a.bad == "" {
						a.bad = kind.String() + " from " + c12SeedDesc(c, seed) + " reaches an argument of Serialize: node bytes (and the node hash) depend on it"
						a.pos = c.InstrPos(call.(ssa.Instruction))
					}
				}
				continue
			}
			if cal := cc.StaticCallee(); cal != nil && eng.Name(cal) == "store/hash.Of" {
				nHash++
				ok, why := true, ""
				for _, v := range cc.Args {
					if kind, seed := t.Of(v); kind != 0 {
						ok, why = false, kind.String()+" from "+c12SeedDesc(c, seed)+" reaches the bytes that are hashed into a node address"
					}
				}
				k.Require("no-nondeterminism", "hash.Of in "+eng.Name(eng.Outermost(fn)), "the bytes hashed into an address depend on content only", ok, c.InstrPos(call.(ssa.Instruction)), why)
			}
		}
	}
	var sk []string
	for s := range serSites {
		sk = append(sk, s)
	}
	sort.Strings(sk)
	for _, s := range sk {
		a := serSites[s]
		if a.bad != "" {
			k.Fail("no-nondeterminism", "Serialize args in "+s, "everything handed to a node serializer depends on content only", a.pos, a.bad, nil)
		} else {
			k.Pass("no-nondeterminism", "Serialize args in "+s, "everything handed to a node serializer depends on content only", a.n)
		}
	}
	_ = serIface
	for _, fn := range c.Funcs(c12MessagePkg) {
		if fn.Parent() == nil && fn.Signature.Recv() != nil && fn.Name() == "Serialize" {
			nSerFn++
			kind, seed := t.OfResult(fn)
			k.Require("no-nondeterminism", "result "+eng.Name(fn), "a node serializer returns a function of its arguments only", kind == 0, c.Pos(fn.Pos()),
				kind.String()+" from "+c12SeedDesc(c, seed)+" reaches the serialized bytes")
		}
	}
	if nSer < 6 || nSerFn < 6 || nHash < 1 {
		k.Unknown("no-nondeterminism", "sinks", "serializer call sites / serializers / hash.Of sites", fmt.Sprintf("found %d / %d / %d (confirmed floor 6 / 6 / 1)", nSer, nSerFn, nHash))
	}

	// ---- (2) globals read by the kernel, the chunkers and the node builder
	readers := map[*ssa.Function]bool{}
	for f := range inKernel {
		readers[f] = true
	}
	for _, fn := range c.Funcs(c15TreePkg) {
		o := eng.Outermost(fn)
		if rn := c12RecvNamed(o); rn != nil {
			switch rn.Origin().Obj().Name() {
			case "chunker", "nodeBuilder", "JsonChunker", "BlobBuilder", "blobNodeWriter":
				readers[fn] = true
			}
		}
		switch o.Name() {
		case "newChunker", "newEmptyChunker", "writeNewNode", "newNodeBuilder":
			readers[fn] = true
		}
	}
	globals := map[*ssa.Global]string{}
	for fn := range readers {
		for _, b := range fn.Blocks {
			for _, in := range b.Instrs {
				var ops [8]*ssa.Value
				for _, op := range in.Operands(ops[:0]) {
					if op == nil || *op == nil {
						continue
					}
					if g, ok := (*op).(*ssa.Global); ok && g.Pkg != nil && strings.HasPrefix(g.Pkg.Pkg.Path(), "github.com/dolthub/dolt/go/") {
						if _, dup := globals[g]; !dup {
							globals[g] = eng.Name(fn)
						}
					}
				}
			}
		}
	}
	if len(globals) < 2 {
		k.Unknown("globals-immutable", c15TreePkg, "package-level variables read by the chunking code", fmt.Sprintf("found %d (confirmed floor 2: levelSalt, defaultSplitterFactory)", len(globals)))
	}
	wantG := map[string]bool{"levelSalt": false, "defaultSplitterFactory": false}
	var gl []*ssa.Global
	for g := range globals {
		gl = append(gl, g)
		if _, ok := wantG[g.Name()]; ok {
			wantG[g.Name()] = true
		}
	}
	for n, ok := range wantG {
		if !ok {
			k.Unknown("globals-immutable", c15TreePkg+"."+n, "the variable is read by the chunking code", "not found among the globals read (anchor changed)")
		}
	}
	sort.Slice(gl, func(i, j int) bool { return gl[i].String() < gl[j].String() })
	for _, g := range gl {
		bad, pos := "", ""
		for _, fn := range c.All() {
			for _, b := range fn.Blocks {
				for _, in := range b.Instrs {
					st, ok := in.(*ssa.Store)
					if !ok || c12AddrRootGlobal(st.Addr) != g {
						continue
					}
					if fn.Parent() == nil && fn.Signature.Recv() == nil && strings.HasPrefix(fn.Name(), "init#") {
						continue // a declared init() function of the package: runs once before any chunking
					}
					bad, pos = eng.Name(fn), c.InstrPos(in)
				}
			}
		}
		k.Require("globals-immutable", strings.TrimPrefix(g.String(), "github.com/dolthub/dolt/go/"), "a package-level variable that steers chunking is assigned only by the package initializer", bad == "", pos,
			"assigned in "+bad+": trees built before and after the assignment (or by processes that did not run it) chunk differently")
	}

	// ---- (3) reset completeness
	for _, s := range splitters {
		written := map[string]string{}
		reset := map[string]bool{}
		var resetFn *ssa.Function
		for _, fn := range c.Funcs(c15TreePkg) {
			rn := c12RecvNamed(eng.Outermost(fn))
			if rn == nil || !c12SameNamed(rn, s) {
				continue
			}
			isReset := eng.Outermost(fn).Name() == "Reset"
			if isReset {
				resetFn = eng.Outermost(fn)
			}
			for _, b := range fn.Blocks {
				for _, in := range b.Instrs {
					switch x := in.(type) {
					case *ssa.Store:
						if fa, ok := x.Addr.(*ssa.FieldAddr); ok {
							if nt := c40NamedOf(fa.X.Type()); nt != nil && c12SameNamed(nt, s) {
								name := s.Underlying().(*types.Struct).Field(fa.Field).Name()
								if isReset {
									reset[name] = true
								} else if _, dup := written[name]; !dup {
									written[name] = c.InstrPos(in)
								}
							}
						}
					case *ssa.Call:
						// method call on the target of a pointer field: the target is mutable state
						if isReset || x.Call.IsInvoke() || len(x.Call.Args) == 0 {
							continue
						}
						cal := x.Call.StaticCallee()
						if cal == nil || cal.Signature.Recv() == nil {
							continue
						}
						if _, isPtr := cal.Signature.Recv().Type().(*types.Pointer); !isPtr {
							continue
						}
						if ld, ok := x.Call.Args[0].(*ssa.UnOp); ok {
							if fa, ok := ld.X.(*ssa.FieldAddr); ok {
								if nt := c40NamedOf(fa.X.Type()); nt != nil && c12SameNamed(nt, s) {
									name := s.Underlying().(*types.Struct).Field(fa.Field).Name()
									if _, dup := written[name]; !dup {
										written[name] = c.InstrPos(in)
									}
								}
							}
						}
					}
				}
			}
		}
		if resetFn == nil {
			k.Unknown("reset-complete", s.Obj().Name()+".Reset", "the splitter's Reset method", "not found")
			continue
		}
		if len(written) < 2 {
			k.Unknown("reset-complete", s.Obj().Name(), "fields assigned while appending", fmt.Sprintf("found %d (confirmed floor 2)", len(written)))
		}
		var names []string
		for n := range written {
			names = append(names, n)
		}
		sort.Strings(names)
		for _, n := range names {
			k.Require("reset-complete", s.Obj().Name()+"."+n, "state accumulated while appending is cleared by Reset", reset[n], written[n],
				"field "+n+" is modified while appending but not re-assigned by Reset: the next chunk's boundary depends on the previous chunk")
		}
	}
	// chunker paths
	nH, nA := 0, 0
	mReset := eng.Method(`store/prolly/tree\.nodeSplitter$`, "Reset")
	mAppend := eng.Method(`store/prolly/tree\.nodeSplitter$`, "Append")
	for _, fn := range c.Funcs(c15TreePkg) {
		rn := c12RecvNamed(fn)
		if fn.Parent() != nil || rn == nil || rn.Origin().Obj().Name() != "chunker" {
			continue
		}
		switch fn.Name() {
		case "handleChunkBoundary":
			nH++
			k.OnlyAfter("reset-complete", fn, "a chunk boundary is acknowledged only after splitter.Reset()", eng.SuccessExits(fn), 1, eng.CallSet(fn, mReset))
		case "append":
			nA++
			adds := eng.Calls(fn, eng.Named(`\(\*store/prolly/tree\.nodeBuilder\)\.addItems$`), false)
			if len(adds) < 1 {
				k.Unknown("every-item-hashed", eng.Name(fn), "the call that adds the pair to the node builder", "nodeBuilder.addItems not called")
				continue
			}
			for _, a := range adds {
				// two cuts: the call itself must lie on every path (an error variable that is merely nil on a path that
				// skipped the call would satisfy the ok-edge cut alone), and its error must have been found nil
				k.OnlyAfter("every-item-hashed", fn, "after a pair is added to the node, success is returned only after splitter.Append was called with it", eng.SuccessExits(fn), 1, eng.CallSet(fn, mAppend), eng.After(a.(ssa.Instruction)))
				k.OnlyAfter("every-item-hashed", fn, "after a pair is added to the node, success is returned only after splitter.Append took it", eng.SuccessExits(fn), 1, k.OkCalls(fn, "splitter-append", mAppend), eng.After(a.(ssa.Instruction)))
			}
			// a reported split implies the node was written and the splitter reset
			split := eng.NewSet()
			for in := range c36AllReturns(fn).I {
				if cst, ok := in.(*ssa.Return).Results[0].(*ssa.Const); ok && cst.Value != nil && cst.Value.String() == "true" {
					split.AddI(in)
				}
			}
			k.OnlyAfter("every-item-hashed", fn, "append reports a split only after handleChunkBoundary succeeded", split, 1,
				k.OkCalls(fn, "hcb", eng.Named(`\(\*store/prolly/tree\.chunker\)\.handleChunkBoundary$`)))
		}
	}
	if nH < 1 || nA < 1 {
		k.Unknown("reset-complete", c15TreePkg+".chunker", "chunker.handleChunkBoundary / chunker.append", fmt.Sprintf("found %d / %d", nH, nA))
	}
	c36DebugObls(k)
}
