package rules

import (
	"fmt"
	"go/token"
	"strings"

	"dvcheck/internal/eng"

	"golang.org/x/tools/go/ssa"
)

func init() {
	Registry["C02"] = &Rule{
		Explanation: "Decides the compare-then-install shape of every layer of the root update: (1) NomsBlockStore.commit reports success only after updateManifest returned nil, or on the no-novelty shortcut which requires an empty memtable, no novel table files and current==last; lost races map to (false,nil); (2) updateManifest reaches manifest.Update only past the expected-root comparison, after the memtable was persisted (or is empty) and after the dangling-root check; the lock handed to the manifest is the one of the cached upstream; the cached upstream is replaced and success returned only after Update returned nil and the returned lock equals the proposed one; (3) updateManifest/rebase/errorIfDangling/updateManifestAddFiles are only called with nbs.mu held, and nbs.upstream/tables/memtable are written only by the frozen set of functions; (4) ChunkJournal.Update commits a root only past the read-only test and the lock comparison, and installs the new contents only after the journal commit succeeded; (5) the blobstore manifest writes conditionally on the version it read, compares locks before writing and returns the new contents only on success; (6) datas.database.update passes the root it read in the same attempt as the CAS token and edits the datasets of that root. Does not decide OS rename/fsync semantics or multi-process interleavings.",
		RuleText:    "CFG cut-reachability with limited path sensitivity (constant boolean phis), data-derivation of CAS tokens, lock-held obligations over all static callers, who-may-write allowlists for struct fields",
		Assumptions: []string{"sync.Mutex provides mutual exclusion", "manifest implementations are the ones in store/nbs (interface calls are matched by method name and interface type)"},
		Patterns:    []string{"./store/nbs", "./store/datas", "./libraries/utils/errors", "./libraries/utils/file"},
		Run:         runC02,
	}
}

const nbsT = "store/nbs.NomsBlockStore"

func isNilCompareOfField(v ssa.Value, field string, op token.Token) bool {
	b, ok := eng.IsCompare(v, op)
	if !ok {
		return false
	}
	return (eng.Mentions(b.X, eng.IsField(field)) && isNil(b.Y)) || (eng.Mentions(b.Y, eng.IsField(field)) && isNil(b.X))
}

func isNil(v ssa.Value) bool {
	c, ok := v.(*ssa.Const)
	return ok && c.Value == nil
}

func runC02(k *eng.Check, tier string) {
	c := k.C
	nbs := c.Funcs("store/nbs")
	mUpdMan := eng.Static("(*store/nbs.NomsBlockStore).updateManifest")
	mManUpdate := eng.Named(`^iface:store/nbs\.manifest\.Update$`)
	lockM := eng.MutexOn(nbsT+".mu", "Lock")
	unlockM := eng.MutexOn(nbsT+".mu", "Unlock")

	// ---- (1) commit
	if fn := k.Fn("(*store/nbs.NomsBlockStore).commit"); fn != nil {
		trueRet := eng.ResultPoints(fn, 0, func(v ssa.Value) bool { return eng.IsConstBool(v, true) })
		okUM := k.OkCalls(fn, "updateManifest", mUpdMan)
		// updateManifest's nil result may be tested with `== nil`: OkCalls handles both forms
		noMemtable := eng.CondEdgesP(fn, func(v ssa.Value) bool { return isNilCompareOfField(v, nbsT+".memtable", token.NEQ) }, false)
		noMemtable.Union(eng.CondEdgesP(fn, func(v ssa.Value) bool { return isNilCompareOfField(v, nbsT+".memtable", token.EQL) }, true))
		// an allocated but empty memtable holds no novelty either
		noMemtable.Union(eng.CondEdgesP(fn, func(v ssa.Value) bool {
			b, ok := eng.IsCompare(v, token.GTR)
			return ok && isConstInt(b.Y, 0) && eng.Mentions(b.X, eng.IsCall(eng.Static("(*store/nbs.memTable).count")))
		}, false))
		noNovel := eng.CondEdgesP(fn, func(v ssa.Value) bool {
			// len(nbs.tables.novel) > 0, possibly merged into a boolean phi with the memtable test
			return eng.Mentions(v, func(x ssa.Value) bool {
				b, ok := x.(*ssa.BinOp)
				return ok && b.Op == token.GTR && isConstInt(b.Y, 0) && eng.MentionsDeep(b.X, eng.IsField("store/nbs.tableSet.novel"))
			})
		}, false)
		same := eng.CondEdgesP(fn, func(v ssa.Value) bool {
			b, ok := eng.IsCompare(v, token.EQL)
			if !ok {
				return false
			}
			_, px := b.X.(*ssa.Parameter)
			_, py := b.Y.(*ssa.Parameter)
			return px && py && strings.HasSuffix(eng.ShortType(b.X.Type()), "hash.Hash")
		}, true)
		k.OnlyAfter("commit-ack", fn, "commit reports true only after updateManifest returned nil or with an empty memtable", trueRet, 2, eng.UnionOf(okUM, noMemtable))
		k.OnlyAfter("commit-ack", fn, "commit reports true only after updateManifest returned nil or with no novel table files", trueRet, 2, eng.UnionOf(okUM, noNovel))
		k.OnlyAfter("commit-ack", fn, "commit reports true only after updateManifest returned nil or when current == last", trueRet, 2, eng.UnionOf(okUM, same))
		// a lost race is (false, nil): from the edges where updateManifest's error equals a lost-race sentinel, no true result
		for _, g := range []string{"errOptimisticLockFailedRoot", "errLastRootMismatch"} {
			lost := eng.CondEdgesP(fn, func(v ssa.Value) bool {
				b, ok := eng.IsCompare(v, token.EQL)
				return ok && eng.Mentions(b.X, eng.IsCall(mUpdMan)) && strings.HasSuffix(eng.Desc(b.Y, 2), "store/nbs."+g)
			}, true)
			if lost.Len() < 1 {
				k.Unknown("commit-lost-race", eng.Name(fn)+"#"+g, "the test of updateManifest's error against "+g, "not found")
				continue
			}
			vals, unknown := eng.ResultValuesFromEdges(fn, lost, 0)
			ok := !unknown && len(vals) > 0
			for _, v := range vals {
				if !eng.IsConstBool(v, false) {
					ok = false
				}
			}
			k.Require("commit-lost-race", eng.Name(fn)+"#"+g, "a lost optimistic-lock race ("+g+") is reported as success=false", ok, c.Pos(fn.Pos()), "a path from this test returns success != false")
		}
		// the store lock is held across the whole compare-and-swap
		k.HeldAt("store-lock-held", fn, "updateManifest is called with nbs.mu held", eng.CallSet(fn, mUpdMan), 1, lockM, unlockM)
	}

	// ---- (2) updateManifest
	if fn := k.Fn("(*store/nbs.NomsBlockStore).updateManifest"); fn != nil {
		upd := eng.CallSet(fn, mManUpdate)
		rootOK := eng.CondEdgesP(fn, func(v ssa.Value) bool {
			return eng.CompareOf(v, eng.IsField("store/nbs.manifestContents.root"), eng.IsParamOfType("store/hash.Hash"), token.NEQ)
		}, false)
		k.OnlyAfter("root-cas", fn, "manifest.Update is reached only on the edge where the cached upstream root equals the caller's expected root", upd, 1, rootOK)
		k.OnlyAfter("root-cas", fn, "manifest.Update is reached only after the dangling-root check returned nil", upd, 1, k.OkCalls(fn, "errorIfDangling", eng.Static("(*store/nbs.NomsBlockStore).errorIfDangling")))
		// memtable persisted: append ok, or memtable nil, or empty
		mAppend := eng.Static("(*store/nbs.tableSet).append")
		noMT := eng.CondEdgesP(fn, func(v ssa.Value) bool { return isNilCompareOfField(v, nbsT+".memtable", token.NEQ) }, false)
		emptyMT := eng.CondEdgesP(fn, func(v ssa.Value) bool {
			b, ok := eng.IsCompare(v, token.GTR)
			return ok && isConstInt(b.Y, 0) && eng.Mentions(b.X, eng.IsCall(eng.Static("(*store/nbs.memTable).count")))
		}, false)
		k.OnlyAfter("chunks-before-root", fn, "manifest.Update is reached only after the memtable was persisted (tables.append ok) or is nil/empty", upd, 1, eng.UnionOf(k.OkCalls(fn, "append", mAppend), noMT, emptyMT))
		// the persisted table set is installed before the manifest is written: nbs.tables = ts after append
		for in := range upd.I {
			args := in.(*ssa.Call).Call.Args
			// args: ctx, behavior, lastLock, newContents, stats, writeHook
			if len(args) >= 3 {
				k.Require("root-cas", eng.Name(fn)+"#lastLock", "the lock handed to manifest.Update is the lock of the cached upstream contents", eng.Mentions(args[2], eng.IsField(mcLock)) && eng.Mentions(args[2], eng.IsField(nbsT+".upstream")), c.InstrPos(in), "lastLock is not nbs.upstream.lock")
			}
		}
		okUpd := k.OkCalls(fn, "manifest.Update", mManUpdate)
		lockEq := eng.CondEdgesP(fn, func(v ssa.Value) bool { return eng.CompareOf(v, eng.IsField(mcLock), eng.IsField(mcLock), token.NEQ) }, false)
		// stores to nbs.upstream in the function body proper (the lock-failure literal re-bases to the *winner's* contents)
		ups := eng.NewSet().AddI(eng.FieldStores(fn, `store/nbs\.NomsBlockStore$`, "upstream")...)
		k.OnlyAfter("install-after-cas", fn, "the cached upstream is replaced only after manifest.Update returned nil", ups, 1, okUpd)
		k.OnlyAfter("install-after-cas", fn, "the cached upstream is replaced only when the manifest now carries the proposed lock", ups, 1, lockEq)
		k.OnlyAfter("install-after-cas", fn, "success is returned only after manifest.Update returned nil", eng.SuccessExits(fn), 1, okUpd)
		k.OnlyAfter("install-after-cas", fn, "success is returned only when the manifest now carries the proposed lock", eng.SuccessExits(fn), 1, lockEq)
		// the proposed contents carry the caller's new root
		rootStored := false
		for _, b := range fn.Blocks {
			for _, in := range b.Instrs {
				if st, ok := in.(*ssa.Store); ok && eng.FieldName(st.Addr) == "store/nbs.manifestContents.root" {
					if _, isP := st.Val.(*ssa.Parameter); isP {
						rootStored = true
					} else if eng.Mentions(st.Val, func(x ssa.Value) bool { _, ok := x.(*ssa.Parameter); return ok }) {
						rootStored = true
					}
				}
			}
		}
		k.Require("root-cas", eng.Name(fn)+"#newroot", "the proposed manifest contents carry the caller's new root", rootStored, c.Pos(fn.Pos()), "manifestContents.root is not assigned from a parameter")
	}

	// ---- (3) lock discipline and field writers
	needLock := []string{"updateManifest", "rebase", "errorIfDangling", "addPendingRefsToHasCache"}
	constructors := map[string]bool{"store/nbs.newNomsBlockStore": true, "store/nbs.NewLocalJournalingStoreWithOptions": true, "store/nbs.newEmptyNomsBlockStore": true}
	nCallers := 0
	for _, short := range needLock {
		target := c.Func("(*store/nbs.NomsBlockStore)." + short)
		if target == nil {
			if short == "updateManifest" || short == "rebase" {
				k.Unknown("store-lock-held", short, "lock-requiring function", "not found")
			}
			continue
		}
		for _, cs := range eng.CallersOf(nbs, target) {
			caller := cs.Parent()
			cname := eng.Name(caller)
			nCallers++
			// callers that themselves require the lock, and constructors of a not-yet-shared store, are exempt
			exempt := constructors[cname] || constructors[eng.Name(eng.Outermost(caller))]
			for _, s2 := range needLock {
				if cname == "(*store/nbs.NomsBlockStore)."+s2 {
					exempt = true
				}
			}
			if exempt {
				k.Pass("store-lock-held", cname+"->"+short, "caller itself requires nbs.mu or constructs an unshared store", 1)
				continue
			}
			tg := eng.NewSet().AddI(cs.(ssa.Instruction))
			k.HeldAt("store-lock-held", caller, short+" is called with nbs.mu held", tg, 1, lockM, unlockM)
		}
	}
	if nCallers < 7 {
		k.Unknown("store-lock-held", "store/nbs", "call sites of lock-requiring functions", fmt.Sprintf("%d found (floor 7)", nCallers))
	}
	writers := map[string]map[string]string{
		"upstream": {
			"(*store/nbs.NomsBlockStore).updateManifest":         "CAS winner / re-base on loss",
			"(*store/nbs.NomsBlockStore).updateManifest$1":       "re-base to the winner's contents after a lost race",
			"(*store/nbs.NomsBlockStore).rebase":                 "adopt on-disk manifest",
			"(*store/nbs.NomsBlockStore).swapTables":             "GC swap after UpdateGCGen",
			"(*store/nbs.NomsBlockStore).updateManifestAddFiles": "add table files",
			"(*store/nbs.NomsBlockStore).finalizeConjoin":        "conjoin result",
			"(*store/nbs.NomsBlockStore).ConjoinTableFiles":      "explicit conjoin, after its manifest update succeeded",
		},
	}
	for field, allow := range writers {
		n := 0
		for _, fn := range nbs {
			for _, st := range eng.FieldStores(fn, `store/nbs\.NomsBlockStore$`, field) {
				n++
				name := eng.Name(fn)
				_, ok := allow[name]
				if !ok && constructors[eng.Name(eng.Outermost(fn))] {
					ok = true
				}
				k.Require("upstream-writers", name+"#"+field, "NomsBlockStore."+field+" is assigned only by the frozen set of functions", ok, c.InstrPos(st), "new writer of the cached manifest contents")
			}
		}
		if n < 4 {
			k.Unknown("upstream-writers", field, "stores to NomsBlockStore."+field, fmt.Sprintf("%d found (floor 4)", n))
		}
	}

	// ---- (4) ChunkJournal.Update
	if fn := k.Fn("(*store/nbs.ChunkJournal).Update"); fn != nil {
		cr := eng.CallSet(fn, mCommitRoot)
		k.OnlyAfter("journal-cas", fn, "the journal root is committed only on the readOnly()==false edge", cr, 1, readOnlyEdges(fn, false))
		lockOK := eng.CondEdgesP(fn, func(v ssa.Value) bool {
			return eng.CompareOf(v, eng.IsField(mcLock), eng.IsParamOfType("store/hash.Hash"), token.NEQ)
		}, false)
		k.OnlyAfter("journal-cas", fn, "the journal root is committed only on the edge where the cached lock equals the caller's lastLock", cr, 1, lockOK)
		for in := range cr.I {
			args := in.(*ssa.Call).Call.Args
			ok := len(args) >= 4 && eng.Mentions(args[3], eng.IsField("store/nbs.manifestContents.root")) && eng.Mentions(args[3], eng.IsParamOfType("store/nbs.manifestContents"))
			k.Require("journal-cas", eng.Name(fn)+"#root-arg", "the root written to the journal is the root of the proposed contents", ok, c.InstrPos(in), "commitRootHash argument is not next.root")
		}
		// the proposed contents are adopted (cached as the journal's contents, or handed back to the caller, which
		// reads "contents with my new lock" as an acknowledged commit) only after the root record — and with it the
		// flush and fsync of every chunk record buffered before it — succeeded; a root that did not move is no exception
		isNext := eng.IsParamOfType("store/nbs.manifestContents")
		adopt := eng.NewSet()
		for _, st := range eng.FieldStores(fn, `store/nbs\.ChunkJournal$`, "contents") {
			if s, ok := st.(*ssa.Store); ok && eng.Mentions(s.Val, isNext) {
				adopt.AddI(st)
			}
		}
		for in := range eng.SuccessExits(fn).I {
			// a return of the parameter itself (a return of j.contents is covered through the adopting store)
			if ret, ok := in.(*ssa.Return); ok && len(ret.Results) > 0 && isNext(eng.Origin(eng.Unspill(ret, 0))) {
				adopt.AddI(in)
			}
		}
		crOK := eng.NewSet()
		for in := range cr.I {
			crOK.Union(eng.OkCut(in.(ssa.CallInstruction)))
		}
		k.OnlyAfter("journal-ack", fn, "the journal adopts or returns the proposed contents only after commitRootHash returned nil", adopt, 1, crOK)
		// a changed table set goes to the backing manifest first
		flush := k.OkCalls(fn, "flush", eng.Static("(*store/nbs.ChunkJournal).flushToBackingManifest"))
		sameSpecs := eng.CondEdgesP(fn, func(v ssa.Value) bool { return eng.Mentions(v, eng.IsCall(eng.Static("store/nbs.equalSpecs"))) }, true)
		// `if !equalSpecs(..)`: the edge on which equalSpecs is true skips the flush
		sameSpecs.Union(eng.CondEdgesP(fn, func(v ssa.Value) bool {
			u, ok := v.(*ssa.UnOp)
			return ok && u.Op == token.NOT && eng.Mentions(u.X, eng.IsCall(eng.Static("store/nbs.equalSpecs")))
		}, false))
		k.OnlyAfter("journal-specs-first", fn, "the journal root is committed only after a changed table-file set was flushed to the backing manifest", cr, 1, eng.UnionOf(flush, sameSpecs))
	}

	// ---- (4b) the journal commit itself is durable before it is acknowledged (shared with C03)
	checkRootRecordAppenders(k)

	// ---- (5) blobstore manifest
	if fn := k.Fn("store/nbs.updateBSWithChecker"); fn != nil {
		put := eng.CallSet(fn, eng.Named(`^iface:store/blobstore\.Blobstore\.CheckAndPut`))
		lockOK := eng.CondEdgesP(fn, func(v ssa.Value) bool {
			return eng.CompareOf(v, eng.IsField(mcLock), eng.IsParamOfType("store/hash.Hash"), token.NEQ)
		}, false)
		lockOK2 := eng.CondEdgesP(fn, func(v ssa.Value) bool {
			return eng.CompareOf(v, eng.IsField(mcLock), eng.IsParamOfType("store/hash.Hash"), token.EQL)
		}, true)
		_ = lockOK2
		k.OnlyAfter("bs-cas", fn, "the conditional blob write is reached only past the lock comparison", put, 1, eng.UnionOf(lockOK, lockOK2))
		for in := range put.I {
			call := in.(*ssa.Call)
			// expectedVersion argument derives from the read that produced the contents (a call on the same blobstore)
			ok := false
			for _, a := range call.Call.Args {
				if strings.HasSuffix(eng.ShortType(a.Type()), "string") && eng.Mentions(a, func(x ssa.Value) bool {
					cc, isCall := x.(*ssa.Call)
					return isCall && (strings.Contains(eng.CalleeName(cc), "manifestVersionAndContents") || strings.Contains(eng.CalleeName(cc), "Blobstore.Get"))
				}) {
					ok = true
				}
			}
			k.Require("bs-cas", eng.Name(fn)+"#version-token", "the expected version handed to CheckAndPut comes from the read of the current manifest", ok, c.InstrPos(in), "version token is not derived from the manifest read")
		}
		// the proposed contents are returned (i.e. the caller believes it won) only after the conditional write succeeded
		won := eng.ResultPoints(fn, 0, func(v ssa.Value) bool {
			return eng.Mentions(v, func(x ssa.Value) bool {
				p, ok := x.(*ssa.Parameter)
				return ok && strings.HasSuffix(eng.ShortType(p.Type()), "manifestContents")
			})
		})
		k.OnlyAfter("bs-cas", fn, "the proposed contents are returned only after CheckAndPutManifest returned nil", won, 1, k.OkCalls(fn, "checkandput", eng.Named(`^iface:store/blobstore\.Blobstore\.CheckAndPut`)))
	}

	// ---- (6) datas.database.update token flow
	if fn := k.Fn("(*store/datas.database).update"); fn != nil {
		try := eng.Calls(fn, eng.Static("(*store/datas.database).tryCommitChunks"), false)
		if len(try) < 1 {
			k.Unknown("datas-cas-token", eng.Name(fn), "call to tryCommitChunks", "not found")
		}
		mRoot := eng.Named(`^iface:store/datas\.rootTracker\.Root$|\(\*store/types\.ValueStore\)\.Root$`)
		for _, call := range try {
			args := call.Common().Args
			// receiver, ctx, newRootHash, currentRootHash
			last := args[len(args)-1]
			ok := eng.Mentions(last, eng.IsCall(mRoot))
			k.Require("datas-cas-token", eng.Name(fn)+"#expected-root", "the expected root handed to the store commit is the root read in this attempt", ok, c.InstrPos(call.(ssa.Instruction)), "the CAS token is not the result of rt.Root(ctx)")
			// the root read is inside the retry loop: the Root() call is reachable from the retry edge
			for _, rc := range eng.Calls(fn, mRoot, false) {
				inLoop := false
				for _, l := range eng.Loops(fn) {
					if l.Body[rc.(ssa.Instruction).Block()] && l.Body[call.(ssa.Instruction).Block()] {
						inLoop = true
					}
				}
				k.Require("datas-cas-token", eng.Name(fn)+"#reread-on-retry", "the root is re-read in every retry of the optimistic loop", inLoop, c.InstrPos(rc.(ssa.Instruction)), "Root() is read outside the retry loop: a retry would reuse a stale token")
			}
		}
		// the datasets edited are loaded from that same root value (one Root() call feeds both the load and the CAS)
		for _, call := range try {
			args := call.Common().Args
			last := args[len(args)-1]
			for _, ld := range eng.Calls(fn, eng.Static("(*store/datas.database).loadDatasetsRefmap"), false) {
				la := ld.Common().Args
				same := false
				eng.Slice(last, false, func(x ssa.Value) bool {
					cc, ok := x.(*ssa.Call)
					if ok && mRoot(cc) {
						if eng.Mentions(la[len(la)-1], func(y ssa.Value) bool { return y == x }) {
							same = true
						}
					}
					return false
				})
				k.Require("datas-cas-token", eng.Name(fn)+"#datasets-of-token-root", "the datasets that are edited are loaded from the very root value used as the CAS token", same, c.InstrPos(ld.(ssa.Instruction)), "loadDatasetsRefmap reads a different root than the one passed to tryCommitChunks")
			}
			// the edit callback receives those datasets
			for _, ed := range eng.Calls(fn, func(ci ssa.CallInstruction) bool {
				_, isP := ci.Common().Value.(*ssa.Parameter)
				return isP && ci.Common().StaticCallee() == nil && !ci.Common().IsInvoke()
			}, false) {
				ea := ed.Common().Args
				ok := len(ea) > 0 && eng.Mentions(ea[len(ea)-1], eng.IsCall(eng.Static("(*store/datas.database).loadDatasetsRefmap")))
				k.Require("datas-cas-token", eng.Name(fn)+"#edit-input", "the edit callback receives the datasets loaded from the token root", ok, c.InstrPos(ed.(ssa.Instruction)), "edit callback input is not the loaded dataset map")
			}
		}
	}
}
