package rules

import (
	"fmt"
	"go/constant"
	"go/token"
	"go/types"
	"strings"

	"dvcheck/internal/eng"

	"golang.org/x/tools/go/ssa"
)

func init() {
	Registry["C03"] = &Rule{
		Explanation: "Decides the structural clause of crash recovery: (1) every function that appends a root-hash record reaches a success exit only through record write -> buffered flush (WriteAt on the journal file) -> fsync of the journal file, each error-checked, in that order; (2) the in-memory journal root is installed only after commitRootHash succeeded; (3) only the frozen set of functions writes/truncates the journal file; (4) the recovery truncate is unreachable once the data-loss scan and the `recovered`-false edge are removed, and a found data loss returns an error; truncate is followed by Sync; (5) validator verdicts of journal records are consumed at every call site. It does not decide which byte prefixes are valid journals or that the OS honours fsync.",
		RuleText:    "cut-reachability on the SSA CFG (targets unreachable from entry once the required error-checked calls are removed), who-may-call allowlists over the whole module, error-consumption at validator call sites",
		Assumptions: []string{"(*os.File).Sync makes preceding WriteAt calls durable", "callee identity is resolved through go/types; interface calls count only when matched by method+receiver type"},
		Patterns:    []string{"./store/nbs", "./libraries/utils/errors"},
		Run:         runC03,
	}
}

var (
	mSync        = eng.Static("(*os.File).Sync")
	mWriteAt     = eng.Static("(*os.File).WriteAt")
	mWriteRootRe = eng.Static("store/nbs.writeRootHashRecord")
	mCommitRoot  = eng.Static("(*store/nbs.journalWriter).commitRootHash", "(*store/nbs.journalWriter).commitRootHashUnlocked")
)

func runC03(k *eng.Check, tier string) {
	c := k.C
	nbs := c.Funcs("store/nbs")

	checkRootRecordAppenders(k)

	// commitRootHash (locked wrapper) and writeCompressedChunk's intermediate sync go through commitRootHashUnlocked
	if fn := k.Fn("(*store/nbs.journalWriter).commitRootHash"); fn != nil {
		k.OnlyAfter("commit-wrapper", fn, "success exit only after commitRootHashUnlocked succeeded", eng.SuccessExits(fn), 1,
			k.OkCalls(fn, "cru", eng.Static("(*store/nbs.journalWriter).commitRootHashUnlocked")))
	}
	if fn := k.Fn("(*store/nbs.journalWriter).writeCompressedChunk"); fn != nil {
		// every Sync reachable from here is inside commitRootHashUnlocked: no direct Sync
		direct := eng.CallsDeep(fn, mSync, true)
		k.Require("intermediate-sync-via-root-record", eng.Name(fn), "the size-capped intermediate sync goes through commitRootHashUnlocked (index batches end at a synced root record)",
			len(direct) == 0 && len(eng.Calls(fn, eng.Static("(*store/nbs.journalWriter).commitRootHashUnlocked"), false)) >= 1, c.Pos(fn.Pos()), "direct Sync call or no commitRootHashUnlocked call")
	}

	// (2) ChunkJournal.Update / bootstrapJournalWriter install a root only after commitRootHash succeeded
	if fn := k.Fn("(*store/nbs.ChunkJournal).Update"); fn != nil {
		stores := eng.NewSet().AddI(eng.FieldStores(fn, `store/nbs\.ChunkJournal$`, "contents")...)
		k.OnlyAfter("install-after-commit", fn, "j.contents is replaced only after commitRootHash returned nil", stores, 1, k.OkCalls(fn, "commitroot", mCommitRoot))
	}
	if fn := k.Fn("(*store/nbs.ChunkJournal).bootstrapJournalWriter"); fn != nil {
		// on the create path and the empty-journal writable path the manifest root is committed to the journal before it is adopted
		stores := eng.NewSet().AddI(eng.FieldStores(fn, `store/nbs\.ChunkJournal$`, "contents")...)
		k.OnlyAfter("install-after-commit", fn, "j.contents is adopted only after commitRootHash/trueUp succeeded, or on the read-only (cannot write) edge", stores, 3,
			eng.UnionOf(k.OkCalls(fn, "commitroot", mCommitRoot), k.OkCalls(fn, "trueup", eng.Static("store/nbs.trueUpBackingManifest")), readOnlyEdges(fn, true)))
	}

	// (3) single writer of journal bytes
	// (3a) every call that receives the journal file handle (field journalWriter.journal), by role
	journalUse := map[string]string{
		"(*os.File).WriteAt":                 "W the only append (flush)",
		"(*os.File).Sync":                    "S durability point",
		"(*os.File).ReadAt":                  "R read",
		"(*os.File).Close":                   "R close",
		"(*os.File).Stat":                    "R stat",
		"(*os.File).Seek":                    "R seek",
		"store/nbs.processJournalRecords":    "R+T replay; truncates only under tryTruncate after the data-loss scan (rule 4)",
		"store/nbs.peekRootHashAt":           "R io.ReaderAt",
		"io.NewSectionReader":                "R snapshot reader",
		"iface:io.ReaderAt.ReadAt":           "R",
		"store/nbs.newJournalReaderAt":       "R",
	}
	writersOK := map[string]bool{"(*store/nbs.journalWriter).flush": true}
	uses := eng.FieldCallUses(nbs, "store/nbs.journalWriter.journal")
	nW := 0
	for _, u := range uses {
		callee := eng.CalleeName(u.Call)
		role, ok := journalUse[callee]
		construct := eng.Name(eng.Outermost(u.Fn)) + "#" + callee
		if !ok {
			k.Fail("journal-handle-use", construct, "every operation applied to the journal file handle is in the frozen role table", c.InstrPos(u.Instr), "unknown operation on journalWriter.journal: "+callee, nil)
			continue
		}
		if role[0] == 'W' {
			nW++
			k.Require("journal-single-writer", construct, "journal bytes are appended only by flush", writersOK[eng.Name(eng.Outermost(u.Fn))], c.InstrPos(u.Instr), "journal file written outside flush")
		} else {
			k.Pass("journal-handle-use", construct, "operation on the journal handle is a known non-writing role: "+role, 1)
		}
	}
	if nW < 1 || len(uses) < 5 {
		k.Unknown("journal-single-writer", "store/nbs", "uses of journalWriter.journal", fmt.Sprintf("found %d uses, %d writers; confirmed floor 5/1", len(uses), nW))
	}
	// (3b) the set of nbs functions that truncate any file is frozen
	truncOK := map[string]string{
		"store/nbs.processJournalRecords":          "recovery truncate (rule 4)",
		"store/nbs.ReviveJournalWithDataLoss":      "fsck repair after confirmed data loss and a backup copy",
		"(*store/nbs.journalWriter).truncateIndex": "index file only (receiver field journalWriter.index)",
	}
	nT := 0
	for _, fn := range nbs {
		for _, call := range eng.Calls(fn, eng.Static("(*os.File).Truncate", "os.Truncate"), true) {
			nT++
			name := eng.Name(eng.Outermost(fn))
			_, ok := truncOK[name]
			if !ok {
				// a helper that only an owner calls (the owner split into phases) is part of that owner
				for owner := range truncOK {
					if eng.OnlyCalledFrom(eng.Outermost(fn), map[string]bool{owner: true}, nbs, 2) {
						ok = true
					}
				}
			}
			k.Require("truncate-owners", name+"#Truncate", "only the frozen set of functions truncates a file in store/nbs", ok, c.InstrPos(call.(ssa.Instruction)), "new truncation site")
		}
	}
	if nT < 3 {
		k.Unknown("truncate-owners", "store/nbs", "Truncate call sites", "fewer than the 3 confirmed sites")
	}
	if fn := k.Fn("(*store/nbs.journalWriter).truncateIndex"); fn != nil {
		for _, call := range eng.Calls(fn, eng.Static("(*os.File).Truncate"), true) {
			k.Require("truncate-owners", eng.Name(fn)+"#receiver", "truncateIndex truncates the index handle, never the journal", eng.FromField(call.Common().Args[0], "store/nbs.journalWriter.index"), c.InstrPos(call.(ssa.Instruction)), "receiver is not journalWriter.index")
		}
	}
	// (3c) the journal file is opened for writing only by create/open/revive
	for _, fn := range nbs {
		for _, call := range eng.Calls(fn, eng.Static("os.OpenFile", "os.Create"), true) {
			if !eng.DerivesFrom(call.Common().Args[0], true, func(v ssa.Value) bool {
				return strings.Contains(eng.Desc(v, 2), "chunkJournalName") || eng.Desc(v, 2) == `const:"vvvvvvvvvvvvvvvvvvvvvvvvvvvvvvvv"`
			}) {
				continue
			}
			name := eng.Name(eng.Outermost(fn))
			ok := map[string]bool{"store/nbs.ReviveJournalWithDataLoss": true}[name]
			k.Require("journal-open-owners", name+"#open(chunkJournalName)", "a path built from the journal file name is opened only by the frozen set", ok, c.InstrPos(call.(ssa.Instruction)), "new opener of the journal file by name")
		}
	}
	// wr.off is advanced only by flush and bootstrap
	for _, fn := range nbs {
		for _, st := range eng.FieldStores(fn, `store/nbs\.journalWriter$`, "off") {
			name := eng.Name(eng.Outermost(fn))
			// the owners, or helpers that are only ever called from them (an extracted helper is not a new owner)
			ok := eng.OnlyCalledFrom(fn, map[string]bool{"(*store/nbs.journalWriter).flush": true, "(*store/nbs.journalWriter).bootstrapJournal": true, "(*store/nbs.journalWriter).corruptIndexRecovery": true}, nbs, 3)
			k.Require("journal-offset-writer", name+"#journalWriter.off", "journalWriter.off is assigned only in flush, bootstrap and index recovery", ok, c.InstrPos(st), "journal offset written elsewhere")
		}
	}

	// (4) recovery truncate
	if fn := k.Fn("store/nbs.processJournalRecords"); fn != nil && len(c.FamilyOf(fn, nbs, 2)) > 1 && eng.CallSet(fn, eng.Static("(*os.File).Truncate")).Len() == 0 {
		c03RecoveryFamily(k, c.FamilyOf(fn, nbs, 2), mSync)
	} else if fn != nil {
		trunc := eng.CallSet(fn, eng.Static("(*os.File).Truncate"))
		scan := eng.CallSet(fn, eng.Static("store/nbs.possibleDataLossCheck"))
		notRecovered := eng.CondEdges(fn, `recovered|processJournalRecordsReader\(.*\)#2`, false)
		k.OnlyAfter("truncate-after-dataloss-scan", fn, "Truncate is unreachable once the data-loss scan and the recovered==false edge are removed", trunc, 1, eng.UnionOf(scan, notRecovered))
		// whoever opens the journal (also an opener that may not truncate) learns about damage that is followed by valid records
		k.OnlyAfter("dataloss-scan-on-every-recovery", fn, "once an unusable record stopped the replay (recovered == true), a success exit is reached only after the data-loss scan ran", eng.SuccessExits(fn), 1, eng.UnionOf(scan, notRecovered))
		// dataLossFound true edge must not reach Truncate nor a success exit
		dl := eng.CondEdges(fn, `^call:store/nbs\.possibleDataLossCheck\(.*\)#0$`, true)
		if dl.Len() < 1 {
			k.Unknown("dataloss-is-error", eng.Name(fn), "the branch on the data-loss verdict", "no If on the first result of possibleDataLossCheck")
		} else {
			var starts []eng.Point
			for e := range dl.E {
				starts = append(starts, eng.Point{B: e.To(), I: 0})
			}
			k.OnlyAfter("dataloss-is-error", fn, "when the scan reports data loss, neither Truncate nor a success exit is reachable", eng.UnionOf(trunc, eng.SuccessExits(fn)), 1, eng.NewSet(), starts...)
		}
		// truncate is followed by Sync before success
		for in := range trunc.I {
			k.OnlyAfter("truncate-then-sync", fn, "after Truncate a success exit is reached only through Sync", eng.SuccessExits(fn), 1, k.OkCalls(fn, "sync", mSync), eng.After(in))
		}
		// tryTruncate guard
		k.OnlyAfter("truncate-needs-tryTruncate", fn, "Truncate only on the tryTruncate-true edge", trunc, 1, predTrueEdges(fn)) // the function's only bool parameter, whatever it is called
	}

	// (5) validator verdicts consumed
	validators := eng.Static("store/nbs.validateJournalRecord", "store/nbs.readJournalRecord", "store/nbs.rootHashFromBuffer", "store/nbs.peekRootHashAt")
	nv := 0
	for _, fn := range nbs {
		for _, call := range eng.Calls(fn, validators, true) {
			nv++
			k.Require("validator-consumed", eng.Name(fn)+"#"+eng.CalleeName(call), "the verdict of a journal-record validator is tested or propagated", eng.ErrConsumed(call), c.InstrPos(call.(ssa.Instruction)), "error result dropped")
		}
	}
	if nv < 7 {
		k.Unknown("validator-consumed", "store/nbs", "journal validator call sites", "fewer than the 7 confirmed call sites")
	}
	// in processJournalRecordsReader a record reaches cb only past validateJournalRecord nil and readJournalRecord nil
	if fn := k.Fn("store/nbs.processJournalRecordsReader"); fn != nil {
		// the record callback: a dynamic call of a function-typed parameter taking a journalRec
		cb := eng.CallSet(fn, func(ci ssa.CallInstruction) bool {
			cc := ci.Common()
			if cc.IsInvoke() || cc.StaticCallee() != nil {
				return false
			}
			_, isParam := cc.Value.(*ssa.Parameter)
			return isParam && strings.Contains(eng.ShortType(cc.Value.Type()), "journalRec")
		})
		k.OnlyAfter("record-validated-before-use", fn, "cb receives a record only after validateJournalRecord returned nil", cb, 1, k.OkCalls(fn, "validate", eng.Static("store/nbs.validateJournalRecord")))
		k.OnlyAfter("record-validated-before-use", fn, "cb receives a record only after readJournalRecord returned nil", cb, 1, k.OkCalls(fn, "readrec", eng.Static("store/nbs.readJournalRecord")))
		// every way of stopping at a record that cannot be used (zero length, oversized length, record
		// past EOF, checksum/validation failure) reports recovered=true, which is what triggers the data-loss scan
		res := fn.Signature.Results()
		ri := -1
		for i := 0; i < res.Len(); i++ {
			if b, ok := res.At(i).Type().Underlying().(*types.Basic); ok && b.Kind() == types.Bool {
				ri = i
			}
		}
		if ri < 0 {
			k.Unknown("recovery-flag", eng.Name(fn), "the boolean `recovered` result", "not found")
		} else {
			isLen := func(v ssa.Value) bool { return eng.MentionsDeep(v, eng.IsCall(eng.Static("store/nbs.readUint32"))) }
			entries := map[string]*eng.Set{
				"zero-length record": eng.CondEdgesP(fn, func(v ssa.Value) bool {
					b, ok := eng.IsCompare(v, token.EQL)
					return ok && isLen(b.X) && isConstInt(b.Y, 0)
				}, true),
				"oversized record length": eng.CondEdgesP(fn, func(v ssa.Value) bool {
					b, ok := eng.IsCompare(v, token.GTR)
					return ok && isLen(b.X) && !isConstInt(b.Y, 0)
				}, true),
				"record extends past the end of the file": eng.CondEdgesP(fn, func(v ssa.Value) bool {
					b, ok := eng.IsCompare(v, token.NEQ)
					if !ok {
						return false
					}
					ex, ok := b.X.(*ssa.Extract)
					if !ok {
						return false
					}
					call, ok := ex.Tuple.(*ssa.Call)
					return ok && eng.Static("(*bufio.Reader).Peek")(call) && len(call.Call.Args) == 2 && isLen(call.Call.Args[1])
				}, true),
				"record fails validation (checksum)": eng.CondEdgesP(fn, func(v ssa.Value) bool {
					b, ok := eng.IsCompare(v, token.NEQ)
					return ok && eng.IsCall(eng.Static("store/nbs.validateJournalRecord"))(b.X)
				}, true),
			}
			for what, es := range entries {
				if es.Len() < 1 {
					k.Unknown("recovery-flag", eng.Name(fn)+"#"+what, "recovery entry", "the test was not found")
					continue
				}
				vals, unknown := eng.ResultValuesFromEdges(fn, es, ri)
				ok := !unknown && len(vals) > 0
				for _, v := range vals {
					if !eng.IsConstBool(v, true) {
						ok = false
					}
				}
				k.Require("recovery-flag", eng.Name(fn)+"#"+what, "stopping at an unusable record ("+what+") reports recovered=true so that the data-loss scan runs", ok, c.Pos(fn.Pos()), "a path from this stop condition returns recovered != true: damage followed by valid records would be truncated silently")
			}
		}
		k.OnlyAfter("record-validated-before-use", fn, "cb receives a record only past the maximum-length comparison", cb, 1, eng.CondEdges(fn, `> \*global:store/nbs\.journalWriterBuffSize\)$`, false))
	}
}

// checkRootRecordAppenders: every function that appends a root-hash record to the journal acknowledges
// only after record -> flush -> fsync (each error-checked) and after recording the committed root as the
// writer's current root.  Shared by C03 (crash recovery) and C02 (acknowledged commits persist).
func checkRootRecordAppenders(k *eng.Check) {
	c := k.C
	nbs := c.Funcs("store/nbs")
	// (1) root-hash record appenders: semantic anchor = every nbs function that calls writeRootHashRecord
	n := 0
	for _, fn := range nbs {
		recs := eng.Calls(fn, mWriteRootRe, false)
		if len(recs) == 0 {
			continue
		}
		n++
		exits := eng.SuccessExits(fn)
		syncOK := k.OkCalls(fn, "sync", mSync)
		flushOK := k.OkCalls(fn, "writeat", mWriteAt)
		syncCalls := eng.NewSet()
		for _, b := range fn.Blocks {
			for _, in := range b.Instrs {
				if call, ok := in.(*ssa.Call); ok {
					if mSync(call) {
						syncCalls.AddI(call)
					} else if f := call.Call.StaticCallee(); f != nil && c.MustPass(f, "sync", mSync, 3) {
						syncCalls.AddI(call)
					}
				}
			}
		}
		k.OnlyAfter("root-record-before-exit", fn, "success exit only after writeRootHashRecord", exits, 1, eng.CallSet(fn, mWriteRootRe))
		// the writer's notion of the current root (re-committed by intermediate syncs) is updated to the
		// root being committed before the commit is acknowledged
		crStores := eng.NewSet()
		for _, st := range eng.FieldStores(fn, `store/nbs\.journalWriter$`, "currentRoot") {
			// the stored value is the root handed to writeRootHashRecord
			same := false
			for _, r := range recs {
				if len(r.Common().Args) == 2 && st.(*ssa.Store).Val == r.Common().Args[1] {
					same = true
				}
			}
			if same {
				crStores.AddI(st)
			}
		}
		k.OnlyAfter("current-root-before-ack", fn, "a success exit is reached only after journalWriter.currentRoot was set to the committed root", exits, 1, crStores)
		for _, r := range recs {
			after := eng.After(r.(ssa.Instruction))
			k.OnlyAfter("flush-before-sync", fn, "after the root record is buffered, fsync is reached only after a successful flush (WriteAt)", syncCalls, 1, flushOK, after)
			k.OnlyAfter("sync-before-ack", fn, "after the root record is buffered, a success exit is reached only after a successful fsync", exits, 1, syncOK, after)
		}
	}
	if n < 1 {
		k.Unknown("root-record-appenders", "store/nbs", "functions that call writeRootHashRecord", "none found (floor 1)")
	}

}

func journalRecv(d string) bool {
	switch {
	case d == "*&param:wr.journal", d == "*&*alloc:wr.journal", d == "*&*free:wr.journal":
		return true
	}
	return false
}

// readOnlyEdges: edges on which `j.backing.readOnly()` (or a boolean derived from its negation) says "cannot write".
func readOnlyEdges(fn *ssa.Function, cannotWrite bool) *eng.Set {
	s := eng.NewSet()
	// direct test of readOnly(): true edge = cannot write
	s.Union(eng.CondEdges(fn, `^call:\(\*store/nbs\.journalManifest\)\.readOnly\(`, cannotWrite))
	// test of !readOnly() (canCreate / canWrite): false edge = cannot write
	s.Union(eng.CondEdges(fn, `^!call:\(\*store/nbs\.journalManifest\)\.readOnly\(`, !cannotWrite))
	return s
}

func isConstInt(v ssa.Value, n int64) bool {
	c, ok := v.(*ssa.Const)
	if !ok || c.Value == nil {
		return false
	}
	if x, isInt := constant.Int64Val(constant.ToInt(c.Value)); isInt {
		return x == n
	}
	return false
}

// c03RecoveryFamily: the recovery-truncate rules of processJournalRecords when the function has been split into
// single-caller phase helpers (scan / settle): the same obligations, decided over the helper tree.
func c03RecoveryFamily(k *eng.Check, fam []*ssa.Function, mSync eng.CallM) {
	fn := fam[0]
	truncF := func(g *ssa.Function) *eng.Set { return eng.CallSet(g, eng.Static("(*os.File).Truncate")) }
	scanOrNotRecovered := func(g *ssa.Function) *eng.Set {
		return eng.UnionOf(eng.CallSet(g, eng.Static("store/nbs.possibleDataLossCheck")), eng.CondEdges(g, `recovered|processJournalRecordsReader\(.*\)#2`, false))
	}
	k.OnlyAfterFam("truncate-after-dataloss-scan", fam, "Truncate is unreachable once the data-loss scan and the recovered==false edge are removed", truncF, 1, scanOrNotRecovered)
	k.OnlyAfterFam("dataloss-scan-on-every-recovery", fam, "once an unusable record stopped the replay (recovered == true), a success exit is reached only after the data-loss scan ran",
		func(g *ssa.Function) *eng.Set {
			if g == fn {
				return eng.SuccessExits(g)
			}
			return eng.NewSet()
		}, 1, scanOrNotRecovered)
	k.OnlyAfterFam("truncate-needs-tryTruncate", fam, "Truncate only on the tryTruncate-true edge", truncF, 1, func(g *ssa.Function) *eng.Set { return predTrueEdges(g) })
	// the can-truncate flag a phase branches on is the caller's own flag
	for _, g := range fam {
		for _, b := range g.Blocks {
			for _, in := range b.Instrs {
				ci, ok := in.(ssa.CallInstruction)
				if !ok {
					continue
				}
				h := ci.Common().StaticCallee()
				isFam := false
				for _, x := range fam[1:] {
					if x == h {
						isFam = true
					}
				}
				if !isFam || predTrueEdges(h).Len() == 0 {
					continue
				}
				for i, a := range ci.Common().Args {
					if bt, isB := a.Type().Underlying().(*types.Basic); isB && bt.Kind() == types.Bool && i < len(h.Params) {
						_, fromParam := eng.Origin(a).(*ssa.Parameter)
						k.Require("truncate-needs-tryTruncate", eng.Name(g)+"->"+eng.Name(h)+"#flag", "the phase that truncates is handed the caller's own can-truncate flag", fromParam, k.C.InstrPos(in), "the flag passed to the truncating phase is not the caller's parameter")
					}
				}
			}
		}
	}
	nDL, nTr := 0, 0
	for _, g := range fam {
		// the data-loss verdict is an error where it is computed
		dl := eng.CondEdges(g, `^call:store/nbs\.possibleDataLossCheck\(.*\)#0$`, true)
		if dl.Len() > 0 {
			nDL++
			var starts []eng.Point
			for e := range dl.E {
				starts = append(starts, eng.Point{B: e.To(), I: 0})
			}
			k.OnlyAfter("dataloss-is-error", g, "when the scan reports data loss, neither Truncate nor a success exit is reachable", eng.UnionOf(truncF(g), eng.SuccessExits(g)), 1, eng.NewSet(), starts...)
		}
		for in := range truncF(g).I {
			nTr++
			k.OnlyAfter("truncate-then-sync", g, "after Truncate a success exit is reached only through Sync", eng.SuccessExits(g), 1, k.OkCalls(g, "sync", mSync), eng.After(in))
		}
	}
	if nDL < 1 {
		k.Unknown("dataloss-is-error", eng.Name(fn), "the branch on the data-loss verdict", "no If on the first result of possibleDataLossCheck in the function or its phase helpers")
	}
	if nTr < 1 {
		k.Unknown("truncate-then-sync", eng.Name(fn), "the recovery Truncate", "not found in the function or its phase helpers")
	}
}
