package rules

import (
	"fmt"
	"os"
	"sort"
	"strings"

	"dvcheck/internal/eng"

	"golang.org/x/tools/go/ssa"
)

func init() {
	Registry["C37"] = &Rule{
		Explanation: "Decides (A) write/read field agreement of the schema flatbuffer and (B) that column-tag generation depends only on its arguments. (A) For every table type of the schema message (TableSchema, Column, Index, CheckConstraint, FulltextInfo, VectorInfo) and every writer/reader pair of schema/encoding (main columns, hidden keyless columns, clustered index, secondary indexes, checks, full-text info, vector info): schema-field-read-is-written: every field the reader accesses is written by the paired writer (otherwise the reader always sees the flatbuffers default); schema-field-written-is-read: every field the writer adds is accessed by the paired reader, or is in the frozen table of redundant/compatibility fields (otherwise the attribute is lost on reload). (B) tag-deterministic: no non-deterministic source (clock, global math/rand, crypto/rand, environment, map iteration order ...) reaches, by data flow inside doltdb/schema, the table name, kind list, column name or kind passed to schema.AutoGenerateTag, the seed of rand.NewSource, or the returned tag; tag-depends-on-arguments: the seed and the returned tag are computed from parameters, constants and the seeded generator only (no package-level variable of dolt, no captured variable); the generator is rand.New(rand.NewSource(seed)). It does not decide the round trip of individual SQL type strings, nor that the value written to a field is the value of the corresponding schema attribute.",
		RuleText:    "accessor/builder call tables of generated flatbuffers code restricted to function closures, set inclusion with frozen exceptions; forward data-flow taint; backward slice to leaves",
		Assumptions: []string{"generated flatbuffers accessors have no side effects", "sha512, encoding/binary, regexp and strings functions are deterministic", "math/rand.Rand seeded by NewSource(seed) is a deterministic sequence"},
		Patterns:    []string{"./libraries/doltcore/schema", "./libraries/doltcore/schema/encoding", "./libraries/doltcore/doltdb", "./gen/fb/serial"},
		Run:         runC37,
	}
}

const (
	c37EncodingPkg = "libraries/doltcore/schema/encoding"
	c37SchemaPkg   = "libraries/doltcore/schema"
	c37DoltdbPkg   = "libraries/doltcore/doltdb"
)

type c37Pair struct {
	name    string
	typ     string   // flatbuffers table type
	writers []string // writer root functions (short names in schema/encoding)
	readers []string
	// exceptions for written-but-not-read fields, with reasons
	unread map[string]string
}

var c37Pairs = []c37Pair{
	{"table", "TableSchema", []string{"serializeSchemaAsFlatbuffer"}, []string{"deserializeSchemaFromFlatbuffer"}, map[string]string{
		"HasFeaturesAfterTryAccessors": "forward-compatibility marker that makes clients without Try accessors fail loudly; carries no schema attribute",
	}},
	{"columns", "Column", []string{"serializeSchemaColumns"}, []string{"deserializeSchemaFromFlatbuffer"}, map[string]string{
		"DisplayOrder":                   "equals the position in the columns vector, which is what the reader uses",
		"UsesAdaptiveEncoding":           "breaking-change marker for old clients; the encoding itself is in Encoding, which is read",
		"AdaptiveEncodingBreakingChange": "breaking-change marker for old clients; the encoding itself is in Encoding, which is read",
	}},
	{"keyless-columns", "Column", []string{"serializeHiddenKeylessColumns"}, []string{"keylessSerialSchema"}, map[string]string{
		"DisplayOrder":  "hidden storage-only column, never materialised as schema.Column",
		"Tag":           "hidden storage-only column, never materialised as schema.Column",
		"Encoding":      "hidden storage-only column: the keyless key/value descriptors are fixed by convention",
		"PrimaryKey":    "hidden storage-only column, never materialised as schema.Column",
		"AutoIncrement": "hidden storage-only column, never materialised as schema.Column",
		"Nullable":      "hidden storage-only column, never materialised as schema.Column",
		"Virtual":       "hidden storage-only column, never materialised as schema.Column",
	}},
	{"clustered-index", "Index", []string{"serializeClusteredIndex"}, []string{"deserializeClusteredIndex"}, map[string]string{
		"IndexColumns":  "identical to KeyColumns for the clustered index (the writer passes the same vector)",
		"ValueColumns":  "derived by the reader: the non-key columns in schema order",
		"PrimaryKey":    "constant true for the clustered index",
		"UniqueKey":     "constant true for the clustered index",
		"SpatialKey":    "constant false for the clustered index",
		"SystemDefined": "constant false for the clustered index",
	}},
	{"secondary-indexes", "Index", []string{"serializeSecondaryIndexes"}, []string{"deserializeSecondaryIndexes"}, map[string]string{
		"KeyColumns": "derived by the reader: indexed columns followed by the missing primary-key columns (AddIndexByColTags)",
	}},
	{"checks", "CheckConstraint", []string{"serializeChecks"}, []string{"deserializeChecks"}, nil},
	{"fulltext", "FulltextInfo", []string{"serializeFullTextInfo"}, []string{"deserializeFullTextInfo"}, nil},
	{"vector", "VectorInfo", []string{"serializeVectorInfo"}, []string{"deserializeVectorInfo"}, nil},
}

func runC37(k *eng.Check, tier string) {
	c37Schema(k)
	c37Tags(k)
	c36DebugObls(k)
}

func c37Schema(k *eng.Check) {
	c := k.C
	sp := c.P.SSAPkg["github.com/dolthub/dolt/go/"+serialPkg]
	if sp == nil {
		k.Unknown("anchor", serialPkg, "generated flatbuffers package", "not loaded")
		return
	}
	typeNames := map[string]bool{}
	fields := map[string]map[string]bool{} // T -> declared fields (from generated <T>Add<F> functions)
	for n, m := range sp.Members {
		if _, ok := m.(*ssa.Type); ok {
			typeNames[n] = true
		}
	}
	for n, m := range sp.Members {
		if _, ok := m.(*ssa.Function); !ok {
			continue
		}
		if t, f := splitAdd(n, typeNames); t != "" && f != "" {
			if fields[t] == nil {
				fields[t] = map[string]bool{}
			}
			fields[t][f] = true
		}
	}
	fieldOfAccessor := func(t, m string) string {
		fs := fields[t]
		if fs == nil {
			return ""
		}
		cands := []string{m, strings.TrimPrefix(m, "Try"), strings.TrimSuffix(m, "Length"), strings.TrimSuffix(m, "Bytes"),
			strings.TrimSuffix(strings.TrimPrefix(m, "Try"), "Length"), strings.TrimSuffix(strings.TrimPrefix(m, "Try"), "Bytes")}
		for _, cnd := range cands {
			if fs[cnd] {
				return cnd
			}
		}
		return ""
	}
	inEnc := func(p string) bool { return p == c37EncodingPkg }
	closure := func(names []string) (map[*ssa.Function]bool, bool) {
		var roots []*ssa.Function
		ok := true
		for _, n := range names {
			if f := k.Fn(c37EncodingPkg + "." + n); f != nil {
				roots = append(roots, f)
			} else {
				ok = false
			}
		}
		out := map[*ssa.Function]bool{}
		for _, f := range c.StaticClosure(roots, inEnc, 4) {
			out[f] = true
		}
		return out, ok
	}
	type tab struct{ w, r map[string]string } // field -> position
	tabs := map[string]*tab{}
	wcl, rcl := map[string]map[*ssa.Function]bool{}, map[string]map[*ssa.Function]bool{}
	for _, p := range c37Pairs {
		var ok1, ok2 bool
		wcl[p.name], ok1 = closure(p.writers)
		rcl[p.name], ok2 = closure(p.readers)
		if !ok1 || !ok2 {
			delete(wcl, p.name)
		}
	}
	for _, p := range c37Pairs {
		if wcl[p.name] == nil {
			continue
		}
		t := &tab{map[string]string{}, map[string]string{}}
		tabs[p.name] = t
		// own functions = closure minus the closures of sibling pairs (same table type) that are nested in it
		own := func(cl map[string]map[*ssa.Function]bool, rootsOf func(c37Pair) []string) []*ssa.Function {
			excl := map[*ssa.Function]bool{}
			for _, q := range c37Pairs {
				if q.name == p.name || q.typ != p.typ || cl[q.name] == nil {
					continue
				}
				nested := true
				for _, rn := range rootsOf(q) {
					if f := c.Func(c37EncodingPkg + "." + rn); f == nil || !cl[p.name][f] {
						nested = false
					}
				}
				for _, rn := range rootsOf(p) {
					if f := c.Func(c37EncodingPkg + "." + rn); f != nil && cl[q.name][f] {
						nested = false // mutual: keep everything
					}
				}
				if nested {
					for f := range cl[q.name] {
						excl[f] = true
					}
				}
			}
			var out []*ssa.Function
			for f := range cl[p.name] {
				if !excl[f] {
					out = append(out, f)
				}
			}
			sort.Slice(out, func(i, j int) bool { return eng.Name(out[i]) < eng.Name(out[j]) })
			return out
		}
		for _, fn := range own(wcl, func(q c37Pair) []string { return q.writers }) {
			k.FuncsSeen[fn] = true
			for _, call := range eng.Calls(fn, func(ssa.CallInstruction) bool { return true }, false) {
				cal := call.Common().StaticCallee()
				if cal == nil || cal.Signature.Recv() != nil {
					continue
				}
				if fp := eng.FuncPkg(cal); fp == nil || !strings.HasSuffix(fp.Path(), "/"+serialPkg) {
					continue
				}
				if tt, f := splitAdd(cal.Name(), typeNames); tt == p.typ && f != "" {
					if _, dup := t.w[f]; !dup {
						t.w[f] = c.InstrPos(call.(ssa.Instruction))
					}
				}
			}
		}
		for _, fn := range own(rcl, func(q c37Pair) []string { return q.readers }) {
			k.FuncsSeen[fn] = true
			for _, call := range eng.Calls(fn, func(ssa.CallInstruction) bool { return true }, false) {
				if tt, m, ok := serialMethod(call); ok && tt == p.typ {
					if f := fieldOfAccessor(tt, m); f != "" {
						if _, dup := t.r[f]; !dup {
							t.r[f] = c.InstrPos(call.(ssa.Instruction))
						}
					}
				}
			}
		}
	}
	floors := map[string][2]int{"table": {8, 7}, "columns": {17, 14}, "keyless-columns": {10, 3}, "clustered-index": {7, 1}, "secondary-indexes": {14, 13}, "checks": {4, 4}, "fulltext": {8, 8}, "vector": {1, 1}}
	for _, p := range c37Pairs {
		t := tabs[p.name]
		if t == nil {
			continue
		}
		fl := floors[p.name]
		if len(t.w) < fl[0] || len(t.r) < fl[1] {
			k.Unknown("schema-field-tables", p.name, "fields written / read for serial."+p.typ, fmt.Sprintf("found %d written / %d read (confirmed floor %d / %d)", len(t.w), len(t.r), fl[0], fl[1]))
		}
		var rs, ws []string
		for f := range t.r {
			rs = append(rs, f)
		}
		for f := range t.w {
			ws = append(ws, f)
		}
		sort.Strings(rs)
		sort.Strings(ws)
		for _, f := range rs {
			_, ok := t.w[f]
			k.Require("schema-field-read-is-written", p.name+"#"+p.typ+"."+f, "a field the schema reader accesses is written by the paired writer", ok, t.r[f],
				"serial."+p.typ+"."+f+" is read when a schema is loaded but "+strings.Join(p.writers, "/")+" never writes it: the attribute is always the flatbuffers default after a round trip")
		}
		for _, f := range ws {
			if _, ok := t.r[f]; ok {
				k.Pass("schema-field-written-is-read", p.name+"#"+p.typ+"."+f, "a field the schema writer adds is accessed by the paired reader", 1)
			} else if why, ok := p.unread[f]; ok {
				k.Pass("schema-field-written-is-read", p.name+"#"+p.typ+"."+f, "frozen exception: "+why, 1)
			} else {
				k.Fail("schema-field-written-is-read", p.name+"#"+p.typ+"."+f, "a field the schema writer adds is accessed by the paired reader", t.w[f],
					"serial."+p.typ+"."+f+" is written but "+strings.Join(p.readers, "/")+" never reads it: the attribute is lost when the schema is reloaded", nil)
			}
		}
	}
}

func c37Tags(k *eng.Check) {
	c := k.C
	gen := k.Fn(c37SchemaPkg + ".AutoGenerateTag")
	if gen == nil {
		return
	}
	inPk := func(p string) bool { return p == c37SchemaPkg || p == c37DoltdbPkg }
	// scope: the tag generator, its callers in doltdb and what they call (bounded)
	roots := []*ssa.Function{gen}
	mGen := eng.Static(c37SchemaPkg + ".AutoGenerateTag")
	type site struct {
		fn   *ssa.Function
		call ssa.CallInstruction
	}
	var sites []site
	for _, fn := range c.All() {
		for _, call := range eng.Calls(fn, mGen, true) {
			sites = append(sites, site{fn, call})
			roots = append(roots, eng.Outermost(fn))
		}
	}
	if len(sites) < 1 {
		k.Unknown("tag-deterministic", c37SchemaPkg+".AutoGenerateTag", "call sites of the tag generator", "none found (confirmed floor 1: doltdb.GenerateTagsForNewColumns)")
	}
	scope := c.StaticClosure(roots, inPk, 3)
	for _, p := range []string{c37SchemaPkg, c37DoltdbPkg} {
		if f := c.PkgInit(p); f != nil {
			scope = append(scope, f)
		}
	}
	t := eng.RunTaint(scope)
	if os.Getenv("DVCHECK_DEBUG") != "" {
		fmt.Printf("  tag taint: %d functions, %d seeds\n", len(scope), len(t.Seeds))
		for _, s := range t.Seeds {
			fmt.Printf("    seed %s %s in %s\n", s.Kind, c12SeedDesc(c, s), eng.Name(s.Instr.Parent()))
		}
	}
	argName := []string{"existingTags", "tableName", "existingColKinds", "newColName", "newColKind"}
	for _, s := range sites {
		args := s.call.Common().Args
		for i := 1; i < len(args) && i < len(argName); i++ {
			kind, seed := t.Of(args[i])
			k.Require("tag-deterministic", eng.Name(eng.Outermost(s.fn))+"#arg:"+argName[i], "what callers pass to the tag generator is the same in every clone that runs the same DDL", kind == 0, c.InstrPos(s.call.(ssa.Instruction)),
				kind.String()+" from "+c12SeedDesc(c, seed)+" reaches argument "+argName[i]+" of AutoGenerateTag: independent clones generate different tags for the same DDL")
		}
	}
	closure := c.StaticClosure([]*ssa.Function{gen}, func(p string) bool { return p == c37SchemaPkg }, 3)
	if len(closure) < 3 {
		k.Unknown("tag-deterministic", eng.Name(gen), "the tag generator and its helpers", fmt.Sprintf("found %d functions (confirmed floor 3)", len(closure)))
	}
	for _, f := range closure {
		k.FuncsSeen[f] = true
		if f.Signature.Results().Len() == 0 {
			continue
		}
		kind, seed := t.OfResult(f)
		k.Require("tag-deterministic", "result "+eng.Name(f), "the tag generator and its helpers return a function of their arguments", kind == 0, c.Pos(f.Pos()),
			kind.String()+" from "+c12SeedDesc(c, seed)+" reaches the result")
	}

	// seeds and generator construction
	leafOK := func(l ssa.Value) (bool, string) {
		switch x := l.(type) {
		case *ssa.Parameter, *ssa.Const, *ssa.Builtin:
			return true, ""
		case *ssa.Function:
			return true, ""
		case *ssa.Global:
			if x.Pkg != nil && strings.HasPrefix(x.Pkg.Pkg.Path(), "github.com/dolthub/dolt/go") {
				return false, "package-level variable " + strings.TrimPrefix(x.String(), "github.com/dolthub/dolt/go/")
			}
			return true, "" // immutable tables of the standard library (binary.LittleEndian)
		case *ssa.FreeVar:
			return false, "captured variable " + x.Name()
		case *ssa.Call:
			if f := x.Call.StaticCallee(); f != nil {
				return false, "input-less call " + eng.Name(f)
			}
		}
		return false, "value of kind " + fmt.Sprintf("%T", l)
	}
	nSeed, nNew := 0, 0
	for _, f := range closure {
		for _, call := range eng.Calls(f, eng.Static("math/rand.NewSource"), true) {
			nSeed++
			ok, why := true, ""
			for _, l := range eng.BackLeaves(call.Common().Args[0]) {
				if good, w := leafOK(l); !good {
					ok, why = false, "the seed depends on "+w+": the same DDL yields different tags when that state differs"
				}
			}
			k.Require("tag-depends-on-arguments", eng.Name(f)+"#seed", "the seed of the tag generator is computed from the function's parameters only", ok, c.InstrPos(call.(ssa.Instruction)), why)
			if kind, seed := t.Of(call.Common().Args[0]); kind != 0 {
				k.Fail("tag-deterministic", eng.Name(f)+"#seed", "no non-deterministic source reaches the seed", c.InstrPos(call.(ssa.Instruction)), kind.String()+" from "+c12SeedDesc(c, seed), nil)
			}
		}
		for _, call := range eng.Calls(f, eng.Static("math/rand.New"), true) {
			nNew++
			src, ok := call.Common().Args[0].(*ssa.Call)
			good := ok && src.Call.StaticCallee() != nil && eng.Name(src.Call.StaticCallee()) == "math/rand.NewSource"
			k.Require("tag-depends-on-arguments", eng.Name(f)+"#generator", "the generator is rand.New(rand.NewSource(seed)), private to the call", good, c.InstrPos(call.(ssa.Instruction)),
				"rand.New is given a source that is not a fresh rand.NewSource(seed)")
		}
	}
	if nSeed < 1 || nNew < 1 {
		k.Unknown("tag-depends-on-arguments", eng.Name(gen), "rand.NewSource / rand.New in the tag generator", fmt.Sprintf("found %d / %d (confirmed floor 1 / 1)", nSeed, nNew))
	}
	for in := range c36AllReturns(gen).I {
		ok, why := true, ""
		for _, l := range eng.BackLeaves(in.(*ssa.Return).Results[0]) {
			if good, w := leafOK(l); !good {
				ok, why = false, "the returned tag depends on "+w
			}
		}
		k.Require("tag-depends-on-arguments", eng.Name(gen)+"#result", "the returned tag is computed from the parameters and the seeded generator only", ok, c.InstrPos(in), why)
	}
}
