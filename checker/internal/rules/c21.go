package rules

import (
	"fmt"
	"go/token"
	"go/types"
	"regexp"
	"strings"

	"dvcheck/internal/eng"

	"golang.org/x/tools/go/ssa"
)

func init() {
	Registry["C21"] = &Rule{
		Explanation: "Decides that a commit and its working-set update are one edit of one store-root compare-and-swap, at every layer: " +
			"(1) database.CommitWithWorkingSet calls update exactly once and calls nothing else that reaches update; its closure edits exactly two keys, the IDs of its two distinct Dataset parameters, each behind its own comparison (head: against MaybeHeadAddr of the same dataset taken before update; working set: against the caller's previous hash), the head edit stores the commit built by BuildNewCommit for that dataset and the working-set edit stores the address returned by newWorkingSet; " +
			"(2) in every closure that edits two keys (CommitWithWorkingSet, doFastForward, doSetHead, doDelete) all edits go through one editor of the closure's map, there is exactly one Flush of that editor, every non-error return yields that Flush's map, and no edit follows the Flush; " +
			"(3) hooksDatabase.CommitWithWorkingSet forwards its arguments positionally in a single Database.CommitWithWorkingSet call; DoltDB.CommitWithWorkingSet performs exactly one dataset write, that call, with (head dataset, working-set dataset, previous hash) in their roles; dsess.doltCommit performs exactly one dataset write, DoltDB.CommitWithWorkingSet (no Commit + UpdateWorkingSet pair, directly or through doltdb/dsess helpers). " +
			"It does not decide crash atomicity below the store root (C02/C03/C05) nor that other commit entry points (plain Commit followed by a separate working-set write) are unused by clients.",
		RuleText:    "closure model of store/datas (edits, comparisons, editor/flush identity), value-role provenance across the closure boundary, who-writes-datasets call-graph closure over doltdb+dsess with an exactly-one obligation",
		Assumptions: []string{"a single database.update call is one compare-and-swap of the store root (C20 rule 7, C02)", "dataset writes leave doltdb only through the datas.Database interface methods listed in c21Writers"},
		Patterns:    []string{"./store/datas", "./libraries/doltcore/doltdb", "./libraries/doltcore/sqle/dsess"},
		Run:         runC21,
	}
}

// Methods of datas.Database that change the datasets map (frozen; the interface is checked against it).
var c21Writers = map[string]bool{
	"Commit": true, "WriteCommit": true, "Tag": true, "SetTuple": true, "UpdateStashList": true, "SetStatsRef": true,
	"UpdateWorkingSet": true, "CommitWithWorkingSet": true, "Delete": true, "SetHead": true, "FastForward": true,
}

var c21RecvRe = regexp.MustCompile(`(^|\W)store/datas\.Database$|store/datas\.database$|doltdb\.hooksDatabase$`)

// c21DSWrite matches a call of a dataset-writing method of datas.Database (interface or concrete).
func c21DSWrite(c ssa.CallInstruction) bool {
	cc := c.Common()
	if cc.IsInvoke() {
		return c21Writers[cc.Method.Name()] && c21RecvRe.MatchString(eng.ShortType(cc.Value.Type()))
	}
	f := cc.StaticCallee()
	if f == nil || f.Signature.Recv() == nil || !c21Writers[f.Name()] {
		return false
	}
	return c21RecvRe.MatchString(strings.TrimPrefix(eng.ShortType(f.Signature.Recv().Type()), "*"))
}

func runC21(k *eng.Check, tier string) {
	c := k.C
	cls := datasClosures(k)

	// ---- (1) database.CommitWithWorkingSet
	const host = "(*store/datas.database).CommitWithWorkingSet"
	fn := k.Fn(host)
	if fn != nil {
		// functions of store/datas that reach update
		reaches := map[*ssa.Function]bool{}
		datasFns := c.Funcs("store/datas")
		if u := c.Func(dsFnUpdate); u != nil {
			reaches[u] = true
		}
		for changed := true; changed; {
			changed = false
			for _, f := range datasFns {
				if reaches[f] {
					continue
				}
				hit := false
				for _, g := range eng.WithAnons(f) {
					for _, call := range eng.Calls(g, func(ssa.CallInstruction) bool { return true }, true) {
						if sc := call.Common().StaticCallee(); sc != nil && reaches[sc] {
							hit = true
						} else if c21DSWrite(call) {
							hit = true
						}
					}
				}
				if hit {
					reaches[f] = true
					changed = true
				}
			}
		}
		var writes []ssa.CallInstruction
		for _, g := range eng.WithAnons(fn) {
			for _, call := range eng.Calls(g, func(ssa.CallInstruction) bool { return true }, true) {
				if sc := call.Common().StaticCallee(); (sc != nil && reaches[sc]) || c21DSWrite(call) {
					writes = append(writes, call)
				}
			}
		}
		ok := len(writes) == 1 && eng.CalleeName(writes[0]) == dsFnUpdate
		pos := c.Pos(fn.Pos())
		why := fmt.Sprintf("%d dataset-writing calls", len(writes))
		for _, w := range writes {
			if eng.CalleeName(w) != dsFnUpdate {
				pos = c.InstrPos(w.(ssa.Instruction))
				why += "; also calls " + eng.CalleeName(w)
			}
		}
		k.Require("single-update", host, "CommitWithWorkingSet changes the datasets through exactly one update call and nothing else", ok, pos, why)

		var cl *dsClosure
		n := 0
		for _, x := range cls {
			if x.Host == fn {
				cl = x
				n++
			}
		}
		if n != 1 || cl.MC == nil {
			k.Unknown("both-edits-one-closure", host, "the single edit closure", fmt.Sprintf("found %d closures", n))
		} else {
			c21PairRules(k, fn, cl)
		}
	}

	// ---- (2) every two-key closure: one editor, one flush
	nMulti := 0
	for _, cl := range cls {
		if len(cl.Edits) < 2 {
			continue
		}
		nMulti++
		c21OneEditorOneFlush(k, cl)
	}
	if nMulti < 4 {
		k.Unknown("one-editor-one-flush", "store/datas", "closures that edit two dataset keys", fmt.Sprintf("found %d, confirmed floor 4 (CommitWithWorkingSet, doFastForward, doSetHead, doDelete)", nMulti))
	}

	// ---- (3) upper layers
	c21InterfaceTable(k)
	c21Layers(k)
}

// paramOfVarAt: the parameter a host variable holds when control is at instruction at: the variable is
// the parameter itself, or a local all of whose stores that reach at (without an intervening store) store
// that one parameter, and no nested literal writes it.
func c21ParamOfVarAt(v ssa.Value, at ssa.Instruction) *ssa.Parameter {
	switch x := v.(type) {
	case *ssa.Parameter:
		return x
	case *ssa.Alloc:
		all := eng.NewSet()
		var stores []*ssa.Store
		for _, ref := range *x.Referrers() {
			switch r := ref.(type) {
			case *ssa.Store:
				if r.Addr == ssa.Value(x) {
					stores = append(stores, r)
					all.AddI(r)
				}
			case *ssa.MakeClosure:
				f := r.Fn.(*ssa.Function)
				for i, b := range r.Bindings {
					if b == ssa.Value(x) && i < len(f.FreeVars) && dsStoresTo(f, f.FreeVars[i]) {
						return nil
					}
				}
			}
		}
		tgt := eng.NewSet().AddI(at)
		if len(eng.Reach(x.Parent(), nil, tgt, all)) > 0 {
			return nil // reachable uninitialised
		}
		var out *ssa.Parameter
		for _, st := range stores {
			if len(eng.Reach(x.Parent(), []eng.Point{eng.After(st)}, tgt, all)) == 0 {
				continue
			}
			p, ok := st.Val.(*ssa.Parameter)
			if !ok || (out != nil && out != p) {
				return nil
			}
			out = p
		}
		return out
	}
	return nil
}

func c21PairRules(k *eng.Check, fn *ssa.Function, cl *dsClosure) {
	c := k.C
	name := eng.Name(cl.Fn)
	if len(cl.Edits) != 2 {
		k.Fail("both-edits-one-closure", name, "the closure edits exactly the head key and the working-set key", c.Pos(cl.Fn.Pos()), fmt.Sprintf("found %d edits", len(cl.Edits)), nil)
		return
	}
	var dsParams []*ssa.Parameter
	var hashParams []*ssa.Parameter
	for _, p := range fn.Params {
		if dsIsNamed(p.Type(), "store/datas", "Dataset") {
			dsParams = append(dsParams, p)
		}
		if _, isPtr := p.Type().(*types.Pointer); !isPtr && dsIsNamed(p.Type(), "store/hash", "Hash") {
			hashParams = append(hashParams, p)
		}
	}
	if len(dsParams) != 2 || len(hashParams) != 1 {
		k.Unknown("both-edits-one-closure", name, "two Dataset parameters and one previous-hash parameter", fmt.Sprintf("found %d/%d", len(dsParams), len(hashParams)))
		return
	}
	keyDS := make([]*ssa.Parameter, 2)
	for i, e := range cl.Edits {
		keyDS[i] = c21ParamOfVarAt(c20DatasetOfKey(cl, e.Key), cl.Site.(ssa.Instruction))
	}
	okKeys := keyDS[0] != nil && keyDS[1] != nil && keyDS[0] != keyDS[1] && !cl.Edits[0].Delete && !cl.Edits[1].Delete
	k.Require("both-edits-one-closure", name+"#keys", "the two edits are Updates keyed by the IDs of the two distinct Dataset parameters", okKeys, c.InstrPos(cl.Edits[0].Call), "edits do not address both datasets")
	if !okKeys {
		return
	}
	// expected values and stored values, resolved across the closure boundary
	hostVals := func(v ssa.Value) []ssa.Value {
		// value computed from captured variables only -> the values the host stored into them
		var fvs []*ssa.FreeVar
		tainted := false
		eng.Slice(v, true, func(x ssa.Value) bool {
			switch y := x.(type) {
			case *ssa.FreeVar:
				fvs = append(fvs, y)
			case *ssa.Parameter:
				tainted = true
			}
			return false
		})
		if tainted {
			return nil
		}
		var out []ssa.Value
		for _, fv := range fvs {
			if b, ok := dsFreeBinding(cl.MC, fv).(*ssa.Alloc); ok {
				out = append(out, dsStoredValues(b)...)
			}
		}
		return out
	}
	nHeadRole, nWSRole := 0, 0
	for i, e := range cl.Edits {
		var valid []dsGuard
		for _, g := range cl.guards(e.Key) {
			if g.Captured {
				valid = append(valid, g)
			}
		}
		con := fmt.Sprintf("%s#edit%d", name, i)
		if len(valid) == 0 {
			k.Fail("both-edits-one-closure", con+"-compared", "each of the two edits is behind a comparison of its own key with an expectation fixed before update", c.InstrPos(e.Call), "no such comparison", nil)
			continue
		}
		eq := eng.NewSet()
		for _, g := range valid {
			eq.AddE(g.Eq)
		}
		k.OnlyAfter("both-edits-one-closure", cl.Fn, fmt.Sprintf("edit%d only past stored==expected for its own key", i), eng.NewSet().AddI(e.Call), 1, eq)
		// role of the expectation
		role := ""
		for _, g := range valid {
			for _, hv := range hostVals(g.Expected) {
				if p, ok := hv.(*ssa.Parameter); ok && p == hashParams[0] {
					role = "ws"
				}
				if ex, ok := hv.(*ssa.Extract); ok && ex.Index == 0 {
					if mc := dsCallTo(ex, "(store/datas.Dataset).MaybeHeadAddr"); mc != nil && len(mc.Call.Args) >= 1 {
						if p := c21ParamOfVarAt(c20VarOf(mc.Call.Args[0]), mc); p != nil {
							if p == keyDS[i] {
								role = "head"
							} else {
								role = "head-of-other-dataset"
							}
						}
					}
				}
			}
		}
		// role of the stored value
		vrole := ""
		for _, hv := range hostVals(e.Val) {
			if eng.Slice(hv, true, func(x ssa.Value) bool {
				bc := dsCallTo(x, "(*store/datas.database).BuildNewCommit")
				return bc != nil && len(bc.Call.Args) >= 3 && c21ParamOfVarAt(c20VarOf(bc.Call.Args[2]), bc) == keyDS[i]
			}) {
				vrole = "head"
			} else if eng.Slice(hv, true, func(x ssa.Value) bool { return dsCallTo(x, "store/datas.newWorkingSet") != nil }) {
				vrole = "ws"
			}
		}
		okRole := role != "" && role == vrole
		k.Require("edit-roles", con, "the edit's expectation and stored value belong to its own dataset (head: MaybeHeadAddr of the same dataset + commit built for it; working set: caller's previous hash + newWorkingSet address)", okRole, c.InstrPos(e.Call),
			fmt.Sprintf("expectation role %q, stored-value role %q", role, vrole))
		if okRole && role == "head" {
			nHeadRole++
		}
		if okRole && role == "ws" {
			nWSRole++
		}
	}
	k.Require("edit-roles", name+"#one-head-one-ws", "one edit moves the head and the other the working set", nHeadRole == 1 && nWSRole == 1, c.Pos(cl.Fn.Pos()), fmt.Sprintf("%d head edit(s), %d working-set edit(s)", nHeadRole, nWSRole))
}

func c21OneEditorOneFlush(k *eng.Check, cl *dsClosure) {
	c := k.C
	name := eng.Name(cl.Fn)
	var ed *ssa.Call
	same := true
	for _, e := range cl.Edits {
		x, onAm := cl.editorOf(e.Call.Call.Args[0])
		if x == nil || !onAm || (ed != nil && x != ed) {
			same = false
		}
		ed = x
	}
	k.Require("one-editor-one-flush", name+"#editor", "all edits of the closure go through one editor of the closure's map", same && ed != nil, c.InstrPos(cl.Edits[0].Call), "edits are spread over several editors (only one can be flushed into the returned map)")
	flushes := eng.CallsDeep(cl.Fn, eng.Static(dsFnEdFlush), true)
	var fl *ssa.Call
	if len(flushes) == 1 {
		fl, _ = flushes[0].(*ssa.Call)
	}
	if fl == nil || fl.Parent() != cl.Fn {
		k.Fail("one-editor-one-flush", name+"#flush", "exactly one Flush in the closure", c.Pos(cl.Fn.Pos()), fmt.Sprintf("found %d Flush calls", len(flushes)), nil)
		return
	}
	fe, _ := cl.editorOf(fl.Call.Args[0])
	k.Require("one-editor-one-flush", name+"#flush", "the single Flush flushes the editor that received the edits", fe != nil && fe == ed, c.InstrPos(fl), "Flush of another editor")
	// every return yields either the zero map (error paths) or the flushed map
	okRet, nRet := true, 0
	var bad ssa.Instruction
	for _, b := range cl.Fn.Blocks {
		if len(b.Instrs) == 0 {
			continue
		}
		ret, ok := b.Instrs[len(b.Instrs)-1].(*ssa.Return)
		if !ok || len(ret.Results) != 2 {
			continue
		}
		nRet++
		switch r := ret.Results[0].(type) {
		case *ssa.Const:
		case *ssa.Extract:
			if r.Index != 0 || r.Tuple != ssa.Value(fl) {
				okRet, bad = false, ret
			}
		default:
			okRet, bad = false, ret
		}
	}
	k.Require("one-editor-one-flush", name+"#returns-flushed-map", "the closure returns the flushed map or the zero map, never another map", okRet && nRet > 0, c.InstrPos(bad), "a return yields a map that is not the result of the single Flush")
	// success only through the flush; no edit after it
	k.OnlyAfter("one-editor-one-flush", cl.Fn, "a success return is reached only through the Flush", eng.SuccessExits(cl.Fn), 1, eng.NewSet().AddI(fl))
	targets := eng.NewSet()
	for _, e := range cl.Edits {
		targets.AddI(e.Call)
	}
	hits := eng.Reach(cl.Fn, []eng.Point{eng.After(fl)}, targets, eng.NewSet())
	k.Require("one-editor-one-flush", name+"#no-edit-after-flush", "no edit is applied after the Flush (it would not be part of the returned map)", len(hits) == 0, c.InstrPos(fl), "an edit is reachable after Flush")
}

// the frozen writer table covers the mutating methods of the datas.Database interface
func c21InterfaceTable(k *eng.Check) {
	p := k.C.Package("store/datas")
	if p == nil || p.Types == nil {
		k.Unknown("writer-table", "store/datas.Database", "the Database interface", "package not loaded")
		return
	}
	obj := p.Types.Scope().Lookup("Database")
	if obj == nil {
		k.Unknown("writer-table", "store/datas.Database", "the Database interface", "not found")
		return
	}
	it, ok := obj.Type().Underlying().(*types.Interface)
	if !ok {
		k.Unknown("writer-table", "store/datas.Database", "the Database interface", "not an interface")
		return
	}
	n := 0
	for i := 0; i < it.NumExplicitMethods(); i++ {
		m := it.ExplicitMethod(i)
		sig := m.Type().(*types.Signature)
		// a dataset mutator returns (Dataset, error) or (Dataset, Dataset, error)
		res := sig.Results()
		mut := res.Len() >= 2 && dsIsNamed(res.At(0).Type(), "store/datas", "Dataset")
		takesDS := false
		for j := 0; j < sig.Params().Len(); j++ {
			if dsIsNamed(sig.Params().At(j).Type(), "store/datas", "Dataset") {
				takesDS = true
			}
		}
		if !(mut && takesDS) {
			continue
		}
		n++
		k.Require("writer-table", "store/datas.Database."+m.Name(), "every Database method that takes and returns a Dataset is in the frozen dataset-writer table", c21Writers[m.Name()], k.C.Pos(m.Pos()), "new dataset-writing method not in c21Writers: calls of it would not count as dataset writes")
	}
	if n < 11 {
		k.Unknown("writer-table", "store/datas.Database", "dataset-writing interface methods", fmt.Sprintf("found %d, confirmed floor 11", n))
	}
}

func c21Layers(k *eng.Check) {
	c := k.C
	// W: functions of doltdb and dsess that (transitively through static calls inside these packages) write datasets
	fns := c.Funcs("libraries/doltcore/doltdb", "libraries/doltcore/sqle/dsess")
	if len(fns) < 100 {
		k.Unknown("layer-single-write", "doltdb+dsess", "functions of the doltdb and dsess packages", fmt.Sprintf("only %d loaded", len(fns)))
		return
	}
	W := map[*ssa.Function]bool{}
	direct := func(f *ssa.Function) bool {
		return len(eng.Calls(f, c21DSWrite, true)) > 0
	}
	for _, f := range fns {
		if direct(f) {
			W[f] = true
		}
	}
	for changed := true; changed; {
		changed = false
		for _, f := range fns {
			if W[f] {
				continue
			}
			hit := false
			// literals created here (and possibly run elsewhere) count for their creator
			for _, a := range f.AnonFuncs {
				if W[a] {
					hit = true
				}
			}
			for _, call := range eng.Calls(f, func(ssa.CallInstruction) bool { return true }, true) {
				if sc := call.Common().StaticCallee(); sc != nil && W[sc] {
					hit = true
				}
			}
			if hit {
				W[f] = true
				changed = true
			}
		}
	}
	writesOf := func(f *ssa.Function) []ssa.CallInstruction {
		var out []ssa.CallInstruction
		for _, g := range eng.WithAnons(f) {
			for _, call := range eng.Calls(g, func(ssa.CallInstruction) bool { return true }, true) {
				if c21DSWrite(call) {
					out = append(out, call)
				} else if sc := call.Common().StaticCallee(); sc != nil && W[sc] {
					out = append(out, call)
				}
			}
		}
		return out
	}
	layer := func(fname, want string) *ssa.Call {
		f := k.Fn(fname)
		if f == nil {
			return nil
		}
		ws := writesOf(f)
		ok := len(ws) == 1 && eng.CalleeName(ws[0]) == want
		pos, why := c.Pos(f.Pos()), fmt.Sprintf("%d dataset-writing call(s)", len(ws))
		for _, w := range ws {
			if eng.CalleeName(w) != want {
				pos = c.InstrPos(w.(ssa.Instruction))
				why += "; " + eng.CalleeName(w)
			}
		}
		k.Require("layer-single-write", fname, "the only dataset write of this layer is one call of "+want, ok, pos, why)
		if !ok {
			return nil
		}
		call, _ := ws[0].(*ssa.Call)
		return call
	}

	// hooksDatabase: positional pass-through
	const hk = "(libraries/doltcore/doltdb.hooksDatabase).CommitWithWorkingSet"
	if call := layer(hk, "iface:store/datas.Database.CommitWithWorkingSet"); call != nil {
		f := call.Parent()
		okPass := len(call.Call.Args) == len(f.Params)-1
		if okPass {
			for i, a := range call.Call.Args {
				if a != ssa.Value(f.Params[i+1]) {
					okPass = false
				}
			}
		}
		k.Require("layer-roles", hk, "the hook wrapper forwards its arguments positionally", okPass, c.InstrPos(call), "arguments reordered or replaced")
		// the wrapped database is the embedded field of the receiver
		k.Require("layer-roles", hk+"#receiver", "the call goes to the wrapped datas.Database of the receiver", eng.FromField(call.Call.Value, "libraries/doltcore/doltdb.hooksDatabase.Database"), c.InstrPos(call), "not the embedded Database")
	}

	// DoltDB: head dataset / working-set dataset / previous hash in their roles
	const dd = "(*libraries/doltcore/doltdb.DoltDB).CommitWithWorkingSet"
	if call := layer(dd, hk); call != nil {
		f := call.Parent()
		var headRef, wsRef, prev *ssa.Parameter
		cnt := [3]int{}
		for _, p := range f.Params {
			switch {
			case dsIsNamed(p.Type(), "doltcore/ref", "WorkingSetRef"):
				wsRef = p
				cnt[0]++
			case dsIsNamed(p.Type(), "doltcore/ref", "DoltRef"):
				headRef = p
				cnt[1]++
			case dsIsNamed(p.Type(), "store/hash", "Hash"):
				if _, isPtr := p.Type().(*types.Pointer); !isPtr {
					prev = p
					cnt[2]++
				}
			}
		}
		args := call.Call.Args // recv, ctx, commitDS, workingSetDS, val, spec, prevWsHash, opts
		if cnt != [3]int{1, 1, 1} || len(args) != 8 {
			k.Unknown("layer-roles", dd, "head ref, working-set ref and previous-hash parameters", fmt.Sprintf("found %v, %d args", cnt, len(args)))
		} else {
			from := func(v ssa.Value, p *ssa.Parameter) bool {
				return eng.Slice(v, true, func(x ssa.Value) bool { return x == ssa.Value(p) })
			}
			getDS := func(v ssa.Value) bool {
				return eng.Slice(v, false, func(x ssa.Value) bool {
					cc, ok := x.(*ssa.Call)
					return ok && cc.Call.IsInvoke() && cc.Call.Method.Name() == "GetDataset"
				})
			}
			okHead := getDS(args[2]) && from(args[2], headRef) && !from(args[2], wsRef)
			okWS := getDS(args[3]) && from(args[3], wsRef) && !from(args[3], headRef)
			k.Require("layer-roles", dd+"#head-dataset", "the commit dataset is the dataset of the head ref", okHead, c.InstrPos(call), "commitDS does not come from GetDataset(headRef)")
			k.Require("layer-roles", dd+"#ws-dataset", "the working-set dataset is the dataset of the working-set ref", okWS, c.InstrPos(call), "workingSetDS does not come from GetDataset(workingSetRef)")
			k.Require("layer-roles", dd+"#prev-hash", "the caller's previous working-set hash is forwarded unchanged", args[6] == ssa.Value(prev), c.InstrPos(call), "prevWsHash is not the caller's hash")
		}
	}

	// dsess.doltCommit
	layer("libraries/doltcore/sqle/dsess.doltCommit", dd)
}

var _ = token.NoPos
