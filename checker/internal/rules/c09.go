package rules

import (
	"fmt"
	"go/constant"
	"go/token"
	"go/types"
	"sort"
	"strings"

	"dvcheck/internal/eng"

	"golang.org/x/tools/go/ssa"
)

func init() {
	Registry["C09"] = &Rule{
		Explanation: "Decides table agreement between the code that dereferences addresses stored in flatbuffer messages and the reference walker used by GC, pull, fsck and the dangling-reference check: (1) LoaderAddrs(T) ⊆ WalkerAddrs(T): every accessor (*serial.T).<F>Bytes whose result is turned into a hash.Hash anywhere in the module is also invoked inside the walker closure (SerialMessage.WalkAddrs, DoltgresRootValueWalkAddrs, message.WalkAddresses and their static callees); (2) WriterAddrs(T) ⊆ WalkerAddrs(T): every field written by a serial.<T>Add<F> builder call from a byte vector made of a hash.Hash is walked; (3) every declared serial.*FileID constant has a case in the walker's dispatch, and every node kind delegated to message.WalkAddresses has a case there; (4) tuple level: every val.Encoding whose field reader dereferences the NodeStore is classified as an address/adaptive encoding, and the address-offset writer and walker iterate both classes. It does not decide that offsets written point at the right bytes.",
		RuleText:    "table extraction from the SSA program (accessor/builder call sets restricted to function closures; data-derivation of hash.New arguments) and from switch case sets (go/constant values); inclusion obligations with a frozen exception table",
		Assumptions: []string{"an address is materialised from message bytes through hash.New (the only []byte->Hash constructor in store/hash besides Parse of text)", "generated flatbuffers accessors have no side effects"},
		// quick tier: the storage layer and doltdb (all message loaders live there); thorough: whole module
		Patterns: []string{"./store/...", "./gen/fb/serial", "./libraries/doltcore/doltdb/..."},
		Run:      runC09,
	}
}

const serialPkg = "gen/fb/serial"

// accessorOf returns ("T", "M") when call invokes a method of a flatbuffers table type of gen/fb/serial.
func serialMethod(c ssa.CallInstruction) (string, string, bool) {
	f := c.Common().StaticCallee()
	if f == nil || f.Signature.Recv() == nil {
		return "", "", false
	}
	p := eng.FuncPkg(f)
	if p == nil || !strings.HasSuffix(p.Path(), "/"+serialPkg) {
		return "", "", false
	}
	rt := f.Signature.Recv().Type()
	if pt, ok := rt.(*types.Pointer); ok {
		rt = pt.Elem()
	}
	nt, ok := rt.(*types.Named)
	if !ok {
		return "", "", false
	}
	return nt.Obj().Name(), f.Name(), true
}

func runC09(k *eng.Check, tier string) {
	c := k.C
	inWalkPkgs := func(p string) bool {
		return p == "store/types" || p == "store/prolly/message" || p == "store/hash" || p == "store/prolly/tree" || p == "store/val"
	}
	var roots []*ssa.Function
	if f := k.Fn("(store/types.SerialMessage).WalkAddrs"); f != nil {
		roots = append(roots, f)
	}
	if f := k.Fn("store/prolly/message.WalkAddresses"); f != nil {
		roots = append(roots, f)
	}
	dg := c.GlobalFuncValues("store/types", "DoltgresRootValueWalkAddrs")
	if len(dg) == 0 {
		k.Unknown("anchor", "store/types.DoltgresRootValueWalkAddrs", "the Doltgres root-value walker variable", "no function value assigned to it found")
	}
	roots = append(roots, dg...)
	if f := c.Func("store/types.SerialCommitParentAddrs"); f != nil {
		roots = append(roots, f)
	}
	walkers := c.StaticClosure(roots, inWalkPkgs, 5)
	isWalker := map[*ssa.Function]bool{}
	walked := map[string]string{} // "T.M" -> position
	for _, fn := range walkers {
		isWalker[fn] = true
		k.FuncsSeen[fn] = true
		for _, call := range eng.Calls(fn, func(ssa.CallInstruction) bool { return true }, false) {
			if t, m, ok := serialMethod(call); ok {
				if _, dup := walked[t+"."+m]; !dup {
					walked[t+"."+m] = c.InstrPos(call.(ssa.Instruction))
				}
			}
		}
	}
	if len(walked) < 25 {
		k.Unknown("walker-table", "walker closure", "accessors invoked by the reference walkers", fmt.Sprintf("only %d accessors found in the walker closure (confirmed floor 25)", len(walked)))
	}

	// (1) loaders: hash.New(<...>.FBytes())
	type site struct{ pos, fn string }
	loader := map[string][]site{}
	mNew := eng.Static("store/hash.New")
	for _, fn := range c.All() {
		p := eng.FuncPkg(fn)
		if p == nil || strings.HasSuffix(p.Path(), "/"+serialPkg) {
			continue
		}
		for _, call := range eng.Calls(fn, mNew, true) {
			if len(call.Common().Args) != 1 {
				continue
			}
			eng.Slice(call.Common().Args[0], false, func(v ssa.Value) bool {
				cv, ok := v.(*ssa.Call)
				if !ok {
					return false
				}
				if t, m, ok := serialMethod(cv); ok && strings.HasSuffix(m, "Bytes") {
					loader[t+"."+m] = append(loader[t+"."+m], site{c.InstrPos(call.(ssa.Instruction)), eng.Name(fn)})
				}
				return false
			})
		}
	}
	exceptions := map[string]string{}
	keys := make([]string, 0, len(loader))
	for kk := range loader {
		keys = append(keys, kk)
	}
	sort.Strings(keys)
	for _, kk := range keys {
		sites := loader[kk]
		nonWalker := ""
		for _, s := range sites {
			if f := c.Func(s.fn); f == nil || !isWalker[f] {
				nonWalker = s.pos + " in " + s.fn
				break
			}
		}
		if nonWalker == "" {
			continue // only the walker itself reads it
		}
		if why, ok := exceptions[kk]; ok {
			k.Pass("loader-addr-walked", "serial."+kk, "frozen exception: "+why, len(sites))
			continue
		}
		_, ok := walked[kk]
		if ok {
			k.Pass("loader-addr-walked", "serial."+kk, "address field read by a loader is reported by the walker", len(sites))
		} else {
			k.Fail("loader-addr-walked", "serial."+kk, "address field read by a loader is reported by the walker", nonWalker,
				"a loader turns this field into a hash.Hash (and callers dereference it) but no reference walker reads the field: GC, pull, fsck and the dangling-reference check cannot see it", nil)
		}
	}
	if len(loader) < 18 {
		k.Unknown("loader-addr-walked", "loader table", "address accessors consumed by hash.New", fmt.Sprintf("only %d found (confirmed floor 18)", len(loader)))
	}

	// (2) writers: serial.<T>Add<F>(builder, off) with off = CreateByteVector(<hash.Hash>[:])
	typeNames := map[string]bool{}
	if sp := c.P.SSAPkg["github.com/dolthub/dolt/go/"+serialPkg]; sp != nil {
		for n, m := range sp.Members {
			if _, ok := m.(*ssa.Type); ok {
				typeNames[n] = true
			}
		}
	}
	nW := 0
	for _, fn := range c.All() {
		p := eng.FuncPkg(fn)
		if p == nil || strings.HasSuffix(p.Path(), "/"+serialPkg) {
			continue
		}
		for _, call := range eng.Calls(fn, func(ci ssa.CallInstruction) bool {
			f := ci.Common().StaticCallee()
			if f == nil || f.Signature.Recv() != nil {
				return false
			}
			fp := eng.FuncPkg(f)
			return fp != nil && strings.HasSuffix(fp.Path(), "/"+serialPkg) && strings.Contains(f.Name(), "Add")
		}, false) {
			name := call.Common().StaticCallee().Name()
			t, f := splitAdd(name, typeNames)
			if t == "" || len(call.Common().Args) < 2 {
				continue
			}
			fromHash := eng.Slice(call.Common().Args[1], false, func(v ssa.Value) bool {
				cv, ok := v.(*ssa.Call)
				if !ok {
					return false
				}
				callee := cv.Call.StaticCallee()
				if callee == nil || callee.Name() != "CreateByteVector" || len(cv.Call.Args) < 2 {
					return false
				}
				return eng.Slice(cv.Call.Args[1], false, func(x ssa.Value) bool {
					sl, ok := x.(*ssa.Slice)
					if !ok {
						return false
					}
					return isHashType(sl.X.Type())
				})
			})
			if !fromHash {
				continue
			}
			nW++
			key := t + "." + f + "Bytes"
			if _, ok := walked[key]; ok {
				k.Pass("writer-addr-walked", "serial."+key, "field written from a hash.Hash is reported by the walker", 1)
			} else if why, ok := exceptions[key]; ok {
				k.Pass("writer-addr-walked", "serial."+key, "frozen exception: "+why, 1)
			} else {
				k.Fail("writer-addr-walked", "serial."+key, "field written from a hash.Hash is reported by the walker", c.InstrPos(call.(ssa.Instruction)),
					"the serializer stores an address in this field but no reference walker reads it", nil)
			}
		}
	}
	if nW < 10 {
		k.Unknown("writer-addr-walked", "writer table", "builder calls storing a hash.Hash", fmt.Sprintf("only %d found (confirmed floor 10)", nW))
	}

	// (3) file-id dispatch exhaustiveness
	fileIDs := c.PackageConsts(serialPkg, "", func(n string) bool { return strings.HasSuffix(n, "FileID") })
	if len(fileIDs) < 20 {
		k.Unknown("fileid-dispatch", "serial.*FileID", "declared file identifiers", fmt.Sprintf("only %d constants found (floor 20)", len(fileIDs)))
	}
	notStored := map[string]string{"BranchControlFileID": "branch-control tables are a flat file next to the database, never a chunk in a ChunkStore"}
	if wf := c.Func("(store/types.SerialMessage).WalkAddrs"); wf != nil {
		var disp *eng.SwitchTable
		for _, st := range c.Switches(wf, false) {
			if strings.Contains(st.Tag, "GetFileID") {
				s := st
				disp = &s
				break
			}
		}
		if disp == nil {
			k.Unknown("fileid-dispatch", eng.Name(wf), "switch over serial.GetFileID", "dispatch switch not found")
		} else {
			for _, id := range fileIDs {
				if why, ok := notStored[id.Name]; ok {
					k.Pass("fileid-dispatch", "WalkAddrs#"+id.Name, "exception: "+why, 1)
					continue
				}
				_, ok := disp.Consts[id.Value]
				k.Require("fileid-dispatch", "WalkAddrs#"+id.Name, "every stored message kind has a case in SerialMessage.WalkAddrs", ok, c.Pos(disp.Node.Pos()), "no case for serial."+id.Name+": the walker returns an error (or walks nothing) for this kind")
			}
			// node kinds delegated to message.WalkAddresses must have a case there
			if mf := c.Func("store/prolly/message.WalkAddresses"); mf != nil {
				var msw *eng.SwitchTable
				for _, st := range c.Switches(mf, false) {
					if st.TagType == "string" {
						s := st
						msw = &s
						break
					}
				}
				// the dispatch may be written as a switch or as an if/else-if chain: both compile to comparisons of the
				// file id with string constants, so when no switch statement is found the compared constants are used
				var mConsts map[string]bool
				mPos := c.Pos(mf.Pos())
				if msw != nil {
					mConsts = map[string]bool{}
					for v := range msw.Consts {
						mConsts[v] = true
					}
					mPos = c.Pos(msw.Node.Pos())
				} else if cs := c09StringConstsCompared(mf); len(cs) >= 6 {
					mConsts = cs
				}
				if mConsts == nil {
					k.Unknown("fileid-dispatch", eng.Name(mf), "dispatch over the file id (switch, or chain of comparisons with string constants)", "not found")
				} else {
					pkg := c.PkgOf(wf)
					n := 0
					for _, cc := range disp.Clauses {
						delegates := false
						for _, call := range eng.CallsDeep(wf, eng.Static("store/prolly/message.WalkAddresses"), false) {
							p := call.(ssa.Instruction).Pos()
							if p >= cc.Pos() && p <= cc.End() {
								delegates = true
							}
						}
						if !delegates {
							continue
						}
						for _, e := range cc.List {
							if tv, ok := pkg.TypesInfo.Types[e]; ok && tv.Value != nil {
								n++
								has := mConsts[tv.Value.ExactString()]
								k.Require("fileid-dispatch", "message.WalkAddresses#"+types.ExprString(e), "a node kind delegated to message.WalkAddresses has a case there", has, mPos, "delegated kind falls into the default (panic) branch")
							}
						}
					}
					if n < 6 {
						k.Unknown("fileid-dispatch", "delegated kinds", "kinds delegated to message.WalkAddresses", fmt.Sprintf("%d found (floor 6)", n))
					}
				}
			}
		}
	}

	// (3b) walkers do not stop early: a loop that reports addresses (calls the callback, directly or through
	// a callee that does) is left before its own loop condition ends it only on an error exit
	nLoops := 0
	for _, fn := range walkers {
		if len(fn.Blocks) == 0 {
			continue
		}
		// callback calls: dynamic calls of a function-typed parameter/captured variable, or recursive walker calls
		reports := func(b *ssa.BasicBlock) bool {
			for _, in := range b.Instrs {
				if call, ok := in.(*ssa.Call); ok {
					cn := eng.CalleeName(call)
					if strings.HasPrefix(cn, "dyn:") {
						return true
					}
					if f := call.Call.StaticCallee(); f != nil && isWalker[f] && f != fn {
						return true
					}
				}
			}
			return false
		}
		ord := 0
		for _, l := range eng.Loops(fn) {
			rep := false
			for b := range l.Body {
				if reports(b) {
					rep = true
				}
			}
			if !rep {
				continue
			}
			nLoops++
			ord++
			bad := ""
			for _, e := range l.Exits {
				if e.From == l.Header {
					continue // the loop's own condition
				}
				if hits := eng.Reach(fn, []eng.Point{{B: e.To(), I: 0}}, eng.SuccessExits(fn), nil); len(hits) > 0 {
					bad = c.InstrPos(e.From.Instrs[len(e.From.Instrs)-1])
				}
			}
			k.Require("walker-no-early-exit", fmt.Sprintf("%s#reporting-loop-%d", eng.Name(fn), ord), "a loop that reports addresses is left early only on an error exit", bad == "", bad,
				"the loop can be left (break/return nil) before every element was reported: the remaining addresses are silently skipped")
		}
	}
	if nLoops < 8 {
		k.Unknown("walker-no-early-exit", "walker closure", "address-reporting loops", fmt.Sprintf("%d found (floor 8)", nLoops))
	}

	// (4) tuple level
	runC09Tuple(k)
}

func splitAdd(name string, types map[string]bool) (string, string) {
	for i := 0; i+3 <= len(name); i++ {
		if name[i:i+3] == "Add" && types[name[:i]] {
			return name[:i], name[i+3:]
		}
	}
	return "", ""
}

func isHashType(t types.Type) bool {
	for {
		if p, ok := t.(*types.Pointer); ok {
			t = p.Elem()
			continue
		}
		break
	}
	n, ok := t.(*types.Named)
	return ok && n.Obj().Name() == "Hash" && n.Obj().Pkg() != nil && strings.HasSuffix(n.Obj().Pkg().Path(), "store/hash")
}

var _ = token.NoPos

// c09StringConstsCompared: the string constants (by exact value) that fn compares a non-constant string with in
// branch conditions — the case labels of a switch or of an equivalent if/else-if chain.
func c09StringConstsCompared(fn *ssa.Function) map[string]bool {
	out := map[string]bool{}
	for _, b := range fn.Blocks {
		if len(b.Instrs) == 0 {
			continue
		}
		iff, ok := b.Instrs[len(b.Instrs)-1].(*ssa.If)
		if !ok {
			continue
		}
		bo, ok := iff.Cond.(*ssa.BinOp)
		if !ok || (bo.Op != token.EQL && bo.Op != token.NEQ) {
			continue
		}
		for _, pair := range [][2]ssa.Value{{bo.X, bo.Y}, {bo.Y, bo.X}} {
			cst, isC := pair[1].(*ssa.Const)
			if _, otherConst := pair[0].(*ssa.Const); !isC || otherConst || cst.Value == nil || cst.Value.Kind() != constant.String {
				continue
			}
			out[cst.Value.ExactString()] = true
		}
	}
	return out
}
