package rules

import (
	"fmt"
	"go/constant"
	"go/token"
	"go/types"
	"regexp"
	"sort"
	"strings"

	"dvcheck/internal/eng"

	"golang.org/x/tools/go/ssa"
)

func init() {
	Registry["C42"] = &Rule{
		Explanation: "Decides the compare-before-put clause of the conditional manifest write for every Blobstore implementation, and the version-token flow of the NBS manifest layer: " +
			"(1) the set of types implementing Blobstore.CheckAndPutManifest equals a frozen table (local, in-memory, git, GCS, S3, Azure, OCI, OSS); " +
			"(2) local and in-memory: evaluated path-sensitively with every `expectedVersion == storedVersion` comparison false, neither the blob write nor a success return is reachable; the stored version is read and the blob written only after the file lock / write mutex was acquired (error-checked), the lock is released only by a deferred call; the in-memory maps are written only by put, and put is called only with the write mutex held; " +
			"(3) git: in the commit-building closure the same holds for buildCommitForKeyWrite (comparison against currentKeyVersion of the fetched remote head); the closure runs under writeMu inside remoteManagedWrite, the remote ref is pushed with a lease on the very head the comparison was made against, after the build and the local ref update succeeded, and success is reported only after the push succeeded; " +
			"(4) cloud backends: the expected version reaches the function that issues the backend write; evaluated path-sensitively, with a non-empty expected version the backend write is reachable only after a match precondition fed from the expected version was installed into the request that flows into that write, and with an empty expected version only after a create-only precondition was installed; " +
			"(5) NBS: updateBSWithChecker hands CheckAndPutManifest the version returned by the same manifest read whose lock it compared with lastLock, only on the equal edge and after the checker passed, and returns the new contents only after CheckAndPutManifest returned nil; manifestVersionAndContents returns version and contents of one Get of the manifest key; no other Put/Concatenate in store/nbs names the manifest key. " +
			"It does not decide ranged reads, concatenation, the server-side semantics of the preconditions, nor whether the version tokens (mtime, ETag, generation, blob id) identify contents uniquely.",
		RuleText:    "implementer table from go/types; path-sensitive reachability over the SSA CFG with the version-comparison atoms fixed (boolean phi evaluation); forward value flow from precondition sinks to the backend write; lock/defer shape; token-flow identities in the NBS layer",
		Assumptions: []string{"a file lock / mutex acquired in the function is held until the deferred release", "cloud SDK request fields named IfMatch/GenerationMatch/IfNoneMatch/DoesNotExist carry the documented precondition semantics"},
		Patterns:    []string{"./store/blobstore", "./store/nbs"},
		Run:         runC42,
	}
}

// ---------------------------------------------------------------------------------------------------
// path-sensitive exploration

// c42Explore returns the targets reachable from the starts (entry when nil) on paths that avoid the cuts,
// where every If whose condition eval can decide is followed only along the decided edge.  Boolean phis
// are evaluated from the edge taken (short-circuit && / || chains and `check := a && b` variables).
func c42Explore(fn *ssa.Function, eval func(ssa.Value) (bool, bool), starts []eng.Point, targets, cuts *eng.Set) []ssa.Instruction {
	if len(fn.Blocks) == 0 {
		return nil
	}
	type state struct {
		p   eng.Point
		env map[*ssa.Phi]int // 0 unknown, 1 false, 2 true
	}
	var evalB func(v ssa.Value, env map[*ssa.Phi]int, depth int) (bool, bool)
	evalB = func(v ssa.Value, env map[*ssa.Phi]int, depth int) (bool, bool) {
		if depth > 8 {
			return false, false
		}
		if val, ok := eval(v); ok {
			return val, true
		}
		switch x := v.(type) {
		case *ssa.Const:
			if x.Value != nil && x.Value.Kind() == constant.Bool {
				return constant.BoolVal(x.Value), true
			}
		case *ssa.UnOp:
			if x.Op == token.NOT {
				if val, ok := evalB(x.X, env, depth+1); ok {
					return !val, true
				}
			}
		case *ssa.Phi:
			switch env[x] {
			case 1:
				return false, true
			case 2:
				return true, true
			}
		}
		return false, false
	}
	key := func(b *ssa.BasicBlock, env map[*ssa.Phi]int) string {
		var parts []string
		for p, v := range env {
			if v != 0 {
				parts = append(parts, fmt.Sprintf("%d.%s=%d", p.Block().Index, p.Name(), v))
			}
		}
		sort.Strings(parts)
		return fmt.Sprintf("%d|%s", b.Index, strings.Join(parts, ","))
	}
	if starts == nil {
		starts = []eng.Point{{B: fn.Blocks[0], I: 0}}
	}
	var stack []state
	for _, s := range starts {
		stack = append(stack, state{s, map[*ssa.Phi]int{}})
	}
	seen := map[string]bool{}
	hit := map[ssa.Instruction]bool{}
	var hits []ssa.Instruction
	for len(stack) > 0 {
		st := stack[len(stack)-1]
		stack = stack[:len(stack)-1]
		b := st.p.B
		if st.p.I == 0 {
			kk := key(b, st.env)
			if seen[kk] {
				continue
			}
			seen[kk] = true
		}
		stopped := false
		for i := st.p.I; i < len(b.Instrs); i++ {
			in := b.Instrs[i]
			if targets.I[in] && !hit[in] {
				hit[in] = true
				hits = append(hits, in)
			}
			if cuts.I[in] {
				stopped = true
				break
			}
		}
		if stopped || len(b.Instrs) == 0 {
			continue
		}
		follow := []int{}
		switch last := b.Instrs[len(b.Instrs)-1].(type) {
		case *ssa.If:
			if val, ok := evalB(last.Cond, st.env, 0); ok {
				if val {
					follow = []int{0}
				} else {
					follow = []int{1}
				}
			} else {
				follow = []int{0, 1}
			}
		default:
			for si := range b.Succs {
				follow = append(follow, si)
			}
		}
		for _, si := range follow {
			if cuts.E[eng.Edge{From: b, Succ: si}] {
				continue
			}
			s := b.Succs[si]
			// which predecessor slot of s does this edge use
			slot, nth := -1, 0
			for k := 0; k < si; k++ {
				if b.Succs[k] == s {
					nth++
				}
			}
			for k, p := range s.Preds {
				if p == b {
					if nth == 0 {
						slot = k
						break
					}
					nth--
				}
			}
			env := map[*ssa.Phi]int{}
			for p, v := range st.env {
				env[p] = v
			}
			for _, in := range s.Instrs {
				phi, ok := in.(*ssa.Phi)
				if !ok {
					break
				}
				if bt, ok := phi.Type().Underlying().(*types.Basic); !ok || bt.Kind() != types.Bool {
					continue
				}
				env[phi] = 0
				if slot >= 0 && slot < len(phi.Edges) {
					if val, ok := evalB(phi.Edges[slot], st.env, 0); ok {
						if val {
							env[phi] = 2
						} else {
							env[phi] = 1
						}
					}
				}
			}
			stack = append(stack, state{eng.Point{B: s, I: 0}, env})
		}
	}
	return hits
}

// ---------------------------------------------------------------------------------------------------
// expected-version carriers

// c42Ev tracks, per function, the parameters and captured variables that hold the expected version.
type c42Ev struct {
	set map[*ssa.Function]map[ssa.Value]bool
}

func (e *c42Ev) add(fn *ssa.Function, v ssa.Value) bool {
	if e.set[fn] == nil {
		e.set[fn] = map[ssa.Value]bool{}
	}
	if e.set[fn][v] {
		return false
	}
	e.set[fn][v] = true
	return true
}

// spill: a is a local that only ever holds an expected-version parameter of fn.
func (e *c42Ev) spill(fn *ssa.Function, a *ssa.Alloc) bool {
	vals := dsStoredValues(a)
	if len(vals) == 0 {
		return false
	}
	for _, v := range vals {
		if !e.set[fn][v] {
			return false
		}
	}
	for _, ref := range *a.Referrers() {
		if mc, ok := ref.(*ssa.MakeClosure); ok {
			f := mc.Fn.(*ssa.Function)
			for i, b := range mc.Bindings {
				if b == ssa.Value(a) && i < len(f.FreeVars) && dsStoresTo(f, f.FreeVars[i]) {
					return false
				}
			}
		}
	}
	return true
}

// is: v is the expected version itself.
func (e *c42Ev) is(fn *ssa.Function, v ssa.Value) bool {
	for {
		if ct, ok := v.(*ssa.ChangeType); ok {
			v = ct.X
			continue
		}
		break
	}
	if e.set[fn][v] {
		if _, isFV := v.(*ssa.FreeVar); !isFV {
			return true
		}
	}
	if u, ok := v.(*ssa.UnOp); ok && u.Op == token.MUL {
		switch x := u.X.(type) {
		case *ssa.FreeVar:
			return e.set[fn][x]
		case *ssa.Alloc:
			return e.spill(fn, x)
		}
	}
	return false
}

// from: v is computed from the expected version (through calls, conversions, address-taking).
func (e *c42Ev) from(fn *ssa.Function, v ssa.Value) bool {
	seen := map[*ssa.Alloc]bool{}
	var rec func(v ssa.Value) bool
	rec = func(v ssa.Value) bool {
		return eng.Slice(v, true, func(x ssa.Value) bool {
			if e.is(fn, x) {
				return true
			}
			if a, ok := x.(*ssa.Alloc); ok && !seen[a] {
				seen[a] = true
				if e.spill(fn, a) {
					return true
				}
				for _, sv := range dsStoredValues(a) {
					if rec(sv) {
						return true
					}
				}
			}
			return false
		})
	}
	return rec(v)
}

// propagate follows the expected version from root into static callees and function literals of the
// blobstore package (bounded).
func (e *c42Ev) propagate(root *ssa.Function, rootParam *ssa.Parameter) {
	e.add(root, rootParam)
	work := []*ssa.Function{root}
	for n := 0; len(work) > 0 && n < 64; n++ {
		fn := work[0]
		work = work[1:]
		for _, b := range fn.Blocks {
			for _, in := range b.Instrs {
				switch x := in.(type) {
				case *ssa.MakeClosure:
					f := x.Fn.(*ssa.Function)
					for i, bnd := range x.Bindings {
						if a, ok := bnd.(*ssa.Alloc); ok && i < len(f.FreeVars) && e.spill(fn, a) {
							if e.add(f, f.FreeVars[i]) {
								work = append(work, f)
							}
						}
						if fv, ok := bnd.(*ssa.FreeVar); ok && i < len(f.FreeVars) && e.set[fn][fv] {
							if e.add(f, f.FreeVars[i]) {
								work = append(work, f)
							}
						}
					}
				case ssa.CallInstruction:
					callee := x.Common().StaticCallee()
					if callee == nil || len(callee.Blocks) == 0 || x.Common().IsInvoke() {
						continue
					}
					for i, a := range x.Common().Args {
						if i < len(callee.Params) && e.is(fn, a) {
							if e.add(callee, callee.Params[i]) {
								work = append(work, callee)
							}
						}
					}
				}
			}
		}
	}
}

// atoms builds the condition evaluator of fn: comparisons of the expected version with the empty string
// (B) take the value emptyEV when it is non-nil; comparisons with anything else (C, the stored version)
// take the value equal when it is non-nil; `present` (the comma-ok of the version lookup) takes *present.
func (e *c42Ev) atoms(fn *ssa.Function, emptyEV, equal *bool, presentV ssa.Value, present *bool, nC *int) func(ssa.Value) (bool, bool) {
	return func(v ssa.Value) (bool, bool) {
		if presentV != nil && v == presentV && present != nil {
			return *present, true
		}
		bo, ok := v.(*ssa.BinOp)
		if !ok || (bo.Op != token.EQL && bo.Op != token.NEQ) {
			return false, false
		}
		other := bo.Y
		if !e.is(fn, bo.X) {
			if !e.is(fn, bo.Y) {
				return false, false
			}
			other = bo.X
		}
		var val *bool
		if dsIsConstVal(other, constant.MakeString("")) {
			val = emptyEV
		} else if _, isConst := other.(*ssa.Const); !isConst {
			if nC != nil {
				*nC++
			}
			val = equal
		}
		if val == nil {
			return false, false
		}
		if bo.Op == token.EQL {
			return *val, true
		}
		return !*val, true
	}
}

// cAtoms lists the comparisons of the expected version with a non-constant value in fn.
func (e *c42Ev) cAtoms(fn *ssa.Function) []*ssa.BinOp {
	var out []*ssa.BinOp
	for _, b := range fn.Blocks {
		for _, in := range b.Instrs {
			bo, ok := in.(*ssa.BinOp)
			if !ok || (bo.Op != token.EQL && bo.Op != token.NEQ) {
				continue
			}
			x, y := bo.X, bo.Y
			if !e.is(fn, x) {
				x, y = y, x
			}
			if !e.is(fn, x) {
				continue
			}
			if _, isConst := y.(*ssa.Const); isConst {
				continue
			}
			out = append(out, bo)
		}
	}
	return out
}

func c42OtherOperand(bo *ssa.BinOp, e *c42Ev, fn *ssa.Function) ssa.Value {
	if e.is(fn, bo.X) {
		return bo.Y
	}
	return bo.X
}

// flowsInto: value v (or the variable it is stored into) flows forward into instruction sink as an operand.
func c42FlowsInto(v ssa.Value, sink ssa.Instruction) bool {
	seen := map[ssa.Value]bool{}
	var rec func(v ssa.Value, depth int) bool
	rec = func(v ssa.Value, depth int) bool {
		if v == nil || seen[v] || depth > 24 {
			return false
		}
		seen[v] = true
		refs := v.Referrers()
		if refs == nil {
			return false
		}
		for _, ref := range *refs {
			if ref == sink {
				return true
			}
			switch r := ref.(type) {
			case *ssa.Store:
				if r.Val == v {
					if rec(dsAddrRoot(r.Addr), depth+1) {
						return true
					}
				}
			case *ssa.Return, *ssa.If, *ssa.Jump:
			case ssa.Value:
				if rec(r, depth+1) {
					return true
				}
			}
		}
		return false
	}
	return rec(v, 0)
}

// valuesAt resolves a load of a local variable to the values stored into it that reach instruction at
// (without an intervening store); any other value resolves to itself.
func c42ValuesAt(v ssa.Value, at ssa.Instruction) []ssa.Value {
	u, ok := v.(*ssa.UnOp)
	if !ok || u.Op != token.MUL {
		return []ssa.Value{v}
	}
	a, ok := u.X.(*ssa.Alloc)
	if !ok {
		return []ssa.Value{v}
	}
	return c42StoresReaching(a, at)
}

func c42StoresReaching(a *ssa.Alloc, at ssa.Instruction) []ssa.Value {
	all := eng.NewSet()
	var stores []*ssa.Store
	for _, ref := range *a.Referrers() {
		if st, ok := ref.(*ssa.Store); ok && st.Addr == ssa.Value(a) {
			stores = append(stores, st)
			all.AddI(st)
		}
	}
	tgt := eng.NewSet().AddI(at)
	var out []ssa.Value
	for _, st := range stores {
		if len(eng.Reach(a.Parent(), []eng.Point{eng.After(st)}, tgt, all)) > 0 {
			out = append(out, st.Val)
		}
	}
	return out
}

// fieldStoreName returns the name of the struct field a store writes, "" when it is not a field store.
func c42FieldStoreName(st *ssa.Store) string {
	n := eng.FieldName(st.Addr)
	if i := strings.LastIndex(n, "."); i >= 0 {
		return n[i+1:]
	}
	return ""
}

// ---------------------------------------------------------------------------------------------------
// backend table

type c42Kind int

const (
	c42Locked c42Kind = iota
	c42Git
	c42Cloud
)

type c42Backend struct {
	kind c42Kind
	why  string
	// locked
	lock, unlock, writer eng.CallM
	lockField            string // mutex field the lock call must be applied to ("" = not checked)
	// cloud
	write       eng.CallM // the backend call that makes the manifest visible
	matchField  *regexp.Regexp
	createField *regexp.Regexp
	matchCall   *regexp.Regexp // option constructor fed with the expected version
	createCall  *regexp.Regexp
	builder     string // function that builds the conditional options from the expected version ("" = in place)
}

var c42Backends = map[string]c42Backend{
	"store/blobstore.LocalBlobstore": {kind: c42Locked, why: "file lock + mtime version",
		lock: eng.Static("store/blobstore.fLock"), unlock: eng.Named(`fslock\.Lock\)\.Unlock$`), writer: eng.Static("(*store/blobstore.LocalBlobstore).Put")},
	"store/blobstore.InMemoryBlobstore": {kind: c42Locked, why: "write mutex + uuid version",
		lock: eng.Static("(*sync.RWMutex).Lock", "(*sync.Mutex).Lock"), unlock: eng.Static("(*sync.RWMutex).Unlock", "(*sync.Mutex).Unlock"), writer: eng.Static("(*store/blobstore.InMemoryBlobstore).put"),
		lockField: "store/blobstore.InMemoryBlobstore.mutex"},
	"store/blobstore.GitBlobstore": {kind: c42Git, why: "compare in the commit-building closure under writeMu, push with lease"},
	"store/blobstore.GCSBlobstore": {kind: c42Cloud, why: "generation-match / does-not-exist conditions on the object handle",
		write: eng.Static("(*cloud.google.com/go/storage.ObjectHandle).NewWriter"), matchField: regexp.MustCompile(`^GenerationMatch$`), createField: regexp.MustCompile(`^DoesNotExist$`)},
	"store/blobstore.S3Blobstore": {kind: c42Cloud, why: "If-Match / If-None-Match on PutObject",
		write: eng.Named(`service/s3\.Client\)\.PutObject$`), matchField: regexp.MustCompile(`^IfMatch$`), createField: regexp.MustCompile(`^IfNoneMatch$`)},
	"store/blobstore.AzureBlobstore": {kind: c42Cloud, why: "If-Match / If-None-Match access conditions built by buildCheckAndPutOptions",
		write: eng.Named(`azureBlobClient\.UploadBuffer$|azblob\.Client\)\.UploadBuffer$`), matchField: regexp.MustCompile(`^IfMatch$`), createField: regexp.MustCompile(`^IfNoneMatch$`), builder: "store/blobstore.buildCheckAndPutOptions"},
	"store/blobstore.OCIBlobstore": {kind: c42Cloud, why: "If-Match / If-None-Match on PutObject and on CommitMultipartUpload",
		write: eng.Named(`objectstorage\.ObjectStorageClient\)\.(PutObject|CommitMultipartUpload)$`), matchField: regexp.MustCompile(`^IfMatch$`), createField: regexp.MustCompile(`^IfNoneMatch$`)},
	"store/blobstore.OSSBlobstore": {kind: c42Cloud, why: "versionId option on PutObject",
		write: eng.Named(`oss\.Bucket\)\.PutObject$`), matchCall: regexp.MustCompile(`aliyun-oss-go-sdk/oss\.VersionId$`), createCall: regexp.MustCompile(`aliyun-oss-go-sdk/oss\.ForbidOverWrite$`)},
}

func runC42(k *eng.Check, tier string) {
	c := k.C
	// (1) implementers
	impl := map[string]*ssa.Function{}
	for path, p := range c.P.ByPath {
		if p.Types == nil || !strings.HasPrefix(path, "github.com/dolthub/dolt/go") || len(p.Syntax) == 0 {
			continue
		}
		sc := p.Types.Scope()
		for _, n := range sc.Names() {
			tn, ok := sc.Lookup(n).(*types.TypeName)
			if !ok || tn.IsAlias() {
				continue
			}
			if _, isIface := tn.Type().Underlying().(*types.Interface); isIface {
				continue
			}
			ms := types.NewMethodSet(types.NewPointer(tn.Type()))
			sel := ms.Lookup(p.Types, "CheckAndPutManifest")
			if sel == nil {
				continue
			}
			sig, ok := sel.Type().(*types.Signature)
			if !ok || sig.Params().Len() != 3 || sig.Results().Len() != 2 {
				continue
			}
			short := eng.ShortType(tn.Type())
			var fn *ssa.Function
			for _, cand := range []string{"(*" + short + ").CheckAndPutManifest", "(" + short + ").CheckAndPutManifest"} {
				if f := c.Func(cand); f != nil {
					fn = f
				}
			}
			if fn == nil {
				// promoted from an embedded implementation: that implementation is listed on its own
				continue
			}
			impl[short] = fn
		}
	}
	if len(impl) < 8 {
		k.Unknown("backend-classified", "store/blobstore", "implementations of Blobstore.CheckAndPutManifest", fmt.Sprintf("found %d, confirmed floor 8", len(impl)))
	}
	var names []string
	for n := range impl {
		names = append(names, n)
	}
	sort.Strings(names)
	for _, n := range names {
		be, ok := c42Backends[n]
		fn := impl[n]
		k.FuncsSeen[fn] = true
		if !ok {
			k.Fail("backend-classified", n, "every CheckAndPutManifest implementation is in the frozen backend table", c.Pos(fn.Pos()), "new Blobstore backend: its conditional write has not been classified", nil)
			continue
		}
		k.Pass("backend-classified", n, "classified: "+be.why, 1)
		var evParam *ssa.Parameter
		ns := 0
		for _, p := range fn.Params {
			if bt, ok := p.Type().Underlying().(*types.Basic); ok && bt.Kind() == types.String {
				evParam = p
				ns++
			}
		}
		if ns != 1 {
			k.Unknown("backend-classified", n+"#expectedVersion", "the unique string parameter (expected version)", fmt.Sprintf("found %d string parameters", ns))
			continue
		}
		ev := &c42Ev{set: map[*ssa.Function]map[ssa.Value]bool{}}
		ev.propagate(fn, evParam)
		switch be.kind {
		case c42Locked:
			c42LockedRules(k, n, fn, be, ev)
		case c42Git:
			c42GitRules(k, n, fn, ev)
		case c42Cloud:
			c42CloudRules(k, n, fn, be, ev)
		}
	}
	for n := range c42Backends {
		if impl[n] == nil {
			k.Unknown("backend-classified", n, "classified backend still implements CheckAndPutManifest", "implementation not found")
		}
	}
	c42InMemWriters(k)
	c42NBSRules(k)
}

func c42Bool(b bool) *bool { return &b }

// compareRule: with every expected==stored comparison false, targets and success exits are unreachable.
func c42CompareRule(k *eng.Check, rule, construct string, fn *ssa.Function, ev *c42Ev, targets *eng.Set, storedOK func(ssa.Value) bool, what string) {
	c := k.C
	cs := ev.cAtoms(fn)
	var good []*ssa.BinOp
	for _, bo := range cs {
		if storedOK(c42OtherOperand(bo, ev, fn)) {
			good = append(good, bo)
		}
	}
	if len(good) < 1 {
		k.Unknown(rule, construct, "comparison of the expected version with "+what, "no such comparison found: the conditional write no longer compares versions (or changed shape)")
		return
	}
	// presence flag of a comma-ok lookup that produced the stored version
	var presentV ssa.Value
	for _, bo := range good {
		if ex, ok := c42OtherOperand(bo, ev, fn).(*ssa.Extract); ok {
			if lk, ok := ex.Tuple.(*ssa.Lookup); ok && lk.CommaOk {
				for _, ref := range *lk.Referrers() {
					if e2, ok := ref.(*ssa.Extract); ok && e2.Index == 1 {
						presentV = e2
					}
				}
			}
		}
	}
	all := eng.UnionOf(targets, eng.SuccessExits(fn))
	// success exits may be phi edges; use the return instructions they lead to as well
	type asg struct{ a, b bool }
	combos := []asg{{true, true}, {true, false}, {false, false}}
	if presentV == nil {
		combos = []asg{{true, true}, {true, false}}
	}
	isGood := map[*ssa.BinOp]bool{}
	for _, bo := range good {
		isGood[bo] = true
	}
	var bad ssa.Instruction
	for _, cb := range combos {
		base := ev.atoms(fn, c42Bool(cb.b), nil, presentV, c42Bool(cb.a), nil)
		evalf := func(v ssa.Value) (bool, bool) {
			if bo, ok := v.(*ssa.BinOp); ok && isGood[bo] {
				return bo.Op == token.NEQ, true // operands differ
			}
			return base(v)
		}
		hits := c42Explore(fn, evalf, nil, all, eng.NewSet())
		// edge targets (success through a phi) are not instructions: check them separately
		if len(hits) == 0 {
			for e := range all.E {
				if len(c42Explore(fn, evalf, nil, eng.NewSet().AddI(e.From.Instrs[len(e.From.Instrs)-1]), eng.NewSet())) > 0 {
					// the block is reachable; is the edge taken?
					if iff, ok := e.From.Instrs[len(e.From.Instrs)-1].(*ssa.If); ok {
						if val, known := evalf(iff.Cond); known && ((val && e.Succ != 0) || (!val && e.Succ != 1)) {
							continue
						}
					}
					hits = append(hits, e.From.Instrs[len(e.From.Instrs)-1])
				}
			}
		}
		if len(hits) > 0 {
			bad = hits[0]
			break
		}
	}
	k.Require(rule, construct, "when the expected version differs from "+what+", neither the write nor a success return is reachable (all branch combinations of `blob present` / `expected empty`)", bad == nil,
		c.InstrPos(bad), "the write or a success return is reachable although the versions differ")
}

func c42LockedRules(k *eng.Check, n string, fn *ssa.Function, be c42Backend, ev *c42Ev) {
	c := k.C
	writers := eng.CallSet(fn, be.writer)
	if writers.Len() < 1 {
		k.Unknown("compare-before-put", n, "the blob write inside CheckAndPutManifest", "writer call not found")
		return
	}
	locks := eng.Calls(fn, be.lock, false)
	if len(locks) != 1 {
		k.Unknown("put-under-lock", n, "the single lock acquisition", fmt.Sprintf("found %d", len(locks)))
		return
	}
	lockCall := locks[0]
	lockOK := eng.OkCut(lockCall)
	if be.lockField != "" {
		okF := len(lockCall.Common().Args) >= 1 && eng.FieldName(lockCall.Common().Args[0]) == be.lockField
		k.Require("put-under-lock", n+"#mutex", "the write lock of the store's own mutex is taken", okF, c.InstrPos(lockCall.(ssa.Instruction)), "Lock is applied to something else than "+be.lockField)
	}
	// the stored version: any value produced after the lock was taken (read under the lock)
	withoutLock := map[ssa.Instruction]bool{}
	{
		all := eng.NewSet()
		for _, b := range fn.Blocks {
			for _, in := range b.Instrs {
				all.AddI(in)
			}
		}
		for _, h := range eng.Reach(fn, nil, all, lockOK) {
			if h.Instr != nil {
				withoutLock[h.Instr] = true // reachable WITHOUT the lock
			}
		}
	}
	storedOK := func(v ssa.Value) bool {
		// derives from an instruction that is unreachable unless the lock was acquired, and not only from parameters
		return eng.Slice(v, true, func(x ssa.Value) bool {
			in, ok := x.(ssa.Instruction)
			if !ok {
				return false
			}
			switch x.(type) {
			case *ssa.Call, *ssa.Lookup:
				return !withoutLock[in]
			}
			return false
		})
	}
	c42CompareRule(k, "compare-before-put", n, fn, ev, writers, storedOK, "the version read under the lock")
	k.OnlyAfter("put-under-lock", fn, "the blob is written only after the lock was acquired", writers, 1, lockOK)
	// released only by a deferred call
	direct := eng.Calls(fn, be.unlock, false)
	deferred := 0
	for _, b := range fn.Blocks {
		for _, in := range b.Instrs {
			d, ok := in.(*ssa.Defer)
			if !ok {
				continue
			}
			if be.unlock(d) {
				deferred++
			} else if mc, ok := d.Call.Value.(*ssa.MakeClosure); ok {
				if len(eng.Calls(mc.Fn.(*ssa.Function), be.unlock, false)) > 0 {
					deferred++
				}
			} else if f := d.Call.StaticCallee(); f != nil && len(f.Blocks) > 0 && len(eng.CallsDeep(f, be.unlock, true)) > 0 {
				deferred++ // `defer releaseHelper(lock)`: a named function that releases the lock
			}
		}
	}
	k.Require("put-under-lock", n+"#release", "the lock is released by a deferred call and nowhere earlier", len(direct) == 0 && deferred >= 1, c.Pos(fn.Pos()), fmt.Sprintf("%d direct release(s), %d deferred", len(direct), deferred))
}

// in-memory maps: written only by put, put called only under the write mutex
func c42InMemWriters(k *eng.Check) {
	c := k.C
	nUpd, nCall := 0, 0
	for _, fn := range c.Funcs("store/blobstore") {
		for _, b := range fn.Blocks {
			for _, in := range b.Instrs {
				mu, ok := in.(*ssa.MapUpdate)
				if !ok {
					continue
				}
				if !eng.Slice(mu.Map, false, func(v ssa.Value) bool {
					f := eng.FieldName(v)
					return f == "store/blobstore.InMemoryBlobstore.blobs" || f == "store/blobstore.InMemoryBlobstore.versions"
				}) {
					continue
				}
				nUpd++
				k.Require("inmem-single-writer", fmt.Sprintf("%s#mapupdate%d", eng.Name(eng.Outermost(fn)), nUpd), "the in-memory blob/version maps are written only by put", eng.Name(fn) == "(*store/blobstore.InMemoryBlobstore).put", c.InstrPos(mu), "map written outside put")
			}
		}
		calls := eng.Calls(fn, eng.Static("(*store/blobstore.InMemoryBlobstore).put"), true)
		if len(calls) == 0 {
			continue
		}
		nCall += len(calls)
		lock := eng.NewSet()
		for _, l := range eng.Calls(fn, eng.Static("(*sync.RWMutex).Lock"), false) {
			if len(l.Common().Args) >= 1 && eng.FieldName(l.Common().Args[0]) == "store/blobstore.InMemoryBlobstore.mutex" {
				lock.AddI(l.(ssa.Instruction))
			}
		}
		k.OnlyAfter("inmem-single-writer", fn, "put is called only with the write mutex held", eng.CallSet(fn, eng.Static("(*store/blobstore.InMemoryBlobstore).put")), 1, lock)
	}
	if nUpd < 2 || nCall < 2 {
		k.Unknown("inmem-single-writer", "store/blobstore.InMemoryBlobstore", "map updates and put call sites", fmt.Sprintf("found %d/%d, confirmed floor 2/2", nUpd, nCall))
	}
}

func c42GitRules(k *eng.Check, n string, fn *ssa.Function, ev *c42Ev) {
	c := k.C
	// the closure that builds the commit: a literal reached by the expected version that calls buildCommitForKeyWrite
	mBuild := eng.Static("(*store/blobstore.GitBlobstore).buildCommitForKeyWrite")
	var clo *ssa.Function
	for f := range ev.set {
		if f.Parent() != nil && len(eng.Calls(f, mBuild, false)) > 0 {
			if clo != nil {
				clo = nil
				break
			}
			clo = f
		}
	}
	if clo == nil {
		k.Unknown("compare-before-put", n, "the commit-building closure that receives the expected version", "not found (the expected version does not reach a literal that calls buildCommitForKeyWrite)")
		return
	}
	k.FuncsSeen[clo] = true
	mCur := eng.Static("(*store/blobstore.GitBlobstore).currentKeyVersion")
	curs := eng.Calls(clo, mCur, false)
	storedOK := func(v ssa.Value) bool {
		ex, ok := v.(*ssa.Extract)
		if !ok || ex.Index != 0 {
			return false
		}
		for _, cc := range curs {
			if ex.Tuple == cc.Value() {
				return true
			}
		}
		return false
	}
	builds := eng.CallSet(clo, mBuild)
	c42CompareRule(k, "compare-before-put", n, clo, ev, builds, storedOK, "currentKeyVersion of the fetched remote head")
	okCur := eng.NewSet()
	headArg := true
	for _, cc := range curs {
		okCur.Union(eng.OkCut(cc))
		// currentKeyVersion is evaluated on the closure's own (remoteHead, ok) parameters
		args := cc.Common().Args
		if len(args) < 5 || len(clo.Params) < 2 || args[2] != ssa.Value(clo.Params[0]) || args[3] != ssa.Value(clo.Params[1]) {
			headArg = false
		}
	}
	k.OnlyAfter("compare-before-put", clo, "the commit is built only after currentKeyVersion returned no error", builds, 1, okCur)
	k.Require("compare-before-put", n+"#on-fetched-head", "the stored version is taken at the remote head the closure was given", headArg && len(curs) > 0, c.Pos(clo.Pos()), "currentKeyVersion not evaluated on the closure's remote head")

	// the closure is handed to remoteManagedWrite
	host := clo.Parent()
	rmw := k.Fn("(*store/blobstore.GitBlobstore).remoteManagedWrite")
	if rmw == nil {
		return
	}
	passed := false
	for _, call := range eng.Calls(host, eng.Static(eng.Name(rmw)), false) {
		for _, a := range call.Common().Args {
			if mc, ok := a.(*ssa.MakeClosure); ok && mc.Fn == ssa.Value(clo) {
				passed = true
			}
		}
	}
	k.Require("git-cas", n+"#closure-runs-in-remoteManagedWrite", "the comparing closure is the build function of remoteManagedWrite", passed, c.Pos(host.Pos()), "closure not passed to remoteManagedWrite")

	// remoteManagedWrite: writeMu held around the retry loop
	lock := eng.NewSet()
	for _, l := range eng.Calls(rmw, eng.Static("(*sync.Mutex).Lock", "(*sync.RWMutex).Lock"), false) {
		if len(l.Common().Args) >= 1 && eng.FieldName(l.Common().Args[0]) == "store/blobstore.GitBlobstore.writeMu" {
			lock.AddI(l.(ssa.Instruction))
		}
	}
	// the operation literal: the nested function that pushes with a lease
	mPush := eng.Method(`git\.GitAPI$`, "PushRefWithLease")
	var op *ssa.Function
	for _, a := range eng.WithAnons(rmw) {
		if a != rmw && len(eng.Calls(a, mPush, false)) > 0 {
			op = a
		}
	}
	if op == nil {
		k.Unknown("git-cas", n+"#push-with-lease", "the retry operation that pushes the ref with a lease", "no PushRefWithLease call in remoteManagedWrite: the remote ref is no longer updated by compare-and-swap")
		return
	}
	k.FuncsSeen[op] = true
	// every use of the operation literal in remoteManagedWrite happens after the lock
	uses := eng.NewSet()
	for _, b := range rmw.Blocks {
		for _, in := range b.Instrs {
			if mc, ok := in.(*ssa.MakeClosure); ok && mc.Fn == ssa.Value(op) {
				for _, ref := range *mc.Referrers() {
					if _, isCall := ref.(ssa.CallInstruction); isCall {
						uses.AddI(ref)
					}
				}
			}
		}
	}
	// the literal may be stored in a local first: fall back to every call that takes a function value
	if uses.Len() == 0 {
		for _, call := range eng.Calls(rmw, func(ci ssa.CallInstruction) bool {
			for _, a := range ci.Common().Args {
				if eng.Slice(a, false, func(v ssa.Value) bool {
					mc, ok := v.(*ssa.MakeClosure)
					return ok && mc.Fn == ssa.Value(op)
				}) {
					return true
				}
			}
			return false
		}, false) {
			uses.AddI(call.(ssa.Instruction))
		}
	}
	k.OnlyAfter("git-cas", rmw, "the fetch-build-push operation runs only with writeMu held", uses, 1, lock)
	nDirect := 0
	for _, u := range eng.Calls(rmw, eng.Static("(*sync.Mutex).Unlock"), false) {
		if len(u.Common().Args) >= 1 && eng.FieldName(u.Common().Args[0]) == "store/blobstore.GitBlobstore.writeMu" {
			nDirect++
		}
	}
	k.Require("git-cas", n+"#writeMu-release", "writeMu is not released inside remoteManagedWrite's body (only by the deferred literal)", nDirect == 0, c.Pos(rmw.Pos()), "direct Unlock of writeMu before the operation finished")

	// in the operation: fetch -> build(head) -> UpdateRef -> PushRefWithLease(lease = head)
	fetches := eng.Calls(op, eng.Static("(*store/blobstore.GitBlobstore).fetchAlignAndMergeForWrite"), false)
	pushes := eng.Calls(op, mPush, false)
	var builds2 []ssa.CallInstruction
	for _, call := range eng.Calls(op, func(ci ssa.CallInstruction) bool {
		cc := ci.Common()
		if cc.IsInvoke() || cc.StaticCallee() != nil {
			return false
		}
		u, ok := cc.Value.(*ssa.UnOp)
		if !ok || u.Op != token.MUL {
			return false
		}
		_, isFV := u.X.(*ssa.FreeVar)
		_, isSig := cc.Value.Type().Underlying().(*types.Signature)
		return isFV && isSig
	}, false) {
		builds2 = append(builds2, call)
	}
	if len(fetches) != 1 || len(pushes) != 1 || len(builds2) != 1 {
		k.Unknown("git-cas", n+"#operation-shape", "one fetch, one build call, one push per attempt", fmt.Sprintf("found %d/%d/%d", len(fetches), len(builds2), len(pushes)))
		return
	}
	head := dsExtractOf(fetches[0].(*ssa.Call), 0)
	push, build := pushes[0], builds2[0]
	pa := push.Common().Args
	k.Require("git-cas", n+"#lease-is-compared-head", "the lease of the push is the remote head the build closure compared against", head != nil && len(pa) >= 1 && pa[len(pa)-1] == ssa.Value(head) && len(build.Common().Args) >= 1 && build.Common().Args[0] == ssa.Value(head),
		c.InstrPos(push.(ssa.Instruction)), "lease and compared head are different values")
	pushSet := eng.NewSet().AddI(push.(ssa.Instruction))
	k.OnlyAfter("git-cas", op, "the ref is pushed only after the build closure (version comparison) succeeded", pushSet, 1, eng.OkCut(build))
	k.OnlyAfter("git-cas", op, "the ref is pushed only after the fetch succeeded", pushSet, 1, eng.OkCut(fetches[0]))
	okUpd := eng.NewSet()
	if bv := build.Value(); bv != nil {
		for _, u := range eng.Calls(op, eng.Method(`git\.GitAPI$`, "UpdateRef"), false) {
			for _, a := range u.Common().Args {
				if ex, ok := a.(*ssa.Extract); ok && ex.Index == 0 && ex.Tuple == ssa.Value(bv) {
					okUpd.Union(eng.OkCut(u))
				}
			}
		}
	}
	k.OnlyAfter("git-cas", op, "the ref is pushed only after the local ref was moved to the commit the build closure returned", pushSet, 1, okUpd)
	nilRets := eng.NewSet()
	for _, b := range op.Blocks {
		if len(b.Instrs) == 0 {
			continue
		}
		if r, ok := b.Instrs[len(b.Instrs)-1].(*ssa.Return); ok && len(r.Results) == 1 && dsIsConstVal(r.Results[0], nil) {
			nilRets.AddI(r)
		}
	}
	k.OnlyAfter("git-cas", op, "the attempt returns nil only after the leased push succeeded", nilRets, 1, eng.OkCut(push))
}

func c42CloudRules(k *eng.Check, n string, fn *ssa.Function, be c42Backend, ev *c42Ev) {
	c := k.C
	// functions reached by the expected version that issue the backend write
	type site struct {
		fn    *ssa.Function
		calls []ssa.CallInstruction
	}
	var sites []site
	var fns []*ssa.Function
	for f := range ev.set {
		fns = append(fns, f)
	}
	sort.Slice(fns, func(i, j int) bool { return eng.Name(fns[i]) < eng.Name(fns[j]) })
	for _, f := range fns {
		if cs := eng.Calls(f, be.write, false); len(cs) > 0 {
			sites = append(sites, site{f, cs})
		}
	}
	if len(sites) < 1 {
		k.Unknown("precondition-before-write", n, "the backend write in a function that receives the expected version", "not found: the expected version is not passed down to the code that writes the manifest")
		return
	}
	for _, s := range sites {
		k.FuncsSeen[s.fn] = true
		for wi, w := range s.calls {
			win := w.(ssa.Instruction)
			con := fmt.Sprintf("%s#%s.write%d", n, eng.Name(s.fn), wi)
			if be.builder != "" {
				// options come from a builder fed with the expected version
				var bcall *ssa.Call
				for _, a := range w.Common().Args {
					eng.Slice(a, false, func(v ssa.Value) bool {
						if cc := dsCallTo(v, be.builder); cc != nil {
							bcall = cc
						}
						return false
					})
				}
				okB := bcall != nil && len(bcall.Call.Args) >= 1 && ev.is(s.fn, bcall.Call.Args[0])
				k.Require("precondition-before-write", con, "the backend write takes its options from "+be.builder+"(expectedVersion)", okB, c.InstrPos(win), "options are not built from the expected version")
				bf := c.Func(be.builder)
				if !okB || bf == nil {
					continue
				}
				k.FuncsSeen[bf] = true
				rets := eng.NewSet()
				for _, b := range bf.Blocks {
					if len(b.Instrs) > 0 {
						if r, ok := b.Instrs[len(b.Instrs)-1].(*ssa.Return); ok {
							rets.AddI(r)
						}
					}
				}
				c42SinkRule(k, con+"/"+eng.Name(bf), bf, be, ev, rets, func(root ssa.Value) bool {
					for in := range rets.I {
						if c42FlowsInto(root, in) {
							return true
						}
					}
					return false
				})
				continue
			}
			c42SinkRule(k, con, s.fn, be, ev, eng.NewSet().AddI(win), func(root ssa.Value) bool { return c42FlowsInto(root, win) })
		}
	}
}

// c42SinkRule: in fn, targets are reachable with a non-empty expected version only after a match
// precondition fed from it, and with an empty expected version only after a create-only precondition;
// the precondition must be installed into something that flows into the target.
func c42SinkRule(k *eng.Check, con string, fn *ssa.Function, be c42Backend, ev *c42Ev, targets *eng.Set, flows func(ssa.Value) bool) {
	c := k.C
	match, create := eng.NewSet(), eng.NewSet()
	for _, b := range fn.Blocks {
		for _, in := range b.Instrs {
			switch x := in.(type) {
			case *ssa.Store:
				f := c42FieldStoreName(x)
				if f == "" {
					continue
				}
				root := dsAddrRoot(x.Addr)
				if u, ok := root.(*ssa.UnOp); ok {
					root = u.X
				}
				if be.matchField != nil && be.matchField.MatchString(f) && ev.from(fn, x.Val) && flows(root) {
					match.AddI(x)
				}
				if be.createField != nil && be.createField.MatchString(f) && !dsIsConstVal(x.Val, nil) && !dsIsConstVal(x.Val, constant.MakeBool(false)) && flows(root) {
					create.AddI(x)
				}
			case *ssa.Call:
				cn := eng.CalleeName(x)
				if be.matchCall != nil && be.matchCall.MatchString(cn) && len(x.Call.Args) >= 1 && ev.from(fn, x.Call.Args[0]) && flows(x) {
					match.AddI(x)
				}
				if be.createCall != nil && be.createCall.MatchString(cn) && flows(x) {
					create.AddI(x)
				}
			}
		}
	}
	var pos ssa.Instruction
	for in := range targets.I {
		pos = in
	}
	hits := c42Explore(fn, ev.atoms(fn, c42Bool(false), nil, nil, nil, nil), nil, targets, match)
	k.Require("precondition-before-write", con+"#match", "with a non-empty expected version the write is reachable only after a match precondition fed from the expected version was installed in the request", len(hits) == 0 && match.Len() > 0,
		c.InstrPos(pos), fmt.Sprintf("%d match precondition site(s); the write is reachable without one", match.Len()))
	hits = c42Explore(fn, ev.atoms(fn, c42Bool(true), nil, nil, nil, nil), nil, targets, create)
	k.Require("precondition-before-write", con+"#create-only", "with an empty expected version (manifest must not exist yet) the write is reachable only after a create-only precondition was installed in the request", len(hits) == 0 && create.Len() > 0,
		c.InstrPos(pos), fmt.Sprintf("%d create-only precondition site(s); an unconditional write is reachable when no manifest is expected: two concurrent creators both succeed", create.Len()))
}

// (5) NBS manifest layer
func c42NBSRules(k *eng.Check) {
	c := k.C
	mCAP := eng.Method(`store/blobstore\.Blobstore$`, "CheckAndPutManifest")
	const mvc = "store/nbs.manifestVersionAndContents"
	if fn := k.Fn("store/nbs.updateBSWithChecker"); fn != nil {
		caps := eng.Calls(fn, mCAP, false)
		reads := eng.Calls(fn, eng.Static(mvc), false)
		if len(caps) != 1 || len(reads) < 1 {
			k.Unknown("manifest-token-flow", eng.Name(fn), "one CheckAndPutManifest call and the manifest read", fmt.Sprintf("found %d/%d", len(caps), len(reads)))
		} else {
			cp := caps[0].(*ssa.Call)
			// the read whose version is handed over
			var rd *ssa.Call
			if len(cp.Call.Args) >= 2 {
				if ex, ok := cp.Call.Args[1].(*ssa.Extract); ok && ex.Index == 0 {
					rd = dsCallTo(ex, mvc)
				}
			}
			k.Require("manifest-token-flow", eng.Name(fn)+"#version-of-read", "CheckAndPutManifest receives the version returned by manifestVersionAndContents", rd != nil, c.InstrPos(cp), "the expected version is not the version of a manifest read in this function")
			if rd != nil {
				isLock := func(v ssa.Value) bool {
					// the lock field of the contents returned by the same read
					isRead := func(x ssa.Value) bool {
						ex, ok := x.(*ssa.Extract)
						return ok && ex.Index == 1 && ex.Tuple == ssa.Value(rd)
					}
					switch x := v.(type) {
					case *ssa.Field:
						return eng.FieldName(x) == "store/nbs.manifestContents.lock" && isRead(x.X)
					case *ssa.UnOp:
						fa, ok := x.X.(*ssa.FieldAddr)
						if !ok || x.Op != token.MUL || eng.FieldName(fa) != "store/nbs.manifestContents.lock" {
							return false
						}
						a, ok := fa.X.(*ssa.Alloc)
						if !ok {
							return false
						}
						vals := c42StoresReaching(a, x)
						if len(vals) == 0 {
							return false
						}
						for _, sv := range vals {
							if !isRead(sv) {
								return false
							}
						}
						return true
					}
					return false
				}
				var lastLock *ssa.Parameter
				nh := 0
				for _, p := range fn.Params {
					if dsIsNamed(p.Type(), "store/hash", "Hash") {
						lastLock = p
						nh++
					}
				}
				eq := dsCmpEdges(fn, isLock, func(v ssa.Value) bool { return nh == 1 && v == ssa.Value(lastLock) }, true)
				cpSet := eng.NewSet().AddI(cp)
				if eq.Len() < 1 {
					k.Unknown("manifest-token-flow", eng.Name(fn)+"#lock-compare", "comparison of the read manifest's lock with the caller's lastLock", "not found (or it is made on another read than the one providing the version)")
				} else {
					k.OnlyAfter("manifest-token-flow", fn, "CheckAndPutManifest only when the lock of the manifest that provided the version equals lastLock", cpSet, 1, eq)
				}
				// checker passed
				var chk []ssa.CallInstruction
				for _, call := range eng.Calls(fn, func(ci ssa.CallInstruction) bool {
					p, ok := ci.Common().Value.(*ssa.Parameter)
					return ok && !ci.Common().IsInvoke() && p.Parent() == fn
				}, false) {
					chk = append(chk, call)
				}
				okChk := eng.NewSet()
				for _, x := range chk {
					okChk.Union(eng.OkCut(x))
				}
				k.OnlyAfter("manifest-token-flow", fn, "CheckAndPutManifest only after the manifest checker (gc generation) passed", cpSet, 1, okChk)
				// the manifest read must not have failed other than not-found: the read's error is consumed
				k.Require("manifest-token-flow", eng.Name(fn)+"#read-error", "the error of the manifest read is examined", eng.ErrConsumed(rd), c.InstrPos(rd), "read error dropped")
				// new contents returned only after a successful CAS
				var nc *ssa.Parameter
				nmc := 0
				for _, p := range fn.Params {
					if dsIsNamed(p.Type(), "store/nbs", "manifestContents") {
						nc = p
						nmc++
					}
				}
				rets := eng.NewSet()
				for _, b := range fn.Blocks {
					if len(b.Instrs) == 0 {
						continue
					}
					if r, ok := b.Instrs[len(b.Instrs)-1].(*ssa.Return); ok && len(r.Results) >= 1 && nmc == 1 {
						if eng.Slice(r.Results[0], false, func(v ssa.Value) bool { return v == ssa.Value(nc) }) {
							rets.AddI(r)
						}
					}
				}
				// named results: stores of the parameter into the result slot
				for _, b := range fn.Blocks {
					for _, in := range b.Instrs {
						if st, ok := in.(*ssa.Store); ok && nmc == 1 {
							if a, isA := st.Addr.(*ssa.Alloc); isA && dsIsNamed(a.Type().(*types.Pointer).Elem(), "store/nbs", "manifestContents") {
								if eng.Slice(st.Val, false, func(v ssa.Value) bool { return v == ssa.Value(nc) }) {
									// skip the spill of the parameter itself
									if pst := dsSingleStore(a); pst == nil || pst.Val != ssa.Value(nc) {
										rets.AddI(st)
									}
								}
							}
						}
					}
				}
				k.OnlyAfter("manifest-token-flow", fn, "the new contents are reported as installed only after CheckAndPutManifest returned nil", rets, 1, eng.OkCut(cp))
			}
		}
	}
	if fn := k.Fn(mvc); fn != nil {
		gets := eng.Calls(fn, eng.Method(`store/blobstore\.Blobstore$`, "Get"), false)
		if len(gets) != 1 {
			k.Unknown("manifest-token-flow", eng.Name(fn), "the single Get of the manifest", fmt.Sprintf("found %d", len(gets)))
		} else {
			g := gets[0].(*ssa.Call)
			keyOK := len(g.Call.Args) >= 2 && dsIsConstVal(g.Call.Args[1], constant.MakeString("manifest"))
			k.Require("manifest-token-flow", eng.Name(fn)+"#key", "the manifest key is read", keyOK, c.InstrPos(g), "Get of another key")
			okPair := true
			nret := 0
			for in := range eng.SuccessExits(fn).I {
				r, ok := in.(*ssa.Return)
				if !ok || len(r.Results) != 3 {
					continue
				}
				nret++
				vers, conts := c42ValuesAt(r.Results[0], r), c42ValuesAt(r.Results[1], r)
				if len(vers) == 0 || len(conts) == 0 {
					okPair = false
				}
				for _, v := range vers {
					ver, isEx := v.(*ssa.Extract)
					if !isEx || ver.Index != 2 || ver.Tuple != ssa.Value(g) {
						okPair = false
					}
				}
				for _, v := range conts {
					if !eng.Slice(v, true, func(x ssa.Value) bool {
						ex, ok := x.(*ssa.Extract)
						return ok && ex.Index == 0 && ex.Tuple == ssa.Value(g)
					}) {
						okPair = false
					}
				}
			}
			k.Require("manifest-token-flow", eng.Name(fn)+"#same-get", "version and contents returned together come from one Get", okPair && nret >= 1, c.InstrPos(g), "version and contents come from different reads")
		}
	}
	// wrappers hand their blobstore and lastLock through
	nw := 0
	for _, w := range []string{"(store/nbs.blobstoreManifest).Update", "(store/nbs.blobstoreManifest).UpdateGCGen"} {
		fn := k.Fn(w)
		if fn == nil {
			continue
		}
		for _, call := range eng.Calls(fn, eng.Static("store/nbs.updateBSWithChecker"), false) {
			nw++
			args := call.Common().Args
			var lastLock *ssa.Parameter
			for _, p := range fn.Params {
				if dsIsNamed(p.Type(), "store/hash", "Hash") {
					lastLock = p
				}
			}
			ok := len(args) >= 5 && eng.FromField(args[2], "store/nbs.blobstoreManifest.bs") && lastLock != nil && args[4] == ssa.Value(lastLock)
			k.Require("manifest-token-flow", w, "the manifest's own blobstore and the caller's lastLock are handed to updateBSWithChecker", ok, c.InstrPos(call.(ssa.Instruction)), "arguments replaced")
		}
	}
	if nw < 2 {
		k.Unknown("manifest-token-flow", "store/nbs.blobstoreManifest", "Update/UpdateGCGen calls of updateBSWithChecker", fmt.Sprintf("found %d, floor 2", nw))
	}
	// nothing else in nbs writes the manifest key
	mPut := eng.AnyOf(eng.Method(`store/blobstore\.Blobstore$`, "Put"), eng.Method(`store/blobstore\.Blobstore$`, "Concatenate"), eng.Static("store/blobstore.PutBytes"))
	np := 0
	for _, fn := range c.Funcs("store/nbs") {
		for _, call := range eng.Calls(fn, mPut, true) {
			np++
			args := call.Common().Args
			idx := 1
			if !call.Common().IsInvoke() {
				idx = 2 // PutBytes(ctx, bs, key, data)
			}
			bad := len(args) > idx && eng.Slice(args[idx], true, func(v ssa.Value) bool {
				return dsIsConstVal(v, constant.MakeString("manifest"))
			})
			if bad {
				k.Fail("manifest-only-via-cas", eng.Name(eng.Outermost(fn))+"#"+eng.CalleeName(call), "no unconditional blob write in store/nbs names the manifest key", c.InstrPos(call.(ssa.Instruction)), "Put/Concatenate with a key derived from the manifest key constant", nil)
			}
		}
	}
	if np < 12 {
		k.Unknown("manifest-only-via-cas", "store/nbs", "Put/PutBytes/Concatenate call sites", fmt.Sprintf("found %d, confirmed floor 12", np))
	} else {
		k.Pass("manifest-only-via-cas", "store/nbs", "no Put/PutBytes/Concatenate call in store/nbs has a key derived from the manifest key constant", np)
	}
}
