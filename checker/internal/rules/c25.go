package rules

import (
	"fmt"
	"go/token"
	"go/types"
	"strings"

	"dvcheck/internal/eng"

	"golang.org/x/tools/go/ssa"
)

func init() {
	Registry["C25"] = &Rule{
		Explanation: "Decides fan-out completeness of table-level writes to secondary indexes. SQL write path (prollyTableWriter): Insert/Update/Delete reach a success exit only after a range loop over w.secondary in which every iteration performs the same-named operation on the element with its error checked (an error never continues the loop), and after the same operation on w.primary succeeded; DiscardChanges/StatementComplete call Discard/Commit on the primary and on every secondary element and consume the errors; table() flushes every secondary writer's map into the index set under the writer's own name, and installs that index set and the primary rows before success; flush() persists what table() built. Merge path: in the row-merge dispatch every right-side / auto-resolved diff op (RightAdd, RightModify, RightDelete, DivergentDeleteResolved, DivergentModifyResolved) reaches the next diff or a success exit only after pri.merge and sec.merge succeeded on the same diff, every declared tree.DiffOp is classified; secondaryMerger.merge applies an edit to the current element of its loop over m.leftIdxes for each of those ops (DivergentDeleteResolved only when the right side deleted), skips only when InvalidateSecondaryIndexes is set, and its errors are consumed; finalize puts every left index back under its name. Rebuild path: mergeProllyTableData passes MergeInfo.InvalidateSecondaryIndexes as the force-rebuild flag, feeds finalize's index set into mergeProllySecondaryIndexes and installs its result; in mergeProllySecondaryIndexes every iteration over the final schema's indexes puts an index under the element's name, and the reuse of the left index is reachable only when neither the force flag nor the rebuild-required flag is set, the latter being set whenever the left definition does not Equal the final one. The tree-level fast merge (tree.SendPatches), which edits no secondary index, is reachable only on edges where there is no left index or InvalidateSecondaryIndexes is set. Not decided: index key derivation, ALTER TABLE rewrites, full-text and vector index maintenance.",
		RuleText:    "range-loop structure on the SSA CFG (per-iteration cut-reachability from the loop body to the next iteration), success-exit cut-reachability, constant-comparison edges of the diff-op dispatch, boolean-edge cuts with constant-phi-operand pruning, argument provenance",
		Assumptions: []string{"a return that lies on the non-nil branch of an error test and returns a non-constant value is an error exit", "indexWriter / MutableSecondaryIdx implementations perform the edit they are named after"},
		Patterns:    []string{"./libraries/doltcore/sqle/writer", "./libraries/doltcore/merge"},
		Run:         runC25,
	}
}

const (
	c25Writer = "libraries/doltcore/sqle/writer"
	c25PTW    = "(*libraries/doltcore/sqle/writer.prollyTableWriter)."
	c25Merge  = "libraries/doltcore/merge"
	c25Tree   = "store/prolly/tree"
	c25IdxSet = `libraries/doltcore/doltdb/durable\.IndexSet`
)

// c25Recv returns the receiver value of a method call (static or interface).
func c25Recv(ci ssa.CallInstruction) ssa.Value {
	cc := ci.Common()
	if cc.IsInvoke() {
		return cc.Value
	}
	if f := cc.StaticCallee(); f != nil && f.Signature.Recv() != nil && len(cc.Args) > 0 {
		return cc.Args[0]
	}
	return nil
}

func c25MethodName(ci ssa.CallInstruction) string {
	cc := ci.Common()
	if cc.IsInvoke() {
		return cc.Method.Name()
	}
	if f := cc.StaticCallee(); f != nil && f.Signature.Recv() != nil {
		return f.Name()
	}
	return ""
}

func c25Starts(s *eng.Set) []eng.Point {
	var out []eng.Point
	for e := range s.E {
		out = append(out, eng.Point{B: e.To(), I: 0})
	}
	return out
}

// c25Loops: range loops of fn over a value read from the given struct field.
func c25Loops(fn *ssa.Function, field string) []eng.RangeLoop {
	var out []eng.RangeLoop
	for _, l := range eng.RangeLoops(fn) {
		if eng.FromField(l.Over, field) {
			out = append(out, l)
		}
	}
	return out
}

// c25ElemCalls: calls of method `op` whose receiver is the current element of loop l.
func c25ElemCalls(fn *ssa.Function, l eng.RangeLoop, op string) []ssa.CallInstruction {
	return eng.Calls(fn, func(ci ssa.CallInstruction) bool {
		r := c25Recv(ci)
		return r != nil && c25MethodName(ci) == op && l.IsElem(r)
	}, false)
}

func runC25(k *eng.Check, tier string) {
	checkEvictedRowRole(k)

	c25WritePath(k)
	c25MergePath(k)
	c25RebuildPath(k)
}

// ---------------------------------------------------------------------------------------------
// SQL write path

func c25WritePath(k *eng.Check) {
	c := k.C
	fSec := c25Writer + ".prollyTableWriter.secondary"
	fPri := c25Writer + ".prollyTableWriter.primary"
	priCall := func(op string) eng.CallM {
		return func(ci ssa.CallInstruction) bool {
			r := c25Recv(ci)
			return r != nil && c25MethodName(ci) == op && eng.FromField(r, fPri)
		}
	}
	type wop struct {
		method, op string
		strict     bool
	}
	for _, w := range []wop{{"Insert", "Insert", true}, {"Update", "Update", true}, {"Delete", "Delete", true}, {"DiscardChanges", "Discard", false}, {"StatementComplete", "Commit", false}} {
		fn := k.Fn(c25PTW + w.method)
		if fn == nil {
			continue
		}
		exits := eng.ErrBranchSuccessExits(fn)
		if !w.strict {
			// Discard / Commit must reach every writer whatever the others returned: every return counts
			exits = eng.NewSet()
			for _, b := range fn.Blocks {
				if len(b.Instrs) > 0 && b != fn.Recover {
					if r, ok := b.Instrs[len(b.Instrs)-1].(*ssa.Return); ok {
						exits.AddI(r)
					}
				}
			}
		}
		done := eng.NewSet()
		nGood := 0
		for _, l := range c25Loops(fn, fSec) {
			calls := c25ElemCalls(fn, l, w.op)
			if len(calls) == 0 {
				continue
			}
			nGood++
			cuts := eng.NewSet()
			for _, call := range calls {
				if w.strict {
					cuts.Union(eng.OkCut(call))
				} else {
					cuts.AddI(call.(ssa.Instruction))
					k.Require("secondary-fanout", eng.Name(fn)+"#"+w.op+"-error", "the error of the element's "+w.op+" is consumed", eng.ErrConsumed(call), c.InstrPos(call.(ssa.Instruction)), "error of a secondary index writer dropped")
				}
			}
			what := "every iteration over w.secondary performs " + w.op + " on the element"
			if w.strict {
				what += " and continues only when it returned nil"
			}
			k.OnlyAfter("secondary-fanout", fn, what, eng.NewSet().AddI(l.Step), 1, cuts, l.BodyStart())
			done.AddE(l.Done)
		}
		if nGood < 1 {
			k.Unknown("secondary-fanout", eng.Name(fn)+"#loop", "a range loop over w.secondary that calls "+w.op+" on its element", "no such loop found")
			continue
		}
		k.OnlyAfter("secondary-fanout", fn, "return only after the loop over w.secondary ran to completion", exits, 1, done)
		pc := eng.NewSet()
		for _, call := range eng.Calls(fn, priCall(w.op), false) {
			if w.strict {
				pc.Union(eng.OkCut(call))
			} else {
				pc.AddI(call.(ssa.Instruction))
				k.Require("primary-with-secondary", eng.Name(fn)+"#"+w.op+"-error", "the error of the primary "+w.op+" is consumed", eng.ErrConsumed(call), c.InstrPos(call.(ssa.Instruction)), "error of the primary index writer dropped")
			}
		}
		k.OnlyAfter("primary-with-secondary", fn, "return only after "+w.op+" on w.primary", exits, 1, pc)
	}

	// table(): every secondary writer's map is put into the index set under the writer's name
	if fn := k.Fn(c25PTW + "table"); fn != nil {
		// the materialising loop may have been moved into a method of the same receiver that table() calls
		// (phase split): it is analysed there, and table() must consume that method's verdict and return a table
		// derived from its result
		if top := fn; !c25HasSecondaryMapLoop(top, fSec) {
			for _, ci := range eng.Calls(top, func(q ssa.CallInstruction) bool {
				h := q.Common().StaticCallee()
				return h != nil && len(h.Blocks) > 0 && h.Signature.Recv() != nil && top.Signature.Recv() != nil &&
					types.Identical(h.Signature.Recv().Type(), top.Signature.Recv().Type()) && c25HasSecondaryMapLoop(h, fSec)
			}, false) {
				fn = ci.Common().StaticCallee()
				k.FuncsSeen[fn] = true
				topExits := eng.ErrBranchSuccessExits(top)
				k.OnlyAfter("flush-indexes", top, "table() succeeds only after its materialising phase "+eng.Name(fn)+" returned nil", topExits, 1, eng.OkCut(ci))
				derived := true
				for in := range topExits.I {
					ret, isRet := in.(*ssa.Return)
					if !isRet || len(ret.Results) == 0 {
						continue
					}
					if !eng.MentionsDeep(eng.Unspill(ret, 0), func(v ssa.Value) bool { return eng.ResultOf(v, ci, 0) }) {
						derived = false
					}
				}
				k.Require("flush-indexes", eng.Name(top)+"#phase-result", "the table returned by table() derives from the materialising phase's result", derived, c.InstrPos(ci.(ssa.Instruction)), "the phase's table is discarded")
				break
			}
		}
		exits := eng.ErrBranchSuccessExits(fn)
		mPut := eng.Method(c25IdxSet, "PutIndex")
		done := eng.NewSet()
		var puts []ssa.CallInstruction
		nGood := 0
		for _, l := range c25Loops(fn, fSec) {
			maps := c25ElemCalls(fn, l, "Map")
			if len(maps) == 0 {
				continue
			}
			nGood++
			mapOK, putOK := eng.NewSet(), eng.NewSet()
			for _, m := range maps {
				mapOK.Union(eng.OkCut(m))
			}
			for _, p := range eng.Calls(fn, mPut, false) {
				a := eng.PathArgs(p)
				if len(a) != 3 {
					continue
				}
				nameOK := false
				if nc, ok := eng.Origin(a[1]).(*ssa.Call); ok && c25MethodName(nc) == "Name" && c25Recv(nc) != nil && l.IsElem(c25Recv(nc)) {
					nameOK = true
				}
				idxOK := eng.MentionsDeep(a[2], func(v ssa.Value) bool {
					for _, m := range maps {
						if eng.ResultOf(v, m, 0) {
							return true
						}
					}
					return false
				})
				k.Require("flush-indexes", eng.Name(fn)+"#PutIndex-name", "the flushed map is stored under the name of the writer it came from", nameOK, c.InstrPos(p.(ssa.Instruction)), "PutIndex name is not <element>.Name()")
				k.Require("flush-indexes", eng.Name(fn)+"#PutIndex-map", "the index stored is built from the element's Map()", idxOK, c.InstrPos(p.(ssa.Instruction)), "PutIndex value does not derive from <element>.Map()")
				putOK.Union(eng.OkCut(p))
				puts = append(puts, p)
			}
			k.OnlyAfter("flush-indexes", fn, "every iteration over w.secondary materialises the element's map (error checked)", eng.NewSet().AddI(l.Step), 1, mapOK, l.BodyStart())
			k.OnlyAfter("flush-indexes", fn, "every iteration over w.secondary puts the map into the index set (error checked)", eng.NewSet().AddI(l.Step), 1, putOK, l.BodyStart())
			done.AddE(l.Done)
		}
		if nGood < 1 {
			k.Unknown("flush-indexes", eng.Name(fn)+"#loop", "a range loop over w.secondary that calls Map on its element", "no such loop found")
		} else {
			k.OnlyAfter("flush-indexes", fn, "success exit only after the loop over w.secondary ran to completion", exits, 1, done)
			mSet := eng.Method(`libraries/doltcore/doltdb\.Table`, "SetIndexSet")
			k.OnlyAfter("flush-indexes", fn, "success exit only after SetIndexSet returned nil", exits, 1, k.OkCalls(fn, "setindexset", mSet))
			for _, s := range eng.Calls(fn, mSet, false) {
				a := eng.PathArgs(s)
				ok := len(a) == 2 && eng.Mentions(a[1], func(v ssa.Value) bool {
					for _, p := range puts {
						if eng.ResultOf(v, p, 0) {
							return true
						}
					}
					return false
				})
				k.Require("flush-indexes", eng.Name(fn)+"#SetIndexSet", "the index set installed is the one the maps were put into", ok, c.InstrPos(s.(ssa.Instruction)), "SetIndexSet argument does not derive from the PutIndex results")
			}
			mUpd := eng.Method(`libraries/doltcore/doltdb\.Table`, "UpdateRows")
			k.OnlyAfter("primary-with-secondary", fn, "success exit only after UpdateRows(primary map) returned nil", exits, 1, k.OkCalls(fn, "updaterows", mUpd))
			pm := eng.Calls(fn, priCall("Map"), false)
			for _, u := range eng.Calls(fn, mUpd, false) {
				a := eng.PathArgs(u)
				ok := len(a) == 2 && eng.MentionsDeep(a[1], func(v ssa.Value) bool {
					for _, m := range pm {
						if eng.ResultOf(v, m, 0) {
							return true
						}
					}
					return false
				})
				k.Require("primary-with-secondary", eng.Name(fn)+"#UpdateRows", "the rows installed are w.primary.Map()", ok, c.InstrPos(u.(ssa.Instruction)), "UpdateRows argument does not derive from w.primary.Map()")
			}
		}
	}
	if fn := k.Fn(c25PTW + "flush"); fn != nil {
		exits := eng.ErrBranchSuccessExits(fn)
		mTable := eng.Static(c25PTW + "table")
		mFlush := eng.Method(`libraries/doltcore/sqle/dsess\.WriteSession`, "FlushTable")
		k.OnlyAfter("flush-indexes", fn, "success exit only after table() returned nil", exits, 1, k.OkCalls(fn, "table", mTable))
		k.OnlyAfter("flush-indexes", fn, "success exit only after FlushTable returned nil", exits, 1, k.OkCalls(fn, "flushtable", mFlush))
		tcs := eng.Calls(fn, mTable, false)
		for _, f := range eng.Calls(fn, mFlush, false) {
			a := eng.PathArgs(f)
			ok := false
			for _, x := range a {
				for _, t := range tcs {
					if eng.ResultOf(x, t, 0) {
						ok = true
					}
				}
			}
			k.Require("flush-indexes", eng.Name(fn)+"#FlushTable", "the table persisted is the one table() built", ok, c.InstrPos(f.(ssa.Instruction)), "FlushTable does not receive table()'s result")
		}
	}
}

// c25InfeasiblePhiEdges: a block that branches on a boolean phi defined in that same block
// (`v := a && b && c; if v {`) is entered with a constant operand from most predecessors.
// When the targets are unreachable from the branch a constant operand selects, the edge that
// carries that constant can be removed without losing any feasible path to the targets.
func c25InfeasiblePhiEdges(fn *ssa.Function, targets *eng.Set) *eng.Set {
	out := eng.NewSet()
	for _, b := range fn.Blocks {
		if len(b.Instrs) == 0 {
			continue
		}
		iff, ok := b.Instrs[len(b.Instrs)-1].(*ssa.If)
		if !ok {
			continue
		}
		base, pos := eng.NormBool(iff.Cond)
		phi, ok := base.(*ssa.Phi)
		if !ok || phi.Block() != b {
			continue
		}
		// the block must contain nothing but phis (and pure value instructions) before the branch
		pure := true
		for _, in := range b.Instrs[:len(b.Instrs)-1] {
			switch in.(type) {
			case *ssa.Phi, *ssa.UnOp, *ssa.BinOp:
			default:
				pure = false
			}
		}
		if !pure {
			continue
		}
		for _, val := range []bool{false, true} {
			succ := 1 // successor taken when the condition is false
			if val == pos {
				succ = 0
			}
			if len(eng.Reach(fn, []eng.Point{{B: b.Succs[succ], I: 0}}, targets, eng.NewSet())) > 0 {
				continue
			}
			want := "false"
			if val {
				want = "true"
			}
			for i, e := range phi.Edges {
				if cv, ok := e.(*ssa.Const); ok && cv.Value != nil && cv.Value.ExactString() == want {
					for si, sb := range b.Preds[i].Succs {
						if sb == b {
							out.AddE(eng.Edge{From: b.Preds[i], Succ: si})
						}
					}
				}
			}
		}
	}
	return out
}

func isBoolType(t types.Type) bool {
	b, ok := t.Underlying().(*types.Basic)
	return ok && b.Kind() == types.Bool
}

// ---------------------------------------------------------------------------------------------
// merge path

// ops that must edit the secondary indexes; everything else is a reasoned exception
var c25EditOps = map[string]string{
	"DiffOpRightAdd":                "row added on the right: must appear in every left index",
	"DiffOpRightModify":             "row changed on the right",
	"DiffOpRightDelete":             "row deleted on the right",
	"DiffOpDivergentDeleteResolved": "both sides deleted/changed, resolved to a delete",
	"DiffOpDivergentModifyResolved": "both sides changed, cell-wise merged row differs from the left row",
}
var c25NoEditOps = map[string]string{
	"DiffOpLeftAdd":                 "left index already contains the row (left is the merge destination)",
	"DiffOpLeftModify":              "left index already reflects the row",
	"DiffOpLeftDelete":              "left index already lacks the row",
	"DiffOpConvergentAdd":           "same change on both sides: left already has it",
	"DiffOpConvergentModify":        "same change on both sides",
	"DiffOpConvergentDelete":        "same change on both sides",
	"DiffOpDivergentModifyConflict": "unresolved conflict: left row is kept, conflict recorded",
	"DiffOpDivergentDeleteConflict": "unresolved conflict: left row is kept, conflict recorded",
}

func c25MergePath(k *eng.Check) {
	c := k.C
	ops := c.PackageConsts(c25Tree, "DiffOp", func(n string) bool { return strings.HasPrefix(n, "DiffOp") })
	val := map[string]string{}
	for _, o := range ops {
		val[o.Name] = o.Value
		_, a := c25EditOps[o.Name]
		_, b := c25NoEditOps[o.Name]
		if a || b {
			k.Pass("diffop-classified", "tree."+o.Name, "declared diff op is classified as index-editing or not (with a reason)", 1)
		} else {
			k.Unknown("diffop-classified", "tree."+o.Name, "declared diff op is classified as index-editing or not", "new tree.DiffOp constant: decide whether the secondary indexes must be edited for it")
		}
	}
	if len(ops) < 13 {
		k.Unknown("diffop-classified", "tree.DiffOp*", "declared diff ops", fmt.Sprintf("found %d constants (floor 13)", len(ops)))
	}
	isOp := func(v ssa.Value) bool { return eng.Mentions(v, eng.IsField(c25Tree+".ThreeWayDiff.Op")) }
	mSec := eng.Static("(*" + c25Merge + ".secondaryMerger).merge")
	mPri := eng.Static("(*" + c25Merge + ".primaryMerger).merge")

	if fn := k.Fn(c25Merge + ".computeProllyTreePatches"); fn != nil {
		exits := eng.ErrBranchSuccessExits(fn)
		next := eng.CallSet(fn, eng.Method(`store/prolly/tree\.ThreeWayDiffer`, "Next"))
		if next.Len() < 1 {
			k.Unknown("merge-dispatch", eng.Name(fn)+"#Next", "the diff iterator's Next call", "not found")
		}
		targets := eng.UnionOf(next, exits)
		secOK, priOK := k.OkCalls(fn, "secmerge", mSec), k.OkCalls(fn, "primerge", mPri)
		for name := range c25EditOps {
			v, ok := val[name]
			if !ok {
				k.Unknown("merge-dispatch", "tree."+name, "declared constant", "not found")
				continue
			}
			st := c25Starts(eng.ConstEqEdges(fn, isOp, v, true))
			if len(st) < 1 {
				k.Unknown("merge-dispatch", eng.Name(fn)+"#"+name, "a case for "+name+" in the row-merge dispatch", "no comparison of diff.Op with this constant: the op falls into the no-op default")
				continue
			}
			k.OnlyAfter("merge-dispatch", fn, name+": the next diff / success is reached only after sec.merge returned nil", targets, 2, secOK, st...)
			k.OnlyAfter("merge-dispatch", fn, name+": the next diff / success is reached only after pri.merge returned nil", targets, 2, priOK, st...)
		}
		// the fast tree-merge path edits no secondary index: it may be taken only when there is nothing to edit
		// (no left index) or the indexes are invalidated (and therefore rebuilt)
		fInval := eng.IsField(c25Merge + ".MergeInfo.InvalidateSecondaryIndexes")
		direct := func(v ssa.Value) bool {
			_, isPhi := v.(*ssa.Phi)
			return !isPhi && isBoolType(v.Type()) && eng.Mentions(v, fInval)
		}
		// a boolean variable computed from the flag: its polarity is read off the phi operand that mentions the flag
		phiPol := func(want bool) func(ssa.Value) bool {
			return func(v ssa.Value) bool {
				phi, ok := v.(*ssa.Phi)
				if !ok || !isBoolType(phi.Type()) {
					return false
				}
				for _, e := range phi.Edges {
					base, pos := eng.NormBool(e)
					if direct(base) {
						return pos == want
					}
				}
				return false
			}
		}
		noEdit := eng.UnionOf(
			eng.BoolEdges(fn, direct, true),         // invalidated
			eng.BoolEdges(fn, phiPol(true), true),   // variable meaning "invalidated / skip"
			eng.BoolEdges(fn, phiPol(false), false), // variable meaning "needs secondary index merge"
		)
		// len(sec.leftIdxes) compared with 0: the "no index" edge
		for _, b := range fn.Blocks {
			if len(b.Instrs) == 0 {
				continue
			}
			iff, ok := b.Instrs[len(b.Instrs)-1].(*ssa.If)
			if !ok {
				continue
			}
			base, pos := eng.NormBool(iff.Cond)
			bo, ok := base.(*ssa.BinOp)
			if !ok {
				continue
			}
			ln, ok := bo.X.(*ssa.Call)
			zero, ok2 := bo.Y.(*ssa.Const)
			if !ok || !ok2 || zero.Value == nil || zero.Value.ExactString() != "0" {
				continue
			}
			if bi, isB := ln.Call.Value.(*ssa.Builtin); !isB || bi.Name() != "len" || !eng.Mentions(ln.Call.Args[0], eng.IsField(c25Merge+".secondaryMerger.leftIdxes")) {
				continue
			}
			var emptyOnTrue bool
			switch bo.Op {
			case token.GTR, token.NEQ:
				emptyOnTrue = false
			case token.EQL, token.LEQ:
				emptyOnTrue = true
			default:
				continue
			}
			if emptyOnTrue == pos {
				noEdit.AddE(eng.Edge{From: b, Succ: 0})
			} else {
				noEdit.AddE(eng.Edge{From: b, Succ: 1})
			}
		}
		fast := eng.CallSet(fn, eng.Static(c25Tree+".SendPatches"))
		noEdit.Union(c25InfeasiblePhiEdges(fn, fast))
		k.OnlyAfter("fast-merge-needs-no-index-edits", fn, "the tree-level fast merge (which edits no secondary index) is reachable only when there is no left index or the indexes are invalidated", fast, 1, noEdit)

		// both mergers receive the diff produced by the iterator
		for which, m := range map[string]eng.CallM{"sec": mSec, "pri": mPri} {
			bad, n := "", 0
			for _, call := range eng.Calls(fn, m, false) {
				n++
				a := call.Common().Args
				if !(len(a) >= 3 && eng.Mentions(a[2], func(v ssa.Value) bool {
					cv, isCall := v.(*ssa.Call)
					return isCall && next.I[cv]
				})) {
					bad = c.InstrPos(call.(ssa.Instruction))
				}
			}
			if n < 4 {
				k.Unknown("merge-dispatch", eng.Name(fn)+"#diff:"+which, "calls of "+which+".merge in the dispatch", fmt.Sprintf("found %d (floor 4)", n))
				continue
			}
			k.Require("merge-dispatch", eng.Name(fn)+"#diff:"+which, "every "+which+".merge call receives the diff the iterator produced", bad == "", bad, "diff argument does not come from iter.Next")
		}
	}

	fIdx := c25Merge + ".secondaryMerger.leftIdxes"
	if fn := k.Fn("(*" + c25Merge + ".secondaryMerger).merge"); fn != nil {
		exits := eng.ErrBranchSuccessExits(fn)
		loops := c25Loops(fn, fIdx)
		if len(loops) != 1 {
			k.Unknown("secondary-merge-cases", eng.Name(fn)+"#loop", "the single range loop over m.leftIdxes", fmt.Sprintf("found %d", len(loops)))
		} else {
			l := loops[0]
			mEdit := eng.Static(c25Merge + ".applyEdit")
			edits := eng.NewSet()
			dropped := ""
			for _, call := range eng.Calls(fn, mEdit, false) {
				a := call.Common().Args
				if len(a) >= 2 && l.IsElem(a[1]) {
					edits.AddI(call.(ssa.Instruction))
					if !eng.ErrConsumed(call) {
						dropped = c.InstrPos(call.(ssa.Instruction))
					}
				} else {
					k.Fail("secondary-merge-cases", eng.Name(fn)+"#applyEdit-target", "every index edit targets the current element of the loop over m.leftIdxes", c.InstrPos(call.(ssa.Instruction)), "applyEdit is not applied to the loop element", nil)
				}
			}
			if edits.Len() < 4 {
				k.Unknown("secondary-merge-cases", eng.Name(fn)+"#applyEdit", "index edits in secondaryMerger.merge", fmt.Sprintf("found %d (floor 4)", edits.Len()))
			}
			k.Require("secondary-merge-cases", eng.Name(fn)+"#applyEdit-errors", "the error of every index edit is consumed", dropped == "", dropped, "error of applyEdit dropped")
			targets := eng.UnionOf(eng.NewSet().AddI(l.Step), exits)
			// the right side is absent (deleted) / present
			rightPresent := eng.NewSet()
			for _, b := range fn.Blocks {
				if len(b.Instrs) == 0 {
					continue
				}
				iff, ok := b.Instrs[len(b.Instrs)-1].(*ssa.If)
				if !ok {
					continue
				}
				bo, ok := iff.Cond.(*ssa.BinOp)
				if !ok || (bo.Op != token.EQL && bo.Op != token.NEQ) {
					continue
				}
				var other ssa.Value
				if cv, ok := bo.Y.(*ssa.Const); ok && cv.Value == nil {
					other = bo.X
				} else if cv, ok := bo.X.(*ssa.Const); ok && cv.Value == nil {
					other = bo.Y
				}
				if other == nil || !eng.Mentions(other, eng.IsField(c25Tree+".ThreeWayDiff.Right")) {
					continue
				}
				if bo.Op == token.EQL {
					rightPresent.AddE(eng.Edge{From: b, Succ: 1})
				} else {
					rightPresent.AddE(eng.Edge{From: b, Succ: 0})
				}
			}
			for name := range c25EditOps {
				v, ok := val[name]
				if !ok {
					continue
				}
				st := c25Starts(eng.ConstEqEdges(fn, isOp, v, true))
				if len(st) < 1 {
					k.Unknown("secondary-merge-cases", eng.Name(fn)+"#"+name, "a case for "+name+" in secondaryMerger.merge", "no comparison of diff.Op with this constant: the op falls into the no-op default although the dispatch sends it here")
					continue
				}
				cuts := edits
				what := name + ": the next index / success is reached only after an edit was applied to the current index"
				if name == "DiffOpDivergentDeleteResolved" {
					cuts = eng.UnionOf(edits, rightPresent)
					what = name + ": an edit is applied to the current index unless the right side still has the row (left deleted it)"
				}
				k.OnlyAfter("secondary-merge-cases", fn, what, targets, 2, cuts, st...)
			}
			inval := eng.BoolEdges(fn, func(v ssa.Value) bool {
				return eng.Mentions(v, eng.IsField(c25Merge+".MergeInfo.InvalidateSecondaryIndexes"))
			}, true)
			k.OnlyAfter("secondary-merge-cases", fn, "success without running the loop over m.leftIdxes only when InvalidateSecondaryIndexes is set (which forces the rebuild)", exits, 2,
				eng.UnionOf(eng.NewSet().AddE(l.Done), inval))
		}
	}
	if fn := k.Fn("(*" + c25Merge + ".secondaryMerger).finalize"); fn != nil {
		exits := eng.ErrBranchSuccessExits(fn)
		loops := c25Loops(fn, fIdx)
		if len(loops) != 1 {
			k.Unknown("finalize-indexes", eng.Name(fn)+"#loop", "the single range loop over m.leftIdxes", fmt.Sprintf("found %d", len(loops)))
		} else {
			l := loops[0]
			maps := c25ElemCalls(fn, l, "Map")
			mapOK, putOK := eng.NewSet(), eng.NewSet()
			for _, m := range maps {
				mapOK.Union(eng.OkCut(m))
			}
			var puts []ssa.CallInstruction
			for _, p := range eng.Calls(fn, eng.Method(c25IdxSet, "PutIndex"), false) {
				a := eng.PathArgs(p)
				if len(a) != 3 {
					continue
				}
				nameOK := l.IsElem(a[1]) && eng.Mentions(a[1], eng.IsField(c25Merge+".MutableSecondaryIdx.Name"))
				idxOK := eng.MentionsDeep(a[2], func(v ssa.Value) bool {
					for _, m := range maps {
						if eng.ResultOf(v, m, 0) {
							return true
						}
					}
					return false
				})
				k.Require("finalize-indexes", eng.Name(fn)+"#PutIndex-name", "the merged index is stored under the name of the index it came from", nameOK, c.InstrPos(p.(ssa.Instruction)), "PutIndex name is not <element>.Name")
				k.Require("finalize-indexes", eng.Name(fn)+"#PutIndex-map", "the index stored is the element's Map()", idxOK, c.InstrPos(p.(ssa.Instruction)), "PutIndex value does not derive from <element>.Map()")
				putOK.Union(eng.OkCut(p))
				puts = append(puts, p)
			}
			k.OnlyAfter("finalize-indexes", fn, "every iteration over m.leftIdxes materialises the index (error checked)", eng.NewSet().AddI(l.Step), 1, mapOK, l.BodyStart())
			k.OnlyAfter("finalize-indexes", fn, "every iteration over m.leftIdxes puts the index back into the left set (error checked)", eng.NewSet().AddI(l.Step), 1, putOK, l.BodyStart())
			k.OnlyAfter("finalize-indexes", fn, "success exit only after the loop ran to completion", exits, 1, eng.NewSet().AddE(l.Done))
			// the set returned is the set put into
			stored := false
			for _, st := range eng.FieldStores(fn, c25Merge+`\.secondaryMerger$`, "leftSet") {
				for _, p := range puts {
					if eng.ResultOf(st.(*ssa.Store).Val, p, 0) {
						stored = true
					}
				}
			}
			retOK := false
			for in := range exits.I {
				if ret, ok := in.(*ssa.Return); ok && len(ret.Results) > 0 && eng.Mentions(ret.Results[0], eng.IsField(c25Merge+".secondaryMerger.leftSet")) {
					retOK = true
				}
			}
			k.Require("finalize-indexes", eng.Name(fn)+"#result", "the PutIndex result is kept in m.leftSet and m.leftSet is what finalize returns first", stored && retOK, c.Pos(fn.Pos()), "the updated index set is not what finalize returns")
		}
	}
}

// ---------------------------------------------------------------------------------------------
// rebuild path

func c25RebuildPath(k *eng.Check) {
	c := k.C
	mMPSI := eng.Static(c25Merge + ".mergeProllySecondaryIndexes")
	mFinal := eng.Static("(*" + c25Merge + ".secondaryMerger).finalize")
	isBool := func(t types.Type) bool {
		b, ok := t.Underlying().(*types.Basic)
		return ok && b.Kind() == types.Bool
	}
	if fn := k.Fn(c25Merge + ".mergeProllyTableData"); fn != nil {
		exits := eng.ErrBranchSuccessExits(fn)
		mSet := eng.Method(`libraries/doltcore/doltdb\.Table`, "SetIndexSet")
		k.OnlyAfter("merged-indexes-installed", fn, "success exit only after sec.finalize returned nil", exits, 1, k.OkCalls(fn, "finalize", mFinal))
		k.OnlyAfter("merged-indexes-installed", fn, "success exit only after mergeProllySecondaryIndexes returned nil", exits, 1, k.OkCalls(fn, "mpsi", mMPSI))
		k.OnlyAfter("merged-indexes-installed", fn, "success exit only after SetIndexSet returned nil", exits, 1, k.OkCalls(fn, "setindexset", mSet))
		finals := eng.Calls(fn, mFinal, false)
		mcalls := eng.Calls(fn, mMPSI, false)
		if len(mcalls) != 1 {
			k.Unknown("merged-indexes-installed", eng.Name(fn)+"#mergeProllySecondaryIndexes", "the single call", fmt.Sprintf("found %d", len(mcalls)))
		}
		for _, mc := range mcalls {
			a := mc.Common().Args
			leftOK, forceOK, nBool := false, false, 0
			for _, x := range a {
				for _, f := range finals {
					if eng.ResultOf(x, f, 0) {
						leftOK = true
					}
				}
				if isBool(x.Type()) {
					nBool++
					forceOK = eng.Mentions(x, eng.IsField(c25Merge+".MergeInfo.InvalidateSecondaryIndexes"))
				}
			}
			k.Require("merged-indexes-installed", eng.Name(fn)+"#left-set", "the index set handed to mergeProllySecondaryIndexes is finalize's (edited) left set", leftOK, c.InstrPos(mc.(ssa.Instruction)), "left index set is not sec.finalize()'s first result")
			k.Require("skip-implies-rebuild", eng.Name(fn)+"#force-flag", "the force-rebuild flag is MergeInfo.InvalidateSecondaryIndexes, the very flag that makes secondaryMerger.merge skip its edits", forceOK && nBool == 1, c.InstrPos(mc.(ssa.Instruction)), "force flag is not mergeInfo.InvalidateSecondaryIndexes: skipped index edits would not be rebuilt")
			for _, s := range eng.Calls(fn, mSet, false) {
				sa := eng.PathArgs(s)
				ok := len(sa) == 2 && eng.ResultOf(sa[1], mc, 0)
				k.Require("merged-indexes-installed", eng.Name(fn)+"#SetIndexSet", "the index set installed on the merged table is mergeProllySecondaryIndexes' result", ok, c.InstrPos(s.(ssa.Instruction)), "SetIndexSet argument is not the merged index set")
			}
		}
	}

	fn := k.Fn(c25Merge + ".mergeProllySecondaryIndexes")
	if fn == nil {
		return
	}
	exits := eng.ErrBranchSuccessExits(fn)
	// the loop over the final schema's indexes
	var loop *eng.RangeLoop
	for _, l := range eng.RangeLoops(fn) {
		if eng.MentionsDeep(l.Over, eng.IsCall(eng.Method(`libraries/doltcore/schema\.IndexCollection`, "AllIndexes"))) {
			ll := l
			loop = &ll
		}
	}
	if loop == nil {
		k.Unknown("rebuild-every-index", eng.Name(fn)+"#loop", "the range loop over finalSch.Indexes().AllIndexes()", "not found")
		return
	}
	l := *loop
	puts := eng.Calls(fn, eng.Method(c25IdxSet, "PutIndex"), false)
	putOK := eng.NewSet()
	var producer *ssa.Function // the function that decides reuse vs rebuild
	var producerCall ssa.CallInstruction
	for _, p := range puts {
		a := eng.PathArgs(p)
		if len(a) != 3 {
			continue
		}
		nameOK := false
		if nc, ok := eng.Origin(a[1]).(*ssa.Call); ok && c25MethodName(nc) == "Name" && c25Recv(nc) != nil && l.IsElem(c25Recv(nc)) {
			nameOK = true
		}
		k.Require("rebuild-every-index", eng.Name(fn)+"#PutIndex-name", "the merged index is stored under the name of the schema index being processed", nameOK, c.InstrPos(p.(ssa.Instruction)), "PutIndex name is not <element>.Name()")
		putOK.Union(eng.OkCut(p))
		v := eng.Origin(a[2])
		if ex, ok := v.(*ssa.Extract); ok {
			v = ex.Tuple
		}
		if call, ok := v.(*ssa.Call); ok {
			if f := call.Call.StaticCallee(); f != nil && f.Parent() == fn {
				producer, producerCall = f, call
			}
		}
	}
	k.OnlyAfter("rebuild-every-index", fn, "every iteration over the final schema's indexes puts an index into the merged set (error checked)", eng.NewSet().AddI(l.Step), 1, putOK, l.BodyStart())
	k.OnlyAfter("rebuild-every-index", fn, "success exit only after the loop ran to completion", exits, 1, eng.NewSet().AddE(l.Done))

	// reuse vs rebuild
	mReuse := eng.Static("libraries/doltcore/doltdb/durable.IndexFromProllyMap")
	mBuild := eng.Static(c25Merge + ".buildIndex")
	if producer == nil {
		k.Unknown("reuse-only-when-valid", eng.Name(fn)+"#producer", "the function literal that chooses between reusing the left index and rebuilding it", "PutIndex value is not the result of a literal of this function")
		return
	}
	k.FuncsSeen[producer] = true
	reuse := eng.CallSet(producer, mReuse)
	if len(eng.Calls(producer, mBuild, false)) < 1 {
		k.Unknown("reuse-only-when-valid", eng.Name(producer)+"#buildIndex", "the rebuild branch", "no buildIndex call")
	}
	// classify the captured boolean variables
	var forceVar, rebuildVar ssa.Value // allocs in fn
	for _, fv := range producer.FreeVars {
		pt, ok := fv.Type().(*types.Pointer)
		if !ok || !isBool(pt.Elem()) {
			continue
		}
		for _, bnd := range eng.FreeVarBindings(fv) {
			fromParam, setTrue := false, false
			for _, st := range eng.StoresTo(bnd) {
				if p, ok := st.Val.(*ssa.Parameter); ok && p.Parent() == fn {
					fromParam = true
				}
				if eng.Desc(st.Val, 2) == "const:true" {
					setTrue = true
				}
			}
			if fromParam {
				forceVar = bnd
			} else if setTrue {
				rebuildVar = bnd
			}
		}
	}
	loadOf := func(target ssa.Value) func(ssa.Value) bool {
		return func(v ssa.Value) bool {
			u, ok := v.(*ssa.UnOp)
			if !ok || u.Op != token.MUL {
				return false
			}
			fv, ok := u.X.(*ssa.FreeVar)
			if !ok {
				return false
			}
			for _, b := range eng.FreeVarBindings(fv) {
				if b == target {
					return true
				}
			}
			return false
		}
	}
	if forceVar == nil || rebuildVar == nil {
		k.Unknown("reuse-only-when-valid", eng.Name(producer)+"#flags", "the captured force-rebuild parameter and rebuild-required variable", "could not identify both captured booleans")
		return
	}
	k.OnlyAfter("reuse-only-when-valid", producer, "the left index is reused only on the edge where the force-rebuild flag is false", reuse, 1, eng.BoolEdges(producer, loadOf(forceVar), false))
	k.OnlyAfter("reuse-only-when-valid", producer, "the left index is reused only on the edge where rebuild-required is false", reuse, 1, eng.BoolEdges(producer, loadOf(rebuildVar), false))

	// rebuild-required is initialised from "left index not found" and set when the definitions differ
	initOK := false
	setTrue := eng.NewSet()
	for _, st := range eng.StoresTo(rebuildVar) {
		if eng.Desc(st.Val, 2) == "const:true" {
			setTrue.AddI(st)
			continue
		}
		base, pos := eng.NormBool(st.Val)
		if ex, ok := base.(*ssa.Extract); ok && !pos && isBool(ex.Type()) {
			if call, ok := ex.Tuple.(*ssa.Call); ok {
				if f := call.Call.StaticCallee(); f != nil && f.Parent() == fn {
					initOK = true
					continue
				}
			}
		}
		k.Fail("reuse-only-when-valid", eng.Name(fn)+"#rebuild-required-store", "rebuild-required is only ever assigned true or the negation of 'left index found'", c.InstrPos(st), "unexpected assignment to the rebuild-required flag", nil)
	}
	k.Require("reuse-only-when-valid", eng.Name(fn)+"#rebuild-required-init", "rebuild-required starts as the negation of 'the left index exists and is reusable'", initOK, c.Pos(fn.Pos()), "no store of !found into the rebuild-required flag")
	equalsTrue := eng.BoolEdges(fn, eng.IsCall(eng.Method(`libraries/doltcore/schema\.Index`, "Equals")), true)
	defNil := eng.NewSet()
	for _, b := range fn.Blocks {
		if len(b.Instrs) == 0 {
			continue
		}
		iff, ok := b.Instrs[len(b.Instrs)-1].(*ssa.If)
		if !ok {
			continue
		}
		bo, ok := iff.Cond.(*ssa.BinOp)
		if !ok || (bo.Op != token.EQL && bo.Op != token.NEQ) {
			continue
		}
		var other ssa.Value
		if cv, ok := bo.Y.(*ssa.Const); ok && cv.Value == nil {
			other = bo.X
		} else if cv, ok := bo.X.(*ssa.Const); ok && cv.Value == nil {
			other = bo.Y
		}
		if other == nil || !eng.IsCall(eng.Method(`libraries/doltcore/schema\.IndexCollection`, "GetByName"))(eng.Origin(other)) {
			continue
		}
		if bo.Op == token.EQL {
			defNil.AddE(eng.Edge{From: b, Succ: 0})
		} else {
			defNil.AddE(eng.Edge{From: b, Succ: 1})
		}
	}
	if equalsTrue.Len() < 1 || setTrue.Len() < 1 {
		k.Unknown("reuse-only-when-valid", eng.Name(fn)+"#definition-compare", "the comparison of the left index definition with the final one", fmt.Sprintf("Equals edges %d, stores of true %d", equalsTrue.Len(), setTrue.Len()))
		return
	}
	k.OnlyAfter("reuse-only-when-valid", fn, "the reuse/rebuild decision is reached only with rebuild-required set, or the left definition Equal to the final one, or no left definition (then the index was not found)", eng.NewSet().AddI(producerCall.(ssa.Instruction)), 1,
		eng.UnionOf(setTrue, equalsTrue, defNil), l.BodyStart())
}

// checkEvictedRowRole: when a merge validator evicts a row from the left table (NOT NULL violation), the
// secondary-index entry it deletes must be the one derived from the row that is *in the left indexes*, i.e. the
// left row of the diff, whatever value the violation was detected on (a cell-wise merged row may differ from the
// left row in indexed columns, and deleting the merged row's entry would leave the left row's entry behind).
func checkEvictedRowRole(k *eng.Check) {
	c := k.C
	fn := k.Fn("(libraries/doltcore/merge.nullValidator).validateDiff")
	if fn == nil {
		return
	}
	cl := c.StaticClosure([]*ssa.Function{fn}, func(p string) bool { return p == "libraries/doltcore/merge" }, 2)
	n := 0
	for _, f := range cl {
		for _, call := range eng.Calls(f, eng.Named(`DeleteEntry$`), false) {
			args := call.Common().Args
			if len(args) < 2 {
				continue
			}
			n++
			v := args[len(args)-1]
			fields, other := eng.ArgFieldOrigins(v, cl, 3)
			ok := !other && len(fields) == 1 && fields["store/prolly/tree.ThreeWayDiff.Left"]
			var got []string
			for f := range fields {
				got = append(got, f)
			}
			k.Require("evicted-row-is-left-row", eng.Name(f)+"#DeleteEntry", "the secondary-index entry removed for an evicted row is derived from the diff's left row", ok, c.InstrPos(call.(ssa.Instruction)),
				fmt.Sprintf("value argument originates from %v (other=%v), not exclusively from ThreeWayDiff.Left", got, other))
		}
	}
	if n < 2 {
		k.Unknown("evicted-row-is-left-row", eng.Name(fn), "DeleteEntry calls in the NOT NULL validator", fmt.Sprintf("%d found (floor 2)", n))
	}
}

// c25HasSecondaryMapLoop: fn ranges over the secondary writers and calls Map on the element.
func c25HasSecondaryMapLoop(fn *ssa.Function, fSec string) bool {
	for _, l := range c25Loops(fn, fSec) {
		if len(c25ElemCalls(fn, l, "Map")) > 0 {
			return true
		}
	}
	return false
}
