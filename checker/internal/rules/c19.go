package rules

import (
	"fmt"
	"go/token"

	"dvcheck/internal/eng"

	"golang.org/x/tools/go/ssa"
)

func init() {
	Registry["C19"] = &Rule{
		Explanation: "Decides only the fast-forward clause of the property, above store/datas (the storage-level ancestry test of doFastForward is C20's ff-ancestry rule and is not repeated): " +
			"(1) ff-verdict: (*doltdb.Commit).CanFastForwardTo returns true only on the equal edge of a comparison between the address of the merge base -- the commit obtained from GetCommitAncestor applied to exactly the receiver and the argument -- and the address of the RECEIVER (the current head), and never returns false on that edge; CanFastReverseTo likewise with the ARGUMENT; " +
			"(2) ff-verdict-branch: DoltDB.CanFastForward answers with CanFastForwardTo(commit resolved from the branch parameter, the commit parameter), or constant true only on the branch-not-found edge; " +
			"(3) ff-decision: every call of the SQL fast-forward executor executeFFMerge is reachable only past an error-checked CanFastForwardTo(spec.HeadC, spec.MergeC) and its true edge, and fast-forwards to that same spec.MergeC; " +
			"(4) ff-push: actions.Push in fast-forward-only mode reaches the chunk transfer only on the true edge of an error-checked DoltDB.CanFastForward(destination ref, pushed commit). " +
			"It does not decide that the merge base computed by FindCommonAncestor is correct, deterministic or argument-order independent, nor ancestor-spec resolution (HEAD~n, ^k).",
		RuleText:    "role rules on comparison operands (whose address is compared with the merge base on the edge that yields true), cut-reachability from verdict edges on the SSA CFG",
		Assumptions: []string{"the merge base of a and b equals a exactly when a is an ancestor of (or equal to) b, given a correct FindCommonAncestor (not decided here)"},
		Patterns:    []string{"./libraries/doltcore/doltdb", "./libraries/doltcore/env/actions", "./libraries/doltcore/sqle/dprocedures"},
		Run:         runC19,
	}
}

const (
	c19Doltdb = "libraries/doltcore/doltdb"
	c19HeadC  = "libraries/doltcore/merge.MergeSpec.HeadC"
	c19MergeC = "libraries/doltcore/merge.MergeSpec.MergeC"
)

var (
	c19mAncestor = eng.Static(c19Doltdb + ".GetCommitAncestor")
	c19mToCommit = eng.Static("(*" + c19Doltdb + ".OptionalCommit).ToCommit")
	c19mAddr     = eng.Static("(*store/datas.Commit).Addr")
	c19mCanFFTo  = eng.Static("(*" + c19Doltdb + ".Commit).CanFastForwardTo")
	c19mCanFF    = eng.Static("(*" + c19Doltdb + ".DoltDB).CanFastForward")
	c19mResolve  = eng.Static("(*" + c19Doltdb + ".DoltDB).ResolveCommitRef")
	c19mExecFF   = eng.Static("libraries/doltcore/sqle/dprocedures.executeFFMerge")
	c19mPull     = eng.Static("(*" + c19Doltdb + ".DoltDB).PullChunks")
)

func runC19(k *eng.Check, tier string) {
	c19Verdict(k, "(*"+c19Doltdb+".Commit).CanFastForwardTo", 0)
	c19Verdict(k, "(*"+c19Doltdb+".Commit).CanFastReverseTo", 1)
	c19BranchVerdict(k)
	c19Decisions(k)
	c19Push(k)
}

// c19AddrOf: v is (*datas.Commit).Addr() of the dCommit of a doltdb.Commit satisfying isCommit.
func c19AddrOf(v ssa.Value, isCommit func(ssa.Value) bool) bool {
	call, ok := eng.Strip(v).(*ssa.Call)
	if !ok || !c19mAddr(call) || len(call.Call.Args) != 1 {
		return false
	}
	// *(&X.dCommit)
	u, ok := eng.Strip(call.Call.Args[0]).(*ssa.UnOp)
	if !ok || u.Op != token.MUL {
		return false
	}
	fa, ok := u.X.(*ssa.FieldAddr)
	if !ok || eng.FieldName(fa) != c19Doltdb+".Commit.dCommit" {
		return false
	}
	return isCommit(eng.Origin(fa.X))
}

// c19EqEdges: edges on which `p-address == q-address` holds.
func c19EqEdges(fn *ssa.Function, p, q func(ssa.Value) bool) *eng.Set {
	s := eng.NewSet()
	for _, b := range fn.Blocks {
		iff, ok := b.Instrs[len(b.Instrs)-1].(*ssa.If)
		if !ok {
			continue
		}
		base, pos := eng.NormBool(iff.Cond)
		cmp, ok := base.(*ssa.BinOp)
		if !ok || (cmp.Op != token.EQL && cmp.Op != token.NEQ) {
			continue
		}
		if !((c19AddrOf(cmp.X, p) && c19AddrOf(cmp.Y, q)) || (c19AddrOf(cmp.X, q) && c19AddrOf(cmp.Y, p))) {
			continue
		}
		eqOnTrue := (cmp.Op == token.EQL) == pos
		if eqOnTrue {
			s.AddE(eng.Edge{From: b, Succ: 0})
		} else {
			s.AddE(eng.Edge{From: b, Succ: 1})
		}
	}
	return s
}

// (1) which: 0 = the receiver must equal the merge base, 1 = the argument must.
func c19Verdict(k *eng.Check, fname string, which int) {
	c := k.C
	fn := k.Fn(fname)
	if fn == nil {
		return
	}
	var commits []*ssa.Parameter
	for _, p := range fn.Params {
		if eng.ShortType(p.Type()) == "*"+c19Doltdb+".Commit" {
			commits = append(commits, p)
		}
	}
	if len(commits) != 2 {
		k.Unknown("ff-verdict", fname, "the receiver and the *Commit argument", fmt.Sprintf("%d *Commit parameters (confirmed 2)", len(commits)))
		return
	}
	ancs := eng.Calls(fn, c19mAncestor, false)
	if len(ancs) != 1 {
		k.Unknown("ff-verdict", fname, "the GetCommitAncestor call", fmt.Sprintf("%d found (confirmed 1)", len(ancs)))
		return
	}
	anc := ancs[0]
	var args []*ssa.Parameter
	for _, a := range anc.Common().Args {
		if p := c18uParamOrigin(a); p != nil && (p == commits[0] || p == commits[1]) {
			args = append(args, p)
		}
	}
	k.Require("ff-verdict", fname+"#merge-base-of-both", "the merge base is computed for exactly the receiver and the argument", len(args) == 2 && args[0] != args[1], c.InstrPos(anc.(ssa.Instruction)), "GetCommitAncestor is not applied to the receiver and the argument")
	isBase := func(v ssa.Value) bool {
		ex, ok := v.(*ssa.Extract)
		if !ok || ex.Index != 0 {
			return false
		}
		tc, ok := ex.Tuple.(*ssa.Call)
		if !ok || !c19mToCommit(tc) {
			return false
		}
		return eng.ResultOf(tc.Call.Args[0], anc, 0)
	}
	must := commits[which]
	isMust := func(v ssa.Value) bool { return c18uParamOrigin(v) == must }
	eq := c19EqEdges(fn, isBase, isMust)
	if eq.Len() < 1 {
		k.Unknown("ff-verdict", fname+"#comparison", "the comparison of the merge base's address with the "+[]string{"receiver", "argument"}[which]+"'s address", "not found")
		return
	}
	ri := -1
	res := fn.Signature.Results()
	for i := 0; i < res.Len(); i++ {
		if eng.ShortType(res.At(i).Type()) == "bool" {
			ri = i
		}
	}
	if ri < 0 {
		k.Unknown("ff-verdict", fname+"#result", "the boolean verdict", "no bool result")
		return
	}
	mayTrue, isFalse := eng.NewSet(), eng.NewSet()
	for in := range c18uReturns(fn).I {
		ret := in.(*ssa.Return)
		if eng.IsConstBool(ret.Results[ri], false) {
			isFalse.AddI(ret)
		} else {
			mayTrue.AddI(ret)
		}
	}
	who := []string{"receiver (the current head)", "argument"}[which]
	k.OnlyAfter("ff-verdict", fn, "true is returned only on the edge where the merge base's address equals the address of the "+who, mayTrue, 1, eq)
	k.OnlyAfter("ff-verdict", fn, "on the edge where the merge base equals the "+who+" the verdict is never false", isFalse, 1, eng.NewSet(), eng.EdgeTargets(eq)...)
	k.OnlyAfter("ff-verdict", fn, "true is returned only after GetCommitAncestor returned nil", mayTrue, 1, eng.OkCut(anc))
}

// (2)
func c19BranchVerdict(k *eng.Check) {
	c := k.C
	fname := "(*" + c19Doltdb + ".DoltDB).CanFastForward"
	fn := k.Fn(fname)
	if fn == nil {
		return
	}
	calls := eng.Calls(fn, c19mCanFFTo, false)
	res := eng.Calls(fn, c19mResolve, false)
	if len(calls) != 1 || len(res) != 1 {
		k.Unknown("ff-verdict-branch", fname, "the ResolveCommitRef and CanFastForwardTo calls", fmt.Sprintf("%d / %d found (confirmed 1 / 1)", len(res), len(calls)))
		return
	}
	call := calls[0]
	a := call.Common().Args // recv, ctx, new
	var newP, refP *ssa.Parameter
	for _, p := range fn.Params {
		switch eng.ShortType(p.Type()) {
		case "*" + c19Doltdb + ".Commit":
			newP = p
		case "libraries/doltcore/ref.DoltRef":
			refP = p
		}
	}
	okRecv := len(a) == 3 && eng.ResultOf(a[0], res[0], 0)
	okNew := len(a) == 3 && newP != nil && c18uParamOrigin(a[2]) == newP
	okRef := false
	for _, ra := range res[0].Common().Args {
		if refP != nil && c18uParamOrigin(ra) == refP {
			okRef = true
		}
	}
	k.Require("ff-verdict-branch", fname+"#roles", "the branch's current commit is the receiver and the candidate commit the argument of CanFastForwardTo", okRecv && okNew && okRef, c.InstrPos(call.(ssa.Instruction)), fmt.Sprintf("receiver is the commit resolved from the branch parameter: %v/%v; argument is the commit parameter: %v", okRecv, okRef, okNew))
	// true without a test only when the branch does not exist
	cmpNF := func(op token.Token) func(v ssa.Value) bool {
		return func(v ssa.Value) bool {
			b, ok := eng.IsCompare(v, op)
			if !ok {
				return false
			}
			isNF := func(x ssa.Value) bool {
				u, ok := x.(*ssa.UnOp)
				if !ok || u.Op != token.MUL {
					return false
				}
				g, ok := u.X.(*ssa.Global)
				return ok && g.Name() == "ErrBranchNotFound"
			}
			isErr := func(x ssa.Value) bool { return eng.ResultOf(x, res[0], 1) }
			return (isNF(b.X) && isErr(b.Y)) || (isNF(b.Y) && isErr(b.X))
		}
	}
	// the edge on which err is ErrBranchNotFound: true edge of `==`, false edge of `!=`
	notFound := eng.CondEdgesP(fn, cmpNF(token.EQL), true)
	notFound.Union(eng.CondEdgesP(fn, cmpNF(token.NEQ), false))
	ri := 0
	consts := eng.NewSet()
	for in := range c18uReturns(fn).I {
		ret := in.(*ssa.Return)
		if eng.IsConstBool(ret.Results[ri], true) {
			consts.AddI(ret)
		} else if !eng.IsConstBool(ret.Results[ri], false) {
			k.Require("ff-verdict-branch", fname+"#verdict", "a non-constant verdict is the verdict of CanFastForwardTo", eng.ResultOf(ret.Results[ri], call, 0), c.InstrPos(ret), "the boolean returned is not the result of CanFastForwardTo")
		}
	}
	if consts.Len() > 0 {
		k.OnlyAfter("ff-verdict-branch", fn, "constant true is answered only when the branch does not exist", consts, 1, notFound)
	}
}

// (3)
func c19Decisions(k *eng.Check) {
	c := k.C
	n := 0
	for _, fn := range c.Funcs("libraries/doltcore/sqle/dprocedures") {
		for _, ff := range eng.Calls(fn, c19mExecFF, false) {
			n++
			k.FuncsSeen[fn] = true
			name := eng.Name(fn)
			pos := c.InstrPos(ff.(ssa.Instruction))
			// the verdicts computed in this function for spec.HeadC -> spec.MergeC
			verdictTrue, okTests := eng.NewSet(), eng.NewSet()
			for _, t := range eng.Calls(fn, c19mCanFFTo, false) {
				a := t.Common().Args
				if len(a) != 3 || !eng.FromField(a[0], c19HeadC) || !eng.FromField(a[2], c19MergeC) {
					continue
				}
				tt := t
				verdictTrue.Union(eng.BoolEdges(fn, func(v ssa.Value) bool { return eng.ResultOf(v, tt, 0) }, true))
				okTests.Union(eng.OkCut(t))
			}
			if verdictTrue.Len() < 1 {
				k.Fail("ff-decision", name+"#executeFFMerge", "a fast-forward is executed only on the verdict of CanFastForwardTo(spec.HeadC, spec.MergeC)", pos, "no branch on the result of CanFastForwardTo(spec.HeadC, spec.MergeC) in this function", nil)
				continue
			}
			tgt := eng.NewSet().AddI(ff.(ssa.Instruction))
			k.OnlyAfter("ff-decision", fn, "executeFFMerge is reached only on the true edge of CanFastForwardTo(spec.HeadC, spec.MergeC)", tgt, 1, verdictTrue)
			k.OnlyAfter("ff-decision", fn, "executeFFMerge is reached only after CanFastForwardTo returned a nil error", tgt, 1, okTests)
			target := false
			for _, a := range ff.Common().Args {
				if eng.ShortType(a.Type()) == "*"+c19Doltdb+".Commit" && eng.FromField(a, c19MergeC) {
					target = true
				}
			}
			k.Require("ff-decision", name+"#target", "the commit fast-forwarded to is the spec.MergeC whose ancestry was tested", target, pos, "executeFFMerge is given another commit than spec.MergeC")
		}
	}
	if n < 2 {
		k.Unknown("ff-decision", "libraries/doltcore/sqle/dprocedures", "call sites of executeFFMerge", fmt.Sprintf("%d found (confirmed floor 2: performMerge, pull --rebase)", n))
	}
}

// (4)
func c19Push(k *eng.Check) {
	fn := k.Fn("libraries/doltcore/env/actions.Push")
	if fn == nil {
		return
	}
	name := eng.Name(fn)
	tests := eng.Calls(fn, c19mCanFF, false)
	pulls := eng.CallSet(fn, c19mPull)
	if len(tests) < 1 || pulls.Len() < 1 {
		k.Unknown("ff-push", name, "the CanFastForward test and the PullChunks transfer", fmt.Sprintf("%d / %d found (confirmed floor 1 / 1)", len(tests), pulls.Len()))
		return
	}
	// the mode test: mode == ref.FastForwardOnly (a struct comparison against a package-level value)
	ffOnly := eng.CondEdgesP(fn, func(v ssa.Value) bool {
		b, ok := eng.IsCompare(v, token.EQL)
		if !ok {
			return false
		}
		isMode := func(x ssa.Value) bool {
			p := c18uParamOrigin(x)
			return p != nil && eng.ShortType(p.Type()) == "libraries/doltcore/ref.UpdateMode"
		}
		isFFOnly := func(x ssa.Value) bool {
			u, ok := eng.Strip(x).(*ssa.UnOp)
			if !ok || u.Op != token.MUL {
				return false
			}
			g, ok := u.X.(*ssa.Global)
			return ok && g.Name() == "FastForwardOnly"
		}
		return (isMode(b.X) && isFFOnly(b.Y)) || (isMode(b.Y) && isFFOnly(b.X))
	}, true)
	if ffOnly.Len() < 1 {
		k.Unknown("ff-push", name+"#mode", "the test mode == ref.FastForwardOnly", "not found")
		return
	}
	verdictTrue, okTests := eng.NewSet(), eng.NewSet()
	var commitP *ssa.Parameter
	for _, p := range fn.Params {
		if eng.ShortType(p.Type()) == "*"+c19Doltdb+".Commit" {
			commitP = p
		}
	}
	for _, t := range tests {
		a := t.Common().Args // ddb, ctx, branch, new
		if len(a) != 4 || commitP == nil || c18uParamOrigin(a[3]) != commitP {
			continue
		}
		tt := t
		verdictTrue.Union(eng.BoolEdges(fn, func(v ssa.Value) bool { return eng.ResultOf(v, tt, 0) }, true))
		okTests.Union(eng.OkCut(t))
	}
	k.OnlyAfter("ff-push", fn, "in fast-forward-only mode the chunks are transferred only on the true verdict of CanFastForward(destination ref, pushed commit)", pulls, 1, verdictTrue, eng.EdgeTargets(ffOnly)...)
	k.OnlyAfter("ff-push", fn, "in fast-forward-only mode the chunks are transferred only after CanFastForward returned a nil error", pulls, 1, okTests, eng.EdgeTargets(ffOnly)...)
}
