package rules

import (
	"fmt"
	"go/constant"
	"go/token"
	"strings"

	"dvcheck/internal/eng"

	"golang.org/x/tools/go/ssa"
)

func init() {
	Registry["C05"] = &Rule{
		Explanation: "Decides the structural clause of atomic manifest replacement: (1) in updateWithChecker the rename over the manifest is reachable only after the temp file was written, fsynced and closed, the on-disk manifest was parsed, the caller's lock matched the on-disk lock, and the validator returned nil; the new contents are returned only after rename and directory fsync succeeded; (2) nothing else in store/nbs renames/creates a path built from the manifest file name and updateWithChecker is called only by the frozen set of manifest implementations; (3) file manifests take the file lock before and release it after the update, journal manifests refuse when read-only; (4) the validators of the file manifest check that every newly named table file is present (under the lock) and that check cannot succeed with a missing file; (5) the grace prune unlinks only under the manifest lock, only after re-checking the manifest mtime, only files the locked manifest (plus this store's upstream) does not keep, never the manifest, journal, lock or probe files, and only when the directory was quiescent; (6) conjoin cleanup (deleting conjoinees) is returned only when the manifest update took effect; GC swapTables updates the manifest only after every new table file was opened. It does not decide cross-process schedules, filesystem semantics or the adequacy of the quiescence heuristic.",
		RuleText:    "CFG cut-reachability with error-checked edges and closure summaries; who-may-call allowlists; deferred-release pairing; data-derivation of the keep set",
		Assumptions: []string{"rename(2) within a directory is atomic and fsync of the directory makes it durable", "fslock provides mutual exclusion between lock-respecting processes"},
		Patterns:    []string{"./store/nbs", "./libraries/utils/errors", "./libraries/utils/file"},
		Run:         runC05,
	}
}

const mcLock = "store/nbs.manifestContents.lock"

func runC05(k *eng.Check, tier string) {
	c := k.C
	nbs := c.Funcs("store/nbs")
	mRename := eng.Static("libraries/utils/file.Rename", "os.Rename")
	mSyncDir := eng.Static("libraries/utils/file.SyncDirectoryHandle")
	mWriteManifest := eng.Static("store/nbs.writeManifest")
	mParse := eng.Static("store/nbs.parseManifest")
	mUWC := eng.Static("store/nbs.updateWithChecker")
	// file-name constants are read from the package (values, not names, appear in SSA)
	names := map[string]string{}
	for _, cd := range c.PackageConsts("store/nbs", "", func(n string) bool {
		return n == "manifestFileName" || n == "pruneProbePrefix" || n == "chunkJournalName"
	}) {
		names[cd.Name] = constant.StringVal(cd.Val)
	}
	for _, n := range []string{"manifestFileName", "pruneProbePrefix", "chunkJournalName"} {
		if names[n] == "" {
			k.Unknown("anchor", "store/nbs."+n, "file-name constant", "constant not found")
		}
	}

	// ---- (1) updateWithChecker order
	if fn := k.Fn("store/nbs.updateWithChecker"); fn != nil {
		ren := eng.CallSet(fn, mRename)
		k.OnlyAfter("manifest-rename-order", fn, "rename only after the temp manifest was written (writeManifest ok)", ren, 1, k.OkCalls(fn, "writeManifest", mWriteManifest))
		k.OnlyAfter("manifest-rename-order", fn, "rename only after the temp manifest was fsynced", ren, 1, k.OkCalls(fn, "sync", mSync))
		// temp file closed before rename: the literal that writes it defers Close
		closed := false
		for _, call := range eng.Calls(fn, eng.CallsInto(mWriteManifest), false) {
			if f := call.Common().StaticCallee(); f != nil && len(eng.DeferredCalls(f, eng.Static("(*os.File).Close"))) > 0 {
				closed = true
			}
		}
		k.Require("manifest-rename-order", eng.Name(fn)+"#temp-closed", "the temp manifest is closed (deferred in the writing literal) before the rename", closed, c.Pos(fn.Pos()), "no deferred Close in the literal that writes the temp manifest")
		k.OnlyAfter("manifest-rename-order", fn, "rename only after the on-disk manifest was read (literal that calls parseManifest returned nil)", ren, 1, k.C.PassCuts(fn, "parse-literal", eng.CallsInto(mParse), 0))
		lockCmp := eng.CondEdgesP(fn, func(v ssa.Value) bool {
			return eng.CompareOf(v, eng.IsField(mcLock), eng.IsParamOfType("store/hash.Hash"), token.NEQ)
		}, false)
		k.OnlyAfter("manifest-cas", fn, "rename only on the edge where the caller's lastLock equals the on-disk lock", ren, 1, lockCmp)
		k.OnlyAfter("manifest-rename-order", fn, "rename only after the validator returned nil", ren, 1, k.OkCalls(fn, "validate", eng.DynOfType("store/nbs.manifestChecker")))
		for in := range ren.I {
			k.OnlyAfter("manifest-ack-order", fn, "after the rename, a success exit only after the directory fsync succeeded", eng.SuccessExits(fn), 1, k.OkCalls(fn, "syncdir", mSyncDir), eng.After(in))
		}
		// success exits: either the stale-lock edge (returns upstream) or past a successful rename
		lockMismatch := eng.CondEdgesP(fn, func(v ssa.Value) bool {
			return eng.CompareOf(v, eng.IsField(mcLock), eng.IsParamOfType("store/hash.Hash"), token.NEQ)
		}, true)
		k.OnlyAfter("manifest-ack-order", fn, "a success exit is reached only through a successful rename or the stale-lock edge", eng.SuccessExits(fn), 2, eng.UnionOf(k.OkCalls(fn, "rename", mRename), lockMismatch))
	}

	// ---- (1b) error discipline on the manifest write path: no I/O error may be dropped between
	// creating the temp file and renaming it, or a truncated manifest is published
	if uwc := c.Func("store/nbs.updateWithChecker"); uwc != nil {
		path := c.StaticClosure([]*ssa.Function{uwc}, func(p string) bool { return p == "store/nbs" || p == "libraries/utils/file" }, 3)
		allowed := map[string]string{
			"libraries/utils/file.Remove": "deferred best-effort removal of the temp file; a no-op after a successful rename",
		}
		n := 0
		for _, d := range eng.DroppedErrors(path) {
			n++
			why, ok := allowed[d.Callee]
			desc := "no error is dropped on the manifest write path (temp write, flush, sync, close, parse, rename, dir sync)"
			if ok && d.Deferred {
				k.Pass("manifest-write-errors", eng.Name(d.Fn)+"#"+d.Callee, "allowed: "+why, 1)
				continue
			}
			if d.Deferred && d.Callee == "(*os.File).Close" {
				// closing a handle that was opened read-only (os.Open) cannot lose written data
				if ci := d.Instr.(ssa.CallInstruction); len(ci.Common().Args) > 0 && eng.MentionsDeep(ci.Common().Args[0], eng.IsCall(eng.Static("os.Open"))) {
					k.Pass("manifest-write-errors", eng.Name(d.Fn)+"#"+d.Callee, "allowed: deferred Close of a read-only handle (os.Open)", 1)
					continue
				}
			}
			k.Fail("manifest-write-errors", eng.Name(d.Fn)+"#"+d.Callee, desc, c.InstrPos(d.Instr), "the error result of "+d.Callee+" is discarded on the path that publishes the manifest", nil)
		}
		k.Pass("manifest-write-errors", "updateWithChecker-closure", fmt.Sprintf("scanned %d functions on the manifest write path; %d discarded results, all allowed", len(path), n), len(path))
		if len(path) < 6 {
			k.Unknown("manifest-write-errors", "updateWithChecker-closure", "functions on the manifest write path", fmt.Sprintf("%d found (floor 6)", len(path)))
		}
	}

	// ---- (2) ownership of the manifest file name
	manifestName := func(v ssa.Value) bool {
		return eng.MentionsDeep(v, func(x ssa.Value) bool {
			if cst, ok := x.(*ssa.Const); ok && cst.Value != nil && cst.Value.Kind() == constant.String && constant.StringVal(cst.Value) == names["manifestFileName"] {
				return true
			}
			return false
		})
	}
	creators := eng.Static("os.Create", "os.OpenFile", "os.WriteFile", "os.Rename", "libraries/utils/file.Rename", "os.Remove", "libraries/utils/file.Remove", "os.Truncate")
	nOwn := 0
	for _, fn := range nbs {
		for _, call := range eng.Calls(fn, creators, true) {
			args := call.Common().Args
			touches := false
			for i, a := range args {
				if i > 1 {
					break
				}
				if manifestName(a) {
					touches = true
				}
			}
			if !touches {
				continue
			}
			callee := eng.CalleeName(call)
			name := eng.Name(eng.Outermost(fn))
			// opening read-only is fine
			if callee == "os.OpenFile" && len(args) > 1 {
				if cst, ok := args[1].(*ssa.Const); ok && cst.Int64() == 0 {
					continue
				}
			}
			nOwn++
			ok := name == "store/nbs.updateWithChecker" && strings.HasSuffix(callee, "Rename")
			k.Require("manifest-single-writer", name+"#"+callee, "the only operation that creates/replaces/removes a path built from the manifest file name is the rename in updateWithChecker", ok, c.InstrPos(call.(ssa.Instruction)), "manifest file mutated outside updateWithChecker's rename")
		}
	}
	if nOwn < 1 {
		k.Unknown("manifest-single-writer", "store/nbs", "mutations of the manifest path", "the rename over manifestFileName was not found")
	}
	callersOK := map[string]string{
		"(store/nbs.fileManifest).Update":           "takes the file lock",
		"(store/nbs.fileManifest).UpdateGCGen":      "takes the file lock",
		"(*store/nbs.journalManifest).Update":       "holds the exclusive database lock for its lifetime",
		"(*store/nbs.journalManifest).UpdateGCGen":  "holds the exclusive database lock for its lifetime",
		"store/nbs.MaybeMigrateFileManifest":        "runs before the store is open",
	}
	if uwc := c.Func("store/nbs.updateWithChecker"); uwc != nil {
		sites := eng.CallersOf(c.All(), uwc)
		for _, s := range sites {
			name := eng.Name(eng.Outermost(s.Parent()))
			_, ok := callersOK[name]
			k.Require("manifest-updaters", name, "updateWithChecker is called only by the frozen set of manifest implementations", ok, c.InstrPos(s.(ssa.Instruction)), "new caller of updateWithChecker (must arrange exclusive access)")
		}
		if len(sites) < 5 {
			k.Unknown("manifest-updaters", "store/nbs.updateWithChecker", "call sites", fmt.Sprintf("%d found (floor 5)", len(sites)))
		}
		for _, u := range eng.FuncValueUses(c.All(), uwc) {
			k.Fail("manifest-updaters", eng.Name(u.Parent())+"#value", "updateWithChecker is not passed around as a value", c.InstrPos(u), "function value escape", nil)
		}
	}

	// ---- (3) locking
	mTryLock := eng.Static("store/nbs.tryFileLock")
	mUnlock := eng.Static("(*github.com/dolthub/fslock.Lock).Unlock")
	for _, name := range []string{"(store/nbs.fileManifest).Update", "(store/nbs.fileManifest).UpdateGCGen"} {
		if fn := k.Fn(name); fn != nil {
			k.OnlyAfter("manifest-file-lock", fn, "updateWithChecker only after the manifest file lock was taken", eng.CallSet(fn, mUWC), 1, k.OkCalls(fn, "trylock", mTryLock))
			k.Require("manifest-file-lock", name+"#deferred-unlock", "the file lock is released by a deferred Unlock", len(eng.DeferredCalls(fn, mUnlock)) >= 1, c.Pos(fn.Pos()), "no deferred Unlock")
			// the deferred unlock is registered after the lock is held and before the update
			for _, d := range eng.DeferredCalls(fn, mUnlock) {
				k.OnlyAfter("manifest-file-lock", fn, "the deferred Unlock is registered only after the lock was taken", eng.NewSet().AddI(d), 1, k.OkCalls(fn, "trylock", mTryLock))
			}
		}
	}
	if fn := k.Fn("(store/nbs.fileManifest).LockManifest"); fn != nil {
		k.OnlyAfter("manifest-file-lock", fn, "the manifest is parsed for the prune only after the file lock was taken", eng.CallSet(fn, eng.Static("store/nbs.parseIfExists")), 1, k.OkCalls(fn, "trylock", mTryLock))
	}
	for _, name := range []string{"(*store/nbs.journalManifest).Update", "(*store/nbs.journalManifest).UpdateGCGen"} {
		if fn := k.Fn(name); fn != nil {
			ro := eng.CondEdgesP(fn, func(v ssa.Value) bool {
				return eng.Mentions(v, eng.IsCall(eng.Static("(*store/nbs.journalManifest).readOnly")))
			}, false)
			k.OnlyAfter("manifest-journal-lock", fn, "updateWithChecker only on the readOnly()==false edge", eng.CallSet(fn, mUWC), 1, ro)
		}
	}

	// ---- (4) presence check
	mPresent := eng.Static("store/nbs.checkNewSpecsPresent")
	for _, name := range []string{"(store/nbs.fileManifest).Update", "(store/nbs.fileManifest).UpdateGCGen"} {
		fn := c.Func(name)
		if fn == nil {
			continue
		}
		for _, call := range eng.Calls(fn, mUWC, false) {
			args := call.Common().Args
			var checker *ssa.Function
			for _, a := range args {
				if !strings.HasSuffix(eng.ShortType(a.Type()), "manifestChecker") {
					continue
				}
				eng.Slice(a, false, func(v ssa.Value) bool {
					switch x := v.(type) {
					case *ssa.MakeClosure:
						checker = x.Fn.(*ssa.Function)
					case *ssa.Function:
						checker = x
					}
					return checker != nil
				})
			}
			if checker == nil {
				k.Unknown("manifest-presence-check", name, "the validator passed to updateWithChecker", "could not resolve the checker function value")
				continue
			}
			k.FuncsSeen[checker] = true
			k.Require("manifest-presence-check", name+"#checker", "the file manifest's validator returns nil only after checkNewSpecsPresent returned nil", c.MustPass(checker, "present", mPresent, 3), c.Pos(checker.Pos()), "a success path of the validator skips the presence check")
		}
	}
	if fn := k.Fn("store/nbs.checkNewSpecsPresent"); fn != nil {
		missing := eng.CondEdgesP(fn, func(v ssa.Value) bool {
			// exactly "the list of missing files is non-empty": len(x) > 0, len(x) != 0 or len(x) >= 1
			b, ok := eng.IsCompare(v, token.GTR, token.NEQ, token.GEQ)
			if !ok || !eng.Mentions(b.X, func(x ssa.Value) bool { cc, ok := x.(*ssa.Call); return ok && eng.CalleeName(cc) == "builtin:len" }) {
				return false
			}
			cst, isC := b.Y.(*ssa.Const)
			if !isC || cst.Value == nil {
				return false
			}
			n := cst.Int64()
			return (b.Op == token.GEQ && n == 1) || (b.Op != token.GEQ && n == 0)
		}, true)
		if missing.Len() < 1 {
			k.Unknown("manifest-presence-check", eng.Name(fn), "the `len(missing) > 0` test", "not found")
		} else {
			var starts []eng.Point
			for e := range missing.E {
				starts = append(starts, eng.Point{B: e.To(), I: 0})
			}
			k.OnlyAfter("manifest-presence-check", fn, "no success exit once a missing table file was found", eng.SuccessExits(fn), 1, eng.NewSet(), starts...)
		}
		// every not-yet-known spec is probed: the exists() verdict is consumed
		ex := eng.Calls(fn, eng.Static("store/nbs.tableFileOrArchiveExists"), false)
		k.Require("manifest-presence-check", eng.Name(fn)+"#probe", "each new spec is probed on disk and the verdict is consumed", len(ex) >= 1 && eng.ErrConsumed(ex[0]), c.Pos(fn.Pos()), "probe missing or its error dropped")
	}

	// ---- (5) grace prune
	mRemove := eng.Static("libraries/utils/file.Remove", "os.Remove")
	if fn := k.Fn("store/nbs.unlinkCandidates"); fn != nil {
		rem := eng.CallSet(fn, mRemove)
		notKept := eng.CondEdgesP(fn, func(v ssa.Value) bool { return eng.Mentions(v, eng.IsCall(eng.Static("(store/hash.HashSet).Has"))) }, false)
		isTemp := eng.CondEdgesP(fn, func(v ssa.Value) bool { return eng.Mentions(v, eng.IsField("store/nbs.pruneCandidate.isTemp")) }, true)
		k.OnlyAfter("prune-keeps-referenced", fn, "a candidate is unlinked only if it is a temp file or the keep set does not contain its address", rem, 1, eng.UnionOf(notKept, isTemp))
		// the Has() probe uses the keep parameter and the candidate's address
		hasOK := false
		for _, call := range eng.Calls(fn, eng.Static("(store/hash.HashSet).Has"), false) {
			a := call.Common().Args
			if len(a) == 2 && eng.Mentions(a[0], eng.IsParamOfType("store/hash.HashSet")) && eng.Mentions(a[1], eng.IsField("store/nbs.pruneCandidate.addr")) {
				hasOK = true
			}
		}
		k.Require("prune-keeps-referenced", eng.Name(fn)+"#probe", "the keep-set probe tests the candidate's own address against the keep parameter", hasOK, c.Pos(fn.Pos()), "keep.Has is not applied to (keep, candidate.addr)")
		unchangedM := eng.CondEdgesP(fn, func(v ssa.Value) bool { return eng.Mentions(v, eng.IsCall(eng.Static("(time.Time).Equal"))) }, true)
		k.OnlyAfter("prune-restat", fn, "unlink only after the re-stat found the same mtime", rem, 1, unchangedM)
	}
	if fn := k.Fn("store/nbs.unlinkUnderManifestLock"); fn != nil {
		uc := eng.CallSet(fn, eng.Static("store/nbs.unlinkCandidates"))
		k.OnlyAfter("prune-under-lock", fn, "candidates are unlinked only after the manifest lock was taken", uc, 1, k.OkCalls(fn, "lock", eng.DynOfType("store/nbs.lockKeepers")))
		k.OnlyAfter("prune-under-lock", fn, "candidates are unlinked only after the manifest mtime was re-checked under the lock", uc, 1, k.OkCalls(fn, "mtime", eng.Static("store/nbs.manifestMtimeChanged")))
		changed := eng.CondEdgesP(fn, func(v ssa.Value) bool {
			ex, ok := v.(*ssa.Extract)
			return ok && ex.Index == 0 && eng.IsCall(eng.Static("store/nbs.manifestMtimeChanged"))(ex.Tuple)
		}, false)
		k.OnlyAfter("prune-under-lock", fn, "candidates are unlinked only on the manifest-unchanged edge", uc, 1, changed)
		// release is deferred (lock held for the whole pass)
		rel := false
		for _, b := range fn.Blocks {
			for _, in := range b.Instrs {
				if d, ok := in.(*ssa.Defer); ok {
					if f := d.Call.StaticCallee(); f != nil && len(eng.CallsDeep(f, func(ci ssa.CallInstruction) bool {
						return strings.HasPrefix(eng.CalleeName(ci), "dyn:") && eng.MentionsDeep(ci.Common().Value, eng.IsCall(eng.DynOfType("store/nbs.lockKeepers")))
					}, true)) > 0 {
						rel = true
					}
				}
			}
		}
		k.Require("prune-under-lock", eng.Name(fn)+"#deferred-release", "the manifest lock is released by a deferred call (held for the whole pass)", rel || deferredReleaseFallback(fn), c.Pos(fn.Pos()), "release() is not deferred")
		// keep set passed on is the one the lock returned
		for in := range uc.I {
			args := in.(*ssa.Call).Call.Args
			ok := len(args) == 4 && eng.Mentions(args[3], eng.IsCall(eng.DynOfType("store/nbs.lockKeepers")))
			k.Require("prune-keeps-referenced", eng.Name(fn)+"#keep-arg", "the keep set handed to unlinkCandidates is the one returned by the lock function", ok, c.InstrPos(in), "keep argument is not derived from lock()")
		}
	}
	// unlinkCandidates has a single caller
	if uc := c.Func("store/nbs.unlinkCandidates"); uc != nil {
		for _, s := range eng.CallersOf(c.All(), uc) {
			name := eng.Name(eng.Outermost(s.Parent()))
			k.Require("prune-under-lock", name+"#calls-unlinkCandidates", "unlinkCandidates is called only by unlinkUnderManifestLock", name == "store/nbs.unlinkUnderManifestLock", c.InstrPos(s.(ssa.Instruction)), "unlink pass reachable without the manifest lock")
		}
	}
	if fn := k.Fn("store/nbs.pruneDirAsOf"); fn != nil {
		ul := eng.CallSet(fn, eng.Static("store/nbs.unlinkUnderManifestLock"))
		quiet := eng.CondEdgesP(fn, func(v ssa.Value) bool { return eng.IsCall(eng.Static("(time.Time).After"))(v) }, false)
		k.OnlyAfter("prune-quiescence", fn, "the unlink pass starts only on the not-recently-modified edge", ul, 1, quiet)
		cls := eng.CallSet(fn, eng.Static("store/nbs.classifyPruneCandidate"))
		notManifest := eng.CondEdgesP(fn, func(v ssa.Value) bool {
			b, ok := eng.IsCompare(v, token.EQL)
			return ok && (isConstStr(b.X, names["manifestFileName"]) || isConstStr(b.Y, names["manifestFileName"]))
		}, false)
		k.OnlyAfter("prune-never-manifest", fn, "the manifest file is never classified as a prune candidate", cls, 1, notManifest)
		notProbe := eng.CondEdgesP(fn, func(v ssa.Value) bool {
			return eng.IsCall(eng.Static("strings.HasPrefix"))(v) && eng.MentionsDeep(v, func(x ssa.Value) bool { return isConstStr(x, names["pruneProbePrefix"]) })
		}, false)
		k.OnlyAfter("prune-never-manifest", fn, "probe files are never classified as prune candidates", cls, 1, notProbe)
	}
	if fn := k.Fn("store/nbs.classifyPruneCandidate"); fn != nil {
		notJournal := eng.CondEdgesP(fn, func(v ssa.Value) bool {
			b, ok := eng.IsCompare(v, token.EQL)
			return ok && (isConstStr(b.X, names["chunkJournalName"]) || isConstStr(b.Y, names["chunkJournalName"]))
		}, false)
		k.OnlyAfter("prune-never-journal", fn, "a file named like the chunk journal never classifies as a table file", eng.CallSet(fn, eng.Static("store/nbs.fileNameToAddr")), 1, notJournal)
	}
	if fn := k.Fn("(*store/nbs.NomsBlockStore).PruneUnreferencedWithGrace"); fn != nil {
		// the lock literal builds the keep set from LockManifest's contents plus upstreamReferences
		var lit *ssa.Function
		for _, a := range fn.AnonFuncs {
			if len(eng.Calls(a, eng.Named(`LockManifest$`), false)) > 0 {
				lit = a
			}
		}
		if lit == nil {
			k.Unknown("prune-keep-set", eng.Name(fn), "the lockKeepers literal", "no literal calling LockManifest")
		} else {
			k.FuncsSeen[lit] = true
			k.OnlyAfter("prune-keep-set", lit, "the keep set is returned only after LockManifest succeeded", eng.SuccessExits(lit), 1, k.OkCalls(lit, "lockmanifest", eng.Named(`LockManifest$`)))
			add := eng.Calls(lit, eng.Static("store/nbs.addSpecsAndAppendix"), false)
			okAdd := false
			for _, call := range add {
				if eng.MentionsDeep(call.Common().Args[1], eng.IsCall(eng.Named(`LockManifest$`))) {
					okAdd = true
				}
			}
			k.Require("prune-keep-set", eng.Name(lit)+"#locked-contents", "the keep set includes the specs and appendix of the manifest parsed under the lock", okAdd, c.Pos(lit.Pos()), "addSpecsAndAppendix is not applied to LockManifest's contents")
			k.Require("prune-keep-set", eng.Name(fn)+"#upstream", "the keep set includes this store's own upstream references", len(eng.Calls(fn, eng.Static("(*store/nbs.NomsBlockStore).upstreamReferences"), false)) >= 1, c.Pos(fn.Pos()), "upstreamReferences() not consulted")
		}
	}

	// ---- (6) conjoin and GC swap
	if fn := k.Fn("(*store/nbs.conjoinOperation).updateManifest"); fn != nil {
		// a return whose cleanup result is op.cleanup only on the lock-equal edge after Update succeeded
		tg := eng.NewSet()
		for _, b := range fn.Blocks {
			for _, in := range b.Instrs {
				if r, ok := in.(*ssa.Return); ok && len(r.Results) == 3 {
					if eng.MentionsDeep(r.Results[1], func(x ssa.Value) bool {
						f, ok := x.(*ssa.Function)
						return ok && strings.HasSuffix(eng.Name(f), "conjoinOperation).cleanup")
					}) || strings.Contains(eng.Desc(r.Results[1], 4), "cleanup") {
						tg.AddI(r)
					}
				}
			}
		}
		mUpd := eng.Named(`^iface:store/nbs\.manifestUpdater\.Update$`)
		k.OnlyAfter("conjoin-cleanup-after-commit", fn, "the conjoinee cleanup is handed out only after the manifest update succeeded", tg, 1, k.OkCalls(fn, "mmupdate", mUpd))
		eq := eng.CondEdgesP(fn, func(v ssa.Value) bool { return eng.CompareOf(v, eng.IsField(mcLock), eng.IsField(mcLock), token.EQL) }, true)
		k.OnlyAfter("conjoin-cleanup-after-commit", fn, "the conjoinee cleanup is handed out only when the update took effect (locks equal)", tg, 1, eq)
	}
	if fn := k.Fn("(*store/nbs.NomsBlockStore).swapTables"); fn != nil {
		upd := eng.CallSet(fn, eng.Named(`UpdateGCGen$`))
		k.OnlyAfter("gc-swap-opens-first", fn, "the GC manifest swap happens only after every new table file was opened", upd, 1, k.OkCalls(fn, "openForAdd", eng.Static("(*store/nbs.tableSet).openForAdd", "(store/nbs.tableSet).openForAdd")))
	}
}

func isConstStr(v ssa.Value, s string) bool {
	cst, ok := v.(*ssa.Const)
	return ok && s != "" && cst.Value != nil && cst.Value.Kind() == constant.String && constant.StringVal(cst.Value) == s
}

// deferredReleaseFallback: a deferred literal that calls a function value captured from the enclosing function.
func deferredReleaseFallback(fn *ssa.Function) bool {
	for _, b := range fn.Blocks {
		for _, in := range b.Instrs {
			d, ok := in.(*ssa.Defer)
			if !ok {
				continue
			}
			mc, ok := d.Call.Value.(*ssa.MakeClosure)
			if !ok {
				continue
			}
			f := mc.Fn.(*ssa.Function)
			for _, call := range eng.CallsDeep(f, func(ci ssa.CallInstruction) bool { return strings.HasPrefix(eng.CalleeName(ci), "dyn:") }, true) {
				if eng.MentionsDeep(call.Common().Value, func(x ssa.Value) bool { _, ok := x.(*ssa.FreeVar); return ok }) {
					// the captured variable must be bound to a value derived from the lock function's result
					for i, fv := range f.FreeVars {
						if eng.MentionsDeep(call.Common().Value, func(x ssa.Value) bool { return x == ssa.Value(fv) }) && i < len(mc.Bindings) {
							if eng.MentionsDeep(mc.Bindings[i], eng.IsCall(eng.DynOfType("store/nbs.lockKeepers"))) {
								return true
							}
						}
					}
				}
			}
		}
	}
	return false
}
