package rules

import (
	"fmt"
	"go/token"
	"go/types"
	"sort"
	"strings"

	"dvcheck/internal/eng"

	"golang.org/x/tools/go/ssa"
)

func init() {
	Registry["C35"] = &Rule{
		Explanation: "Decides the two structural clauses *chunks before refs* and *compare before a non-forced move* along the whole transfer chain. (1) In package env/actions, every function that performs a pull step (DoltDB.PullChunks, DoltDB.Clone, or a helper that must pass one of them on every success path; a pull step run inside a function literal that hands its error to the parent through a captured variable counts in the parent) reaches a DoltDB ref mover (a method of *DoltDB that reaches Database.SetHead, Database.FastForward or ChunkStore.Commit; the set is derived from the doltdb bodies, not listed) only after the pull step returned nil. (2) actions.Push: a destination mover of the SetHead class is reachable only on the mode==ForceUpdate edge (so the non-forced branch can only use the FastForward class), and the local tracking ref is moved only after a destination mover returned nil. (3) datas.database.doFastForward edits the dataset map only when the dataset has no head or past found==true and mergeNeeded==false of FindCommonAncestor(current, new). (4) DoltDB.PullChunks returns nil only if pullHash did; pullHash only after Puller.Pull returned nil or NewPuller said ErrDBUpToDate; Puller.Pull only after errgroup Wait over goroutines that return the errors of PullTableFileWriter.Run and of the chunk loop; in the chunk loop a chunk is handed to the writer only past IsEmpty==false and an error-checked address walk; Run returns the Wait error of uploadAndFinalizeThread, which adds files to the destination manifest only after every upload thread finished without error; an upload thread announces a file only after WriteTableFile returned nil; nothing else in package pull writes a destination manifest or root. (5) pull.clone publishes the manifest only after the download loop returned nil, moves the root only after AddTableFilesToManifest returned nil, and a download goroutine reports success only after WriteTableFile returned nil. (6) remote server: the root CAS is reached only after AddTableFilesToManifest returned nil, its (current,last) arguments come from the request's Current/Last fields in that order, the reported Success is the store's verdict, and no other handler writes root or manifest; remote client: the Commit RPC is sent only after the buffered chunks were uploaded, carries (current,last) in that order, reports the server's verdict, and AddTableFilesToManifest/WriteTableFile succeed only after the RPC/upload succeeded and the server said Success. It does not decide completeness of the transferred closure (C09/C07), the shallow-clone path of shallowCloneDataPull (its fetch helper has a legitimate early success exit), HTTP faults, or the atomicity of the store-level CAS (C02/C20).",
		RuleText:    "cut-reachability on the SSA CFG with must-pass summaries and closure-spilled errors; mover classification by static reachability inside package doltdb; data-derivation of CAS arguments; who-may-call allowlists",
		Assumptions: []string{"errgroup.Group.Wait returns the first non-nil error of the functions started with Go", "a chunk store that holds a chunk holds its closure (C07)"},
		Patterns: []string{"./libraries/doltcore/env/actions", "./libraries/doltcore/doltdb", "./store/datas", "./store/datas/pull",
			"./libraries/doltcore/remotesrv", "./libraries/doltcore/remotestorage", "./libraries/utils/errors"},
		Run: runC35,
	}
}

const (
	c35actions = "libraries/doltcore/env/actions"
	c35doltdb  = "libraries/doltcore/doltdb"
	c35pull    = "store/datas/pull"
	c35rstore  = "libraries/doltcore/remotestorage"
	c35DoltDB  = "(*" + c35doltdb + ".DoltDB)."
)

var (
	c35mPullStep = eng.Static(c35DoltDB+"PullChunks", c35DoltDB+"Clone")
	c35mEgWait   = eng.Static("(*golang.org/x/sync/errgroup.Group).Wait")
	c35mEgGo     = eng.Static("(*golang.org/x/sync/errgroup.Group).Go")
)

// c35movers classifies the methods of *DoltDB that move a ref/root to a given address:
// "set" (reaches Database.SetHead), "ff" (reaches Database.FastForward only), "root" (ChunkStore.Commit).
func c35movers(k *eng.Check) map[string]string {
	c := k.C
	out := map[string]string{}
	inDoltdb := func(p string) bool { return p == c35doltdb }
	mSet := eng.Named(`^(\(` + c35doltdb + `\.hooksDatabase\)|iface:store/datas\.Database)\.SetHead$`)
	mFF := eng.Named(`^(\(` + c35doltdb + `\.hooksDatabase\)|iface:store/datas\.Database)\.FastForward$`)
	mRoot := eng.Named(`^iface:store/chunks\.ChunkStore\.Commit$`)
	for _, fn := range c.Funcs(c35doltdb) {
		if fn.Parent() != nil || fn.Signature.Recv() == nil || !strings.HasPrefix(eng.Name(fn), c35DoltDB) {
			continue
		}
		set, ff, root := false, false, false
		for _, f := range c.StaticClosure([]*ssa.Function{fn}, inDoltdb, 3) {
			if f != fn && f.Signature.Recv() != nil && strings.HasPrefix(eng.Name(f), c35DoltDB) && f.Object() != nil && f.Object().Exported() {
				// another exported DoltDB method: classified on its own; still counts for this one
			}
			if len(eng.Calls(f, mSet, false)) > 0 {
				set = true
			}
			if len(eng.Calls(f, mFF, false)) > 0 {
				ff = true
			}
			if len(eng.Calls(f, mRoot, false)) > 0 {
				root = true
			}
		}
		switch {
		case set:
			out[eng.Name(fn)] = "set"
		case ff:
			out[eng.Name(fn)] = "ff"
		case root:
			out[eng.Name(fn)] = "root"
		}
	}
	return out
}

// c35pullCuts: the cut "a pull step of fn succeeded" and whether fn has a pull step at all.
func c35pullCuts(k *eng.Check, fn *ssa.Function) (*eng.Set, int) {
	c := k.C
	isStep := func(ci ssa.CallInstruction) bool {
		if c35mPullStep(ci) {
			return true
		}
		if _, isCall := ci.(*ssa.Call); !isCall {
			return false
		}
		f := ci.Common().StaticCallee()
		return f != nil && f.Parent() == nil && c.MustPass(f, "c35pull", c35mPullStep, 3)
	}
	n := len(eng.Calls(fn, isStep, false))
	cuts := eng.NewSet()
	if n > 0 {
		cuts.Union(k.OkCalls(fn, "c35pull", c35mPullStep))
	}
	for _, lit := range fn.AnonFuncs {
		for _, ci := range eng.Calls(lit, isStep, false) {
			if es, spills := eng.SpillOkEdges(lit, ci); spills {
				n++
				cuts.Union(es)
			}
		}
	}
	return cuts, n
}

func c35recv(ci ssa.CallInstruction) ssa.Value {
	if a := ci.Common().Args; len(a) > 0 {
		return a[0]
	}
	return nil
}

// c35sameDB: two *DoltDB operands denote the same database: same SSA value or loads of the same parameter-rooted path.
func c35sameDB(a, b ssa.Value) bool {
	if a == nil || b == nil {
		return false
	}
	if a == b {
		return true
	}
	da, db := eng.Desc(a, 8), eng.Desc(b, 8)
	return da == db && !strings.Contains(da, "…") && !strings.Contains(da, "call:") && !strings.Contains(da, "phi")
}

func runC35(k *eng.Check, tier string) {
	movers := c35movers(k)
	for _, need := range []struct{ m, class string }{
		{"SetHead", "set"}, {"SetHeadToCommit", "set"}, {"SetHeadAndWorkingSetToCommit", "set"},
		{"FastForward", "ff"}, {"FastForwardToHash", "ff"}, {"FastForwardWithWorkspaceCheck", "ff"}, {"CommitRoot", "root"},
	} {
		if movers[c35DoltDB+need.m] != need.class {
			k.Unknown("mover-table", c35DoltDB+need.m, "the derived mover classification contains the confirmed entries", fmt.Sprintf("expected class %q, derived %q", need.class, movers[c35DoltDB+need.m]))
		}
	}
	isMover := func(ci ssa.CallInstruction) bool {
		f := ci.Common().StaticCallee()
		return f != nil && movers[eng.Name(f)] != ""
	}
	c35actionsRules(k, movers, isMover)
	c35fastForward(k)
	c35pullChain(k)
	c35cloneRules(k)
	c35server(k)
	c35client(k)
}

func c35actionsRules(k *eng.Check, movers map[string]string, isMover eng.CallM) {
	c := k.C
	// (1) chunks before refs
	seen := map[string]bool{}
	for _, fn := range c.Funcs(c35actions) {
		cuts, n := c35pullCuts(k, fn)
		if n == 0 {
			continue
		}
		mv := eng.CallSet(fn, isMover)
		if mv.Len() == 0 {
			continue
		}
		seen[eng.Name(fn)] = true
		k.OnlyAfter("chunks-before-refs", fn, "a ref or root of a database is moved only after the pull step of this function returned nil", mv, 1, cuts)
	}
	var names []string
	for n := range seen {
		names = append(names, n)
	}
	sort.Strings(names)
	for _, want := range []string{c35actions + ".Push", c35actions + ".PushTag", c35actions + ".FetchFollowTags$1", c35actions + ".fetchRefSpecsWithDepth", c35actions + ".SyncRoots", c35actions + ".fullClone"} {
		if !seen[want] {
			k.Unknown("chunks-before-refs", want, "the confirmed transfer functions are covered", fmt.Sprintf("not recognised as a function with a pull step and a ref mover (covered: %v)", names))
		}
	}

	// (2) Push
	fn := k.Fn(c35actions + ".Push")
	if fn == nil {
		return
	}
	pulls := eng.Calls(fn, eng.Static(c35DoltDB+"PullChunks"), false)
	if len(pulls) != 1 || len(pulls[0].Common().Args) < 4 {
		k.Unknown("push-nonforce-uses-cas", eng.Name(fn), "exactly one PullChunks call identifies destination and source", fmt.Sprintf("found %d", len(pulls)))
		return
	}
	dest, src := pulls[0].Common().Args[0], pulls[0].Common().Args[3]
	destSet, destAny, srcMv := eng.NewSet(), eng.NewSet(), eng.NewSet()
	destOK := eng.NewSet()
	for _, ci := range eng.Calls(fn, isMover, false) {
		r := c35recv(ci)
		switch {
		case c35sameDB(r, dest):
			destAny.AddI(ci.(ssa.Instruction))
			destOK.Union(eng.OkCut(ci))
			if movers[eng.Name(ci.Common().StaticCallee())] == "set" {
				destSet.AddI(ci.(ssa.Instruction))
			}
		case c35sameDB(r, src):
			srcMv.AddI(ci.(ssa.Instruction))
		default:
			k.Fail("push-nonforce-uses-cas", eng.Name(fn)+"#receiver", "every ref mover in Push acts on the pull's destination or source database", c.InstrPos(ci.(ssa.Instruction)), "mover on an unidentified database", nil)
		}
	}
	force := eng.CondEdges(fn, `^\(param:\w+ == \*global:libraries/doltcore/ref\.ForceUpdate\)$`, true)
	force.Union(eng.CondEdges(fn, `^\(\*global:libraries/doltcore/ref\.ForceUpdate == param:\w+\)$`, true))
	force.Union(eng.CondEdges(fn, `^param:\w+\.Force$`, true))
	k.OnlyAfter("push-nonforce-uses-cas", fn, "an unconditional (SetHead-class) move of the destination ref is reachable only on the mode==ForceUpdate edge", destSet, 1, force)
	k.Require("push-nonforce-uses-cas", eng.Name(fn)+"#ff-mover", "the destination is also moved by a FastForward-class (compare-and-set with ancestry test) mover", destAny.Len() > destSet.Len(), c.Pos(fn.Pos()), "no FastForward-class mover on the destination")
	k.OnlyAfter("push-tracking-after-dest", fn, "the local tracking ref is moved only after the destination ref move returned nil", srcMv, 2, destOK)
}

func c35fastForward(k *eng.Check) {
	top := k.Fn("(*store/datas.database).doFastForward")
	if top == nil {
		return
	}
	// the ancestry test and the update may live in single-caller phase helpers of doFastForward: the comparisons are
	// analysed in the function that calls FindCommonAncestor, the path rule over the helper tree
	fam := k.C.FamilyOf(top, k.C.Funcs("store/datas"), 2)
	fn := top
	if len(eng.Calls(top, eng.Static("store/datas.FindCommonAncestor"), false)) == 0 {
		for _, g := range fam[1:] {
			if len(eng.Calls(g, eng.Static("store/datas.FindCommonAncestor"), false)) > 0 {
				fn = g
				k.FuncsSeen[g] = true
			}
		}
	}
	upd := eng.CallSet(fn, eng.Static("(*store/datas.database).update"))
	noHead := eng.CondEdges(fn, `^call:\(store/datas\.Dataset\)\.MaybeHeadAddr\(.*\)#1$`, false)
	if noHead.Len() < 1 {
		k.Unknown("ff-ancestor-check", eng.Name(fn), "the branch on `dataset has a head`", "no If on the ok result of Dataset.MaybeHeadAddr")
	}
	found := eng.CondEdges(fn, `^call:store/datas\.FindCommonAncestor\(.*\)#1$`, true)
	// "current head != common ancestor", inline or through a helper whose body is `return a != b` (mergeNeeded today)
	mHeadAddr, mFCA := eng.Static("(store/datas.Dataset).MaybeHeadAddr"), eng.Static("store/datas.FindCommonAncestor")
	isCur := func(v ssa.Value) bool { return c39fromCall(v, mHeadAddr) && !c39fromCall(v, mFCA) }
	isAnc := func(v ssa.Value) bool { return c39fromCall(v, mFCA) }
	notNeeded := eng.NewSet()
	nCmp := 0
	for _, b := range fn.Blocks {
		if len(b.Instrs) == 0 {
			continue
		}
		iff, ok := b.Instrs[len(b.Instrs)-1].(*ssa.If)
		if !ok {
			continue
		}
		cond, neg := iff.Cond, false
		for {
			u, ok := cond.(*ssa.UnOp)
			if !ok || u.Op != token.NOT {
				break
			}
			cond, neg = u.X, !neg
		}
		var x, y ssa.Value
		neq := true
		switch c := cond.(type) {
		case *ssa.Call:
			if C20IsNeqHelper(c.Call.StaticCallee()) && len(c.Call.Args) == 2 {
				x, y = c.Call.Args[0], c.Call.Args[1]
			}
		case *ssa.BinOp:
			if c.Op == token.NEQ || c.Op == token.EQL {
				x, y, neq = c.X, c.Y, c.Op == token.NEQ
			}
		}
		if x == nil || eng.ShortType(x.Type()) != "store/hash.Hash" || !(isAnc(x) || isAnc(y)) {
			continue
		}
		nCmp++
		ok = (isCur(x) && isAnc(y)) || (isCur(y) && isAnc(x))
		k.Require("ff-ancestor-check", eng.Name(fn)+"#operands", "the ancestry test compares the dataset's current head with the common ancestor", ok, k.C.InstrPos(iff), "operands are not (current head address, FindCommonAncestor result)")
		if !ok {
			continue
		}
		// the edge on which the two are equal
		eqSucc := 1
		if !neq {
			eqSucc = 0
		}
		if neg {
			eqSucc = 1 - eqSucc
		}
		notNeeded.AddE(eng.Edge{From: b, Succ: eqSucc})
	}
	if nCmp < 1 {
		k.Unknown("ff-ancestor-check", eng.Name(fn)+"#operands", "a comparison involving the common ancestor", "none found (confirmed floor 1)")
	}
	if fn == top && upd.Len() > 0 {
		k.OnlyAfter("ff-ancestor-check", fn, "the dataset map is edited only when the dataset has no head or a common ancestor was found", upd, 1, eng.UnionOf(noHead, found))
		k.OnlyAfter("ff-ancestor-check", fn, "the dataset map is edited only when the dataset has no head or mergeNeeded(current head, common ancestor) is false", upd, 1, eng.UnionOf(noHead, notNeeded))
	} else {
		updF := func(g *ssa.Function) *eng.Set { return eng.CallSet(g, eng.Static("(*store/datas.database).update")) }
		only := func(s *eng.Set) eng.FamSets {
			return func(g *ssa.Function) *eng.Set {
				if g == fn {
					return s
				}
				return eng.NewSet()
			}
		}
		k.OnlyAfterFam("ff-ancestor-check", fam, "the dataset map is edited only when the dataset has no head or a common ancestor was found", updF, 1, only(eng.UnionOf(noHead, found)))
		k.OnlyAfterFam("ff-ancestor-check", fam, "the dataset map is edited only when the dataset has no head or mergeNeeded(current head, common ancestor) is false", updF, 1, only(eng.UnionOf(noHead, notNeeded)))
	}
	for _, ci := range eng.Calls(fn, eng.Static("store/datas.FindCommonAncestor"), false) {
		a := ci.Common().Args
		ok := len(a) >= 3 && c39fromCall(a[1], eng.Static("(store/datas.Dataset).MaybeHead")) && eng.Slice(a[2], true, func(v ssa.Value) bool {
			p, isP := v.(*ssa.Parameter)
			return isP && eng.ShortType(p.Type()) == "store/hash.Hash"
		})
		k.Require("ff-ancestor-check", eng.Name(fn)+"#ancestor-of", "the common ancestor is computed between the dataset's current head and the new head address", ok, k.C.InstrPos(ci.(ssa.Instruction)), "FindCommonAncestor operands are not (current head commit, commit at the new head address)")
	}
	// the hooks wrapper and DoltDB use this path
	if f := k.Fn("(*store/datas.database).FastForward"); f != nil {
		k.OnlyAfter("ff-ancestor-check", f, "database.FastForward succeeds only through doFastForward", eng.SuccessExits(f), 1, c35litOrDirect(k, f, eng.Static("(*store/datas.database).doFastForward")))
	}
}

// c35litOrDirect: OkCalls of m in fn, plus calls in fn that take a literal of fn which must pass m
// (e.g. db.doHeadUpdate(ctx, ds, func(ds) error { return db.doFastForward(...) })).
func c35litOrDirect(k *eng.Check, fn *ssa.Function, m eng.CallM) *eng.Set {
	s := k.OkCalls(fn, "c35lit:"+eng.Name(fn), m)
	for _, b := range fn.Blocks {
		for _, in := range b.Instrs {
			call, ok := in.(*ssa.Call)
			if !ok {
				continue
			}
			for _, a := range call.Call.Args {
				if mc, ok := a.(*ssa.MakeClosure); ok {
					if lit, ok := mc.Fn.(*ssa.Function); ok && k.C.MustPass(lit, "c35lit:"+eng.Name(fn), m, 3) {
						s.Union(eng.OkCut(call))
					}
				}
			}
		}
	}
	return s
}

// c35goLits: the literals handed to errgroup.Group.Go in fn.
func c35goLits(fn *ssa.Function) []*ssa.Function {
	var out []*ssa.Function
	for _, ci := range eng.Calls(fn, c35mEgGo, false) {
		for _, a := range ci.Common().Args {
			if mc, ok := a.(*ssa.MakeClosure); ok {
				if f, ok := mc.Fn.(*ssa.Function); ok {
					out = append(out, f)
				}
			} else if f, ok := a.(*ssa.Function); ok {
				out = append(out, f)
			}
		}
	}
	return out
}

func c35pullChain(k *eng.Check) {
	c := k.C
	// DoltDB.PullChunks -> pullHash -> Puller.Pull
	if fn := k.Fn(c35DoltDB + "PullChunks"); fn != nil {
		k.OnlyAfter("pullchunks-runs-puller", fn, "PullChunks returns nil only if pullHash did", eng.SuccessExits(fn), 1, k.OkCalls(fn, "pullHash", eng.Static(c35doltdb+".pullHash")))
	}
	if fn := k.Fn(c35doltdb + ".pullHash"); fn != nil {
		cuts := k.OkCalls(fn, "Pull", eng.Static("(*"+c35pull+".Puller).Pull"))
		upToDate := eng.CondEdges(fn, `^\(call:store/datas/pull\.NewPuller\(.*\)#1 == \*global:store/datas/pull\.ErrDBUpToDate\)$`, true)
		k.OnlyAfter("pullchunks-runs-puller", fn, "pullHash returns nil only after Puller.Pull returned nil or NewPuller reported that the destination already has the targets", eng.SuccessExits(fn), 2, eng.UnionOf(cuts, upToDate))
	}
	// Puller.Pull waits for all its goroutines, two of which return the writer's and the chunk loop's errors
	if fn := k.Fn("(*" + c35pull + ".Puller).Pull"); fn != nil {
		k.OnlyAfter("pull-waits-all", fn, "Pull returns nil only if errgroup.Wait returned nil", eng.SuccessExits(fn), 1, k.OkCalls(fn, "egwait", c35mEgWait))
		mRun := eng.Static("(*" + c35pull + ".PullTableFileWriter).Run")
		mAdd := eng.Static("(*" + c35pull + ".PullTableFileWriter).AddToChunker")
		runs, loops := 0, 0
		for _, lit := range c35goLits(fn) {
			if len(eng.Calls(lit, mRun, false)) > 0 {
				runs++
				k.OnlyAfter("pull-waits-all", lit, "the goroutine running the table-file writer returns nil only if Run did", eng.SuccessExits(lit), 1, k.OkCalls(lit, "wrRun", mRun))
			}
			adds := eng.CallSet(lit, mAdd)
			if adds.Len() == 0 {
				continue
			}
			loops++
			k.OnlyAfter("pull-missing-chunk-is-error", lit, "a fetched chunk is handed to the writer only on the IsEmpty()==false edge", adds, 1, eng.CondEdges(lit, `^call:iface:store/nbs\.ToChunker\.IsEmpty\(`, false))
			// ... and the IsEmpty()==true edge ends the pull with an error: neither a success exit nor the next Recv is reachable from it
			empty := eng.CondEdges(lit, `^call:iface:store/nbs\.ToChunker\.IsEmpty\(`, true)
			if empty.Len() < 1 {
				k.Unknown("pull-missing-chunk-is-error", eng.Name(lit), "the branch on ToChunker.IsEmpty", "not found")
			} else {
				var starts []eng.Point
				for e := range empty.E {
					starts = append(starts, eng.Point{B: e.To(), I: 0})
				}
				next := eng.UnionOf(eng.SuccessExits(lit), adds, eng.CallSet(lit, eng.Named(`^iface:store/nbs\.ChunkFetcher\.Recv$`)))
				k.OnlyAfter("pull-missing-chunk-is-error", lit, "a chunk the source did not deliver ends the pull with an error (no success exit, no next chunk)", next, 3, eng.NewSet(), starts...)
			}
			walked := eng.NewSet()
			for _, ci := range eng.Calls(lit, func(ci ssa.CallInstruction) bool {
				return !ci.Common().IsInvoke() && ci.Common().StaticCallee() == nil && eng.FromField(ci.Common().Value, c35pull+".Puller.waf")
			}, false) {
				walked.Union(eng.OkCut(ci))
			}
			k.OnlyAfter("pull-walk-before-write", lit, "a fetched chunk is handed to the writer only after its addresses were walked without error", adds, 1, walked)
			// every received chunk is either an error exit or reaches the writer: AddToChunker error is returned
			for in := range adds.I {
				k.Require("pull-walk-before-write", eng.Name(lit)+"#AddToChunker-error", "the writer's refusal of a chunk is an error of the pull", eng.ErrConsumed(in.(ssa.CallInstruction)) && eng.OkCut(in.(ssa.CallInstruction)).Len() > 0, c.InstrPos(in), "AddToChunker error dropped")
			}
		}
		if runs != 1 || loops != 1 {
			k.Unknown("pull-waits-all", eng.Name(fn), "one errgroup goroutine runs the writer and one feeds it", fmt.Sprintf("found %d/%d", runs, loops))
		}
	}
	// writer
	mFinal := eng.Static("(*" + c35pull + ".PullTableFileWriter).uploadAndFinalizeThread")
	if fn := k.Fn("(*" + c35pull + ".PullTableFileWriter).Run"); fn != nil {
		// Run continues (drains a channel) after Wait: every value it may return with a possibly-nil error is the Wait result
		waits := eng.Calls(fn, c35mEgWait, false)
		for _, v := range eng.ReturnedValues(fn, eng.SuccessExits(fn), 0) {
			ok := false
			for _, w := range waits {
				if wv, isV := w.(*ssa.Call); isV && c39fromValue(v, wv) {
					ok = true
				}
			}
			k.Require("writer-run-waits", eng.Name(fn)+"#returned", "the error returned by Run is the errgroup.Wait result", ok, c.Pos(fn.Pos()), "Run may return "+eng.Desc(v, 3)+" instead of the Wait error")
		}
		n := 0
		for _, lit := range c35goLits(fn) {
			if len(eng.Calls(lit, mFinal, false)) > 0 {
				n++
				k.OnlyAfter("writer-run-waits", lit, "the upload goroutine returns nil only if uploadAndFinalizeThread did", eng.SuccessExits(lit), 1, k.OkCalls(lit, "final", mFinal))
			}
		}
		if n != 1 {
			k.Unknown("writer-run-waits", eng.Name(fn), "one errgroup goroutine runs uploadAndFinalizeThread", fmt.Sprintf("found %d", n))
		}
	}
	mManifest := eng.Named(`^iface:.*\.AddTableFilesToManifest$`)
	mWrite := eng.Named(`^iface:.*\.WriteTableFile$`)
	mUploads := eng.Static("(*" + c35pull + ".PullTableFileWriter).uploadFilesAndAccumulateUpdates")
	if fn := k.Fn("(*" + c35pull + ".PullTableFileWriter).uploadAndFinalizeThread"); fn != nil {
		k.OnlyAfter("puller-manifest-after-uploads", fn, "AddTableFilesToManifest on the destination is reachable only after all uploads were collected without error", eng.CallSet(fn, mManifest), 1, k.OkCalls(fn, "uploads", mUploads))
		k.OnlyAfter("puller-manifest-after-uploads", fn, "the finalize thread returns nil only after all uploads were collected without error", eng.SuccessExits(fn), 1, k.OkCalls(fn, "uploads", mUploads))
		k.OnlyAfter("puller-manifest-after-uploads", fn, "success only after the manifest update returned nil, or nothing was uploaded", eng.SuccessExits(fn), 1,
			eng.UnionOf(k.OkCalls(fn, "manifest", mManifest), eng.CondEdges(fn, `^\(call:builtin:len\(call:\(\*store/datas/pull\.PullTableFileWriter\)\.uploadFilesAndAccumulateUpdates\(.*\)#0\) == const:0\)$`, true)))
	}
	mThread := eng.Static("(*" + c35pull + ".PullTableFileWriter).uploadThread")
	if fn := k.Fn("(*" + c35pull + ".PullTableFileWriter).uploadFilesAndAccumulateUpdates"); fn != nil {
		k.OnlyAfter("puller-uploads-waited", fn, "the manifest update set is returned only after errgroup.Wait returned nil", eng.SuccessExits(fn), 1, k.OkCalls(fn, "egwait", c35mEgWait))
		n := 0
		for _, lit := range c35goLits(fn) {
			if len(eng.Calls(lit, mThread, false)) > 0 {
				n++
				k.OnlyAfter("puller-uploads-waited", lit, "an upload goroutine returns nil only if uploadThread did", eng.SuccessExits(lit), 1, k.OkCalls(lit, "thread", mThread))
			}
		}
		if n < 1 {
			k.Unknown("puller-uploads-waited", eng.Name(fn), "errgroup goroutines run uploadThread", "none found")
		}
	}
	if fn := k.Fn("(*" + c35pull + ".PullTableFileWriter).uploadThread"); fn != nil {
		sends := eng.NewSet()
		isResp := func(ch ssa.Value) bool {
			t, ok := ch.Type().Underlying().(*types.Chan)
			return ok && strings.HasSuffix(eng.ShortType(t.Elem()), c35pull+".tempTblFile")
		}
		for _, b := range fn.Blocks {
			for _, in := range b.Instrs {
				switch x := in.(type) {
				case *ssa.Send:
					if isResp(x.Chan) {
						sends.AddI(x)
					}
				case *ssa.Select:
					for _, st := range x.States {
						if st.Dir == types.SendOnly && isResp(st.Chan) {
							sends.AddI(x)
						}
					}
				}
			}
		}
		k.OnlyAfter("puller-send-after-write", fn, "a table file is announced for the manifest update only after WriteTableFile on the destination returned nil", sends, 1, k.OkCalls(fn, "wtf", mWrite))
	}
	// nothing else in package pull writes a destination manifest or root
	owners := map[string]string{
		"(*" + c35pull + ".PullTableFileWriter).uploadAndFinalizeThread": "puller: manifest after uploads",
		c35pull + ".clone": "clone: manifest after downloads, then root",
	}
	mRootOrManifest := eng.Named(`^iface:.*\.(AddTableFilesToManifest|Commit)$`)
	n := 0
	for _, fn := range c.Funcs(c35pull) {
		for _, ci := range eng.Calls(fn, mRootOrManifest, true) {
			n++
			name := eng.Name(eng.Outermost(fn))
			_, ok := owners[name]
			k.Require("pull-manifest-writers", name+"#"+eng.CalleeName(ci), "only the finalize thread and clone write a destination manifest or root in package pull", ok && fn.Parent() == nil, c.InstrPos(ci.(ssa.Instruction)), "new writer of the destination manifest/root")
		}
	}
	if n < 3 {
		k.Unknown("pull-manifest-writers", c35pull, "manifest/root writes in package pull", fmt.Sprintf("found %d, confirmed floor 3", n))
	}
}

func c35cloneRules(k *eng.Check) {
	c := k.C
	fn := k.Fn(c35pull + ".clone")
	if fn == nil {
		return
	}
	mManifest := eng.Named(`^iface:.*\.AddTableFilesToManifest$`)
	mCommit := eng.Named(`^iface:.*\.Commit$`)
	mWrite := eng.Named(`^iface:.*\.WriteTableFile$`)
	k.OnlyAfter("clone-root-after-manifest", fn, "the destination root is moved only after AddTableFilesToManifest returned nil", eng.CallSet(fn, mCommit), 1, k.OkCalls(fn, "manifest", mManifest))
	// download(ctx) = a literal of clone that returns errgroup.Wait()
	dl := eng.NewSet()
	nDl := 0
	var workers []*ssa.Function
	for _, lit := range fn.AnonFuncs {
		if !c.MustPass(lit, "egwait", c35mEgWait, 2) || len(eng.Calls(lit, c35mEgGo, false)) == 0 {
			continue
		}
		workers = append(workers, c35goLits(lit)...)
		for _, ci := range eng.Calls(fn, func(ci ssa.CallInstruction) bool { return ci.Common().StaticCallee() == lit }, false) {
			nDl++
			dl.Union(eng.OkCut(ci))
		}
	}
	if nDl < 1 || len(workers) < 1 {
		k.Unknown("clone-manifest-after-download", eng.Name(fn), "the download step (a literal that starts errgroup goroutines and returns Wait)", fmt.Sprintf("found %d calls, %d worker literals", nDl, len(workers)))
	}
	k.OnlyAfter("clone-manifest-after-download", fn, "AddTableFilesToManifest is reachable only after the download step returned nil", eng.CallSet(fn, mManifest), 1, dl)
	for _, w := range workers {
		exits := eng.SuccessExits(w)
		// a return of backoff.Permanent(err) is an error exit (dependency without body)
		for in := range exits.I {
			if r, ok := in.(*ssa.Return); ok && len(r.Results) > 0 {
				if cv, ok := r.Results[len(r.Results)-1].(*ssa.Call); ok && cv.Call.StaticCallee() != nil && eng.Name(cv.Call.StaticCallee()) == "github.com/cenkalti/backoff/v4.Permanent" {
					delete(exits.I, in)
				}
			}
		}
		// (with a named result the value is spilled first: the path past a backoff.Permanent call is an error path)
		perm := eng.CallSet(w, eng.Static("github.com/cenkalti/backoff/v4.Permanent"))
		k.OnlyAfter("clone-file-written-before-complete", w, "a download goroutine reports success only after WriteTableFile on the destination returned nil", exits, 1, eng.UnionOf(k.OkCalls(w, "wtf", mWrite), perm))
	}
}

func c35server(k *eng.Check) {
	c := k.C
	const pkg = "libraries/doltcore/remotesrv"
	mManifest := eng.Named(`^iface:.*\.AddTableFilesToManifest$`)
	mCommit := eng.Named(`^iface:(` + pkg + `\.RemoteSrvStore|store/chunks\.ChunkStore|store/chunks\.TableFileStore)\.Commit$`)
	if fn := k.Fn("(*" + pkg + ".RemoteChunkStore).Commit"); fn != nil {
		commits := eng.Calls(fn, mCommit, false)
		k.OnlyAfter("srv-commit-after-manifest", fn, "the root compare-and-set is reached only after the uploaded table files were added to the manifest without error", eng.CallSet(fn, mCommit), 1, k.OkCalls(fn, "manifest", mManifest))
		for _, ci := range commits {
			a := c39args(ci)
			fromField := func(v ssa.Value, f string) bool {
				return eng.Slice(v, true, func(x ssa.Value) bool { return strings.HasSuffix(eng.FieldName(x), "CommitRequest."+f) })
			}
			ok := len(a) == 3 && fromField(a[1], "Current") && !fromField(a[1], "Last") && fromField(a[2], "Last") && !fromField(a[2], "Current")
			k.Require("srv-commit-cas-args", eng.Name(fn), "the store CAS receives (request.Current, request.Last) in that order", ok, c.InstrPos(ci.(ssa.Instruction)), "CAS arguments are not derived from the request's Current and Last fields in order")
		}
		// reported Success is the CAS verdict
		sts := eng.FieldStores(fn, `CommitResponse$`, "Success")
		if len(sts) < 1 || len(commits) < 1 {
			k.Unknown("srv-commit-reports-verdict", eng.Name(fn), "store to CommitResponse.Success", "none found")
		}
		for _, st := range sts {
			ok := false
			for _, ci := range commits {
				if cv, isV := ci.(*ssa.Call); isV && c39fromValue(st.(*ssa.Store).Val, cv) {
					ok = true
				}
			}
			k.Require("srv-commit-reports-verdict", eng.Name(fn), "CommitResponse.Success is the store's compare-and-set verdict", ok, c.InstrPos(st), "Success is not derived from the Commit result")
		}
		k.OnlyAfter("srv-commit-reports-verdict", fn, "a CommitResponse is returned only after the store Commit returned a nil error", eng.SuccessExits(fn), 1, k.OkCalls(fn, "commit", mCommit))
	}
	if fn := k.Fn("(*" + pkg + ".RemoteChunkStore).AddTableFiles"); fn != nil {
		k.OnlyAfter("srv-addfiles-after-manifest", fn, "AddTableFiles answers success only after AddTableFilesToManifest returned nil", eng.SuccessExits(fn), 1, k.OkCalls(fn, "manifest", mManifest))
	}
	owners := map[string]bool{"(*" + pkg + ".RemoteChunkStore).Commit": true, "(*" + pkg + ".RemoteChunkStore).AddTableFiles": true}
	n := 0
	for _, fn := range c.Funcs(pkg) {
		for _, ci := range eng.Calls(fn, eng.AnyOf(mManifest, mCommit), true) {
			n++
			name := eng.Name(eng.Outermost(fn))
			ok := owners[name] && fn.Parent() == nil
			if mCommit(ci) && name != "(*"+pkg+".RemoteChunkStore).Commit" {
				ok = false
			}
			k.Require("srv-root-writers", name+"#"+eng.CalleeName(ci), "only the Commit and AddTableFiles handlers write the store's root/manifest", ok, c.InstrPos(ci.(ssa.Instruction)), "new writer of root or manifest in the remote server")
		}
	}
	if n < 3 {
		k.Unknown("srv-root-writers", pkg, "root/manifest writes in the remote server", fmt.Sprintf("found %d, confirmed floor 3", n))
	}
}

func c35client(k *eng.Check) {
	c := k.C
	mRPC := func(m string) eng.CallM {
		return eng.Named(`^iface:gen/proto/dolt/services/remotesapi/v1alpha1\.ChunkStoreServiceClient\.` + m + `$`)
	}
	if fn := k.Fn("(*" + c35rstore + ".DoltChunkStore).Commit"); fn != nil {
		rpcs := eng.Calls(fn, mRPC("Commit"), false)
		k.OnlyAfter("client-commit-after-upload", fn, "the Commit RPC is sent only after the buffered chunks were uploaded without error", eng.CallSet(fn, mRPC("Commit")), 1,
			k.OkCalls(fn, "upload", eng.Static("(*"+c35rstore+".DoltChunkStore).uploadChunks")))
		// request fields
		var hashParams []*ssa.Parameter
		for _, p := range fn.Params {
			if eng.ShortType(p.Type()) == "store/hash.Hash" {
				hashParams = append(hashParams, p)
			}
		}
		if len(hashParams) != 2 {
			k.Unknown("client-commit-cas-args", eng.Name(fn), "the (current, last) hash parameters", fmt.Sprintf("found %d hash parameters", len(hashParams)))
		} else {
			for i, fld := range []string{"Current", "Last"} {
				sts := eng.FieldStores(fn, `CommitRequest$`, fld)
				if len(sts) < 1 {
					k.Unknown("client-commit-cas-args", eng.Name(fn)+"#"+fld, "store to CommitRequest."+fld, "none found")
				}
				for _, st := range sts {
					v := st.(*ssa.Store).Val
					k.Require("client-commit-cas-args", eng.Name(fn)+"#"+fld, "CommitRequest."+fld+" carries the corresponding argument of ChunkStore.Commit(current, last)", c35fromValueA(v, hashParams[i]) && !c35fromValueA(v, hashParams[1-i]), c.InstrPos(st), "request field is not derived from the matching parameter")
				}
			}
		}
		// returned verdict
		exits := eng.SuccessExits(fn)
		vals := eng.ReturnedValues(fn, exits, 0)
		if len(vals) < 1 {
			k.Unknown("client-commit-reports-verdict", eng.Name(fn), "success exits", "none found")
		}
		for _, v := range vals {
			ok := eng.Slice(v, true, func(x ssa.Value) bool { return strings.HasSuffix(eng.FieldName(x), "CommitResponse.Success") })
			k.Require("client-commit-reports-verdict", eng.Name(fn), "the success flag returned with a nil error is the server's CommitResponse.Success", ok, c.Pos(fn.Pos()), "returned flag "+eng.Desc(v, 3)+" is not derived from the response")
		}
		okRPC := eng.NewSet()
		for _, r := range rpcs {
			okRPC.Union(eng.OkCut(r))
		}
		k.OnlyAfter("client-commit-reports-verdict", fn, "a nil error is returned only after the Commit RPC returned nil", exits, 1, okRPC)
	}
	if fn := k.Fn("(*" + c35rstore + ".DoltChunkStore).AddTableFilesToManifest"); fn != nil {
		exits := eng.SuccessExits(fn)
		k.OnlyAfter("client-addfiles-checks-success", fn, "nil is returned only after the AddTableFiles RPC returned nil", exits, 1, k.OkCalls(fn, "rpc", mRPC("AddTableFiles")))
		succ := eng.NewSet()
		for _, iff := range c39ifs(fn) {
			ld, ok := iff.Cond.(*ssa.UnOp)
			if ok && strings.HasSuffix(eng.FieldName(ld.X), "AddTableFilesResponse.Success") {
				succ.AddE(c39edge(iff, true))
			}
		}
		k.OnlyAfter("client-addfiles-checks-success", fn, "nil is returned only on the response.Success==true edge", exits, 1, succ)
	}
	if fn := k.Fn("(*" + c35rstore + ".DoltChunkStore).WriteTableFile"); fn != nil {
		k.OnlyAfter("client-write-after-upload", fn, "WriteTableFile returns nil only after the upload (with retries) returned nil", eng.SuccessExits(fn), 1,
			k.OkCalls(fn, "upload", eng.Static("(*"+c35rstore+".DoltChunkStore).uploadTableFileWithRetries")))
	}
}

// c35fromValueA is c39fromValue that also looks through local variables whose address is
// taken (`x[:]` of an array parameter copies the parameter into an alloc first).
func c35fromValueA(v, target ssa.Value) bool {
	seen := map[ssa.Value]bool{}
	var walk func(v ssa.Value) bool
	walk = func(v ssa.Value) bool {
		return eng.Slice(v, true, func(x ssa.Value) bool {
			if x == target {
				return true
			}
			a, ok := x.(*ssa.Alloc)
			if !ok || seen[a] || a.Referrers() == nil {
				return false
			}
			seen[a] = true
			for _, ref := range *a.Referrers() {
				if st, ok := ref.(*ssa.Store); ok && st.Addr == ssa.Value(a) && walk(st.Val) {
					return true
				}
			}
			return false
		})
	}
	return walk(v)
}
