package rules

import (
	"fmt"
	"regexp"
	"sort"
	"strings"

	"dvcheck/internal/eng"

	"golang.org/x/tools/go/ssa"
)

func init() {
	Registry["C22"] = &Rule{
		Explanation: "Decides the WIRING of the transaction snapshot, not isolation under concurrent schedules. " +
			"(1) tx-snapshot-recorded: NewDoltTransaction and DoltTransaction.AddDb record, per database, dbRoot.rootHash = that database's DoltDB.NomsRoot() (error-checked) together with the same DoltDB; GetInitialRoot answers the rootHash field of the dbStartPoints entry. " +
			"(2) tx-root-is-snapshot: dsess.TransactionRoot answers GetInitialRoot's hash whenever the context carries a *DoltTransaction and reads the live NomsRoot only on the no-transaction edge. " +
			"(3) branch-state-at-tx-root: sqle.initialStateForBranchDb (the loader of every branch head a session touches) resolves HeadCommit with ResolveCommitRefAtRoot and WorkingSet with ResolveWorkingSetAtRoot, both at the error-checked TransactionRoot(ctx, srcDb) and for the branch ref of srcDb.Revision(); it calls no live resolver. sqle.resolveAsOfCommitRef resolves AS OF references with ResolveByNomsRoot at TransactionRoot(ctx, db). " +
			"(4) tx-start-resets-state: in DoltSession.StartTransaction the session state is (re)loaded (lookupDbState / setDbSessionVars / CurrentHead) only after NewDoltTransaction returned nil, after a clear() that follows it and after ctx.SetTransaction(that transaction); the transaction answered is that same one; clear() deletes every branch head of every database state. " +
			"(5) session-reads-are-cached: DoltSession.lookupDbState answers the cached branchState on the cache-hit edge without consulting the provider or re-adding the database; GetRoots / WorkingSet / GetHeadCommit / branchState.roots read only that state (no DoltDB call). " +
			"(6) no-live-resolve-on-read-path: in the static closure (package dsess) of the session-state accessors, DoltDB methods that read the CURRENT store state (Resolve*, NomsRoot, ...; the *AtRoot / *ByNomsRoot forms are pinned) are called only from a frozen set of functions, one reason each. " +
			"It does NOT decide: go-mysql-server's use of the session (interface dispatch), atomicity of the commit path (C-other), isolation of table functions and AS OF <timestamp> (both resolve HEAD live, see REPORT), auto-increment/global state (deliberately cross-session), nor any schedule-dependent behaviour.",
		RuleText:    "struct-field store tables with provenance chains, cut-reachability on the SSA CFG from type-assertion / map-lookup edges, who-may-call over a static closure with a frozen allowlist",
		Assumptions: []string{"DoltDB.ResolveWorkingSetAtRoot / ResolveCommitRefAtRoot / ResolveByNomsRoot read the dataset map of the given root hash and nothing newer", "a noms root hash identifies an immutable snapshot of all refs and working sets of one database", "every read of a branch head by go-mysql-server goes through DoltSession.LookupDbState / GetRoots"},
		Patterns:    []string{"./libraries/doltcore/sqle/dsess", "./libraries/doltcore/sqle"},
		Run:         runC22,
	}
}

const (
	c22Dsess  = "libraries/doltcore/sqle/dsess"
	c22Sqle   = "libraries/doltcore/sqle"
	c22Doltdb = "libraries/doltcore/doltdb"
	c22DbRoot = c22Dsess + ".dbRoot"
	c22Tx     = c22Dsess + ".DoltTransaction"
	c22Init   = c22Dsess + ".InitialDbState"
)

var (
	c22mNomsRoot   = eng.Static("(*" + c22Doltdb + ".DoltDB).NomsRoot")
	c22mDbData     = eng.Method(`(^|/)sqle(/dsess)?\.\w*Database$`, "DbData")
	c22mInitial    = eng.Static("(" + c22Tx + ").GetInitialRoot")
	c22mTxRoot     = eng.Static(c22Dsess + ".TransactionRoot")
	c22mNewTx      = eng.Static(c22Dsess + ".NewDoltTransaction")
	c22mClear      = eng.Static("(*" + c22Dsess + ".DoltSession).clear")
	c22mLookup     = eng.Static("(*"+c22Dsess+".DoltSession).lookupDbState", "(*"+c22Dsess+".DoltSession).LookupDbState")
	c22mAddDB      = eng.Static("(*" + c22Dsess + ".DoltSession).addDB")
	c22mSetTx      = eng.Named(`^iface:github\.com/dolthub/go-mysql-server/sql\.Session\.SetTransaction$|^\(\*github\.com/dolthub/go-mysql-server/sql\.Context\)\.SetTransaction$`)
	c22mRevision   = eng.Method(`(^|/)sqle(/dsess)?\.\w*Database$`, "Revision")
	c22mBranchRef  = eng.Static("libraries/doltcore/ref.NewBranchRef")
	c22mWsRef      = eng.Static("libraries/doltcore/ref.WorkingSetRefForHead")
	c22mCommitAt   = eng.Static("(*" + c22Doltdb + ".DoltDB).ResolveCommitRefAtRoot")
	c22mWsAt       = eng.Static("(*" + c22Doltdb + ".DoltDB).ResolveWorkingSetAtRoot")
	c22mByNomsRoot = eng.Static("(*" + c22Doltdb + ".DoltDB).ResolveByNomsRoot")
	// DoltDB methods that read the store's current state (the pinned forms end in AtRoot / ByNomsRoot)
	c22LiveRe = regexp.MustCompile(`^\(\*libraries/doltcore/doltdb\.DoltDB\)\.(Resolve|ResolveCommitRef|ResolveWorkingSet|ResolveBranchRoots|ResolveTag|ResolveParent|ResolveHash|ResolveAllParents|ReadCommit|NomsRoot|GetBranches|GetBranchesByNomsRoot|GetHeadRefs|GetWorkingSets|HasBranch|HasRef|GetRefByNameInsensitive|BranchByNameInsensitive)$`)
)

func c22Live(c ssa.CallInstruction) bool {
	f := c.Common().StaticCallee()
	return f != nil && c22LiveRe.MatchString(eng.Name(f)) && !strings.HasSuffix(f.Name(), "ByNomsRoot")
}

func runC22(k *eng.Check, tier string) {
	c22SnapshotRecorded(k)
	c22TxRoot(k)
	c22BranchStateAtRoot(k)
	c22StartResets(k)
	c22CachedReads(k)
	c22NoLiveResolve(k)
}

func c22HashT() string { return "store/hash.Hash" }

// (1)
func c22SnapshotRecorded(k *eng.Check) {
	for _, fname := range []string{c22Dsess + ".NewDoltTransaction", "(" + c22Tx + ").AddDb"} {
		fn := k.Fn(fname)
		if fn == nil {
			continue
		}
		name := eng.Name(fn)
		// the start point may be built by a helper of this package (one level)
		holder := fn
		if len(eng.FieldStoresOf(fn, c22DbRoot+".rootHash")) == 0 {
			for _, call := range eng.Calls(fn, func(ssa.CallInstruction) bool { return true }, false) {
				if g := call.Common().StaticCallee(); g != nil && len(g.Blocks) > 0 && len(eng.FieldStoresOf(g, c22DbRoot+".rootHash")) > 0 {
					holder = g
					k.FuncsSeen[g] = true
				}
			}
		}
		roots := eng.Calls(holder, c22mNomsRoot, false)
		hs := eng.FieldStoresOf(holder, c22DbRoot+".rootHash")
		dbs := eng.FieldStoresOf(holder, c22DbRoot+".db")
		if len(roots) < 1 || len(hs) < 1 || len(dbs) < 1 {
			k.Unknown("tx-snapshot-recorded", name, "the NomsRoot call and the rootHash / db fields of the start point", fmt.Sprintf("%d / %d / %d found (confirmed floor 1 / 1 / 1)", len(roots), len(hs), len(dbs)))
			continue
		}
		// the DoltDB whose root is read
		// the database value whose DbData().Ddb a value is read from
		ddbOf := func(v ssa.Value) ssa.Value {
			var out ssa.Value
			eng.Slice(v, false, func(x ssa.Value) bool {
				call, _, ok := eng.CallOfResult(x)
				if !ok || !c22mDbData(call) {
					return false
				}
				if call.Common().IsInvoke() {
					out = eng.Origin(call.Common().Value)
				} else if len(call.Common().Args) > 0 {
					out = eng.Origin(call.Common().Args[0])
				}
				return true
			})
			return out
		}
		for _, st := range hs {
			var src ssa.CallInstruction
			for _, r := range roots {
				if eng.ResultOf(st.Val, r, 0) {
					src = r
				}
			}
			k.Require("tx-snapshot-recorded", name+"#rootHash", "the start point of a database is the noms root read from its DoltDB when the transaction (or the late registration) begins", src != nil, c22Pos(k, st), "dbRoot.rootHash is not the result of DoltDB.NomsRoot: "+eng.Desc(st.Val, 3))
			if src == nil {
				continue
			}
			rootDb := ddbOf(src.Common().Args[0])
			for _, ds := range dbs {
				sameLit := false
				if a, ok := st.Addr.(*ssa.FieldAddr); ok {
					if b, ok := ds.Addr.(*ssa.FieldAddr); ok && a.X == b.X {
						sameLit = true
					}
				}
				if !sameLit {
					continue
				}
				other := ddbOf(ds.Val)
				k.Require("tx-snapshot-recorded", name+"#same-database", "the start point keeps the DoltDB whose root it recorded", rootDb != nil && other != nil && sameDbValue(rootDb, other), c22Pos(k, ds), "rootHash and db of one start point come from different databases")
			}
			ins := eng.NewSet()
			for _, in := range eng.Instrs(fn, func(in ssa.Instruction) bool { _, ok := in.(*ssa.MapUpdate); return ok }) {
				ins.AddI(in)
			}
			k.OnlyAfter("tx-snapshot-recorded", fn, "a start point is recorded only after NomsRoot returned nil", ins, 1, k.OkCalls(fn, "c22noms", c22mNomsRoot))
		}
	}
	if fn := k.Fn("(" + c22Tx + ").GetInitialRoot"); fn != nil {
		n := 0
		for in := range c18uReturns(fn).I {
			ret := in.(*ssa.Return)
			n++
			ok := len(ret.Results) >= 1 && eng.FromField(ret.Results[0], c22DbRoot+".rootHash") && eng.Mentions(ret.Results[0], func(x ssa.Value) bool {
				lk, isL := x.(*ssa.Lookup)
				return isL && eng.FromField(lk.X, c22Tx+".dbStartPoints")
			})
			k.Require("tx-snapshot-recorded", eng.Name(fn), "GetInitialRoot answers the rootHash recorded in dbStartPoints", ok, c22Pos(k, ret), "the hash answered is not dbStartPoints[..].rootHash")
		}
		if n < 1 {
			k.Unknown("tx-snapshot-recorded", eng.Name(fn), "a return", "none found")
		}
	}
}

func sameDbValue(a, b ssa.Value) bool {
	if a == b {
		return true
	}
	// two reads of the same slice element / parameter
	ua, ok1 := a.(*ssa.UnOp)
	ub, ok2 := b.(*ssa.UnOp)
	if ok1 && ok2 {
		ia, ok1 := ua.X.(*ssa.IndexAddr)
		ib, ok2 := ub.X.(*ssa.IndexAddr)
		if ok1 && ok2 && ia.Index == ib.Index && eng.Origin(ia.X) == eng.Origin(ib.X) {
			return true
		}
	}
	return false
}

func c22Pos(k *eng.Check, in ssa.Instruction) string { return k.C.InstrPos(in) }

// c22TxOkEdges: edges on which `x.(*DoltTransaction)` succeeded (want) / failed (!want).
func c22TxOkEdges(fn *ssa.Function, want bool) *eng.Set {
	return eng.BoolEdges(fn, func(v ssa.Value) bool {
		ex, ok := v.(*ssa.Extract)
		if !ok || ex.Index != 1 {
			return false
		}
		ta, ok := ex.Tuple.(*ssa.TypeAssert)
		return ok && ta.CommaOk && eng.ShortType(ta.AssertedType) == "*"+c22Tx
	}, want)
}

// (2)
func c22TxRoot(k *eng.Check) {
	fn := k.Fn(c22Dsess + ".TransactionRoot")
	if fn == nil {
		return
	}
	name := eng.Name(fn)
	okE, notOkE := c22TxOkEdges(fn, true), c22TxOkEdges(fn, false)
	live := eng.CallSet(fn, c22Live)
	if okE.Len() < 1 {
		k.Unknown("tx-root-is-snapshot", name, "the type assertion of the context's transaction to *DoltTransaction", "not found")
		return
	}
	if live.Len() > 0 {
		k.OnlyAfter("tx-root-is-snapshot", fn, "the live noms root is read only when the context carries no DoltTransaction", live, 1, notOkE)
	} else {
		k.Pass("tx-root-is-snapshot", name+"#no-live-read", "no live NomsRoot read at all", 1)
	}
	n := 0
	for in := range eng.SuccessExits(fn).I {
		ret := in.(*ssa.Return)
		if !eng.ReachableFrom(fn, eng.EdgeTargets(okE), ret) {
			continue
		}
		n++
		ok := false
		if call, idx, isCall := eng.CallOfResult(ret.Results[0]); isCall && idx == 0 && c22mInitial(call) {
			// on the transaction that was asserted
			ok = eng.MentionsDeep(call.Common().Args[0], func(x ssa.Value) bool { _, isTA := x.(*ssa.TypeAssert); return isTA })
		}
		k.Require("tx-root-is-snapshot", name+"#answers-snapshot", "inside a transaction the root answered is the hash recorded at its start", ok, c22Pos(k, ret), "with a DoltTransaction in the context another hash than GetInitialRoot's is answered: "+eng.Desc(ret.Results[0], 3))
	}
	if n < 1 {
		k.Unknown("tx-root-is-snapshot", name+"#answers-snapshot", "a success exit on the transaction-present edge", "none found (confirmed floor 1)")
	}
}

// (3)
func c22BranchStateAtRoot(k *eng.Check) {
	c := k.C
	if fn := k.Fn(c22Sqle + ".initialStateForBranchDb"); fn != nil {
		name := eng.Name(fn)
		var dbp *ssa.Parameter
		for _, p := range fn.Params {
			if strings.HasSuffix(eng.ShortType(p.Type()), "Database") {
				if dbp != nil {
					dbp = nil
					break
				}
				dbp = p
			}
		}
		trs := eng.Calls(fn, c22mTxRoot, false)
		if dbp == nil || len(trs) != 1 {
			k.Unknown("branch-state-at-tx-root", name, "the database parameter and the TransactionRoot call", fmt.Sprintf("parameter found: %v; %d TransactionRoot calls (confirmed 1)", dbp != nil, len(trs)))
		} else {
			tr := trs[0]
			isDb := func(v ssa.Value) bool { return v == ssa.Value(dbp) }
			okDb := false
			for _, a := range tr.Common().Args {
				if strings.HasSuffix(eng.ShortType(a.Type()), "Database") && eng.Mentions(a, isDb) {
					okDb = true
				}
			}
			k.Require("branch-state-at-tx-root", name+"#root-of-this-db", "the snapshot root asked for is that of the database whose state is being loaded", okDb, c22Pos(k, tr.(ssa.Instruction)), "TransactionRoot is not given the database parameter")
			atRoot := func(call ssa.CallInstruction) bool {
				for _, a := range call.Common().Args {
					if eng.ShortType(a.Type()) == c22HashT() && eng.ResultOf(a, tr, 0) {
						return true
					}
				}
				return false
			}
			branchChain := []eng.ChainStep{{M: c22mBranchRef, Res: 0}, {M: c22mRevision, Res: 0}}
			for _, f := range []struct {
				field string
				m     eng.CallM
				chain []eng.ChainStep
				what  string
			}{
				{"HeadCommit", c22mCommitAt, branchChain, "ResolveCommitRefAtRoot"},
				{"WorkingSet", c22mWsAt, append([]eng.ChainStep{{M: c22mWsRef, Res: 0}}, branchChain...), "ResolveWorkingSetAtRoot"},
			} {
				sts := eng.FieldStoresOf(fn, c22Init+"."+f.field)
				if len(sts) < 1 {
					k.Unknown("branch-state-at-tx-root", name+"#"+f.field, "the store of InitialDbState."+f.field, "not found (confirmed floor 1)")
					continue
				}
				for _, st := range sts {
					call, idx, ok := eng.CallOfResult(st.Val)
					okPinned := ok && idx == 0 && f.m(call) && atRoot(call)
					k.Require("branch-state-at-tx-root", name+"#"+f.field, "the "+f.field+" of a branch state is resolved with "+f.what+" at the transaction's root", okPinned, c22Pos(k, st), f.field+" is not "+f.what+"(.., TransactionRoot(ctx, srcDb)): "+eng.Desc(st.Val, 3))
					if !okPinned {
						continue
					}
					okRef := false
					for _, a := range call.Common().Args {
						if strings.Contains(eng.ShortType(a.Type()), "doltcore/ref.") && eng.ChainFrom(a, f.chain, isDb, 1) {
							okRef = true
						}
					}
					k.Require("branch-state-at-tx-root", name+"#"+f.field+"-ref", "it is resolved for the branch named by the revision of this database", okRef, c22Pos(k, st), "the ref resolved does not derive from NewBranchRef(srcDb.Revision())")
					k.OnlyAfter("branch-state-at-tx-root", fn, f.what+" runs only after TransactionRoot returned nil", eng.NewSet().AddI(call.(ssa.Instruction)), 1, eng.OkCut(tr))
				}
			}
			lives := eng.Calls(fn, c22Live, false)
			why := ""
			if len(lives) > 0 {
				why = eng.CalleeName(lives[0]) + " reads the store's current state"
			}
			k.Require("branch-state-at-tx-root", name+"#no-live-resolve", "the loader of a branch state reads nothing newer than the transaction's root", len(lives) == 0, c.Pos(fn.Pos()), why)
		}
	}
	if fn := k.Fn(c22Sqle + ".resolveAsOfCommitRef"); fn != nil {
		name := eng.Name(fn)
		calls := eng.Calls(fn, c22mByNomsRoot, false)
		if len(calls) < 1 {
			k.Unknown("branch-state-at-tx-root", name, "the ResolveByNomsRoot call", "not found (confirmed floor 1)")
		}
		for _, call := range calls {
			ok := false
			for _, a := range call.Common().Args {
				if eng.ShortType(a.Type()) != c22HashT() {
					continue
				}
				if tc, idx, isCall := eng.CallOfResult(a); isCall && idx == 0 && c22mTxRoot(tc) && eng.ErrConsumed(tc) {
					ok = true
				}
			}
			k.Require("branch-state-at-tx-root", name+"#asof-at-tx-root", "an AS OF reference is resolved in the ref map of the transaction's root", ok, c22Pos(k, call.(ssa.Instruction)), "the noms root given to ResolveByNomsRoot is not the error-checked TransactionRoot")
		}
	}
}

// (4)
func c22StartResets(k *eng.Check) {
	fn := k.Fn("(*" + c22Dsess + ".DoltSession).StartTransaction")
	if fn != nil {
		name := eng.Name(fn)
		nts := eng.Calls(fn, c22mNewTx, false)
		if len(nts) != 1 {
			k.Unknown("tx-start-resets-state", name, "the NewDoltTransaction call", fmt.Sprintf("%d found (confirmed 1)", len(nts)))
		} else {
			nt := nts[0]
			loads := eng.CallSet(fn, eng.AnyOf(c22mLookup, c22mAddDB, eng.CallsInto(eng.AnyOf(c22mLookup, c22mAddDB)), eng.Static("(*"+c22Dsess+".DoltSession).setDbSessionVars", "(*"+c22Dsess+".DoltSession).CurrentHead", "(*"+c22Dsess+".DoltSession).GetRoots", "(*"+c22Dsess+".DoltSession).WorkingSet")))
			if loads.Len() < 1 {
				k.Unknown("tx-start-resets-state", name+"#loads", "the (re)loading of session state at transaction start", "not found (confirmed floor 1)")
			}
			k.OnlyAfter("tx-start-resets-state", fn, "session state is loaded only after the snapshot was taken (NewDoltTransaction returned nil)", loads, 1, eng.OkCut(nt))
			// clear() after the snapshot
			clears := eng.NewSet()
			for _, cl := range eng.Calls(fn, c22mClear, false) {
				if eng.ReachableFrom(fn, []eng.Point{eng.After(nt.(ssa.Instruction))}, cl.(ssa.Instruction)) {
					clears.AddI(cl.(ssa.Instruction))
				}
			}
			k.OnlyAfter("tx-start-resets-state", fn, "session state is loaded only after the state cached by the previous transaction (and by the replication pull) was cleared", loads, 1, clears)
			sets := eng.NewSet()
			for _, sc := range eng.Calls(fn, c22mSetTx, false) {
				for _, a := range sc.Common().Args {
					if eng.ResultOf(a, nt, 0) {
						sets.AddI(sc.(ssa.Instruction))
					}
				}
			}
			k.OnlyAfter("tx-start-resets-state", fn, "session state is loaded only after the new transaction was installed in the context (its root is what TransactionRoot answers)", loads, 1, sets)
			n := 0
			for in := range eng.SuccessExits(fn).I {
				ret := in.(*ssa.Return)
				if len(ret.Results) < 1 || eng.IsNilOrZero(ret.Results[0]) {
					continue
				}
				if call, _, ok := eng.CallOfResult(ret.Results[0]); ok && !c22mNewTx(call) {
					// DisabledTransaction{} and the like are constants / composite values, not calls
					k.Fail("tx-start-resets-state", name+"#answers-new-tx", "the transaction answered is the one whose snapshot was taken", c22Pos(k, ret), "another transaction value is returned: "+eng.Desc(ret.Results[0], 3), nil)
					continue
				}
				if eng.ResultOf(ret.Results[0], nt, 0) {
					n++
				}
			}
			if n < 1 {
				k.Unknown("tx-start-resets-state", name+"#answers-new-tx", "a success exit answering NewDoltTransaction's result", "none found (confirmed floor 1)")
			} else {
				k.Pass("tx-start-resets-state", name+"#answers-new-tx", "the transaction answered is the one whose snapshot was taken", n)
			}
		}
	}
	if fn := k.Fn("(*" + c22Dsess + ".DoltSession).clear"); fn != nil {
		name := eng.Name(fn)
		heads := c22Dsess + ".DatabaseSessionState.heads"
		n := 0
		for _, del := range eng.Calls(fn, eng.Named(`^builtin:delete$`), false) {
			a := del.Common().Args
			if len(a) != 2 || !eng.FromField(a[0], heads) {
				continue
			}
			// the key is the key of a range over that same map, the map belongs to an element of d.dbStates
			overStates := eng.Mentions(a[0], func(x ssa.Value) bool {
				nx, ok := x.(*ssa.Next)
				if !ok {
					return false
				}
				rg, ok := nx.Iter.(*ssa.Range)
				return ok && eng.FromField(rg.X, c22Dsess+".DoltSession.dbStates")
			})
			keyOfRange := eng.Mentions(a[1], func(x ssa.Value) bool {
				nx, ok := x.(*ssa.Next)
				if !ok {
					return false
				}
				rg, ok := nx.Iter.(*ssa.Range)
				return ok && eng.FromField(rg.X, heads)
			})
			n++
			k.Require("tx-start-resets-state", name+"#deletes-every-head", "clear() deletes every branch head of every database state of the session", overStates && keyOfRange, c22Pos(k, del.(ssa.Instruction)), fmt.Sprintf("map is heads of an element of a range over d.dbStates: %v; key is the key of a range over heads: %v", overStates, keyOfRange))
			// every iteration deletes
			for _, rl := range eng.RangeLoops(fn) {
				if eng.FromField(rl.Over, heads) {
					k.OnlyAfter("tx-start-resets-state", fn, "every iteration over the heads deletes the head", eng.NewSet().AddI(rl.Step), 1, eng.NewSet().AddI(del.(ssa.Instruction)), rl.BodyStart())
				}
			}
		}
		if n < 1 {
			k.Unknown("tx-start-resets-state", name+"#deletes-every-head", "delete(dbState.heads, head)", "not found (confirmed floor 1)")
		}
	}
}

// (5)
func c22CachedReads(k *eng.Check) {
	c := k.C
	fn := k.Fn("(*" + c22Dsess + ".DoltSession).lookupDbState")
	if fn != nil {
		name := eng.Name(fn)
		heads := c22Dsess + ".DatabaseSessionState.heads"
		hit := eng.BoolEdges(fn, func(v ssa.Value) bool {
			ex, ok := v.(*ssa.Extract)
			if !ok || ex.Index != 1 {
				return false
			}
			lk, ok := ex.Tuple.(*ssa.Lookup)
			return ok && lk.CommaOk && eng.FromField(lk.X, heads)
		}, true)
		if hit.Len() < 1 {
			k.Unknown("session-reads-are-cached", name, "the lookup of the branch head in dbState.heads", "not found")
		} else {
			reload := eng.CallSet(fn, eng.AnyOf(c22mAddDB, eng.Named(`^iface:.*DoltDatabaseProvider\.(SessionDatabase|Database|BaseDatabase)$`)))
			if reload.Len() < 1 {
				k.Unknown("session-reads-are-cached", name+"#loader", "the addDB / SessionDatabase calls of the miss path", "not found (confirmed floor 1)")
			} else {
				k.OnlyAfter("session-reads-are-cached", fn, "a branch head already in the session is answered from the session (it is not re-loaded, which would drop the transaction's own writes)", reload, 1, eng.NewSet(), eng.EdgeTargets(hit)...)
			}
			n := 0
			for in := range eng.SuccessExits(fn).I {
				ret := in.(*ssa.Return)
				if len(ret.Results) < 1 || eng.IsNilOrZero(ret.Results[0]) || !eng.ReachableFrom(fn, eng.EdgeTargets(hit), ret) {
					continue
				}
				n++
				k.Require("session-reads-are-cached", name+"#answers-cached", "the state answered on a hit is the entry found in heads", eng.Mentions(ret.Results[0], func(x ssa.Value) bool { lk, ok := x.(*ssa.Lookup); return ok && eng.FromField(lk.X, heads) }), c22Pos(k, ret), "the state answered is not the heads entry")
			}
			if n < 1 {
				k.Unknown("session-reads-are-cached", name+"#answers-cached", "a success exit on the hit edge", "none found (confirmed floor 1)")
			}
		}
	}
	// accessors touch no DoltDB
	for _, fname := range []string{"(*" + c22Dsess + ".DoltSession).GetRoots", "(*" + c22Dsess + ".DoltSession).WorkingSet", "(*" + c22Dsess + ".DoltSession).GetHeadCommit", "(*" + c22Dsess + ".branchState).roots", "(*" + c22Dsess + ".branchState).WorkingRoot", "(*" + c22Dsess + ".branchState).WorkingSet"} {
		fn := k.Fn(fname)
		if fn == nil {
			continue
		}
		var bad []string
		for _, call := range eng.CallsDeep(fn, func(ci ssa.CallInstruction) bool {
			f := ci.Common().StaticCallee()
			return f != nil && strings.HasPrefix(eng.Name(f), "(*"+c22Doltdb+".DoltDB).")
		}, true) {
			bad = append(bad, eng.CalleeName(call))
		}
		k.Require("session-reads-are-cached", eng.Name(fn)+"#no-store-access", "the accessor reads only session state", len(bad) == 0, c.Pos(fn.Pos()), "calls "+strings.Join(bad, ", "))
	}
}

// (6)
func c22NoLiveResolve(k *eng.Check) {
	c := k.C
	var roots []*ssa.Function
	for _, n := range []string{"lookupDbState", "LookupDbState", "GetRoots", "WorkingSet", "GetHeadCommit", "GetDbData", "CWBHeadRef", "CurrentHead"} {
		if fn := c.Func("(*" + c22Dsess + ".DoltSession)." + n); fn != nil {
			roots = append(roots, fn)
		}
	}
	if len(roots) < 5 {
		k.Unknown("no-live-resolve-on-read-path", c22Dsess, "the session-state accessors", fmt.Sprintf("%d found (confirmed floor 5)", len(roots)))
		return
	}
	closure := c.StaticClosure(roots, func(p string) bool { return p == c22Dsess }, 8)
	// frozen: functions on the read path that may read the store's current state
	allowed := map[string]string{
		c22Dsess + ".NewDoltTransaction":         "takes the snapshot: reading each database's current root is its purpose (not on the read path itself; listed so that a start-point helper shared with AddDb stays owned by the frozen set)",
		c22Dsess + ".TransactionRoot":            "live root only on the no-DoltTransaction edge, decided by rule tx-root-is-snapshot (not on the dsess read path itself; listed for shared helpers)",
		"(" + c22Tx + ").AddDb":                  "registers a database that is NOT part of the snapshot (created / cloned after the transaction began, first touched now): there is no earlier root to pin it to; addDB calls it only when GetInitialRoot has no entry",
		c22Dsess + ".initializeBranchWorkingSet": "only for a branch revision database that has NO working set at the transaction's root: creates one from the branch's current head and writes it (C33 session-head-root pins the branch-only edge); a read of live state, accepted because there is nothing at the snapshot to read",
	}
	ok := map[string]bool{}
	for n := range allowed {
		ok[n] = true
	}
	type site struct{ pos, fn, callee string }
	var sites []site
	var accepted []string
	seen := 0
	for _, fn := range closure {
		for _, call := range eng.Calls(fn, c22Live, true) {
			seen++
			if eng.OnlyCalledFrom(fn, ok, c.Funcs(c22Dsess), 2) {
				accepted = append(accepted, eng.Name(eng.Outermost(fn))+" -> "+eng.CalleeName(call))
				continue
			}
			sites = append(sites, site{c22Pos(k, call.(ssa.Instruction)), eng.Name(eng.Outermost(fn)), eng.CalleeName(call)})
		}
	}
	sort.Slice(sites, func(i, j int) bool { return sites[i].pos < sites[j].pos })
	for _, s := range sites {
		k.Fail("no-live-resolve-on-read-path", s.fn+"#"+s.callee, "on the path of the session-state accessors the store's current state is read only by the frozen set of functions", s.pos, "new reader of live store state on the session read path: a branch head could be loaded from a root newer than the transaction's snapshot", nil)
	}
	if len(sites) == 0 {
		k.Pass("no-live-resolve-on-read-path", c22Dsess, fmt.Sprintf("%d functions in the closure of the session-state accessors, %d live-state call sites, all in the frozen set: %s", len(closure), seen, strings.Join(accepted, "; ")), len(closure))
	}
	if seen < 2 {
		k.Unknown("no-live-resolve-on-read-path", c22Dsess+"#floor", "live-state call sites in the closure (AddDb, TransactionRoot)", fmt.Sprintf("%d found (confirmed floor 2)", seen))
	}
	k.Notes = append(k.Notes, fmt.Sprintf("read-path closure: %d functions", len(closure)))
}
