package rules

import (
	"fmt"
	"go/token"
	"go/types"
	"os"
	"strings"

	"dvcheck/internal/eng"

	"golang.org/x/tools/go/ssa"
)

func init() {
	Registry["C08"] = &Rule{
		Explanation: "Decides structural necessary conditions of 'garbage collection keeps everything reachable': (1) root set: in DoltDB.GC every dataset visited by IterAll is inserted into one of the two root sets handed to the collector, the collector runs only after the scan succeeded, and pruneUnreferencedDatasets deletes only ids that are neither refs nor working sets; (2) ValueStore.GC: the keeper installed by BeginGC (store and safepoint controller) is gcAddChunk, every return after a successful BeginGC runs the deferred EndGC (and CancelSafepoint), the store root joins the new-generation root set before that generation is marked, old-generation files are added to the store before the final mark and before any swap, and SwapChunksInStore is reached only after every mark phase succeeded; (3) ValueStore.gc phase order: roots saved, pre-finalize safepoint, drained and finalized address sets saved (each error-checked), post-finalize safepoint, sweeper.Finalize last; gcAddChunk records an address before allowing a write; (4) NomsBlockStore: keeperFunc/gcInProgress/gcCycleCounter are written only by lockedBeginGC/lockedEndGC whose callers hold nbs.mu, a second BeginGC is refused, EndGC waits for outstanding reads; (5) keeper honoured: every chunk reader with a keeper parameter calls or forwards it (frozen exceptions: the empty source), forwards it unchanged, a keeper veto is reported as gcBehavior_Block, every gcBehavior result is consumed, front-ends pass nbs.keeperFunc (nil only in the frozen no-dependency set), a Block verdict waits for the GC and retries, and keeper-carrying reads made outside nbs.mu follow a beginRead in the same critical section; (6) markAndSweeper.SaveHashes: a chunk is copied/marked visited only after the reference walker returned without error, walked children become the next round, read/copy errors and a found-count mismatch fail the GC; swapTables installs the new table set only after the manifest update succeeded with the expected lock and the has-cache was purged; (7) a chunk put into (or found in) the store's memtable is acknowledged only past a keeper consultation or the no-keeper edge; in a full collection the old generation's tables are swapped only after the new generation's swap succeeded and the new-generation pass is filtered by the file the old-generation pass built. Not decided: interleavings with sessions, the safepoint controller's session accounting, archive conversion, correctness of the walker (C09).",
		RuleText:    "cut-reachability on the SSA CFG (targets unreachable once the required error-checked calls/edges are removed), closure-binding resolution for callbacks, who-may-write field allowlists, must-hold-lock at call sites, result-value analysis on keeper veto edges",
		Assumptions: []string{"callee identity is resolved through go/types; interface calls are matched by method name and receiver interface", "a deferred call runs on every return that follows the defer statement", "sync.Cond.L of NomsBlockStore.gcCond is nbs.mu (checked at its construction site)"},
		Patterns:    []string{"./libraries/doltcore/doltdb", "./store/types", "./store/nbs", "./libraries/utils/errors"},
		Run:         runC08,
	}
}

// ---------------------------------------------------------------------------------------
// small local helpers (shared with c10.go)

// boolCallEdges: edges of fn on which a call matching m is known to have returned `want`
// (the condition is the call itself, possibly under negations).
func boolCallEdges(fn *ssa.Function, m eng.CallM, want bool) *eng.Set {
	s := eng.NewSet()
	for _, b := range fn.Blocks {
		if len(b.Instrs) == 0 {
			continue
		}
		iff, ok := b.Instrs[len(b.Instrs)-1].(*ssa.If)
		if !ok {
			continue
		}
		v, neg := iff.Cond, false
		for {
			u, ok := v.(*ssa.UnOp)
			if !ok || u.Op != token.NOT {
				break
			}
			v, neg = u.X, !neg
		}
		call, ok := v.(*ssa.Call)
		if !ok || !m(call) {
			continue
		}
		// value of the condition on edge 0 is true
		if want != neg {
			s.AddE(eng.Edge{From: b, Succ: 0})
		} else {
			s.AddE(eng.Edge{From: b, Succ: 1})
		}
	}
	return s
}

// nilCompareEdges: edges on which a value satisfying p is known to be nil (isNil) or non-nil.
func nilCompareEdges(fn *ssa.Function, p func(ssa.Value) bool, isNil bool) *eng.Set {
	s := eng.NewSet()
	for _, b := range fn.Blocks {
		if len(b.Instrs) == 0 {
			continue
		}
		iff, ok := b.Instrs[len(b.Instrs)-1].(*ssa.If)
		if !ok {
			continue
		}
		v, neg := iff.Cond, false
		for {
			u, ok := v.(*ssa.UnOp)
			if !ok || u.Op != token.NOT {
				break
			}
			v, neg = u.X, !neg
		}
		bo, ok := v.(*ssa.BinOp)
		if !ok || (bo.Op != token.NEQ && bo.Op != token.EQL) {
			continue
		}
		var other ssa.Value
		switch {
		case eng.IsNil(bo.Y):
			other = bo.X
		case eng.IsNil(bo.X):
			other = bo.Y
		default:
			continue
		}
		if !p(other) {
			continue
		}
		// edge 0 means: (op == EQL) XOR neg  -> value is nil
		nilOnTrue := (bo.Op == token.EQL) != neg
		if nilOnTrue == isNil {
			s.AddE(eng.Edge{From: b, Succ: 0})
		} else {
			s.AddE(eng.Edge{From: b, Succ: 1})
		}
	}
	return s
}

// equalEdges: for Ifs whose condition is an (in)equality satisfying pred, the edges on
// which the two sides are equal (equal=true) or different.
func equalEdges(fn *ssa.Function, pred func(b *ssa.BinOp) bool, equal bool) *eng.Set {
	s := eng.NewSet()
	for _, b := range fn.Blocks {
		if len(b.Instrs) == 0 {
			continue
		}
		iff, ok := b.Instrs[len(b.Instrs)-1].(*ssa.If)
		if !ok {
			continue
		}
		v, neg := iff.Cond, false
		for {
			u, ok := v.(*ssa.UnOp)
			if !ok || u.Op != token.NOT {
				break
			}
			v, neg = u.X, !neg
		}
		bo, ok := v.(*ssa.BinOp)
		if !ok || (bo.Op != token.NEQ && bo.Op != token.EQL) || !pred(bo) {
			continue
		}
		eqOnTrue := (bo.Op == token.EQL) != neg
		if eqOnTrue == equal {
			s.AddE(eng.Edge{From: b, Succ: 0})
		} else {
			s.AddE(eng.Edge{From: b, Succ: 1})
		}
	}
	return s
}

func allReturns(fn *ssa.Function) *eng.Set {
	s := eng.NewSet()
	for _, b := range fn.Blocks {
		if b == fn.Recover || len(b.Instrs) == 0 {
			continue
		}
		if r, ok := b.Instrs[len(b.Instrs)-1].(*ssa.Return); ok {
			s.AddI(r)
		}
	}
	return s
}

func callInstrs(cs []ssa.CallInstruction) *eng.Set {
	s := eng.NewSet()
	for _, c := range cs {
		s.AddI(c.(ssa.Instruction))
	}
	return s
}

// argOfType returns the first argument (excluding an invoke receiver) whose type is the named type.
func argOfType(c ssa.CallInstruction, pkgSuffix, name string) ssa.Value {
	for _, a := range c.Common().Args {
		if eng.IsNamedType(a.Type(), pkgSuffix, name) {
			if _, isPtr := a.Type().(*types.Pointer); !isPtr {
				return a
			}
		}
	}
	return nil
}

// funcArg returns the function literal / bound method passed as an argument of c, if exactly one.
func funcArg(c ssa.CallInstruction) *ssa.Function {
	var out *ssa.Function
	for _, a := range c.Common().Args {
		if f := eng.FuncOf(a); f != nil {
			if out != nil {
				return nil
			}
			out = f
		}
	}
	return out
}

func paramOfType(fn *ssa.Function, pkgSuffix, name string) *ssa.Parameter {
	for _, p := range fn.Params {
		if _, isPtr := p.Type().(*types.Pointer); isPtr {
			continue
		}
		if eng.IsNamedType(p.Type(), pkgSuffix, name) {
			return p
		}
	}
	return nil
}

func loadOf(v ssa.Value) ssa.Value {
	if u, ok := v.(*ssa.UnOp); ok && u.Op == token.MUL {
		return u.X
	}
	return nil
}

// ---------------------------------------------------------------------------------------

var (
	mHashInsert = eng.Static("(store/hash.HashSet).Insert")
)

func runC08(k *eng.Check, tier string) {
	c08RootSet(k)
	c08ValueStoreGC(k)
	c08GcPhases(k)
	c08NbsState(k)
	c08Keeper(k)
	c08SaveHashes(k)
	debugObls(k)
}

// debugObls lists every obligation when DVCHECK_DEBUG is set (development aid only).
func debugObls(k *eng.Check) {
	if os.Getenv("DVCHECK_DEBUG") == "" {
		return
	}
	for _, o := range k.Obls {
		fmt.Fprintf(os.Stderr, "  [%s] %s (%d sites) %s %s\n", o.Status, o.Key(), o.Sites, o.Pos, o.Why)
	}
}

// (1) DoltDB.GC / pruneUnreferencedDatasets
func c08RootSet(k *eng.Check) {
	c := k.C
	mIterAll := eng.Method(`store/datas\.DatasetsMap$`, "IterAll")
	if fn := k.Fn("(*libraries/doltcore/doltdb.DoltDB).GC"); fn != nil {
		iters := eng.Calls(fn, mIterAll, false)
		colls := eng.Calls(fn, eng.Method(`store/datas\.GarbageCollector$`, "GC"), false)
		if len(iters) != 1 || len(colls) != 1 || funcArg(iters[0]) == nil {
			k.Unknown("gc-roots-all-datasets", eng.Name(fn), "the dataset scan (IterAll with a callback) and the collector call", fmt.Sprintf("found %d IterAll / %d collector.GC call(s); confirmed 1/1", len(iters), len(colls)))
		} else {
			cb := funcArg(iters[0])
			k.FuncsSeen[cb] = true
			hp := paramOfType(cb, "store/hash", "Hash")
			ins := eng.NewSet()
			var insCalls []ssa.CallInstruction
			for _, ic := range eng.Calls(cb, mHashInsert, false) {
				if hp != nil && len(ic.Common().Args) == 2 && ic.Common().Args[1] == ssa.Value(hp) {
					ins.AddI(ic.(ssa.Instruction))
					insCalls = append(insCalls, ic)
				}
			}
			k.OnlyAfter("gc-roots-all-datasets", cb, "every dataset head visited by the scan is inserted into a root set before the callback reports success", eng.SuccessExits(cb), 1, ins)
			// each root set that receives heads is handed to the collector
			nSets := 0
			for _, ic := range insCalls {
				fv, _ := loadOf(ic.Common().Args[0]).(*ssa.FreeVar)
				var origin ssa.Value
				if fv != nil {
					origin = eng.ClosureOrigin(fv)
				}
				handed := false
				if origin != nil {
					for _, a := range colls[0].Common().Args {
						if loadOf(a) == origin {
							handed = true
						}
					}
				}
				nSets++
				k.Require("gc-roots-handed-to-collector", fmt.Sprintf("%s#root-set-%d", eng.Name(fn), nSets), "a root set filled by the dataset scan is an argument of collector.GC", handed, c.InstrPos(ic.(ssa.Instruction)), "heads are inserted into a set that is not passed to the collector")
			}
			if nSets < 2 {
				k.Unknown("gc-roots-handed-to-collector", eng.Name(fn), "root-set insertions in the scan callback", fmt.Sprintf("%d found (confirmed floor 2: old-gen and new-gen)", nSets))
			}
			k.OnlyAfter("gc-after-root-scan", fn, "the collector runs only after the dataset scan succeeded", callInstrs(colls), 1, eng.OkCut(iters[0]))
			k.OnlyAfter("gc-after-root-scan", fn, "success is reported only through the collector", eng.SuccessExits(fn), 1, callInstrs(colls))
		}
	}
	if fn := k.Fn("(*libraries/doltcore/doltdb.DoltDB).pruneUnreferencedDatasets"); fn != nil {
		// the selecting scan may sit in a single-caller helper that returns the list: it is analysed there, and the
		// list is followed through the helper's result
		scanFn := fn
		var scanCall *ssa.Call
		if len(eng.Calls(fn, mIterAll, false)) == 0 {
			for _, g := range c.FamilyOf(fn, c.Funcs("libraries/doltcore/doltdb"), 1)[1:] {
				if len(eng.Calls(g, mIterAll, false)) == 1 {
					for _, ci := range eng.Calls(fn, func(q ssa.CallInstruction) bool { return q.Common().StaticCallee() == g }, false) {
						if cc, ok := ci.(*ssa.Call); ok {
							scanFn, scanCall = g, cc
						}
					}
				}
			}
		}
		iters := eng.Calls(scanFn, mIterAll, false)
		var cb *ssa.Function
		if len(iters) == 1 {
			cb = funcArg(iters[0])
		}
		if cb == nil {
			k.Unknown("prune-only-unreferenced", eng.Name(fn), "the dataset scan that selects ids to delete", "IterAll with a callback not found")
			return
		}
		k.FuncsSeen[cb] = true
		k.FuncsSeen[scanFn] = true
		// the accumulator: stores through captured variables in the callback
		acc := eng.NewSet()
		origins := map[ssa.Value]bool{}
		for _, in := range eng.Instrs(cb, func(in ssa.Instruction) bool { _, ok := in.(*ssa.Store); return ok }) {
			st := in.(*ssa.Store)
			if fv, ok := st.Addr.(*ssa.FreeVar); ok {
				acc.AddI(st)
				if o := eng.ClosureOrigin(fv); o != nil {
					origins[o] = true
				}
			}
		}
		k.OnlyAfter("prune-only-unreferenced", cb, "an id is selected for deletion only when ref.IsRef(id) is false", acc, 1, boolCallEdges(cb, eng.Static("libraries/doltcore/ref.IsRef"), false))
		k.OnlyAfter("prune-only-unreferenced", cb, "an id is selected for deletion only when ref.IsWorkingSet(id) is false", acc, 1, boolCallEdges(cb, eng.Static("libraries/doltcore/ref.IsWorkingSet"), false))
		// every Delete in the function takes a dataset looked up from the selected list, and nothing else writes the list
		dels := eng.Calls(fn, eng.Named(`(\.|\))Delete$`), false)
		if len(dels) < 1 {
			k.Unknown("prune-only-selected", eng.Name(fn), "dataset Delete calls", "none found (floor 1)")
		}
		for i, d := range dels {
			ok := false
			for _, a := range d.Common().Args {
				if eng.Slice(a, true, func(v ssa.Value) bool {
					if o := loadOf(v); o != nil && origins[o] {
						return true
					}
					// the list handed back by the scanning helper
					if ex, isEx := v.(*ssa.Extract); isEx && scanCall != nil && ex.Tuple == ssa.Value(scanCall) {
						good, n := true, 0
						for in := range eng.SuccessExits(scanFn).I {
							if ret, isRet := in.(*ssa.Return); isRet && ex.Index < len(ret.Results) {
								n++
								if o := loadOf(eng.Unspill(ret, ex.Index)); o == nil || !origins[o] {
									good = false
								}
							}
						}
						return good && n > 0
					}
					return false
				}) {
					ok = true
				}
			}
			k.Require("prune-only-selected", fmt.Sprintf("%s#delete-%d", eng.Name(fn), i+1), "the dataset passed to Delete is looked up from the list filled by the guarded scan", ok, c.InstrPos(d.(ssa.Instruction)), "Delete of a dataset that does not come from the guarded selection")
		}
		for o := range origins {
			for _, ref := range *o.Referrers() {
				if st, ok := ref.(*ssa.Store); ok && st.Addr == o {
					k.Fail("prune-only-selected", eng.Name(fn)+"#selection-writers", "the selection list is written only by the guarded scan callback", c.InstrPos(st), "the list of ids to delete is also written outside the guarded callback", nil)
				}
			}
		}
	}
}

// (2) ValueStore.GC
func c08ValueStoreGC(k *eng.Check) {
	c := k.C
	gcFn := k.Fn("(*store/types.ValueStore).GC")
	if gcFn == nil {
		return
	}
	mBegin := eng.Method(`store/chunks\.ChunkStoreGarbageCollector$`, "BeginGC")
	mEnd := eng.Method(`store/chunks\.ChunkStoreGarbageCollector$`, "EndGC")
	mSpBegin := eng.Method(`store/types\.GCSafepointController$`, "BeginGC")
	mCancel := eng.Method(`store/types\.GCSafepointController$`, "CancelSafepoint")
	mMark := eng.Static("(*store/types.ValueStore).gc")
	mSwap := eng.Method(`store/chunks\.GCFinalizer$`, "SwapChunksInStore")
	mAdd := eng.Method(`store/chunks\.GCFinalizer$`, "AddChunksToStore")
	mRoot := eng.Static("(*store/types.ValueStore).Root")
	isKeeper := func(v ssa.Value) bool {
		f := eng.FuncOf(v)
		return f != nil && strings.HasPrefix(eng.Name(f), "(*store/types.ValueStore).gcAddChunk")
	}
	nClosures, nAdds, nSp := 0, 0, 0
	for _, cl := range c08GCBodyCandidates(gcFn) {
		begins := eng.Calls(cl, mBegin, false)
		if len(begins) == 0 {
			continue
		}
		nClosures++
		k.FuncsSeen[cl] = true
		name := eng.Name(cl)
		rets := allReturns(cl)
		for _, bg := range begins {
			kept := false
			for _, a := range bg.Common().Args {
				if isKeeper(a) {
					kept = true
				}
			}
			k.Require("keeper-is-gcAddChunk", name+"#store.BeginGC", "the keeper handed to the chunk store is ValueStore.gcAddChunk", kept, c.InstrPos(bg.(ssa.Instruction)), "BeginGC is not given gcAddChunk: addresses written during the collection are not recorded")
			defers := eng.NewSet()
			for _, d := range eng.DeferredCalls(cl, mEnd) {
				defers.AddI(d)
			}
			k.OnlyAfter("begin-end-paired", cl, "every return after a successful BeginGC runs a deferred EndGC", rets, 1, defers, eng.EdgeTargets(eng.OkCut(bg))...)
		}
		marks := eng.Calls(cl, mMark, false)
		swaps := callInstrs(eng.Calls(cl, mSwap, false))
		// EndGC must not run before the swap: no direct EndGC followed by a mark or a swap
		bad := ""
		for _, e := range eng.Calls(cl, mEnd, false) {
			if hits := eng.Reach(cl, []eng.Point{eng.After(e.(ssa.Instruction))}, eng.UnionOf(callInstrs(marks), swaps), nil); len(hits) > 0 {
				bad = c.InstrPos(e.(ssa.Instruction))
			}
		}
		k.Require("keeper-until-swap", name, "the keeper stays installed until the table files are swapped (no EndGC before a mark phase or the swap)", bad == "", bad, "EndGC is called while mark/swap work is still ahead: concurrent writes are no longer recorded")
		// safepoint controller
		for _, sp := range eng.Calls(cl, mSpBegin, false) {
			nSp++
			kept := false
			for _, a := range sp.Common().Args {
				if isKeeper(a) {
					kept = true
				}
			}
			k.Require("keeper-is-gcAddChunk", name+"#safepoint.BeginGC", "the keeper handed to the safepoint controller is ValueStore.gcAddChunk", kept, c.InstrPos(sp.(ssa.Instruction)), "the safepoint controller is not given gcAddChunk: session roots are not recorded")
			defers := eng.NewSet()
			for _, d := range eng.DeferredCalls(cl, mCancel) {
				defers.AddI(d)
			}
			k.OnlyAfter("safepoint-cancel-paired", cl, "every return after a successful safepoint BeginGC passes the deferred (conditional) CancelSafepoint", rets, 1, defers, eng.EdgeTargets(eng.OkCut(sp))...)
		}
		// store root joins the new-generation root set before that set is marked
		rootIns := eng.NewSet()
		recv := map[string]bool{}
		for _, ic := range eng.Calls(cl, mHashInsert, false) {
			if len(ic.Common().Args) == 2 && eng.Slice(ic.Common().Args[1], false, eng.IsCall(mRoot)) {
				rootIns.AddI(ic.(ssa.Instruction))
				recv[eng.Desc(ic.Common().Args[0], 4)] = true
			}
		}
		rootMarks := eng.NewSet()
		for _, m := range marks {
			if set := argOfType(m, "store/hash", "HashSet"); set != nil && recv[eng.Desc(set, 4)] {
				rootMarks.AddI(m.(ssa.Instruction))
			}
		}
		if rootIns.Len() < 1 {
			k.Unknown("root-in-new-gen", name, "insertion of the store root into a root set", "no HashSet.Insert of the result of ValueStore.Root found")
		} else {
			k.OnlyAfter("root-in-new-gen", cl, "the root set that receives the store root is marked only after the root was inserted", rootMarks, 1, rootIns)
		}
		// swap only after every mark phase succeeded
		for i, m := range marks {
			k.OnlyAfter("swap-after-mark", cl, fmt.Sprintf("SwapChunksInStore is reached only after mark phase %d (ValueStore.gc) succeeded", i+1), swaps, 1, eng.OkCut(m))
		}
		if len(marks) < 1 {
			k.Unknown("swap-after-mark", name, "mark phases", "no call of ValueStore.gc in a closure that calls BeginGC")
		}
		// old-generation files are in the store before the final mark and before any swap
		adds := eng.Calls(cl, mAdd, false)
		if len(adds) > 0 {
			nAdds += len(adds)
			addOK := eng.NewSet()
			for _, a := range adds {
				addOK.Union(eng.OkCut(a))
			}
			final := eng.NewSet()
			for _, m := range marks {
				for _, a := range m.Common().Args {
					if eng.IsNamedType(a.Type(), "store/types", "GCSafepointController") && !eng.IsNil(a) {
						final.AddI(m.(ssa.Instruction))
					}
				}
			}
			k.OnlyAfter("oldgen-added-first", cl, "the final (safepoint-carrying) mark phase starts only after AddChunksToStore succeeded", final, 1, addOK)
			k.OnlyAfter("oldgen-added-first", cl, "SwapChunksInStore is reached only after AddChunksToStore succeeded", swaps, 1, addOK)
		}
	}
	if nClosures < 2 {
		k.Unknown("begin-end-paired", eng.Name(gcFn), "collection bodies (closures calling BeginGC)", fmt.Sprintf("%d found (confirmed floor 2: generational and single-store)", nClosures))
	}
	if nAdds < 1 {
		k.Unknown("oldgen-added-first", eng.Name(gcFn), "AddChunksToStore calls", "none found (floor 1)")
	}
	if nSp < 2 {
		k.Unknown("safepoint-cancel-paired", eng.Name(gcFn), "safepoint BeginGC calls", fmt.Sprintf("%d found (floor 2)", nSp))
	}
	// gcAddChunk is legal only between transitionToOldGenGC and the deferred transitionToNoGC
	bodies := eng.NewSet()
	for _, b := range gcFn.Blocks {
		for _, in := range b.Instrs {
			if call, ok := in.(*ssa.Call); ok {
				f := eng.FuncOf(call.Call.Value)
				if f == nil {
					f = call.Call.StaticCallee()
				}
				if f != nil && (f.Parent() == gcFn || (f.Parent() == nil && f != gcFn && eng.FuncPkg(f) == eng.FuncPkg(gcFn))) && len(eng.Calls(f, mBegin, false)) > 0 {
					bodies.AddI(call)
				}
			}
		}
	}
	k.OnlyAfter("gc-state-before-keeper", gcFn, "the collection bodies run only after transitionToOldGenGC (the keeper panics in state NoGC)", bodies, 2, eng.CallSet(gcFn, eng.Static("(*store/types.ValueStore).transitionToOldGenGC")))

	// the keeper records the address before it lets the write proceed
	if fn := k.Fn("(*store/types.ValueStore).gcAddChunk"); fn != nil {
		hp := paramOfType(fn, "store/hash", "Hash")
		rec := eng.NewSet()
		for _, ic := range eng.Calls(fn, mHashInsert, false) {
			if len(ic.Common().Args) == 2 && hp != nil && ic.Common().Args[1] == ssa.Value(hp) && eng.FromField(ic.Common().Args[0], "store/types.ValueStore.gcNewAddrs") {
				rec.AddI(ic.(ssa.Instruction))
			}
		}
		allow := eng.ResultPoints(fn, 0, func(v ssa.Value) bool { return !eng.IsConstBool(v, true) })
		k.OnlyAfter("keeper-records-before-allow", fn, "gcAddChunk answers 'proceed' (anything but the constant true) only after inserting the address into gcNewAddrs", allow, 1, rec)
	}
}

// (3) ValueStore.gc phase order
func c08GcPhases(k *eng.Check) {
	c := k.C
	fn := k.Fn("(*store/types.ValueStore).gc")
	if fn == nil {
		return
	}
	saves := eng.Calls(fn, eng.Method(`store/chunks\.MarkAndSweeper$`, "SaveHashes"), false)
	if len(saves) < 3 {
		k.Unknown("gc-phase-order", eng.Name(fn), "SaveHashes calls", fmt.Sprintf("%d found (confirmed floor 3)", len(saves)))
		return
	}
	mDrain := eng.Static("(*store/types.ValueStore).readAndResetNewGenToVisit")
	isFinalize := func(v ssa.Value) bool {
		call, ok := v.(*ssa.Call)
		if !ok {
			return false
		}
		p, ok := call.Call.Value.(*ssa.Parameter)
		if !ok {
			return false
		}
		sig, ok := p.Type().Underlying().(*types.Signature)
		return ok && sig.Params().Len() == 0 && sig.Results().Len() == 1 && eng.IsNamedType(sig.Results().At(0).Type(), "store/hash", "HashSet")
	}
	setParam := paramOfType(fn, "store/hash", "HashSet")
	okInit, okDrain, okFinal := eng.NewSet(), eng.NewSet(), eng.NewSet()
	for _, s := range saves {
		set := argOfType(s, "store/hash", "HashSet")
		switch {
		case set == nil:
		case setParam != nil && set == ssa.Value(setParam):
			okInit.Union(eng.OkCut(s))
		case eng.Slice(set, false, eng.IsCall(mDrain)):
			okDrain.Union(eng.OkCut(s))
		case eng.Slice(set, false, isFinalize):
			okFinal.Union(eng.OkCut(s))
		}
	}
	var finalizeCalls, drainCalls []ssa.Instruction
	for _, b := range fn.Blocks {
		for _, in := range b.Instrs {
			if v, ok := in.(ssa.Value); ok && isFinalize(v) {
				finalizeCalls = append(finalizeCalls, in)
			}
		}
	}
	for _, d := range eng.Calls(fn, mDrain, false) {
		drainCalls = append(drainCalls, d.(ssa.Instruction))
	}
	finSet := eng.NewSet().AddI(finalizeCalls...)
	exits := eng.SuccessExits(fn)
	isCtl := func(v ssa.Value) bool {
		p, ok := v.(*ssa.Parameter)
		return ok && eng.IsNamedType(p.Type(), "store/types", "GCSafepointController")
	}
	noCtl := nilCompareEdges(fn, isCtl, true)
	pre := eng.Calls(fn, eng.Method(`store/types\.GCSafepointController$`, "EstablishPreFinalizeSafepoint"), false)
	post := eng.Calls(fn, eng.Method(`store/types\.GCSafepointController$`, "EstablishPostFinalizeSafepoint"), false)
	sweepFin := eng.Calls(fn, eng.Method(`store/chunks\.MarkAndSweeper$`, "Finalize"), false)
	okOf := func(cs []ssa.CallInstruction) *eng.Set {
		s := eng.NewSet()
		for _, x := range cs {
			s.Union(eng.OkCut(x))
		}
		return s
	}
	if len(pre) < 1 || len(post) < 1 || len(sweepFin) < 1 || len(finalizeCalls) < 1 || len(drainCalls) < 1 || noCtl.Len() < 2 {
		k.Unknown("gc-phase-order", eng.Name(fn), "the phases of a mark run", fmt.Sprintf("pre=%d post=%d sweeper.Finalize=%d finalize()=%d drain=%d nil-controller tests=%d; confirmed 1/1/1/1/1/2", len(pre), len(post), len(sweepFin), len(finalizeCalls), len(drainCalls), noCtl.Len()))
		return
	}
	k.OnlyAfter("gc-phase-order", fn, "success only after SaveHashes(root set) succeeded", exits, 1, okInit)
	k.OnlyAfter("gc-phase-order", fn, "finalize() (writers blocked, last addresses taken) only after the pre-finalize safepoint was established or no controller is present", finSet, 1, eng.UnionOf(okOf(pre), noCtl))
	for _, d := range drainCalls {
		k.OnlyAfter("gc-phase-order", fn, "addresses drained by readAndResetNewGenToVisit are saved (error-checked) before success", exits, 1, okDrain, eng.After(d))
	}
	for _, f := range finalizeCalls {
		k.OnlyAfter("gc-phase-order", fn, "addresses returned by finalize() are saved (error-checked) before sweeper.Finalize and before success", eng.UnionOf(exits, callInstrs(sweepFin)), 1, okFinal, eng.After(f))
	}
	k.OnlyAfter("gc-phase-order", fn, "the post-finalize safepoint is established only after finalize()", callInstrs(post), 1, finSet)
	k.OnlyAfter("gc-phase-order", fn, "success only after the post-finalize safepoint was established or no controller is present", exits, 1, eng.UnionOf(okOf(post), noCtl))
	k.OnlyAfter("gc-phase-order", fn, "success only after sweeper.Finalize succeeded", exits, 1, okOf(sweepFin))
	for _, sf := range sweepFin {
		k.OnlyAfter("gc-phase-order", fn, "no SaveHashes after sweeper.Finalize", callInstrs(saves), 3, eng.NewSet(), eng.After(sf.(ssa.Instruction)))
	}
	// the mark uses a reference walker that goes through the dispatcher C09 checks
	// (WalkAddrsFromNomsValue: SerialMessage.WalkAddrs for flatbuffer chunks, walkRefs for old-format values)
	ms := eng.Calls(fn, eng.Method(`store/chunks\.ChunkStoreGarbageCollector$`, "MarkAndSweepChunks"), false)
	ok := len(ms) > 0
	for _, m := range ms {
		w := false
		for _, a := range m.Common().Args {
			f := eng.FuncOf(a)
			if f == nil {
				continue
			}
			if base := c.Func(strings.TrimSuffix(eng.Name(f), "$bound")); base != nil {
				f = base
			}
			for _, g := range c.StaticClosure([]*ssa.Function{f}, nil, 3) {
				if eng.Name(g) == "store/types.WalkAddrsFromNomsValue" {
					w = true
				}
			}
		}
		ok = ok && w
	}
	k.Require("gc-uses-store-walker", eng.Name(fn), "the reference walker handed to MarkAndSweepChunks dispatches through WalkAddrsFromNomsValue (flatbuffer and old-format chunks)", ok, c.Pos(fn.Pos()), "the mark phase does not use the value store's reference walker")
}

// c08GCBodyCandidates: the functions in which a collection body may live: ValueStore.GC, its function literals, and
// (one level) same-package functions/methods they call statically, with their literals — a body extracted into a
// method is still found.
func c08GCBodyCandidates(gcFn *ssa.Function) []*ssa.Function {
	out := eng.WithAnons(gcFn)
	seen := map[*ssa.Function]bool{}
	for _, f := range out {
		seen[f] = true
	}
	for _, f := range append([]*ssa.Function{}, out...) {
		for _, b := range f.Blocks {
			for _, in := range b.Instrs {
				ci, ok := in.(ssa.CallInstruction)
				if !ok {
					continue
				}
				h := ci.Common().StaticCallee()
				if h == nil || seen[h] || len(h.Blocks) == 0 || h.Parent() != nil || eng.FuncPkg(h) != eng.FuncPkg(gcFn) {
					continue
				}
				for _, g := range eng.WithAnons(h) {
					if !seen[g] {
						seen[g] = true
						out = append(out, g)
					}
				}
			}
		}
	}
	return out
}
