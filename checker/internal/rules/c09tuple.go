package rules

import (
	"fmt"
	"go/ast"
	"go/types"
	"strings"

	"dvcheck/internal/eng"

	"golang.org/x/tools/go/ssa"
)

// encCaseSet returns the val.Encoding constants (by value) listed in the switch of a classifier such as val.IsAddrEncoding.
func encCaseSet(k *eng.Check, fnName string) map[string]string {
	fn := k.Fn(fnName)
	if fn == nil {
		return nil
	}
	out := map[string]string{}
	for _, st := range k.C.Switches(fn, false) {
		if strings.HasSuffix(st.TagType, "val.Encoding") {
			for v, n := range st.Consts {
				out[v] = n
			}
		}
	}
	if len(out) == 0 {
		k.Unknown("tuple-addr-encodings", fnName, "case list of the encoding classifier", "no switch over val.Encoding found")
	}
	return out
}

// runC09Tuple: tuple-level agreement between the field readers that dereference the
// NodeStore and the encodings classified as address-bearing (which is what the
// serializer records in ValueAddressOffsets and the walker reports).
func runC09Tuple(k *eng.Check) {
	c := k.C
	addr := encCaseSet(k, "store/val.IsAddrEncoding")
	adapt := encCaseSet(k, "store/val.IsAdaptiveEncoding")
	if addr == nil || adapt == nil {
		return
	}
	if len(addr) < 6 || len(adapt) < 5 {
		k.Unknown("tuple-addr-encodings", "store/val", "address/adaptive encoding sets", fmt.Sprintf("found %d/%d (floors 6/5)", len(addr), len(adapt)))
	}
	readers := []string{"store/prolly/tree.GetField", "store/prolly/tree.GetFieldValue"}
	for _, rn := range readers {
		fn := k.Fn(rn)
		if fn == nil {
			continue
		}
		pkg := c.PkgOf(fn)
		decl := c.FuncDecl(fn)
		if pkg == nil || decl == nil {
			k.Unknown("tuple-addr-encodings", rn, "syntax of the field reader", "not available")
			continue
		}
		// the NodeStore parameter object
		var nsObj types.Object
		for _, f := range decl.Type.Params.List {
			for _, n := range f.Names {
				if o := pkg.TypesInfo.Defs[n]; o != nil && strings.HasSuffix(types.TypeString(o.Type(), nil), "tree.NodeStore") {
					nsObj = o
				}
			}
		}
		if nsObj == nil {
			k.Unknown("tuple-addr-encodings", rn, "NodeStore parameter", "not found")
			continue
		}
		nDeref := 0
		for _, st := range c.Switches(fn, false) {
			if !strings.HasSuffix(st.TagType, "val.Encoding") {
				continue
			}
			for _, cc := range st.Clauses {
				uses := false
				for _, s := range cc.Body {
					ast.Inspect(s, func(n ast.Node) bool {
						if id, ok := n.(*ast.Ident); ok && pkg.TypesInfo.Uses[id] == nsObj {
							uses = true
						}
						return !uses
					})
				}
				if !uses {
					continue
				}
				for _, e := range cc.List {
					tv, ok := pkg.TypesInfo.Types[e]
					if !ok || tv.Value == nil {
						continue
					}
					nDeref++
					v := tv.Value.ExactString()
					_, a := addr[v]
					_, b := adapt[v]
					k.Require("tuple-addr-encodings", rn+"#"+types.ExprString(e), "an encoding whose reader dereferences the NodeStore is classified as address or adaptive encoding (so its address is recorded in ValueAddressOffsets and walked)", a || b, c.Pos(e.Pos()),
						"the reader loads out-of-band data for this encoding but val.IsAddrEncoding/IsAdaptiveEncoding do not list it: its addresses are invisible to the walker")
				}
			}
		}
		if nDeref < 8 {
			k.Unknown("tuple-addr-encodings", rn, "reader cases that dereference the NodeStore", fmt.Sprintf("%d found (floor 8)", nDeref))
		}
	}

	// sibling agreement: the iterators the node serializer uses enumerate exactly the encodings the classifiers list
	for _, pr := range [][2]string{{"store/val.IterAddressFields", "store/val.IsAddrEncoding"}, {"store/val.IterAdaptiveFields", "store/val.IsAdaptiveEncoding"}} {
		it := encCaseSet(k, pr[0])
		cl := addr
		if pr[1] == "store/val.IsAdaptiveEncoding" {
			cl = adapt
		}
		if it == nil {
			continue
		}
		for v, name := range cl {
			_, ok := it[v]
			k.Require("addr-iterator-agrees", pr[0]+"#"+name, "an encoding classified by "+pr[1]+" is visited by "+pr[0]+" (the serializer records address offsets only for visited fields)", ok, c.Pos(c.Func(pr[0]).Pos()),
				"the classifier lists this encoding but the iterator does not: its out-of-band address is never recorded in the node and never walked")
		}
		for v, name := range it {
			_, ok := cl[v]
			k.Require("addr-iterator-agrees", pr[0]+"#"+name+"(reverse)", "an encoding visited by "+pr[0]+" is classified by "+pr[1], ok, c.Pos(c.Func(pr[0]).Pos()), "iterator visits an encoding the classifier does not list")
		}
	}
	// the serializer package does not classify encodings privately: it must go through the iterators above
	nCmp, nVal := 0, 0
	isEncConstCmp := func(in ssa.Instruction) bool {
		b, ok := in.(*ssa.BinOp)
		if !ok {
			return false
		}
		for _, pair := range [][2]ssa.Value{{b.X, b.Y}, {b.Y, b.X}} {
			if _, isC := pair[1].(*ssa.Const); isC && strings.HasSuffix(eng.ShortType(pair[0].Type()), "store/val.Encoding") {
				return true
			}
		}
		return false
	}
	for _, fn := range c.Funcs("store/val") {
		nVal += len(eng.Instrs(fn, isEncConstCmp))
	}
	for _, fn := range c.Funcs("store/prolly/message") {
		for _, in := range eng.Instrs(fn, isEncConstCmp) {
			nCmp++
			k.Fail("serializer-uses-canonical-classifiers", eng.Name(fn), "store/prolly/message decides which fields carry addresses only through val.IterAddressFields/IterAdaptiveFields", c.InstrPos(in),
				"the node serializer compares a val.Encoding against a constant: a private encoding list can drift from val.IsAddrEncoding/IsAdaptiveEncoding", nil)
		}
	}
	if nVal < 20 {
		k.Unknown("serializer-uses-canonical-classifiers", "scanner self-check", "comparisons of val.Encoding with constants in store/val (positive control)", fmt.Sprintf("only %d found: the scanner no longer recognises encoding comparisons", nVal))
	} else if nCmp == 0 {
		k.Pass("serializer-uses-canonical-classifiers", "store/prolly/message", fmt.Sprintf("no private encoding classification in the serializer package (positive control: %d such comparisons recognised in store/val)", nVal), nVal)
	}

	// serializer: every function of store/prolly/message that iterates address fields also iterates adaptive fields
	mAddr := eng.Static("store/val.IterAddressFields")
	mAdap := eng.Static("store/val.IterAdaptiveFields")
	n := 0
	for _, fn := range c.Funcs("store/prolly/message", "store/val") {
		if fn.Parent() != nil {
			continue
		}
		a := eng.CallsDeep(fn, mAddr, false)
		if len(a) == 0 {
			continue
		}
		n++
		b := eng.CallsDeep(fn, mAdap, false)
		k.Require("addr-offsets-both-classes", eng.Name(fn), "a function that visits address fields of a tuple descriptor also visits adaptive fields", len(b) >= len(a), c.InstrPos(a[0].(ssa.Instruction)), "adaptive (possibly out-of-band) fields are not visited: their addresses would not be recorded")
	}
	if n < 3 {
		k.Unknown("addr-offsets-both-classes", "store/prolly/message", "functions iterating address fields", fmt.Sprintf("%d found (floor 3)", n))
	}
	// walker of prolly map nodes reads both the address array and the value address offsets
	if fn := k.Fn("store/prolly/message.walkProllyMapAddresses"); fn != nil {
		got := map[string]bool{}
		for _, call := range eng.Calls(fn, func(ssa.CallInstruction) bool { return true }, false) {
			if t, m, ok := serialMethod(call); ok && t == "ProllyTreeNode" {
				got[m] = true
			}
		}
		for _, m := range []string{"AddressArrayBytes", "ValueAddressOffsets", "ValueAddressOffsetsLength", "ValueItemsBytes"} {
			k.Require("prolly-node-walk", "walkProllyMapAddresses#"+m, "the prolly node walker reads internal-node child addresses and leaf value address offsets", got[m], c.Pos(fn.Pos()), "accessor "+m+" not read by the walker")
		}
	}
}
