package rules

import (
	"fmt"
	"go/token"
	"regexp"
	"strings"

	"dvcheck/internal/eng"

	"golang.org/x/tools/go/ssa"
)

func init() {
	Registry["C18"] = &Rule{
		Explanation: "Decides the wiring (roles and index agreement) of commit-metadata construction, not the arithmetic over runtime DAGs. " +
			"(1) height-written: in every function that calls serial.CommitAddHeight, the value written is acc+1 where acc is a recognised maximum over ALL elements of a []uint64 parameter starting from 0 (guarded-assignment idiom or builtin max), and the uint64 the function returns is that same acc+1. " +
			"(2) heights-from-parents: at every caller, heights[i] is (*serial.Commit).Height() of parents[i], parents[i] is parsed from parentValues[i], parentValues is ReadManyValues of opts.Parents, all with one and the same index enumerating from 0; the CommitOptions handed to the serializer is the one whose Parents were read, and is not re-assigned. " +
			"(3) closure-wiring: writeFbCommitParentClosure receives those same parsed parents and opts.Parents, its result (error-checked) is the argument that reaches serial.CommitAddParentClosure. " +
			"(4) closure construction: each parent i is added as key(parents[i].Height(), parentAddrs[i]) in every iteration from 0 with the error checked; closures[j] is loaded from parents[j].ParentClosureBytes() through addrs[j]/vs[j] (empty closure only on the IsNull edge); every other closure is diffed against the one the editor was opened on, and the callback adds diff.Key on the AddedDiff edge; all adds and the flush use the one editor; a success exit is reached only through an error-checked Flush whose result is returned (or on the no-parents edge). " +
			"(5) closure-key-codec: NewCommitClosureKey and CommitClosureKey.Height/Addr use the same byte order and the same address offset. " +
			"(6) loaded-height: every store to datas.Commit.height is the serializer's returned height or serial.Commit.Height() of a message initialised from the very value stored in Commit.val. " +
			"It does not decide that heights/closures of arbitrary DAGs are correct, the contents of prolly closure maps, nor address immutability.",
		RuleText:    "role and index-agreement rules over SSA values (same index value on parallel slices, induction-variable shape, max-accumulator idiom), cut-reachability for error-checked calls, encoder/decoder agreement",
		Assumptions: []string{"generated flatbuffers accessors and builders have no side effects", "prolly.DiffCommitClosures reports a key present only in its second argument as tree.AddedDiff", "CommitClosureEditor.Add is idempotent"},
		Patterns:    []string{"./store/datas", "./store/prolly"},
		Run:         runC18,
	}
}

const (
	c18OptsParents = "store/datas.CommitOptions.Parents"
	c18WriteFb     = "store/datas.writeFbCommitParentClosure"
)

var (
	c18mAddHeight  = eng.Static("gen/fb/serial.CommitAddHeight")
	c18mAddClosure = eng.Static("gen/fb/serial.CommitAddParentClosure")
	c18mHeight     = eng.Static("(*gen/fb/serial.Commit).Height")
	c18mPCBytes    = eng.Static("(*gen/fb/serial.Commit).ParentClosureBytes")
	c18mParse      = eng.Static("gen/fb/serial.TryGetRootAsCommit", "gen/fb/serial.GetRootAsCommit")
	c18mInit       = eng.Static("gen/fb/serial.InitCommitRoot")
	c18mReadMany   = eng.Method(`store/types\.ValueRead(Writer|er)$`, "ReadManyValues")
	c18mKey        = eng.Static("store/prolly.NewCommitClosureKey")
	c18mAdd        = eng.Static("(store/prolly.CommitClosureEditor).Add")
	c18mFlush      = eng.Static("(store/prolly.CommitClosureEditor).Flush")
	c18mEditor     = eng.Static("(store/prolly.CommitClosure).Editor")
	c18mDiff       = eng.Static("store/prolly.DiffCommitClosures")
	c18mNewClosure = eng.Static("store/prolly.NewCommitClosure")
	c18mNewEmpty   = eng.Static("store/prolly.NewEmptyCommitClosure")
	c18mNode       = eng.Static("store/prolly/tree.NodeFromBytesWithHash")
	c18mHashNew    = eng.Static("store/hash.New")
	c18mIsNull     = eng.Static("store/types.IsNull")
)

// c18Writer describes a function that serialises a commit's height.
type c18Writer struct {
	fn         *ssa.Function
	heightsIdx int // parameter index of the []uint64 the maximum is taken over
	closureIdx int // parameter index of the hash written as the parent closure (-1 unknown)
	resIdx     int // result index of the returned height
}

func runC18(k *eng.Check, tier string) {
	c := k.C
	datas := c.Funcs("store/datas")

	// (1) every function that writes a commit height
	var writers []c18Writer
	for _, fn := range datas {
		if len(eng.Calls(fn, c18mAddHeight, false)) == 0 {
			continue
		}
		k.FuncsSeen[fn] = true
		if w, ok := c18CheckHeightWriter(k, fn); ok {
			writers = append(writers, w)
		}
	}
	if len(writers) < 1 {
		k.Unknown("height-written", "store/datas", "functions that call serial.CommitAddHeight and pass the height rules", "none (confirmed floor 1: commit_flatbuffer)")
	}

	// (2)+(3) callers of the writers
	nCallers := 0
	for _, w := range writers {
		for _, fn := range datas {
			for _, call := range eng.CallersOf([]*ssa.Function{fn}, w.fn) {
				nCallers++
				k.FuncsSeen[fn] = true
				c18CheckCaller(k, fn, call, w)
			}
		}
	}
	if len(writers) > 0 && nCallers < 1 {
		k.Unknown("heights-from-parents", "store/datas", "callers of the commit serializer", "none found (confirmed floor 1: newCommitForValue)")
	}

	// (4) closure construction
	if fn := k.Fn(c18WriteFb); fn != nil {
		// the builder may have been split into single-caller phases (load the parents' closures / merge them): the
		// construction rules run in the phase that opens the editor, the loading rules in the phase that makes the
		// closures slice, and the top function must hand the phases' results on and return the merging phase's answer
		host := fn
		if len(eng.Calls(fn, c18mEditor, false)) == 0 {
			for _, g := range c.FamilyOf(fn, datas, 1)[1:] {
				if len(eng.Calls(g, c18mEditor, false)) == 1 {
					host = g
				}
			}
		}
		if host != fn {
			k.FuncsSeen[host] = true
			var hc *ssa.Call
			for _, ci := range eng.Calls(fn, func(q ssa.CallInstruction) bool { return q.Common().StaticCallee() == host }, false) {
				hc, _ = ci.(*ssa.Call)
			}
			ok := hc != nil
			if ok {
				k.OnlyAfter("closure-wiring", fn, "the closure builder succeeds only after its merging phase "+eng.Name(host)+" returned nil", eng.SuccessExits(fn), 1, eng.UnionOf(eng.OkCut(hc), eng.CondEdgesP(fn, func(v ssa.Value) bool {
					b, isCmp := eng.IsCompare(v, token.EQL)
					return isCmp && eng.Mentions(b.X, func(x ssa.Value) bool {
						call, isC := x.(*ssa.Call)
						return isC && eng.CalleeName(call) == "builtin:len"
					})
				}, true)))
				for in := range eng.SuccessExits(fn).I {
					if ret, isRet := in.(*ssa.Return); isRet && len(ret.Results) > 0 && !eng.IsNilOrZero(ret.Results[0]) {
						if !eng.ResultOf(eng.Unspill(ret, 0), hc, 0) {
							ok = false
						}
					}
				}
			}
			k.Require("closure-wiring", eng.Name(fn)+"#phase-result", "the address the builder answers is the merging phase's result", ok, c.Pos(fn.Pos()), "the merging phase's result is not what the builder returns")
		}
		c18CheckClosureBuilder(k, host)
	}

	// (5) closure key codec
	c18CheckKeyCodec(k)

	// (6) in-memory heights
	c18CheckLoadedHeights(k, datas, writers)
}

// ---------------------------------------------------------------------------------------------
// (1) height = max(parent heights) + 1

func c18PlusOne(v ssa.Value) (ssa.Value, bool) {
	bo, ok := eng.Strip(v).(*ssa.BinOp)
	if !ok || bo.Op != token.ADD {
		return nil, false
	}
	if isConstInt(bo.Y, 1) {
		return bo.X, true
	}
	if isConstInt(bo.X, 1) {
		return bo.Y, true
	}
	return nil, false
}

func c18SameElem(a, b ssa.Value) bool {
	if a == b {
		return true
	}
	ba, ia, ok1 := c18uElemOf(a)
	bb, ib, ok2 := c18uElemOf(b)
	return ok1 && ok2 && ba == bb && ia == ib
}

// c18MaxOverParam recognises acc as the maximum, starting from 0, over every element of a
// []uint64 parameter of fn.  It returns that parameter, or a reason.
func c18MaxOverParam(fn *ssa.Function, acc ssa.Value) (*ssa.Parameter, string) {
	leaves, phis := c18uPhiLeaves(eng.Strip(acc))
	if len(phis) == 0 {
		return nil, "the value incremented is not a loop-carried accumulator"
	}
	inWeb := func(v ssa.Value) bool {
		p, ok := v.(*ssa.Phi)
		return ok && phis[p]
	}
	var param *ssa.Parameter
	elemOK := func(v ssa.Value) (ssa.Value, string) {
		base, idx, ok := c18uElemOf(v)
		if !ok {
			return nil, "not an element read"
		}
		p, isP := base.(*ssa.Parameter)
		if !isP || eng.ShortType(p.Type()) != "[]uint64" || p.Parent() != fn {
			return nil, "element of something other than a []uint64 parameter"
		}
		if param != nil && param != p {
			return nil, "elements of two different parameters"
		}
		start, over, _, okR := c18uIndexRange(idx)
		if !okR || start != 0 {
			return nil, "the element index does not enumerate 0..len-1"
		}
		if over != ssa.Value(p) {
			return nil, "the loop is bounded by the length of another sequence"
		}
		param = p
		return v, ""
	}
	nElems := 0
	for _, lf := range leaves {
		v := eng.Strip(lf.Val)
		if isConstInt(v, 0) {
			continue
		}
		if call, ok := c18uIsBuiltinCall(v, "max"); ok {
			// max(acc, elem): every operand is the accumulator or an element
			sawElem := false
			for _, a := range call.Call.Args {
				if inWeb(a) {
					continue
				}
				if _, why := elemOK(a); why != "" {
					return nil, "builtin max over " + why
				}
				sawElem = true
			}
			if !sawElem {
				return nil, "builtin max without an element operand"
			}
			nElems++
			continue
		}
		e, why := elemOK(v)
		if why != "" {
			return nil, "accumulator receives a value that is " + why
		}
		// the assignment acc = e happens only where e > acc (or >=) was established
		good := eng.NewSet()
		for _, b := range fn.Blocks {
			iff, ok := b.Instrs[len(b.Instrs)-1].(*ssa.If)
			if !ok {
				continue
			}
			base, pos := eng.NormBool(iff.Cond)
			cmp, ok := base.(*ssa.BinOp)
			if !ok {
				continue
			}
			var elemGreaterOnTrue bool
			switch {
			case (cmp.Op == token.GTR || cmp.Op == token.GEQ) && c18SameElem(cmp.X, e) && inWeb(cmp.Y):
				elemGreaterOnTrue = true
			case (cmp.Op == token.LSS || cmp.Op == token.LEQ) && c18SameElem(cmp.Y, e) && inWeb(cmp.X):
				elemGreaterOnTrue = true
			case (cmp.Op == token.LSS || cmp.Op == token.LEQ) && c18SameElem(cmp.X, e) && inWeb(cmp.Y):
				elemGreaterOnTrue = false
			case (cmp.Op == token.GTR || cmp.Op == token.GEQ) && c18SameElem(cmp.Y, e) && inWeb(cmp.X):
				elemGreaterOnTrue = false
			default:
				continue
			}
			if elemGreaterOnTrue == pos {
				good.AddE(eng.Edge{From: b, Succ: 0})
			} else {
				good.AddE(eng.Edge{From: b, Succ: 1})
			}
		}
		if good.Len() == 0 {
			return nil, "an element is assigned to the accumulator without a greater-than test against it"
		}
		if lf.From == nil {
			return nil, "element is not a phi operand"
		}
		// the edge lf.From -> phi block is taken only after a good edge
		tgt := eng.NewSet()
		for si, sb := range lf.From.Succs {
			if sb == lf.Phi.Block() {
				tgt.AddE(eng.Edge{From: lf.From, Succ: si})
			}
		}
		if good.E[c18FirstEdge(tgt)] && tgt.Len() == 1 {
			// the guarded edge itself enters the phi
		} else if len(eng.Reach(fn, nil, eng.NewSet().AddI(c18uBlockEntry(lf.From)), good)) > 0 {
			return nil, "an element reaches the accumulator on a path that avoids the greater-than edge (not a maximum)"
		}
		nElems++
	}
	if nElems == 0 || param == nil {
		return nil, "the accumulator never receives an element of a []uint64 parameter"
	}
	return param, ""
}

func c18FirstEdge(s *eng.Set) eng.Edge {
	for e := range s.E {
		return e
	}
	return eng.Edge{}
}

func c18CheckHeightWriter(k *eng.Check, fn *ssa.Function) (c18Writer, bool) {
	c := k.C
	w := c18Writer{fn: fn, heightsIdx: -1, closureIdx: -1, resIdx: -1}
	name := eng.Name(fn)
	allOK := true
	var acc ssa.Value
	for _, call := range eng.Calls(fn, c18mAddHeight, false) {
		pos := c.InstrPos(call.(ssa.Instruction))
		args := call.Common().Args
		if len(args) != 2 {
			k.Unknown("height-written", name+"#CommitAddHeight", "height argument", "unexpected arity")
			return w, false
		}
		a, ok := c18PlusOne(args[1])
		if !k.Require("height-written", name+"#plus-one", "the height written is (a value) + 1", ok, pos, "the argument of serial.CommitAddHeight is not <accumulator> + 1: a root commit must get height 1 and every other commit one more than its highest parent") {
			allOK = false
			continue
		}
		p, why := c18MaxOverParam(fn, a)
		if p == nil {
			// the maximum may be computed by a same-package helper over the slice it is handed
			if hc, isCall := eng.Strip(a).(*ssa.Call); isCall {
				if h := hc.Call.StaticCallee(); h != nil && len(h.Blocks) > 0 && eng.FuncPkg(h) == eng.FuncPkg(fn) {
					var q *ssa.Parameter
					good, n := true, 0
					for _, b := range h.Blocks {
						for _, in := range b.Instrs {
							if ret, isRet := in.(*ssa.Return); isRet && len(ret.Results) == 1 {
								n++
								hp, _ := c18MaxOverParam(h, ret.Results[0])
								if hp == nil || (q != nil && q != hp) {
									good = false
								}
								q = hp
							}
						}
					}
					if good && n > 0 && q != nil {
						if qi := c18uParamIndex(q); qi >= 0 && qi < len(hc.Call.Args) {
							if fp, isP := eng.Origin(hc.Call.Args[qi]).(*ssa.Parameter); isP {
								p, why = fp, ""
								k.FuncsSeen[h] = true
							}
						}
					}
				}
			}
		}
		if !k.Require("height-written", name+"#max-of-parents", "the value incremented is the maximum, from 0, over every element of a []uint64 parameter", p != nil, pos, why) {
			allOK = false
			continue
		}
		acc = a
		w.heightsIdx = c18uParamIndex(p)
	}
	if !allOK || acc == nil {
		return w, false
	}
	// the returned height is the written height
	res := fn.Signature.Results()
	for i := 0; i < res.Len(); i++ {
		if c18uIsUnsigned64(res.At(i).Type()) {
			if w.resIdx >= 0 {
				w.resIdx = -2
			} else {
				w.resIdx = i
			}
		}
	}
	if w.resIdx < 0 {
		k.Unknown("height-written", name+"#returned-height", "the uint64 result carrying the height", "no unique uint64 result")
		return w, false
	}
	okRet, n := true, 0
	posRet := c.Pos(fn.Pos())
	for in := range c18uReturns(fn).I {
		ret := in.(*ssa.Return)
		n++
		a, ok := c18PlusOne(ret.Results[w.resIdx])
		if !ok || a != acc {
			okRet = false
			posRet = c.InstrPos(ret)
		}
	}
	if !k.Require("height-written", name+"#returned-height", "the height returned to the caller (kept in datas.Commit) is the height written into the message", okRet && n > 0, posRet, "the returned uint64 is not the same <accumulator> + 1 that was serialised") {
		return w, false
	}
	// which hash parameter is written as the parent closure
	for _, call := range eng.Calls(fn, c18mAddClosure, false) {
		if len(call.Common().Args) != 2 {
			continue
		}
		var found []*ssa.Parameter
		eng.MentionsDeep(call.Common().Args[1], func(v ssa.Value) bool {
			if p, ok := v.(*ssa.Parameter); ok && isHashType(p.Type()) {
				found = append(found, p)
			}
			return false
		})
		if len(found) == 1 {
			w.closureIdx = c18uParamIndex(found[0])
		}
	}
	k.Require("closure-wiring", name+"#closure-field", "serial.CommitAddParentClosure is given a byte vector of exactly one hash parameter", w.closureIdx >= 0, c.Pos(fn.Pos()), "cannot tell which parameter is serialised as the parent closure address")
	return w, true
}

// ---------------------------------------------------------------------------------------------
// (2)+(3) the caller: heights[i] = parents[i].Height(), parents[i] = parse(parentValues[i]), ...

func c18CheckCaller(k *eng.Check, fn *ssa.Function, call ssa.CallInstruction, w c18Writer) {
	c := k.C
	name := eng.Name(fn)
	pos := c.InstrPos(call.(ssa.Instruction))
	args := call.Common().Args

	// the CommitOptions handed to the serializer
	var optsRoot ssa.Value
	for _, a := range args {
		if strings.HasSuffix(eng.ShortType(a.Type()), "store/datas.CommitOptions") {
			optsRoot = c18uLocalRoot(a)
		}
	}
	if optsRoot == nil {
		k.Unknown("heights-from-parents", name+"#opts", "the CommitOptions argument of the serializer", "not a local/parameter read")
		return
	}
	isOptsParents := func(v ssa.Value) bool {
		r, f, ok := c18uFieldRead(v)
		return ok && f == c18OptsParents && r == optsRoot
	}

	// L is the function that loads the parents: fn itself, or a same-package helper that returns the parsed parents
	// and their heights (its hash-list parameter must then be given opts.Parents and its error must be consumed)
	L := fn
	isHashes := isOptsParents
	var hcall *ssa.Call
	hs, ok := eng.Origin(args[w.heightsIdx]).(*ssa.MakeSlice)
	if !ok {
		if ex, isEx := eng.Origin(args[w.heightsIdx]).(*ssa.Extract); isEx {
			if hc, isCall := ex.Tuple.(*ssa.Call); isCall {
				if h := hc.Call.StaticCallee(); h != nil && len(h.Blocks) > 0 && eng.FuncPkg(h) == eng.FuncPkg(fn) {
					if hs = c18uReturnedSlice(h, ex.Index); hs != nil {
						L, hcall, ok = h, hc, true
					}
				}
			}
		}
	}
	if !ok {
		k.Unknown("heights-from-parents", name+"#heights", "the heights argument", "not a locally made slice (nor the result of a same-package loader that returns one)")
		return
	}
	if hcall != nil {
		k.FuncsSeen[L] = true
		isHashes = func(v ssa.Value) bool {
			p, isP := eng.Origin(v).(*ssa.Parameter)
			if !isP {
				return false
			}
			for pi, q := range L.Params {
				if q == p {
					return pi < len(hcall.Call.Args) && isOptsParents(hcall.Call.Args[pi])
				}
			}
			return false
		}
		k.OnlyAfter("heights-from-parents", fn, "the commit is serialised only after the parent loader returned nil", eng.NewSet().AddI(call.(ssa.Instruction)), 1, eng.OkCut(hcall))
	}
	var parents ssa.Value
	stores := c18uElemStores(L, hs)
	good := len(stores) > 0
	why := "no element of the heights slice is ever assigned"
	at := pos
	for _, s := range stores {
		hc, isCall := eng.Strip(s.Val).(*ssa.Call)
		if !isCall || !c18mHeight(hc) {
			good, why, at = false, "a height element is assigned something other than (*serial.Commit).Height()", c.InstrPos(s.Store)
			break
		}
		base, idx, isElem := c18uElemOf(hc.Call.Args[0])
		if !isElem || idx != s.Idx {
			good, why, at = false, "heights[i] is the height of a parent at a different index than i", c.InstrPos(s.Store)
			break
		}
		if start, _, _, okR := c18uIndexRange(idx); !okR || start != 0 {
			good, why, at = false, "the index of heights[i] does not enumerate every parent from 0", c.InstrPos(s.Store)
			break
		}
		if parents != nil && parents != base {
			good, why, at = false, "heights are read from two different parent slices", c.InstrPos(s.Store)
			break
		}
		parents = base
	}
	if !k.Require("heights-from-parents", name+"#heights[i]=parents[i].Height()", "every element of the heights slice handed to the serializer is Height() of the parsed parent with the same index, for every index from 0", good, at, why) {
		return
	}
	if _, isMS := parents.(*ssa.MakeSlice); !isMS {
		k.Unknown("heights-from-parents", name+"#parents", "the parsed-parents slice", "not a locally made slice")
		return
	}

	// parents[j] = parse(parentValues[j]) ; parentValues = ReadManyValues(opts.Parents)
	pstores := c18uElemStores(L, parents)
	good, why, at = len(pstores) > 0, "no element of the parsed-parents slice is ever assigned", pos
	for _, s := range pstores {
		ex, isEx := eng.Origin(s.Val).(*ssa.Extract)
		var pc *ssa.Call
		if isEx && ex.Index == 0 {
			pc, _ = ex.Tuple.(*ssa.Call)
		}
		if pc == nil || !c18mParse(pc) {
			good, why, at = false, "a parent element is not the result of serial.TryGetRootAsCommit", c.InstrPos(s.Store)
			break
		}
		vbase, vidx, isElem := c18uElemIn(pc.Call.Args[0])
		if !isElem || vidx != s.Idx {
			good, why, at = false, "parents[j] is parsed from the value at a different index than j", c.InstrPos(s.Store)
			break
		}
		if start, _, _, okR := c18uIndexRange(vidx); !okR || start != 0 {
			good, why, at = false, "the index of parents[j] does not enumerate every parent from 0", c.InstrPos(s.Store)
			break
		}
		vex, isEx := vbase.(*ssa.Extract)
		var rc *ssa.Call
		if isEx && vex.Index == 0 {
			rc, _ = vex.Tuple.(*ssa.Call)
		}
		if rc == nil || !c18mReadMany(rc) {
			good, why, at = false, "the parsed values are not the result of ReadManyValues", c.InstrPos(s.Store)
			break
		}
		hashes := eng.PathArgs(rc)
		if len(hashes) != 2 || !isHashes(hashes[1]) {
			good, why, at = false, "ReadManyValues is not given the Parents of the CommitOptions that is serialised", c.InstrPos(rc)
			break
		}
	}
	k.Require("heights-from-parents", name+"#parents[j]=parse(ReadManyValues(opts.Parents)[j])", "every parsed parent is decoded from the value read for opts.Parents at the same index", good, at, why)

	// opts.Parents is not re-assigned between reading the parents and serialising them
	reassigned := len(eng.FieldStores(fn, `store/datas\.CommitOptions$`, "Parents"))
	if a, isA := optsRoot.(*ssa.Alloc); isA {
		for _, st := range eng.StoresTo(a) {
			if _, fromParam := st.Val.(*ssa.Parameter); !fromParam {
				reassigned++
			}
		}
	}
	k.Require("heights-from-parents", name+"#opts.Parents-stable", "the parent list is not re-assigned between reading the parents' heights and serialising the parent list", reassigned == 0, pos, "CommitOptions (or its Parents) is assigned in this function")

	// (3) closure wiring
	var wcs []ssa.CallInstruction
	for _, cc := range eng.Calls(fn, eng.Static(c18WriteFb), false) {
		wcs = append(wcs, cc)
	}
	if len(wcs) != 1 {
		k.Unknown("closure-wiring", name+"#writeFbCommitParentClosure", "the call that builds the parent closure", fmt.Sprintf("%d calls found (confirmed 1)", len(wcs)))
		return
	}
	wc := wcs[0]
	okP, okA := false, false
	for _, a := range wc.Common().Args {
		switch eng.ShortType(a.Type()) {
		case "[]*gen/fb/serial.Commit":
			okP = eng.Origin(a) == parents
			if hcall != nil {
				// the caller sees the parsed parents as a result of the loader call
				ex, isEx := eng.Origin(a).(*ssa.Extract)
				okP = isEx && ex.Tuple == ssa.Value(hcall) && ssa.Value(c18uReturnedSlice(L, ex.Index)) == parents
			}
		case "[]store/hash.Hash":
			okA = isOptsParents(a)
		}
	}
	k.Require("closure-wiring", name+"#closure-inputs", "the closure is built from the same parsed parents whose heights are used, paired with opts.Parents", okP && okA, c.InstrPos(wc.(ssa.Instruction)), fmt.Sprintf("parents argument is the parsed-parents slice: %v; addresses argument is opts.Parents: %v", okP, okA))
	if w.closureIdx >= 0 && w.closureIdx < len(args) {
		k.Require("closure-wiring", name+"#closure-addr", "the address serialised as the parent closure is the result of writeFbCommitParentClosure", eng.ResultOf(args[w.closureIdx], wc, 0), pos, "another hash is passed in the parent-closure position of the serializer")
	}
	k.OnlyAfter("closure-wiring", fn, "the commit is serialised only after writeFbCommitParentClosure returned nil", eng.NewSet().AddI(call.(ssa.Instruction)), 1, eng.OkCut(wc))
}

// ---------------------------------------------------------------------------------------------
// (4) writeFbCommitParentClosure

func c18CheckClosureBuilder(k *eng.Check, fn *ssa.Function) {
	c := k.C
	name := eng.Name(fn)
	pp := c18uParamsOfType(fn, "[]*gen/fb/serial.Commit")
	ap := c18uParamsOfType(fn, "[]store/hash.Hash")
	if len(pp) != 1 || len(ap) != 1 {
		k.Unknown("closure-parents-added", name, "the parents and parent-address parameters", "not exactly one []*serial.Commit and one []hash.Hash parameter")
		return
	}
	parentsP, addrsP := ssa.Value(pp[0]), ssa.Value(ap[0])

	// the editor
	eds := eng.Calls(fn, c18mEditor, false)
	if len(eds) != 1 {
		k.Unknown("closure-one-editor", name, "the CommitClosure.Editor() call", fmt.Sprintf("%d found (confirmed 1)", len(eds)))
		return
	}
	edCall := eds[0].(*ssa.Call)
	var edAlloc *ssa.Alloc
	for _, ref := range *edCall.Referrers() {
		if st, ok := ref.(*ssa.Store); ok && st.Val == ssa.Value(edCall) {
			if a, isA := st.Addr.(*ssa.Alloc); isA {
				edAlloc = a
			}
		}
	}
	if edAlloc == nil || len(eng.StoresTo(edAlloc)) != 1 {
		k.Unknown("closure-one-editor", name, "the editor variable", "the editor is not a local assigned exactly once from Editor()")
		return
	}
	isEditor := func(v ssa.Value) bool {
		v = eng.Strip(v)
		u, ok := v.(*ssa.UnOp)
		if !ok || u.Op != token.MUL {
			return false
		}
		if u.X == ssa.Value(edAlloc) {
			return true
		}
		if fv, isFV := u.X.(*ssa.FreeVar); isFV {
			bs := eng.FreeVarBindings(fv)
			if len(bs) == 0 {
				return false
			}
			for _, b := range bs {
				if b != ssa.Value(edAlloc) {
					return false
				}
			}
			return true
		}
		return false
	}
	csBase, csIdx0, okEd := c18uElemOf(edCall.Call.Args[0])
	k0, okK := int64(0), false
	if okEd {
		k0, okK = c18uConstInt64(csIdx0)
	}
	var cs ssa.Value
	if ms, isMS := csBase.(*ssa.MakeSlice); isMS {
		cs = ms
	} else if p, isP := csBase.(*ssa.Parameter); isP {
		cs = p // filled by a loading phase: checked by c18CheckClosureLoads through the call site
	}
	if !okEd || !okK || cs == nil {
		k.Unknown("closure-union", name+"#editor-base", "the closure the editor is opened on", "not a constant-index element of a locally made closures slice (or of the slice a loading phase hands in)")
		return
	}

	// (4a) every parent is added with its own height and address
	var goodAdds []ssa.CallInstruction
	for _, add := range eng.Calls(fn, c18mAdd, false) {
		a := add.Common().Args
		if len(a) != 3 {
			continue
		}
		kc, ok := eng.Origin(a[2]).(*ssa.Call)
		if !ok || !c18mKey(kc) || len(kc.Call.Args) != 3 {
			continue
		}
		hc, ok := eng.Strip(kc.Call.Args[1]).(*ssa.Call)
		if !ok || !c18mHeight(hc) {
			continue
		}
		hb, hi, ok1 := c18uElemOf(hc.Call.Args[0])
		ab, ai, ok2 := c18uElemOf(kc.Call.Args[2])
		pos := c.InstrPos(add.(ssa.Instruction))
		if !ok1 || !ok2 || hb != parentsP || ab != addrsP {
			k.Fail("closure-parents-added", name+"#key(parents[i].Height(), parentAddrs[i])", "a parent is added to the closure under its own height and its own address", pos, "the key's height is not Height() of an element of the parents parameter, or its address is not an element of the parent-address parameter", nil)
			continue
		}
		if !k.Require("closure-parents-added", name+"#key(parents[i].Height(), parentAddrs[i])", "a parent is added to the closure under its own height and its own address", hi == ai, pos, "the height and the address of the closure key are taken at different indices") {
			continue
		}
		start, _, header, okR := c18uIndexRange(hi)
		if !k.Require("closure-parents-added", name+"#every-parent", "the loop that adds the parents enumerates every index from 0", okR && start == 0, pos, "the parent index does not enumerate 0..len-1 (a parent is missing from its child's closure)") {
			continue
		}
		if !k.Require("closure-one-editor", name+"#parent-add-receiver", "the parents are added to the editor that is flushed", isEditor(a[0]), pos, "Add is applied to another editor") {
			continue
		}
		l := c18uLoopOf(fn, header)
		if l == nil {
			k.Unknown("closure-parents-added", name+"#each-iteration", "the loop adding the parents", "loop not found")
			continue
		}
		body := eng.Point{B: header.Succs[0], I: 0}
		// target = re-entry of the loop header (not the back edges: with a range loop the nil edge of the
		// error test is itself the back edge)
		k.OnlyAfter("closure-parents-added", fn, "every iteration over the parents adds the key and continues only when Add returned nil", eng.NewSet().AddI(c18uBlockEntry(l.Header)), 1, eng.OkCut(add), body)
		goodAdds = append(goodAdds, add)
	}
	if len(goodAdds) < 1 {
		k.Unknown("closure-parents-added", name, "editor.Add(NewCommitClosureKey(parents[i].Height(), parentAddrs[i]))", "no such call found (confirmed floor 1)")
	}

	// (4b) closures[j] comes from parents[j]
	if ms, isMS := cs.(*ssa.MakeSlice); isMS {
		c18CheckClosureLoads(k, fn, ms, parentsP)
	} else {
		c18CheckClosureLoadsInPhase(k, fn, cs.(*ssa.Parameter), parentsP.(*ssa.Parameter))
	}

	// (4a') no loop over the parents is left early: a loop is exited through its own condition or towards an
	// error return; an early exit that can still reach a success return skips the remaining parents
	// (when the builder is split into phases, the loops of every phase count and are checked)
	loopFns := []*ssa.Function{fn}
	if top := c.Func(c18WriteFb); top != nil && top != fn {
		loopFns = nil
		for _, g := range c.FamilyOf(top, c.Funcs("store/datas"), 1) {
			if len(eng.Loops(g)) > 0 {
				loopFns = append(loopFns, g)
			}
		}
	}
	nLoopsAll := 0
	for _, g := range loopFns {
		nLoopsAll += len(eng.Loops(g))
	}
	if nLoopsAll < 3 {
		k.Unknown("closure-loops-complete", name, "the loops over the parents / their closures", fmt.Sprintf("%d loops found (confirmed floor 3)", nLoopsAll))
	}
	for _, lf := range loopFns {
		fn := lf
		name := eng.Name(fn)
		succ := eng.SuccessExits(fn)
		loops := eng.Loops(fn)
		for li, l := range loops {
			var early []eng.Point
			for _, e := range l.Exits {
				if e.From != l.Header {
					early = append(early, eng.Point{B: e.To(), I: 0})
				}
			}
			what := fmt.Sprintf("loop %d: an exit other than the loop condition leads only to error returns", li)
			if len(early) == 0 {
				k.Pass("closure-loops-complete", name+"#"+what, what, 1)
				continue
			}
			k.OnlyAfter("closure-loops-complete", fn, what, succ, 1, eng.NewSet(), early...)
		}
	}

	// (4c) every other closure is merged in
	diffs := eng.Calls(fn, c18mDiff, false)
	if len(diffs) < 1 {
		k.Unknown("closure-union", name, "prolly.DiffCommitClosures calls", "none found (confirmed floor 1)")
	}
	addedVal := ""
	for _, cd := range c.PackageConsts("store/prolly/tree", "DiffType", func(n string) bool { return n == "AddedDiff" }) {
		addedVal = cd.Value
	}
	if addedVal == "" {
		k.Unknown("closure-union", "store/prolly/tree.AddedDiff", "the AddedDiff constant", "not found")
	}
	for _, d := range diffs {
		a := d.Common().Args
		pos := c.InstrPos(d.(ssa.Instruction))
		if len(a) != 4 {
			k.Unknown("closure-union", name+"#DiffCommitClosures", "arguments", "unexpected arity")
			continue
		}
		fb, fi, ok1 := c18uElemOf(a[1])
		tb, ti, ok2 := c18uElemOf(a[2])
		fk, okFK := int64(0), false
		if ok1 {
			fk, okFK = c18uConstInt64(fi)
		}
		okFrom := ok1 && okFK && fb == cs && fk == k0
		k.Require("closure-union", name+"#diff-from", "the diff's base is the closure the editor was opened on", okFrom, pos, "DiffCommitClosures' first closure is not the element the editor edits: keys reported as added are not the ones missing from the edited map")
		okTo := false
		whyTo := "the second closure is not an element of the closures slice at a loop index"
		if ok2 && tb == cs {
			start, _, header, okR := c18uIndexRange(ti)
			switch {
			case !okR:
				whyTo = "the index of the second closure does not enumerate the closures up to len-1"
			case start == 0 || (start == 1 && k0 == 0):
				okTo = true
				if l := c18uLoopOf(fn, header); l != nil {
					k.OnlyAfter("closure-union", fn, "every iteration over the other parents' closures performs the diff", eng.NewSet().AddI(c18uBlockEntry(l.Header)), 1, eng.NewSet().AddI(d.(ssa.Instruction)), eng.Point{B: header.Succs[0], I: 0})
				}
			default:
				whyTo = fmt.Sprintf("the loop over the other closures starts at %d: a parent's closure is never merged", start)
			}
		}
		k.Require("closure-union", name+"#diff-to", "every closure other than the edited one is diffed against it", okTo, pos, whyTo)
		k.Require("closure-union", name+"#diff-error", "the error of DiffCommitClosures is consumed", eng.ErrConsumed(d), pos, "error dropped: a failed merge of ancestor sets would be committed")
		// the callback
		mc, ok := eng.Strip(a[3]).(*ssa.MakeClosure)
		if !ok {
			k.Unknown("closure-union", name+"#callback", "the diff callback", "not a function literal")
			continue
		}
		cb := mc.Fn.(*ssa.Function)
		k.FuncsSeen[cb] = true
		isType := func(v ssa.Value) bool {
			return eng.Mentions(v, func(x ssa.Value) bool { return eng.FieldName(x) == "store/prolly/tree.Diff.Type" })
		}
		added := eng.ConstEqEdges(cb, isType, addedVal, true)
		if added.Len() < 1 {
			k.Unknown("closure-union", eng.Name(cb)+"#added-edge", "the branch on diff.Type == tree.AddedDiff", "not found: keys present only in the other parent's closure are not recognised")
			continue
		}
		cbAdds := eng.NewSet()
		for _, add := range eng.Calls(cb, c18mAdd, false) {
			aa := add.Common().Args
			if len(aa) == 3 && isEditor(aa[0]) && eng.FromField(aa[2], "store/prolly/tree.Diff.Key") {
				cbAdds.AddI(add.(ssa.Instruction))
				k.Require("closure-union", eng.Name(cb)+"#add-error", "the error of adding a missing ancestor is propagated", eng.ErrConsumed(add), c.InstrPos(add.(ssa.Instruction)), "error dropped")
			}
		}
		k.OnlyAfter("closure-union", cb, "on the AddedDiff edge the callback returns only after editor.Add(diff.Key)", c18uReturns(cb), 1, cbAdds, eng.EdgeTargets(added)...)
	}

	// (4d) one editor, flushed, result returned
	flushes := eng.Calls(fn, c18mFlush, false)
	okFl := len(flushes) >= 1
	for _, f := range flushes {
		if !isEditor(f.Common().Args[0]) {
			okFl = false
		}
	}
	k.Require("closure-one-editor", name+"#flush-receiver", "Flush is applied to the editor that received the parents and the merged ancestors", okFl, c.Pos(fn.Pos()), "no Flush, or Flush of another editor")
	noParents := eng.ConstEqEdges(fn, func(v ssa.Value) bool {
		call, ok := c18uIsBuiltinCall(v, "len")
		return ok && eng.Origin(call.Call.Args[0]) == parentsP
	}, "0", true)
	exits := eng.SuccessExits(fn)
	minExits := 2
	if eng.Name(fn) != c18WriteFb {
		minExits = 1 // a merging phase: the no-parents exit stays with the caller
	}
	k.OnlyAfter("closure-flushed", fn, "a success exit is reached only after Flush returned nil, or on the no-parents edge", exits, minExits, eng.UnionOf(k.OkCalls(fn, "c18flush", c18mFlush), noParents))
	// the value returned on a success exit reachable without the no-parents edge derives from Flush
	for in := range exits.I {
		ret, ok := in.(*ssa.Return)
		if !ok || len(ret.Results) == 0 {
			continue
		}
		if len(eng.Reach(fn, nil, eng.NewSet().AddI(ret), noParents)) == 0 {
			continue // only the root-commit path gets here
		}
		fromFlush := eng.MentionsDeep(ret.Results[0], func(v ssa.Value) bool {
			ex, ok := v.(*ssa.Extract)
			if !ok || ex.Index != 0 {
				return false
			}
			fc, ok := ex.Tuple.(*ssa.Call)
			return ok && c18mFlush(fc)
		})
		k.Require("closure-flushed", name+"#returned-address", "the address returned for a commit with parents is the address of the flushed closure", fromFlush, c.InstrPos(ret), "the returned hash does not derive from the result of Flush")
	}
}

// c18CheckClosureLoads: closures[j] = NewCommitClosure(NodeFromBytesWithHash(vs[j], addrs[j])),
// vs = ReadManyValues(addrs), addrs[m] = hash.New(parents[m].ParentClosureBytes()).
func c18CheckClosureLoads(k *eng.Check, fn *ssa.Function, cs *ssa.MakeSlice, parentsP ssa.Value) {
	c := k.C
	name := eng.Name(fn)
	stores := c18uElemStores(fn, cs)
	nLoaded := 0
	var addrs ssa.Value
	for _, s := range stores {
		pos := c.InstrPos(s.Store)
		ex, isEx := eng.Origin(s.Val).(*ssa.Extract)
		var call *ssa.Call
		if isEx && ex.Index == 0 {
			call, _ = ex.Tuple.(*ssa.Call)
		}
		if start, _, _, okR := c18uIndexRange(s.Idx); !okR || start != 0 {
			k.Fail("closure-per-parent", name+"#closures[j]", "closures[j] is assigned for every j from 0", pos, "the index does not enumerate 0..len-1", nil)
			continue
		}
		switch {
		case call != nil && c18mNewClosure(call):
			nLoaded++
			nex, ok := eng.Origin(call.Call.Args[0]).(*ssa.Extract)
			var nc *ssa.Call
			if ok && nex.Index == 0 {
				nc, _ = nex.Tuple.(*ssa.Call)
			}
			if nc == nil || !c18mNode(nc) || len(nc.Call.Args) != 2 {
				k.Fail("closure-per-parent", name+"#closures[j]", "closures[j] is decoded from the chunk read for parent j's closure address", pos, "the node is not the result of tree.NodeFromBytesWithHash", nil)
				continue
			}
			vb, vi, ok1 := c18uElemIn(nc.Call.Args[0])
			ab, ai, ok2 := c18uElemOf(nc.Call.Args[1])
			okIdx := ok1 && ok2 && vi == s.Idx && ai == s.Idx
			okRead := false
			if vex, isVex := vb.(*ssa.Extract); isVex && vex.Index == 0 {
				if rc, isRC := vex.Tuple.(*ssa.Call); isRC && c18mReadMany(rc) {
					pa := eng.PathArgs(rc)
					okRead = len(pa) == 2 && eng.Origin(pa[1]) == ab
				}
			}
			if k.Require("closure-per-parent", name+"#closures[j]", "closures[j] is decoded from vs[j] with addrs[j], where vs = ReadManyValues(addrs)", okIdx && okRead, pos, "the chunk, its address and the closure slot are taken at different indices, or the chunks were not read for these addresses") {
				addrs = ab
			}
		case call != nil && c18mNewEmpty(call):
			isNull := eng.BoolEdges(fn, func(v ssa.Value) bool {
				ic, ok := v.(*ssa.Call)
				if !ok || !c18mIsNull(ic) || len(ic.Call.Args) != 1 {
					return false
				}
				_, ii, isElem := c18uElemOf(ic.Call.Args[0])
				return isElem && ii == s.Idx
			}, true)
			ok := isNull.Len() > 0 && len(eng.Reach(fn, nil, eng.NewSet().AddI(s.Store), isNull)) == 0
			k.Require("closure-per-parent", name+"#empty-closure", "a parent's closure is taken as empty only when no chunk was found for its closure address", ok, pos, "the empty closure is used on a path where the parent's closure chunk exists: its ancestors are lost")
		default:
			k.Fail("closure-per-parent", name+"#closures[j]", "closures[j] is the parent's stored closure or the empty closure", pos, "unrecognised source of a parent closure", nil)
		}
	}
	if nLoaded < 1 {
		k.Unknown("closure-per-parent", name, "closures[j] = NewCommitClosure(...)", "no such assignment found (confirmed floor 1)")
		return
	}
	if addrs == nil {
		return
	}
	as := c18uElemStores(fn, addrs)
	good, why, at := len(as) > 0, "the closure addresses are never assigned", c.Pos(fn.Pos())
	for _, s := range as {
		hn, ok := eng.Strip(s.Val).(*ssa.Call)
		var pc *ssa.Call
		if ok && c18mHashNew(hn) && len(hn.Call.Args) == 1 {
			pc, _ = eng.Strip(hn.Call.Args[0]).(*ssa.Call)
		}
		if pc == nil || !c18mPCBytes(pc) {
			good, why, at = false, "a closure address is not hash.New(parent.ParentClosureBytes())", c.InstrPos(s.Store)
			break
		}
		pb, pi, isElem := c18uElemOf(pc.Call.Args[0])
		if !isElem || pb != parentsP || pi != s.Idx {
			good, why, at = false, "addrs[m] is read from a parent at a different index than m", c.InstrPos(s.Store)
			break
		}
		if start, _, _, okR := c18uIndexRange(pi); !okR || start != 0 {
			good, why, at = false, "the index does not enumerate every parent from 0", c.InstrPos(s.Store)
			break
		}
	}
	k.Require("closure-per-parent", name+"#addrs[m]=parents[m].ParentClosure", "the closure address of slot m is read from parent m", good, at, why)
}

// ---------------------------------------------------------------------------------------------
// (5) closure key encoder / decoder agreement

var c18OrderRe = regexp.MustCompile(`^\((encoding/binary\.\w+)\)\.(PutUint64|Uint64)$`)

func c18CheckKeyCodec(k *eng.Check) {
	c := k.C
	enc := k.Fn("store/prolly.NewCommitClosureKey")
	decH := k.Fn("(store/prolly.CommitClosureKey).Height")
	decA := k.Fn("(store/prolly.CommitClosureKey).Addr")
	if enc == nil || decH == nil || decA == nil {
		return
	}
	sliceLow := func(v ssa.Value) (ssa.Value, int64, bool) {
		v = eng.Strip(v)
		if s, ok := v.(*ssa.Slice); ok {
			if s.Low == nil {
				return eng.Strip(s.X), 0, true
			}
			lo, isK := c18uConstInt64(s.Low)
			return eng.Strip(s.X), lo, isK
		}
		return v, 0, true
	}
	// encoder
	encOrder, encOff := "", int64(-1)
	var buf ssa.Value
	okEnc, whyEnc := true, ""
	puts := eng.Calls(enc, eng.Named(`^\(encoding/binary\.\w+\)\.PutUint64$`), false)
	if len(puts) != 1 || len(puts[0].Common().Args) != 3 {
		okEnc, whyEnc = false, "not exactly one PutUint64"
	} else {
		a := puts[0].Common().Args
		encOrder = c18OrderRe.FindStringSubmatch(eng.CalleeName(puts[0]))[1]
		b, lo, ok := sliceLow(a[1])
		hp, isP := eng.Strip(a[2]).(*ssa.Parameter)
		if !ok || lo != 0 || !isP || !c18uIsUnsigned64(hp.Type()) {
			okEnc, whyEnc = false, "the height parameter is not written at offset 0"
		}
		buf = b
	}
	copies := eng.Calls(enc, eng.Named(`^builtin:copy$`), false)
	if okEnc && len(copies) == 1 {
		a := copies[0].Common().Args
		b, lo, ok := sliceLow(a[0])
		fromHash := eng.Mentions(a[1], func(v ssa.Value) bool {
			p, isP := v.(*ssa.Parameter)
			return isP && isHashType(p.Type())
		})
		if !ok || b != buf || !fromHash {
			okEnc, whyEnc = false, "the address parameter is not copied into the key buffer at a constant offset"
		}
		encOff = lo
	} else if okEnc {
		okEnc, whyEnc = false, "not exactly one copy of the address"
	}
	if okEnc {
		for in := range c18uReturns(enc).I {
			if eng.Strip(in.(*ssa.Return).Results[0]) != buf {
				okEnc, whyEnc = false, "the key returned is not the buffer written"
			}
		}
	}
	k.Require("closure-key-codec", "store/prolly.NewCommitClosureKey", "the key is <height as fixed-width integer at offset 0><address at a constant offset>", okEnc && encOff == 8, c.Pos(enc.Pos()), whyEnc+fmt.Sprintf(" (address offset %d)", encOff))
	// Height decoder
	okH, whyH := false, "Height() does not return <order>.Uint64(key)"
	for in := range c18uReturns(decH).I {
		call, ok := eng.Strip(in.(*ssa.Return).Results[0]).(*ssa.Call)
		if !ok {
			continue
		}
		m := c18OrderRe.FindStringSubmatch(eng.CalleeName(call))
		if m == nil || m[2] != "Uint64" || len(call.Call.Args) != 2 {
			continue
		}
		b, lo, okS := sliceLow(call.Call.Args[1])
		_, isP := b.(*ssa.Parameter)
		switch {
		case !okS || lo != 0 || !isP:
			whyH = "Height() does not decode the receiver at offset 0"
		case m[1] != encOrder:
			whyH = "Height() decodes with " + m[1] + " but NewCommitClosureKey encodes with " + encOrder
		default:
			okH = true
		}
	}
	k.Require("closure-key-codec", "(store/prolly.CommitClosureKey).Height", "Height() decodes the integer NewCommitClosureKey encoded (same byte order, same offset)", okEnc && okH, c.Pos(decH.Pos()), whyH)
	// Addr decoder
	okA, whyA := false, "Addr() does not return hash.New(key[offset:])"
	for in := range c18uReturns(decA).I {
		call, ok := eng.Strip(in.(*ssa.Return).Results[0]).(*ssa.Call)
		if !ok || !c18mHashNew(call) || len(call.Call.Args) != 1 {
			continue
		}
		b, lo, okS := sliceLow(call.Call.Args[0])
		_, isP := b.(*ssa.Parameter)
		if okS && isP && lo == encOff {
			okA = true
		} else {
			whyA = fmt.Sprintf("Addr() reads the address at offset %d but NewCommitClosureKey writes it at %d", lo, encOff)
		}
	}
	k.Require("closure-key-codec", "(store/prolly.CommitClosureKey).Addr", "Addr() reads the address from the offset NewCommitClosureKey wrote it at", okEnc && okA, c.Pos(decA.Pos()), whyA)
}

// ---------------------------------------------------------------------------------------------
// (6) datas.Commit.height

func c18CheckLoadedHeights(k *eng.Check, datas []*ssa.Function, writers []c18Writer) {
	c := k.C
	n := 0
	for _, fn := range datas {
		for _, in := range eng.FieldStores(fn, `store/datas\.Commit$`, "height") {
			st := in.(*ssa.Store)
			n++
			pos := c.InstrPos(st)
			construct := eng.Name(fn) + "#Commit.height"
			k.FuncsSeen[fn] = true
			// (i) the serializer's returned height
			fromWriter := false
			for _, w := range writers {
				if ex, ok := eng.Origin(st.Val).(*ssa.Extract); ok && ex.Index == w.resIdx {
					if call, isCall := ex.Tuple.(*ssa.Call); isCall && call.Call.StaticCallee() == w.fn {
						fromWriter = true
					}
				}
			}
			if fromWriter {
				k.Pass("loaded-height", construct, "the in-memory height of a new commit is the height the serializer wrote", 1)
				continue
			}
			// (ii) Height() of the message initialised from the value kept in Commit.val
			hc, ok := eng.Strip(st.Val).(*ssa.Call)
			if !ok || !c18mHeight(hc) {
				k.Fail("loaded-height", construct, "the in-memory height is read from the commit message", pos, "Commit.height is assigned something other than (*serial.Commit).Height() or the serializer's result", nil)
				continue
			}
			msg := eng.Strip(hc.Call.Args[0])
			var src ssa.Value
			for _, ic := range eng.Calls(fn, c18mInit, false) {
				if len(ic.Common().Args) >= 2 && eng.Strip(ic.Common().Args[0]) == msg {
					src = ic.Common().Args[1]
				}
			}
			// the value stored into .val of the same struct
			var val ssa.Value
			if fa, isFA := st.Addr.(*ssa.FieldAddr); isFA {
				for _, in2 := range eng.FieldStores(fn, `store/datas\.Commit$`, "val") {
					s2 := in2.(*ssa.Store)
					if fa2, ok2 := s2.Addr.(*ssa.FieldAddr); ok2 && fa2.X == fa.X {
						val = eng.Strip(s2.Val)
					}
				}
			}
			same := src != nil && val != nil && eng.Mentions(src, func(v ssa.Value) bool { return v == val })
			k.Require("loaded-height", construct, "the in-memory height is Height() of the message decoded from the very value kept as the commit's value", same, pos, "the message whose Height() is used was not initialised from the value stored in Commit.val")
		}
	}
	if n < 3 {
		k.Unknown("loaded-height", "store/datas", "stores to datas.Commit.height", fmt.Sprintf("%d found (confirmed floor 3: newCommitForValue, commitPtr, GetCommitParents)", n))
	}
}

// c18uReturnedSlice: the locally made slice that h returns as result idx on every return where that result is not nil.
func c18uReturnedSlice(h *ssa.Function, idx int) *ssa.MakeSlice {
	var out *ssa.MakeSlice
	for _, b := range h.Blocks {
		for _, in := range b.Instrs {
			ret, ok := in.(*ssa.Return)
			if !ok {
				continue
			}
			if idx >= len(ret.Results) {
				return nil
			}
			if isNil(ret.Results[idx]) {
				continue
			}
			ms, ok := eng.Origin(ret.Results[idx]).(*ssa.MakeSlice)
			if !ok || (out != nil && out != ms) {
				return nil
			}
			out = ms
		}
	}
	return out
}

// c18CheckClosureLoadsInPhase: merge is the phase that opens the editor on closures[0] of its parameter csP.  At its
// single call site the argument for csP is result j of a loading phase whose every non-nil return at j is the slice
// it made; the loading rules are applied there with the loading phase's own parents parameter, and both phases must be
// handed the same parents value; the merging phase runs only after the loading phase returned nil.
func c18CheckClosureLoadsInPhase(k *eng.Check, merge *ssa.Function, csP, parentsP *ssa.Parameter) {
	c := k.C
	name := eng.Name(merge)
	callers := eng.CallersOf(c.Funcs("store/datas"), merge)
	if len(callers) != 1 {
		k.Unknown("closure-per-parent", name, "the single call site of the merging phase", fmt.Sprintf("%d found", len(callers)))
		return
	}
	site, ok := callers[0].(*ssa.Call)
	if !ok {
		k.Unknown("closure-per-parent", name, "the call of the merging phase", "not a plain call")
		return
	}
	top := site.Parent()
	ci, pi := c18uParamIndex(csP), c18uParamIndex(parentsP)
	if ci < 0 || pi < 0 || ci >= len(site.Call.Args) || pi >= len(site.Call.Args) {
		k.Unknown("closure-per-parent", name, "arguments of the merging phase", "parameter positions not found")
		return
	}
	ex, isEx := eng.Origin(site.Call.Args[ci]).(*ssa.Extract)
	var lc *ssa.Call
	if isEx {
		lc, _ = ex.Tuple.(*ssa.Call)
	}
	var load *ssa.Function
	if lc != nil {
		load = lc.Call.StaticCallee()
	}
	if load == nil || len(load.Blocks) == 0 || eng.FuncPkg(load) != eng.FuncPkg(merge) {
		k.Unknown("closure-per-parent", name, "the phase that loads the parents' closures", "the closures argument is not a result of a same-package call")
		return
	}
	k.FuncsSeen[load] = true
	ms := c18uReturnedSlice(load, ex.Index)
	lp := c18uParamsOfType(load, "[]*gen/fb/serial.Commit")
	if ms == nil || len(lp) != 1 {
		k.Unknown("closure-per-parent", eng.Name(load), "the closures slice the loading phase makes and its parents parameter", "not found")
		return
	}
	lpi := c18uParamIndex(lp[0])
	same := lpi >= 0 && lpi < len(lc.Call.Args) && eng.Origin(lc.Call.Args[lpi]) == eng.Origin(site.Call.Args[pi])
	k.Require("closure-per-parent", eng.Name(top)+"#same-parents", "the loading phase and the merging phase are handed the same parents", same, c.InstrPos(site), "the two phases work on different parent lists")
	k.OnlyAfter("closure-per-parent", top, "the merging phase runs only after the loading phase returned nil", eng.NewSet().AddI(site), 1, eng.OkCut(lc))
	c18CheckClosureLoads(k, load, ms, lp[0])
}
