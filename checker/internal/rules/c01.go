package rules

import (
	"fmt"
	"go/token"
	"go/types"
	"strings"

	"dvcheck/internal/eng"

	"golang.org/x/tools/go/ssa"
)

func init() {
	Registry["C01"] = &Rule{
		Explanation: "Decides three structural clauses of 'a read returns the bytes stored under that address': (1) no presence or read result is produced from a prefix match alone: every assignment `record.has = true` / `record.found = true` in store/nbs is reachable only through the success edge of a full-address matcher (suffix comparison of the table index, archive/journal/memtable lookups keyed by the full hash, hash-set and has-cache membership) that was applied to that request's own address; the hits-slice idiom is followed to its append sites; (2) the CRC gate: a CompressedChunk carrying bytes is constructed only by NewCompressedChunk (past the checksum comparison) and ChunkToCompressedChunk (which computes the checksum), and NewCompressedChunk's verdict is consumed at every call site; (3) the store front-ends consult every chunk source: NomsBlockStore read entry points consult the memtable and the table set, GenerationalNBS read entry points consult old generation, new generation and ghost generation. Does not decide binary-search arithmetic, offsets, or that the suffix comparison compares the right twelve bytes.",
		RuleText:    "guard analysis by CFG cut-reachability over matcher success edges (with data-derivation of the matched address), constructor ownership (who-may-construct), error consumption, call-set agreement across sibling entry points",
		Assumptions: []string{"lookups keyed by hash.Hash (maps, HashSet, LRU) compare all 20 bytes", "the journal range index keyed by the 16-byte prefix of cached (already indexed) addresses is a documented assumption outside the 8-byte prefix this property is about"},
		Patterns:    []string{"./store/nbs", "./store/chunks", "./store/hash", "./libraries/utils/errors"},
		Run:         runC01,
	}
}

func runC01(k *eng.Check, tier string) {
	c := k.C
	nbs := c.Funcs("store/nbs")

	// ---- (1) found-needs-full-match
	// matcher calls whose boolean verdict (result itself, or the tuple element of bool type) means "the full address is present"
	matcherNames := map[string]string{
		"iface:store/nbs.tableIndex.entrySuffixMatches":   "suffix comparison after the prefix matched",
		"(store/nbs.onHeapTableIndex).entrySuffixMatches": "suffix comparison",
		"(*store/nbs.archiveReader).has":                   "archive index lookup by full hash (prefix search + suffix compare in findIndex)",
		"(*store/nbs.archiveReader).resolveChunk":          "archive index lookup by full hash",
		"(*store/nbs.journalWriter).hasAddr":              "journal range index lookup by hash",
		"(store/nbs.rangeIndex).get":                      "journal range index lookup by hash",
		"(*store/nbs.journalWriter).getRange":             "journal range index lookup by hash",
		"(*store/nbs.memTable).has":                       "memtable map lookup by hash",
		"(store/hash.HashSet).Has":                        "hash set membership",
	}
	isMatcherCall := func(v ssa.Value) bool {
		cc, ok := v.(*ssa.Call)
		if !ok {
			return false
		}
		n := eng.CalleeName(cc)
		if _, ok := matcherNames[n]; ok {
			return true
		}
		return strings.HasSuffix(n, "TwoQueueCache).Contains") // has-cache keyed by hash.Hash
	}
	isHashKeyedLookup := func(v ssa.Value) bool {
		lk, ok := v.(*ssa.Lookup)
		if !ok {
			return false
		}
		m, ok := lk.X.Type().Underlying().(*types.Map)
		return ok && strings.HasSuffix(eng.ShortType(m.Key()), "store/hash.Hash")
	}
	matchEdges := func(fn *ssa.Function) *eng.Set {
		s := eng.NewSet()
		// if <matcher verdict> (bool)
		s.Union(eng.CondEdgesP(fn, func(v ssa.Value) bool {
			if u, ok := v.(*ssa.UnOp); ok && u.Op == token.NOT {
				return false
			}
			if _, ok := v.(*ssa.BinOp); ok {
				return false
			}
			b, ok := v.Type().Underlying().(*types.Basic)
			if !ok || b.Kind() != types.Bool {
				return false
			}
			return eng.Mentions(v, isMatcherCall) || eng.Mentions(v, func(x ssa.Value) bool {
				ex, ok := x.(*ssa.Extract)
				return ok && isHashKeyedLookup(ex.Tuple)
			})
		}, true))
		// if !<matcher verdict>: false edge
		s.Union(eng.CondEdgesP(fn, func(v ssa.Value) bool {
			u, ok := v.(*ssa.UnOp)
			return ok && u.Op == token.NOT && (eng.Mentions(u.X, isMatcherCall) || eng.Mentions(u.X, func(x ssa.Value) bool {
				ex, ok := x.(*ssa.Extract)
				return ok && isHashKeyedLookup(ex.Tuple)
			}))
		}, false))
		// data := m[h]; if data != nil
		s.Union(eng.CondEdgesP(fn, func(v ssa.Value) bool {
			b, ok := eng.IsCompare(v, token.NEQ)
			return ok && isNil(b.Y) && eng.Mentions(b.X, isHashKeyedLookup)
		}, true))
		return s
	}
	// the matcher is applied to the request's own address
	matcherOnOwnAddr := func(fn *ssa.Function) bool {
		ok := false
		for _, b := range fn.Blocks {
			for _, in := range b.Instrs {
				switch x := in.(type) {
				case *ssa.Call:
					if isMatcherCall(x) {
						for _, a := range x.Call.Args {
							if eng.MentionsDeep(a, func(y ssa.Value) bool {
								n := eng.FieldName(y)
								return n == "store/nbs.hasRecord.a" || n == "store/nbs.getRecord.a"
							}) {
								ok = true
							}
						}
					}
				case *ssa.Lookup:
					if isHashKeyedLookup(x) && eng.MentionsDeep(x.Index, func(y ssa.Value) bool {
						n := eng.FieldName(y)
						return n == "store/nbs.hasRecord.a" || n == "store/nbs.getRecord.a"
					}) {
						ok = true
					}
				}
			}
		}
		return ok
	}
	nSites := 0
	for _, fn := range nbs {
		var stores []ssa.Instruction
		for _, b := range fn.Blocks {
			for _, in := range b.Instrs {
				st, ok := in.(*ssa.Store)
				if !ok || !eng.IsConstBool(st.Val, true) {
					continue
				}
				n := eng.FieldName(st.Addr)
				if n == "store/nbs.hasRecord.has" || n == "store/nbs.getRecord.found" {
					stores = append(stores, st)
				}
			}
		}
		if len(stores) == 0 {
			continue
		}
		k.FuncsSeen[fn] = true
		nSites += len(stores)
		name := eng.Name(fn)
		if name == "(*store/nbs.memTable).hasMany" || true {
			// generic treatment
		}
		cuts := matchEdges(fn)
		for _, st := range stores {
			tg := eng.NewSet().AddI(st)
			// hits-slice idiom: the record index comes from ranging over a local slice that is appended to under the guard
			idxFromSlice := hitsSliceOf(st.(*ssa.Store))
			if idxFromSlice != nil {
				apps := eng.NewSet()
				for _, call := range eng.Calls(fn, eng.Named(`^builtin:append$`), false) {
					if eng.Mentions(call.Common().Args[0], func(x ssa.Value) bool { return x == idxFromSlice }) || appendFeeds(call, idxFromSlice) {
						apps.AddI(call.(ssa.Instruction))
					}
				}
				k.OnlyAfter("found-needs-full-match", fn, "record indexes are collected for marking only on the success edge of a full-address matcher", apps, 1, cuts)
				continue
			}
			k.OnlyAfter("found-needs-full-match", fn, "a request is marked present/found only on the success edge of a full-address matcher", tg, 1, cuts)
		}
		k.Require("found-needs-full-match", name+"#own-address", "the matcher is applied to the request's own address", matcherOnOwnAddr(fn), c.Pos(fn.Pos()), "no matcher call/lookup takes the record's address")
	}
	if nSites < 12 {
		k.Unknown("found-needs-full-match", "store/nbs", "found/has flag assignments", fmt.Sprintf("%d found (floor 12)", nSites))
	}
	// the table-index suffix matcher compares against the request address: its verdict derives from a bytes comparison
	if fn := k.Fn("(store/nbs.onHeapTableIndex).entrySuffixMatches"); fn != nil {
		cmp := eng.CallsDeep(fn, eng.Static("bytes.Equal", "bytes.Compare"), false)
		k.Require("suffix-compare", eng.Name(fn), "entrySuffixMatches decides through a byte comparison of the stored suffix with the address's suffix", len(cmp) >= 1, c.Pos(fn.Pos()), "no bytes.Equal/Compare")
	}
	// lookupOrdinal returns a non-miss ordinal only past entrySuffixMatches true
	if fn := k.Fn("(store/nbs.onHeapTableIndex).lookupOrdinal"); fn != nil {
		hit := eng.ResultPoints(fn, 0, func(v ssa.Value) bool {
			// anything that is not the table's chunk count (the miss value)
			return !eng.Mentions(v, eng.IsField("store/nbs.onHeapTableIndex.count"))
		})
		k.OnlyAfter("found-needs-full-match", fn, "lookupOrdinal returns a hit ordinal only on the suffix-match edge", hit, 1, matchEdges(fn))
	}

	// ---- (2) CRC gate
	ctorOK := map[string]string{
		"store/nbs.NewCompressedChunk":     "verifies the trailing CRC32 before constructing",
		"store/nbs.ChunkToCompressedChunk": "computes the CRC32 itself",
	}
	nLit := 0
	for _, fn := range nbs {
		for _, b := range fn.Blocks {
			for _, in := range b.Instrs {
				st, ok := in.(*ssa.Store)
				if !ok {
					continue
				}
				n := eng.FieldName(st.Addr)
				if n != "store/nbs.CompressedChunk.FullCompressedChunk" && n != "store/nbs.CompressedChunk.CompressedData" {
					continue
				}
				nLit++
				name := eng.Name(eng.Outermost(fn))
				_, ok = ctorOK[name]
				k.Require("crc-gate", name+"#"+strings.TrimPrefix(n, "store/nbs.CompressedChunk."), "chunk bytes enter a CompressedChunk only in the checksum-verifying or checksum-computing constructor", ok, c.InstrPos(in), "CompressedChunk bytes set outside NewCompressedChunk/ChunkToCompressedChunk")
			}
		}
	}
	if nLit < 4 {
		k.Unknown("crc-gate", "store/nbs", "stores to CompressedChunk byte fields", fmt.Sprintf("%d found (floor 4)", nLit))
	}
	if fn := k.Fn("store/nbs.NewCompressedChunk"); fn != nil {
		crcOK := eng.CondEdgesP(fn, func(v ssa.Value) bool {
			b, ok := eng.IsCompare(v, token.NEQ)
			return ok && (eng.Mentions(b.X, eng.IsCall(eng.Static("store/nbs.crc"))) || eng.Mentions(b.Y, eng.IsCall(eng.Static("store/nbs.crc"))))
		}, false)
		k.OnlyAfter("crc-gate", fn, "NewCompressedChunk succeeds only on the checksum-equal edge", eng.SuccessExits(fn), 1, crcOK)
		// the checksum is computed over the bytes that become CompressedData
		for _, call := range eng.Calls(fn, eng.Static("store/nbs.crc"), false) {
			k.Require("crc-gate", eng.Name(fn)+"#crc-arg", "the checksum is computed over the parameter bytes", eng.Mentions(call.Common().Args[0], func(x ssa.Value) bool { _, ok := x.(*ssa.Parameter); return ok }), c.InstrPos(call.(ssa.Instruction)), "crc argument is not derived from the buffer parameter")
		}
	}
	nNC := 0
	for _, fn := range nbs {
		for _, call := range eng.Calls(fn, eng.Static("store/nbs.NewCompressedChunk"), true) {
			nNC++
			k.Require("crc-gate", eng.Name(fn)+"#NewCompressedChunk", "the checksum verdict of NewCompressedChunk is consumed", eng.ErrConsumed(call), c.InstrPos(call.(ssa.Instruction)), "checksum error dropped")
		}
	}
	if nNC < 5 {
		k.Unknown("crc-gate", "store/nbs", "NewCompressedChunk call sites", fmt.Sprintf("%d found (floor 5)", nNC))
	}

	// ---- (3) sibling completeness of the front-ends
	type entry struct {
		fn    string
		needs []string // regexps over callee names / field reads
	}
	usesField := func(fn *ssa.Function, field string) bool {
		for _, f := range eng.WithAnons(fn) {
			for _, b := range f.Blocks {
				for _, in := range b.Instrs {
					for _, op := range in.Operands(nil) {
						if *op != nil && eng.FieldName(*op) == field {
							return true
						}
					}
					if v, ok := in.(ssa.Value); ok && eng.FieldName(v) == field {
						return true
					}
				}
			}
		}
		return false
	}
	for _, name := range []string{"(*store/nbs.NomsBlockStore).Get", "(*store/nbs.NomsBlockStore).Has", "(*store/nbs.NomsBlockStore).hasManyDep", "(*store/nbs.NomsBlockStore).getManyWithFunc"} {
		fn := c.Func(name)
		if fn == nil {
			// tolerate renames of the helpers but require the two exported ones
			if strings.HasSuffix(name, ".Get") || strings.HasSuffix(name, ".Has") {
				k.Unknown("front-end-consults-all-sources", name, "store read entry point", "not found")
			}
			continue
		}
		k.FuncsSeen[fn] = true
		cl := c.StaticClosure([]*ssa.Function{fn}, func(p string) bool { return p == "store/nbs" }, 2)
		mt, ts := false, false
		for _, f := range cl {
			if eng.Name(f) != name && !strings.HasPrefix(eng.Name(f), name+"$") && f.Signature.Recv() != nil && !strings.Contains(eng.Name(f), "NomsBlockStore") {
				continue
			}
			if usesField(f, "store/nbs.NomsBlockStore.memtable") {
				mt = true
			}
			if usesField(f, "store/nbs.NomsBlockStore.tables") {
				ts = true
			}
		}
		k.Require("front-end-consults-all-sources", name+"#memtable", "the read entry point consults the memtable", mt, c.Pos(fn.Pos()), "nbs.memtable not read")
		k.Require("front-end-consults-all-sources", name+"#tables", "the read entry point consults the table set", ts, c.Pos(fn.Pos()), "nbs.tables not read")
	}
	// a generational HasMany answers "nothing is absent" (nil set, nil error) only when the set of addresses still
	// absent after consulting the generations is empty -- in particular not merely because there is no ghost store
	if fn := k.Fn("(*store/nbs.GenerationalNBS).HasMany"); fn != nil {
		nilSet := eng.ResultPoints(fn, 0, isNil)
		tg := eng.NewSet()
		se := eng.SuccessExits(fn)
		for in := range nilSet.I {
			if se.I[in] {
				tg.AddI(in)
			}
		}
		empty := eng.CondEdgesP(fn, func(v ssa.Value) bool {
			b, ok := eng.IsCompare(v, token.EQL)
			return ok && isConstInt(b.Y, 0) && eng.Mentions(b.X, func(x ssa.Value) bool { cc, ok := x.(*ssa.Call); return ok && eng.CalleeName(cc) == "builtin:len" })
		}, true)
		k.OnlyAfter("presence-verdict-from-all-sources", fn, "HasMany reports 'nothing absent' only on an edge where the remaining absent set is empty", tg, 1, empty)
	}
	for _, m := range []string{"Get", "Has", "HasMany", "GetMany", "GetManyCompressed"} {
		name := "(*store/nbs.GenerationalNBS)." + m
		fn := k.Fn(name)
		if fn == nil {
			continue
		}
		cl := c.StaticClosure([]*ssa.Function{fn}, func(p string) bool { return p == "store/nbs" }, 2)
		gens := map[string]bool{}
		for _, f := range cl {
			if !strings.Contains(eng.Name(f), "GenerationalNBS") {
				continue
			}
			for _, g := range []string{"oldGen", "newGen", "ghostGen"} {
				if usesField(f, "store/nbs.GenerationalNBS."+g) {
					gens[g] = true
				}
			}
		}
		for _, g := range []string{"oldGen", "newGen", "ghostGen"} {
			k.Require("front-end-consults-all-sources", name+"#"+g, "the generational read entry point consults "+g, gens[g], c.Pos(fn.Pos()), "generation not consulted")
		}
	}
}

// hitsSliceOf: if the record index of the store comes from ranging over a local slice (the
// `hits = append(hits, i)` ... `for _, i := range hits { records[i].found = true }` idiom), return that slice value's alloc/phi root.
func hitsSliceOf(st *ssa.Store) ssa.Value {
	fa, ok := st.Addr.(*ssa.FieldAddr)
	if !ok {
		return nil
	}
	ia, ok := fa.X.(*ssa.IndexAddr)
	if !ok {
		return nil
	}
	var root ssa.Value
	eng.Slice(ia.Index, false, func(x ssa.Value) bool {
		switch y := x.(type) {
		case *ssa.Index:
			root = y.X
		case *ssa.IndexAddr:
			if y != ia {
				root = y.X
			}
		case *ssa.UnOp:
			if y.Op == token.MUL {
				if inner, ok := y.X.(*ssa.IndexAddr); ok && inner != ia {
					root = inner.X
				}
			}
		}
		return root != nil
	})
	if root == nil {
		return nil
	}
	// only slices of ints local to the function
	if sl, ok := root.Type().Underlying().(*types.Slice); ok {
		if b, ok := sl.Elem().Underlying().(*types.Basic); ok && b.Info()&types.IsInteger != 0 {
			return root
		}
	}
	return nil
}

// appendFeeds: does the result of this append call flow (through phis) into v?
func appendFeeds(call ssa.CallInstruction, v ssa.Value) bool {
	cv, ok := call.(*ssa.Call)
	if !ok {
		return false
	}
	return eng.Mentions(v, func(x ssa.Value) bool { return x == ssa.Value(cv) })
}
