package rules

import (
	"fmt"
	"go/token"
	"go/types"
	"strings"

	"dvcheck/internal/eng"

	"golang.org/x/tools/go/ssa"
)

func init() {
	Registry["C41"] = &Rule{
		Explanation: "Decides that writer operations need the exclusive lock and that a read-only open cannot reach a file mutation: (1) in the journal bootstrap functions every mutating operation (index truncate / lookup write / meta flush, opening the index with a writable flag, creating the buffered index writer) is on the true side of the can-write predicate, the recovery truncate is on the tryTruncate-true side, and the predicate handed down at every call site is data-derived from the caller's own predicate; at the top (ChunkJournal.bootstrapJournalWriter) it is derived from !backing.readOnly(); (2) every ChunkJournal / journalManifest method that reaches a mutating operation does so only on the readOnly()==false edge, and the table of such methods is closed (a new mutating method must be guarded too); (3) readOnly() is exactly `lock == nil`; the lock field is set only by newJournalManifest from its parameter and cleared by Close; newJournalLock hands out a lock only after TryLock/LockWithTimeout returned nil, returns ErrDatabaseLocked exactly on the failOnTimeout edge, and otherwise returns no lock (read-only). Does not decide flock semantics across processes/filesystems.",
		RuleText:    "guard (control-dependence on a predicate edge) via CFG cut-reachability; predicate provenance by backward slice; field-writer and composite-literal ownership",
		Assumptions: []string{"fslock.Lock TryLock/LockWithTimeout provide inter-process exclusion"},
		Patterns:    []string{"./store/nbs", "./libraries/utils/errors"},
		Run:         runC41,
	}
}

// boolParams returns the bool-typed parameters of fn (and, for literals, captured bool variables).
func boolPredicate(fn *ssa.Function) func(ssa.Value) bool {
	return func(v ssa.Value) bool {
		switch x := v.(type) {
		case *ssa.Parameter:
			b, ok := x.Type().Underlying().(*types.Basic)
			return ok && b.Kind() == types.Bool
		case *ssa.FreeVar:
			// captured by reference: *bool
			if p, ok := x.Type().(*types.Pointer); ok {
				b, ok := p.Elem().Underlying().(*types.Basic)
				return ok && b.Kind() == types.Bool
			}
			b, ok := x.Type().Underlying().(*types.Basic)
			return ok && b.Kind() == types.Bool
		}
		return false
	}
}

// predTrueEdges: edges on which the function's bool parameter (can-write) is true.
func predTrueEdges(fn *ssa.Function) *eng.Set {
	isP := boolPredicate(fn)
	s := eng.NewSet()
	// `if p` / `if p && ...`
	s.Union(eng.CondEdgesP(fn, func(v ssa.Value) bool {
		if u, ok := v.(*ssa.UnOp); ok && u.Op == token.NOT {
			return false
		}
		if _, ok := v.(*ssa.BinOp); ok {
			return false
		}
		return eng.Mentions(v, isP)
	}, true))
	// `if !p` false edge
	s.Union(eng.CondEdgesP(fn, func(v ssa.Value) bool {
		u, ok := v.(*ssa.UnOp)
		return ok && u.Op == token.NOT && eng.Mentions(u.X, isP)
	}, false))
	return s
}

// checkCanWriteGuards: every mutation in the journal bootstrap path is on the can-write side, and the predicate
// is propagated faithfully.  Shared by C41 (single writer) and C04 (read-only open never modifies the index).
func checkCanWriteGuards(k *eng.Check) {
	c := k.C
	// ---- can-write guards in the bootstrap path
	mutators := eng.AnyOf(
		eng.Static("(*store/nbs.journalWriter).truncateIndex", "store/nbs.writeIndexLookup", "(*store/nbs.journalWriter).flushIndexRecord",
			"store/nbs.writeJournalIndexMeta", "bufio.NewWriterSize", "bufio.NewWriter",
			"(*os.File).Truncate", "(*os.File).Write", "(*os.File).WriteAt", "(*os.File).WriteString", "os.Create", "os.WriteFile", "os.Remove", "os.Rename"),
		func(ci ssa.CallInstruction) bool {
			// os.OpenFile with a flag other than O_RDONLY
			if !eng.Static("os.OpenFile")(ci) {
				return false
			}
			a := ci.Common().Args
			if len(a) < 2 {
				return true
			}
			cst, ok := a[1].(*ssa.Const)
			return !(ok && cst.Value != nil && cst.Int64() == 0)
		})
	guarded := []string{
		"(*store/nbs.journalWriter).bootstrapJournal",
		"(*store/nbs.journalWriter).loadJournalIndex",
		"(*store/nbs.journalWriter).readJournalIndex",
		"(*store/nbs.journalWriter).corruptIndexRecovery",
		"store/nbs.processJournalRecords", // tryTruncate is the can-write predicate handed down by bootstrapJournal
	}
	nMut := 0
	for _, name := range guarded {
		top := k.Fn(name)
		if top == nil {
			continue
		}
		for _, fn := range eng.WithAnons(top) {
			k.FuncsSeen[fn] = true
			tg := eng.CallSet(fn, mutators)
			if tg.Len() == 0 {
				continue
			}
			nMut += tg.Len()
			k.OnlyAfter("mutation-needs-can-write", fn, "every index/journal mutation is on the true side of the can-write predicate", tg, 1, predTrueEdges(fn))
		}
		// the predicate handed down is the caller's own predicate
		for _, fn := range eng.WithAnons(top) {
			for _, call := range eng.Calls(fn, func(ci ssa.CallInstruction) bool {
				f := ci.Common().StaticCallee()
				if f == nil || eng.FuncPkg(f) == nil || !strings.HasSuffix(eng.FuncPkg(f).Path(), "store/nbs") {
					return false
				}
				for _, n := range append(guarded, "store/nbs.processJournalRecords") {
					if eng.Name(f) == n {
						return true
					}
				}
				return false
			}, false) {
				f := call.Common().StaticCallee()
				for i, p := range f.Params {
					if b, ok := p.Type().Underlying().(*types.Basic); ok && b.Kind() == types.Bool {
						a := call.Common().Args[i]
						ok := eng.Mentions(a, boolPredicate(fn))
						k.Require("can-write-propagated", eng.Name(fn)+"->"+eng.Name(f), "the can-write/tryTruncate argument is the caller's own can-write predicate (never a constant true)", ok, c.InstrPos(call.(ssa.Instruction)), "predicate argument is "+eng.Desc(a, 3))
					}
				}
			}
		}
	}
	if nMut < 6 {
		k.Unknown("mutation-needs-can-write", "bootstrap path", "mutating operations in the journal bootstrap functions", fmt.Sprintf("%d found (floor 6)", nMut))
	}
}

func runC41(k *eng.Check, tier string) {
	c := k.C
	nbs := c.Funcs("store/nbs")

	checkCanWriteGuards(k)
	// top of the chain: derived from !readOnly()
	mReadOnly := eng.Static("(*store/nbs.journalManifest).readOnly")
	if fn := k.Fn("(*store/nbs.ChunkJournal).bootstrapJournalWriter"); fn != nil {
		n := 0
		for _, call := range eng.Calls(fn, eng.Static("(*store/nbs.journalWriter).bootstrapJournal"), false) {
			n++
			f := call.Common().StaticCallee()
			for i, p := range f.Params {
				if b, ok := p.Type().Underlying().(*types.Basic); ok && b.Kind() == types.Bool {
					a := call.Common().Args[i]
					neg := false
					eng.Slice(a, false, func(x ssa.Value) bool {
						if u, ok := x.(*ssa.UnOp); ok && u.Op == token.NOT && eng.Mentions(u.X, eng.IsCall(mReadOnly)) {
							neg = true
						}
						return neg
					})
					k.Require("can-write-origin", eng.Name(fn)+"#bootstrapJournal", "the can-write predicate of the journal bootstrap is !backing.readOnly()", neg, c.InstrPos(call.(ssa.Instruction)), "argument is "+eng.Desc(a, 4))
				}
			}
		}
		if n < 2 {
			k.Unknown("can-write-origin", eng.Name(fn), "calls to bootstrapJournal", fmt.Sprintf("%d found (floor 2)", n))
		}
		// creating a journal / committing a root during bootstrap only when writable
		canWrite := readOnlyEdges(fn, false)
		tg := eng.CallSet(fn, eng.Static("(*store/nbs.ChunkJournal).createProtectedJournalWriter", "(*store/nbs.journalWriter).commitRootHash"))
		k.OnlyAfter("mutation-needs-lock", fn, "a journal file is created / a root record appended during bootstrap only on the !readOnly() edge", tg, 3, canWrite)
	}

	// ---- (2) ChunkJournal / journalManifest methods
	sensitive := eng.AnyOf(
		eng.Static("(*store/nbs.journalWriter).writeCompressedChunk", "(*store/nbs.journalWriter).commitRootHash", "(*store/nbs.journalWriter).commitRootHashUnlocked",
			"(*store/nbs.ChunkJournal).flushToBackingManifest", "(*store/nbs.ChunkJournal).dropJournalWriter", "(*store/nbs.ChunkJournal).createProtectedJournalWriter",
			"store/nbs.updateWithChecker", "store/nbs.deleteJournalAndIndexFiles",
			"(*store/nbs.fsTablePersister).ConjoinAll", "(*store/nbs.fsTablePersister).PruneTableFiles", "(*store/nbs.fsTablePersister).CopyTableFile", "(*store/nbs.fsTablePersister).Persist",
			"(*store/nbs.journalManifest).Update", "(*store/nbs.journalManifest).UpdateGCGen"),
	)
	// journalManifest.Update/UpdateGCGen guard themselves; calls to them from ChunkJournal are therefore safe and are
	// not counted as sensitive in the caller (they are listed so that the callee table below stays closed)
	selfGuarded := map[string]bool{"(*store/nbs.journalManifest).Update": true, "(*store/nbs.journalManifest).UpdateGCGen": true, "(*store/nbs.ChunkJournal).flushToBackingManifest": true}
	table := map[string]string{
		"(*store/nbs.ChunkJournal).Persist":         "guard: readOnly() false edge",
		"(*store/nbs.ChunkJournal).ConjoinAll":      "guard",
		"(*store/nbs.ChunkJournal).PruneTableFiles": "guard",
		"(*store/nbs.ChunkJournal).CopyTableFile":   "guard",
		"(*store/nbs.ChunkJournal).Update":          "guard",
		"(*store/nbs.ChunkJournal).UpdateGCGen":     "guard",
		"(*store/nbs.ChunkJournal).Close":           "guard around the manifest flush",
		"(*store/nbs.journalManifest).Update":       "guard",
		"(*store/nbs.journalManifest).UpdateGCGen":  "guard",
	}
	roFalse := func(fn *ssa.Function) *eng.Set { return readOnlyEdges(fn, false) }
	nMeth := 0
	for _, fn := range nbs {
		if fn.Parent() != nil || fn.Signature.Recv() == nil {
			continue
		}
		rt := strings.TrimPrefix(eng.ShortType(fn.Signature.Recv().Type()), "*")
		if rt != "store/nbs.ChunkJournal" && rt != "store/nbs.journalManifest" {
			continue
		}
		name := eng.Name(fn)
		tg := eng.NewSet()
		for _, call := range eng.Calls(fn, sensitive, false) {
			callee := eng.CalleeName(call)
			if selfGuarded[callee] && rt == "store/nbs.ChunkJournal" && callee != "(*store/nbs.ChunkJournal).flushToBackingManifest" {
				continue
			}
			tg.AddI(call.(ssa.Instruction))
		}
		if tg.Len() == 0 {
			continue
		}
		// helpers that are only called from guarded methods
		helper := map[string]string{
			"(*store/nbs.ChunkJournal).flushToBackingManifest":      "only called from Update/UpdateGCGen/Close past their guard; the backing Update guards itself",
			"(*store/nbs.ChunkJournal).dropJournalWriter":           "only called from UpdateGCGen past its guard",
			"(*store/nbs.ChunkJournal).createProtectedJournalWriter": "only called from bootstrapJournalWriter on the can-create edge",
			"(*store/nbs.ChunkJournal).bootstrapJournalWriter":      "rule 1",
			"(*store/nbs.ChunkJournal).maybeInit":                   "delegates to bootstrapJournalWriter",
		}
		if _, ok := helper[name]; ok {
			// every caller must be a guarded method or another helper
			for _, cs := range eng.CallersOf(nbs, fn) {
				cn := eng.Name(eng.Outermost(cs.Parent()))
				_, g := table[cn]
				_, h := helper[cn]
				k.Require("mutation-needs-lock", name+"<-"+cn, "a mutating helper of the journal is called only from guarded methods", g || h || cn == "store/nbs.trueUpBackingManifest" || cn == "store/nbs.newChunkJournal", c.InstrPos(cs.(ssa.Instruction)), "helper reachable from an unguarded function")
			}
			continue
		}
		nMeth++
		if _, ok := table[name]; !ok {
			k.Fail("mutation-needs-lock", name, "every journal/manifest method that reaches a mutating operation is in the guarded-method table", c.Pos(fn.Pos()), "new method reaches a file mutation and is not known to test readOnly()", nil)
			continue
		}
		k.OnlyAfter("mutation-needs-lock", fn, "mutating operations are reached only on the readOnly()==false edge", tg, 1, roFalse(fn))
	}
	if nMeth < 8 {
		k.Unknown("mutation-needs-lock", "store/nbs", "guarded journal/manifest methods", fmt.Sprintf("%d found (floor 8)", nMeth))
	}
	if fn := k.Fn("store/nbs.trueUpBackingManifest"); fn != nil {
		upd := eng.CallSet(fn, eng.Static("(*store/nbs.journalManifest).Update"))
		k.OnlyAfter("mutation-needs-lock", fn, "the backing manifest is trued-up only on the readOnly()==false edge", upd, 1, roFalse(fn))
	}

	// ---- (3) the predicate itself and the lock
	if fn := k.Fn("(*store/nbs.journalManifest).readOnly"); fn != nil {
		ok := false
		for _, b := range fn.Blocks {
			for _, in := range b.Instrs {
				if r, isRet := in.(*ssa.Return); isRet && len(r.Results) == 1 {
					if bo, isCmp := eng.IsCompare(r.Results[0], token.EQL); isCmp && eng.Mentions(bo.X, eng.IsField("store/nbs.journalManifest.lock")) && isNil(bo.Y) {
						ok = true
					}
				}
			}
		}
		k.Require("readonly-is-no-lock", eng.Name(fn), "readOnly() is exactly `lock == nil`", ok, c.Pos(fn.Pos()), "readOnly() does not return lock == nil")
	}
	nLockW := 0
	for _, fn := range nbs {
		for _, st := range eng.FieldStores(fn, `store/nbs\.journalManifest$`, "lock") {
			nLockW++
			name := eng.Name(eng.Outermost(fn))
			val := st.(*ssa.Store).Val
			switch name {
			case "store/nbs.newJournalManifest":
				_, isP := val.(*ssa.Parameter)
				k.Require("lock-field-writers", name+"#lock", "newJournalManifest stores its lock parameter", isP, c.InstrPos(st), "stored value is not the parameter")
			case "(*store/nbs.journalManifest).Close":
				k.Require("lock-field-writers", name+"#lock", "Close clears the lock", isNil(val), c.InstrPos(st), "Close stores a non-nil lock")
			default:
				k.Fail("lock-field-writers", name+"#lock", "journalManifest.lock is written only by newJournalManifest and Close", c.InstrPos(st), "new writer of the lock field", nil)
			}
		}
	}
	if nLockW < 2 {
		k.Unknown("lock-field-writers", "store/nbs", "stores to journalManifest.lock", fmt.Sprintf("%d found (floor 2)", nLockW))
	}
	if fn := k.Fn("store/nbs.newJournalLock"); fn != nil {
		nonNilLock := eng.ResultPoints(fn, 0, func(v ssa.Value) bool { return !isNil(v) })
		acquired := eng.UnionOf(k.OkCalls(fn, "trylock", eng.Static("(*github.com/dolthub/fslock.Lock).TryLock")), k.OkCalls(fn, "lockwt", eng.Static("(*github.com/dolthub/fslock.Lock).LockWithTimeout")))
		// the error is tested through errors.Is(err, ErrTimeout) and `else if err != nil`: use the final nil edge
		k.OnlyAfter("lock-handed-out-only-if-held", fn, "a non-nil lock is returned only after TryLock/LockWithTimeout was called", nonNilLock, 1, eng.UnionOf(eng.CallSet(fn, eng.Static("(*github.com/dolthub/fslock.Lock).TryLock")), eng.CallSet(fn, eng.Static("(*github.com/dolthub/fslock.Lock).LockWithTimeout"))))
		_ = acquired
		timeoutEdge := eng.CondEdgesP(fn, func(v ssa.Value) bool {
			cc, ok := v.(*ssa.Call)
			return ok && eng.CalleeName(cc) == "errors.Is" && strings.Contains(eng.Desc(cc.Call.Args[1], 3), "fslock.ErrTimeout")
		}, false)
		errNil := eng.CondEdgesP(fn, func(v ssa.Value) bool {
			b, ok := eng.IsCompare(v, token.NEQ)
			return ok && isNil(b.Y) && strings.HasSuffix(eng.ShortType(b.X.Type()), "error") && !eng.Mentions(b.X, eng.IsCall(eng.Static("github.com/dolthub/fslock.New")))
		}, false)
		k.OnlyAfter("lock-handed-out-only-if-held", fn, "a non-nil lock is returned only on the not-timed-out edge", nonNilLock, 1, timeoutEdge)
		k.OnlyAfter("lock-handed-out-only-if-held", fn, "a non-nil lock is returned only on the edge where the acquisition error is nil", nonNilLock, 1, errNil)
		// ErrDatabaseLocked exactly on failOnTimeout
		locked := eng.ResultPoints(fn, 2, func(v ssa.Value) bool { return strings.Contains(eng.Desc(v, 3), "store/nbs.ErrDatabaseLocked") })
		k.OnlyAfter("fail-fast-when-asked", fn, "ErrDatabaseLocked is returned only on the failOnTimeout-true edge", locked, 1, predTrueEdges(fn))
		// on the timed-out edge with failOnTimeout, success (nil error) is not reachable
		tout := eng.CondEdgesP(fn, func(v ssa.Value) bool {
			cc, ok := v.(*ssa.Call)
			return ok && eng.CalleeName(cc) == "errors.Is" && strings.Contains(eng.Desc(cc.Call.Args[1], 3), "fslock.ErrTimeout")
		}, true)
		failFast := predTrueEdges(fn)
		var starts []eng.Point
		for e := range failFast.E {
			// only the failOnTimeout test that lies on the timed-out side
			reach := eng.Reach(fn, eng.EdgeTargets(tout), eng.NewSet().AddI(e.From.Instrs[len(e.From.Instrs)-1]), nil)
			if len(reach) > 0 {
				starts = append(starts, eng.Point{B: e.To(), I: 0})
			}
		}
		if len(starts) == 0 {
			k.Unknown("fail-fast-when-asked", eng.Name(fn), "failOnTimeout test on the timed-out path", "not found")
		} else {
			k.OnlyAfter("fail-fast-when-asked", fn, "when the lock is held elsewhere and the caller asked to fail, no success exit is reachable", eng.SuccessExits(fn), 1, eng.NewSet(), starts...)
		}
	}
}
